/-
C23 — model of the language server (`/repo/ls/server.go`, `/repo/cmd/textmapper/ls.go`). Core Lean only.

Three parts:
 (a) position functions: `decodeRune` (= Go's `utf8.DecodeRuneInString`, also the behaviour of `range` over a
     string), `resolvePosition` (exact mirror: line walk with `strings.IndexByte`, rune walk, a rune above
     0xffff takes two columns), `utf16Pos content offset` (the specification of an outgoing position) and
     the two functions that build outgoing positions (`typecheck`, `id.Location`) in the variant the code
     has (BYTE columns) and in the repaired variant (UTF-16 columns, fixes/C23-utf16-columns.diff);
 (b) the document state machine (`Server.docs`, DidOpen / DidChange / DidClose / Definition);
 (c) the handler chain `CancelHandler(AsyncHandler(ReplyHandler(ServerHandler)))` as an interleaving model.

Bytes are `Nat` (values < 256 in every real input; larger values decode as invalid bytes).
-/
namespace TmVerif.LS

abbrev Bytes := List Nat

/-! ### (a) UTF-8 decoding — mirror of `unicode/utf8.DecodeRuneInString` -/

def runeError : Nat := 0xFFFD

/-- `n` continuation bytes: the first within `[lo, hi]` (`acceptRanges`), the others within `[0x80, 0xBF]`;
the value of their payload bits. -/
def contBytes : Nat → Nat → Nat → Bytes → Option Nat
  | 0, _, _, _ => some 0
  | _ + 1, _, _, [] => none
  | n + 1, lo, hi, b :: t =>
    if lo ≤ b ∧ b ≤ hi then
      match contBytes n 0x80 0xBF t with
      | some v => some ((b % 64) * 64 ^ n + v)
      | none => none
    else none

/-- The table `first[256]` of package utf8 together with `acceptRanges`. -/
inductive Lead
  | ascii
  | invalid
  | multi (n lo hi : Nat)

def lead (b : Nat) : Lead :=
  if b < 0x80 then .ascii
  else if b < 0xC2 then .invalid
  else if b < 0xE0 then .multi 1 0x80 0xBF
  else if b = 0xE0 then .multi 2 0xA0 0xBF
  else if b = 0xED then .multi 2 0x80 0x9F
  else if b < 0xF0 then .multi 2 0x80 0xBF
  else if b = 0xF0 then .multi 3 0x90 0xBF
  else if b < 0xF4 then .multi 3 0x80 0xBF
  else if b = 0xF4 then .multi 3 0x80 0x8F
  else .invalid

/-- `(rune, width)`: `(RuneError, 0)` on the empty string, `(RuneError, 1)` on any invalid or truncated
sequence. -/
def decodeRune : Bytes → Nat × Nat
  | [] => (runeError, 0)
  | b :: t =>
    match lead b with
    | .ascii => (b, 1)
    | .invalid => (runeError, 1)
    | .multi n lo hi =>
      match contBytes n lo hi t with
      | some v => ((b % 2 ^ (6 - n)) * 64 ^ n + v, n + 1)
      | none => (runeError, 1)

theorem decodeRune_width_pos (b : Nat) (t : Bytes) : 1 ≤ (decodeRune (b :: t)).2 := by
  simp only [decodeRune]
  split
  · simp
  · simp
  · split <;> simp

/-- UTF-16 code units of one rune (`if r > 0xffff`). -/
def units (r : Nat) : Nat := if r > 0xffff then 2 else 1

/-- Number of UTF-16 code units of a byte string decoded the way Go's `for _, r := range s` does. -/
def utf16Len (s : Bytes) : Nat :=
  match s with
  | [] => 0
  | b :: t =>
    let rw := decodeRune (b :: t)
    units rw.1 + utf16Len ((b :: t).drop rw.2)
termination_by s.length
decreasing_by
  have := decodeRune_width_pos b t
  simp only [List.length_drop, List.length_cons]
  omega

/-! ### (a) `resolvePosition` -/

/-- `strings.IndexByte(s, '\n')` -/
def indexNL : Bytes → Option Nat
  | [] => none
  | b :: t => if b = 10 then some 0 else
    match indexNL t with
    | some i => some (i + 1)
    | none => none

inductive PosErr
  | noLine   -- "line %v does not exist"
  | badCol   -- "invalid column %v (line %v)"
  | midPair  -- "invalid column %v (line %v): between the utf-16 code units"
deriving DecidableEq, Repr

/-- First loop of `resolvePosition`: `(ret, content[ret:])` after skipping `line` lines. -/
def lineWalk : Nat → Bytes → Nat → Option (Nat × Bytes)
  | 0, c, ret => some (ret, c)
  | l + 1, c, ret =>
    match indexNL c with
    | none => none
    | some nl => lineWalk l (c.drop (nl + 1)) (ret + nl + 1)

/-- Second loop of `resolvePosition` (`rest = content[ret:]`). -/
def walkCols (col : Nat) (rest : Bytes) (ret : Nat) : Except PosErr Nat :=
  match col with
  | 0 => .ok ret
  | col + 1 =>
    let rw := decodeRune rest
    if rw.1 = 10 ∨ rw.2 = 0 then .error .badCol
    else if rw.1 > 0xffff then
      match col with
      | 0 => .error .midPair
      | col' + 1 => walkCols col' (rest.drop rw.2) (ret + rw.2)
    else walkCols col (rest.drop rw.2) (ret + rw.2)
termination_by col

def resolvePosition (c : Bytes) (line ch : Nat) : Except PosErr Nat :=
  match lineWalk line c 0 with
  | none => .error .noLine
  | some (ret, rest) => walkCols ch rest ret

/-! ### (a) outgoing positions -/

/-- 0-based line and byte column of offset `off`: a line starts after every `'\n'`
(`ast.lineOffsets` + `Node.LineColumn`, shifted to 0-based). -/
def lineColFrom (line col : Nat) : Bytes → Nat → Nat × Nat
  | _, 0 => (line, col)
  | [], _ + 1 => (line, col)
  | b :: t, off + 1 => if b = 10 then lineColFrom (line + 1) 0 t off else lineColFrom line (col + 1) t off

def lineCol (c : Bytes) (off : Nat) : Nat × Nat := lineColFrom 0 0 c off

/-- `content[a:b]` -/
def slice (c : Bytes) (a b : Nat) : Bytes := (c.drop a).take (b - a)

/-- SPECIFICATION of an outgoing position: the line of `off` and the number of UTF-16 code units of the
text between the start of that line and `off`. -/
def utf16Pos (c : Bytes) (off : Nat) : Nat × Nat :=
  let lc := lineCol c off
  (lc.1, utf16Len (slice c (off - lc.2) off))

/-- `uint32(x)` of a Go `int`. -/
def toU32 (x : Int) : Nat := (x % 4294967296).toNat

/-- `before, _, _ := strings.Cut(s, "\n")` -/
def cutNL : Bytes → Bytes
  | [] => []
  | b :: t => if b = 10 then [] else b :: cutNL t

structure Pos where
  line : Nat
  char : Nat
deriving DecidableEq, Repr, Inhabited

structure Range where
  start : Pos
  stop : Pos
deriving DecidableEq, Repr, Inhabited

/-- `status.SourceRange` as `typecheck` sees it: byte offsets, 1-based line, 1-based BYTE column. -/
structure Origin where
  off : Int
  stop : Int
  line : Int
  col : Int
deriving DecidableEq, Repr, Inhabited

/-- Which variant of the code is modelled (probed on the real server at the start of every run). -/
structure Mode where
  /-- `typecheck` converts byte columns to UTF-16 units (fixes/C23-utf16-columns.diff) -/
  diagUtf16 : Bool
  /-- `id.Location` converts byte columns to UTF-16 units (same fix) -/
  locUtf16 : Bool
  /-- `typecheck` gives a `tm.SyntaxError` a real origin and clamps origin-less errors to 0:0
  (fixes/C23-syntax-error-range.diff) -/
  synFixed : Bool
  /-- `DidChange` ignores an empty `contentChanges` instead of indexing it (fixes/C23-empty-change.diff) -/
  emptyIgnored : Bool
deriving DecidableEq, Repr, Inhabited

/-- The code as it is in the pinned tree. -/
def Mode.current : Mode := ⟨false, false, false, false⟩
/-- The code with all three fixes. -/
def Mode.fixed : Mode := ⟨true, true, true, true⟩

/-- `utf16Col` of the fix: the UTF-16 length of the `bcol` bytes before `off`; the byte column itself when
the origin is not inside the content. -/
def utf16Col (c : Bytes) (off bcol : Int) : Int :=
  if bcol ≤ 0 ∨ bcol > off ∨ off > c.length then bcol
  else utf16Len (slice c (off - bcol).toNat off.toNat)

/-- One iteration of the loop in `typecheck`; `none` = the slice expression panics. -/
def diagRange (m : Mode) (c : Bytes) (o : Origin) : Option Range :=
  if 0 ≤ o.off ∧ o.off ≤ o.stop ∧ o.stop ≤ c.length then
    let rng := cutNL (slice c o.off.toNat o.stop.toNat)
    if m.synFixed ∧ o.line ≤ 0 then some ⟨⟨0, 0⟩, ⟨0, 0⟩⟩
    else if m.diagUtf16 then
      let s := utf16Col c o.off (o.col - 1)
      some ⟨⟨toU32 (o.line - 1), toU32 s⟩, ⟨toU32 (o.line - 1), toU32 (s + utf16Len rng)⟩⟩
    else
      some ⟨⟨toU32 (o.line - 1), toU32 (o.col - 1)⟩, ⟨toU32 (o.line - 1), toU32 (o.col - 1 + rng.length)⟩⟩
  else none

/-- The origin lies inside the content and its line/column are those of its offset (what every
`status.SourceRange` taken from a parse-tree node satisfies; evaluated by the driver on every real origin). -/
def Origin.inDoc (c : Bytes) (o : Origin) : Bool :=
  decide (0 ≤ o.off ∧ o.off ≤ o.stop ∧ o.stop ≤ c.length ∧
    o.line = (lineCol c o.off.toNat).1 + 1 ∧ o.col = (lineCol c o.off.toNat).2 + 1)

/-- What `compiler.Compile` returned for a content. -/
inductive Problem
  /-- an entry of a `status.Status` -/
  | status (o : Origin)
  /-- a `tm.SyntaxError{Line, Offset, Endoffset}` (returned as a plain error) -/
  | syntax (off stop : Int)
deriving DecidableEq, Repr

/-- `status.FromError(err)`, after the fix preceded by the conversion of a syntax error. -/
def originOf (m : Mode) (c : Bytes) : Problem → Origin
  | .status o => o
  | .syntax off stop =>
    if m.synFixed ∧ 0 ≤ off ∧ off ≤ stop ∧ stop ≤ c.length then
      let lc := lineCol c off.toNat
      ⟨off, stop, lc.1 + 1, lc.2 + 1⟩
    else ⟨0, 0, 0, 0⟩   -- `&Error{SourceRange{}, err.Error()}`

def mapM? {α β : Type} (f : α → Option β) : List α → Option (List β)
  | [] => some []
  | a :: l => match f a, mapM? f l with
    | some b, some r => some (b :: r)
    | _, _ => none

/-- The ranges `typecheck` publishes (`none` = panic). -/
def typecheck (m : Mode) (c : Bytes) (ps : List Problem) : Option (List Range) :=
  mapM? (fun p => diagRange m c (originOf m c p)) ps

/-- An identifier node as `collectIDs` returns it (`Kind()`, `IsDecl()`, `LineColumn()` evaluated). -/
structure Ident where
  off : Nat
  stop : Nat
  kind : Nat
  decl : Bool
  line : Int
  col : Int
deriving DecidableEq, Repr, Inhabited

def Ident.text (c : Bytes) (i : Ident) : Bytes := slice c i.off i.stop

/-- The identifier lies inside the content on one line, line/column are those of its offset. -/
def Ident.inDoc (c : Bytes) (i : Ident) : Bool :=
  decide (i.off ≤ i.stop ∧ i.stop ≤ c.length ∧ (∀ x ∈ i.text c, x ≠ 10) ∧
    i.line = (lineCol c i.off).1 + 1 ∧ i.col = (lineCol c i.off).2 + 1)

/-- `id.Location` -/
def location (m : Mode) (c : Bytes) (i : Ident) : Range :=
  if m.locUtf16 then
    let s := utf16Col c i.off (i.col - 1)
    ⟨⟨toU32 (i.line - 1), toU32 s⟩, ⟨toU32 (i.line - 1), toU32 (s + utf16Len (i.text c))⟩⟩
  else
    ⟨⟨toU32 (i.line - 1), toU32 (i.col - 1)⟩, ⟨toU32 (i.line - 1), toU32 (i.col - 1 + (i.text c).length)⟩⟩

inductive DefErr
  | notOpen
  | pos (e : PosErr)
deriving DecidableEq, Repr

/-- The identifiers `Definition` answers with: those of the kind and text of the identifier under the
cursor; declarations first; references are added unless there is exactly one declaration and the cursor
is not on it. -/
def defTargets (c : Bytes) (ids : List Ident) (cursor : Nat) : List Ident :=
  match ids.find? (fun i => decide (i.off ≤ cursor ∧ cursor ≤ i.stop)) with
  | none => []
  | some cur =>
    if cur.kind = 0 then [] else
    let same := ids.filter (fun i => decide (i.kind = cur.kind ∧ i.text c = cur.text c))
    let ret := same.filter (·.decl)
    let refs := same.filter (fun i => !i.decl)
    if ret.length ≠ 1 ∨ cur.decl then ret ++ refs else ret

def definition (m : Mode) (c : Bytes) (ids : List Ident) (line ch : Nat) : Except DefErr (List Range) :=
  match resolvePosition c line ch with
  | .error e => .error (.pos e)
  | .ok cursor => .ok ((defTargets c ids cursor).map (location m c))

/-! ### (b) the document state machine -/

/-- A document URI: `name` is what `URI.Filename()` returns (the key of `Server.docs`), `variant`
distinguishes different spellings of the same file name (`file:///w/a.tm`, `file:///w/%61.tm`). -/
structure Uri where
  name : Nat
  variant : Nat
deriving DecidableEq, Repr, Inhabited

structure Doc where
  content : Bytes
  version : Nat
deriving DecidableEq, Repr

/-- `map[string]*document` as an association list with unique keys. -/
abbrev Docs := List (Nat × Doc)

def Docs.get (d : Docs) (n : Nat) : Option Doc := d.lookup n
def Docs.erase (d : Docs) (n : Nat) : Docs := d.filter (fun p => p.1 != n)
def Docs.set (d : Docs) (n : Nat) (x : Doc) : Docs := (n, x) :: Docs.erase d n

inductive Op
  | openDoc (u : Uri) (version : Int) (text : Bytes)
  | change (u : Uri) (version : Int) (changes : List Bytes)
  | close (u : Uri)
  | definition (u : Uri) (line ch : Nat)
deriving Repr

inductive Out
  /-- `textDocument/publishDiagnostics` -/
  | publish (u : Uri) (version : Nat) (ranges : List Range)
  /-- result of `textDocument/definition`: every location carries the URI of the request -/
  | locations (u : Uri) (ranges : List Range)
  | defError (e : DefErr)
deriving DecidableEq, Repr

/-- What the rest of textmapper computes from a content: the compiler's problems and the identifiers of
the (error-tolerant) parse. The state machine is parametric in it. -/
structure Env where
  mode : Mode
  problems : Bytes → List Problem
  idents : Bytes → List Ident

/-- `s.docs[filename] = …; return s.typecheck(…)`; `none` = the server process dies. -/
def store (e : Env) (d : Docs) (u : Uri) (version : Int) (text : Bytes) : Option (Docs × List Out) :=
  let d' := d.set u.name ⟨text, toU32 version⟩
  match typecheck e.mode text (e.problems text) with
  | some rs => some (d', [.publish u (toU32 version) rs])
  | none => none

/-- One request. `none` = the server process dies (index out of range). -/
def step (e : Env) (d : Docs) : Op → Option (Docs × List Out)
  | .openDoc u v text => store e d u v text
  | .change u v changes =>
    match changes with
    | [] => if e.mode.emptyIgnored then some (d, []) else none
    | text :: _ => store e d u v text
  | .close u => some (d.erase u.name, [])
  | .definition u line ch =>
    match d.get u.name with
    | none => some (d, [.defError .notOpen])
    | some doc =>
      match definition e.mode doc.content (e.idents doc.content) line ch with
      | .ok rs => some (d, [.locations u rs])
      | .error err => some (d, [.defError err])

/-- A run: the outputs of every request in order; stops at a crash (`false`). -/
def run (e : Env) : Docs → List Op → List (List Out) × Bool
  | _, [] => ([], true)
  | d, op :: ops =>
    match step e d op with
    | none => ([], false)
    | some (d', out) =>
      let r := run e d' ops
      (out :: r.1, r.2)

/-- The final document map of a run that does not crash. -/
def runDocs (e : Env) : Docs → List Op → Option Docs
  | d, [] => some d
  | d, op :: ops =>
    match step e d op with
    | none => none
    | some (d', _) => runDocs e d' ops

/-! ### the abstract map the state machine must refine -/

/-- `(content, version)` the history `ops` leaves for file `n`: decided by the LAST open/change/close of
`n` (`ops` is scanned from the end). An empty change list leaves the document alone. -/
def latest (n : Nat) : List Op → Option Doc
  | [] => none
  | op :: before =>     -- `op` is the most recent request, `before` is the reversed earlier history
    match op with
    | .openDoc u v text => if u.name = n then some ⟨text, toU32 v⟩ else latest n before
    | .change u v (text :: _) => if u.name = n then some ⟨text, toU32 v⟩ else latest n before
    | .change _ _ [] => latest n before
    | .close u => if u.name = n then none else latest n before
    | .definition _ _ _ => latest n before

/-- Does request `op` kill the server (in the modelled variant)? -/
def Crashes (e : Env) : Op → Prop
  | .openDoc _ _ text => typecheck e.mode text (e.problems text) = none
  | .change _ _ [] => e.mode.emptyIgnored = false
  | .change _ _ (text :: _) => typecheck e.mode text (e.problems text) = none
  | _ => False

/-- What the abstract map says request `op` must answer, `past` being the REVERSED earlier history. -/
def specOut (e : Env) (past : List Op) : Op → List Out
  | .openDoc u v text => [.publish u (toU32 v) ((typecheck e.mode text (e.problems text)).getD [])]
  | .change _ _ [] => []
  | .change u v (text :: _) => [.publish u (toU32 v) ((typecheck e.mode text (e.problems text)).getD [])]
  | .close _ => []
  | .definition u line ch =>
    match latest u.name past with
    | none => [.defError .notOpen]
    | some doc =>
      match definition e.mode doc.content (e.idents doc.content) line ch with
      | .ok rs => [.locations u rs]
      | .error err => [.defError err]

/-- The outputs the abstract map prescribes for a whole history (`past` = reversed history so far). -/
def specRun (e : Env) : List Op → List Op → List (List Out)
  | _, [] => []
  | past, op :: ops => specOut e past op :: specRun e (op :: past) ops

/-! ### (c) the handler chain as an interleaving model

`jsonrpc2.Conn.run` reads the messages one after the other and calls the handler chain for each; the chain
is `protocol.CancelHandler(jsonrpc2.AsyncHandler(jsonrpc2.ReplyHandler(ServerHandler)))`.
`AsyncHandler` starts a goroutine per request which first waits for the channel the PREVIOUS request closes
in its `reply` wrapper (`close(unlockNext)` comes BEFORE the reply is written), then calls the server method
(which writes its notifications synchronously) and replies. A request is therefore a task with the phases
below; the scheduler may run any enabled step of any task. -/

inductive Phase
  | waiting    -- not yet delivered, or blocked in `<-waitForPrevious`
  | running    -- past the wait, server method not yet executed
  | executed   -- server method returned (state updated, notifications written)
  | unlocked   -- `close(unlockNext)` done, reply not yet written
  | done       -- reply written
deriving DecidableEq, Repr

def Phase.past : Phase → Bool
  | .unlocked => true
  | .done => true
  | _ => false

/-- A message on the wire: the notifications of request `i` / the reply to request `i`. -/
inductive Wire (ω : Type)
  | notes (i : Nat) (o : ω)
  | reply (i : Nat) (o : ω)

structure Sys (σ ω : Type) where
  /-- number of requests the reader has delivered to the chain -/
  delivered : Nat
  phase : Nat → Phase
  st : σ
  /-- request numbers in the order in which their server methods were executed -/
  log : List Nat
  /-- result of the server method, kept until the reply is written -/
  result : Nat → Option ω
  wire : List (Wire ω)

def setAt {α : Type} (f : Nat → α) (i : Nat) (a : α) : Nat → α := fun j => if j = i then a else f j

def Sys.init {σ ω : Type} (s0 : σ) : Sys σ ω :=
  ⟨0, fun _ => .waiting, s0, [], fun _ => none, []⟩

/-- One scheduler step over the requests `reqs`; `exec` is the sequential semantics of one request. -/
inductive Step {σ ρ ω : Type} (exec : σ → ρ → σ × ω) (reqs : List ρ) : Sys σ ω → Sys σ ω → Prop
  | deliver (s : Sys σ ω) : s.delivered < reqs.length →
      Step exec reqs s { s with delivered := s.delivered + 1 }
  | start (s : Sys σ ω) (i : Nat) : i < s.delivered → s.phase i = .waiting →
      (i = 0 ∨ (s.phase (i - 1)).past = true) →
      Step exec reqs s { s with phase := setAt s.phase i .running }
  | exec (s : Sys σ ω) (i : Nat) (r : ρ) : s.phase i = .running → reqs[i]? = some r →
      Step exec reqs s { s with
        phase := setAt s.phase i .executed, st := (exec s.st r).1, log := s.log ++ [i],
        result := setAt s.result i (some (exec s.st r).2),
        wire := s.wire ++ [.notes i (exec s.st r).2] }
  | unlock (s : Sys σ ω) (i : Nat) : s.phase i = .executed →
      Step exec reqs s { s with phase := setAt s.phase i .unlocked }
  | write (s : Sys σ ω) (i : Nat) (o : ω) : s.phase i = .unlocked → s.result i = some o →
      Step exec reqs s { s with phase := setAt s.phase i .done, wire := s.wire ++ [.reply i o] }

/-- States reachable under SOME schedule. -/
inductive Reach {σ ρ ω : Type} (exec : σ → ρ → σ × ω) (reqs : List ρ) (s0 : σ) : Sys σ ω → Prop
  | init : Reach exec reqs s0 (Sys.init s0)
  | step {s s' : Sys σ ω} : Reach exec reqs s0 s → Step exec reqs s s' → Reach exec reqs s0 s'

/-- Sequential execution of the first requests. -/
def seqState {σ ρ ω : Type} (exec : σ → ρ → σ × ω) (s0 : σ) (reqs : List ρ) : σ :=
  reqs.foldl (fun s r => (exec s r).1) s0

/-- The answer request `i` gets when the requests are executed one after the other. -/
def seqOut {σ ρ ω : Type} (exec : σ → ρ → σ × ω) (s0 : σ) (reqs : List ρ) (i : Nat) : Option ω :=
  match reqs[i]? with
  | some r => some (exec (seqState exec s0 (reqs.take i)) r).2
  | none => none

/-- The server as the chain sees it: `none` = the process is dead. -/
def execReq (e : Env) (s : Option Docs) (op : Op) : Option Docs × Option (List Out) :=
  match s with
  | none => (none, none)
  | some d =>
    match step e d op with
    | none => (none, none)
    | some (d', out) => (some d', some out)

end TmVerif.LS
