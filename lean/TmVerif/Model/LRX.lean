/-
F3 (extended) — the generated parser's runtime with listener reports (`applyRule`, `fixTrailingWS`,
`reportRange`), error recovery (`recoverFromError`, `skipBrokenCode`, `reduceAll`, the `recovering`
counter) and cancellation polling, on top of the core model `Model/LR.lean` (whose decoding
functions `needsTok`, `actOf`, `gotoState` are reused unchanged).

Mirror of `gen/templates/go_parser.go.tmpl` for lexer-driven parsers (`tokenStream = false`) that
report no skipped tokens (`ReportTokens(true)` empty, invalid tokens dropped by `fetchNext`).
-/
import TmVerif.Model.LR
namespace TmVerif.LRX
open TmVerif.LR

structure Report where
  type : Int
  start : Nat
  stop : Nat
deriving Repr, DecidableEq, Inhabited

structure RuleInfo where
  ruleType : Int := 0             -- `tmRuleType[rule]`, 0 = none
  reports : List Report := []     -- `Parser.Actions[rule.Action].Report`, in order
  fixWS : Bool := false           -- `fixTrailingWS` is emitted for this rule
deriving Repr, Inhabited

structure XTables where
  t : Tables
  rules : Array RuleInfo
  fixWhitespace : Bool := false
  recovering : Bool := false
  errSym : Int := -1
  afterErr : List Int := []
  cancellable : Bool := false
deriving Repr, Inhabited

inductive XEv where
  | node (type : Int) (off endo : Nat)     -- listener call
  | error (off endo : Nat)                 -- error handler call
deriving Repr, DecidableEq, Inhabited

inductive XResult where
  | accept
  | syntaxError (off endo : Nat)
  | cancelled
  | panic
  | fuel
deriving Repr, DecidableEq, Inhabited

structure XCfg where
  stack : List Entry          -- top first
  state : Int
  pos : Nat
  next : Option Tok
  evs : List XEv              -- most recent first
  recovering : Nat := 0
  lastErr : Nat × Nat := (0, 0)
  shiftCounter : Nat := 0
deriving Repr, Inhabited

def XCfg.fetch (inp : Input) (c : XCfg) : XCfg × Tok :=
  match c.next with
  | some t => (c, t)
  | none =>
    let t := inp.tok c.pos
    ({ c with next := some t, pos := c.pos + 1 }, t)

def XCfg.emit (c : XCfg) (e : XEv) : XCfg := { c with evs := e :: c.evs }

/-- number of listener calls so far (the harness cancels the context inside the k-th call) -/
def XCfg.nodeCount (c : XCfg) : Nat :=
  (c.evs.filter fun e => match e with | .node _ _ _ => true | _ => false).length

/-- `rhs[j]` for a 0-based position from the left; `rhsTop` is the popped part, top first. -/
def rhsAt (rhsTop : List Entry) (ln j : Nat) : Option Entry :=
  if j < ln then rhsTop[ln - 1 - j]? else none

/-- `fixTrailingWS(lhs, rhs)`: the end offset of the last non-empty entry, else `lhs.offset`. -/
def fixTrailingWS (off endo : Nat) (rhsTop : List Entry) : Nat :=
  if rhsTop.isEmpty then endo
  else match rhsTop.find? (fun e => e.off ≠ e.endo) with
    | some e => e.endo
    | none => off

/-- `reportRange(t, rhs[start:end])`: drop trailing empty entries (keeping at least one). -/
def trimTrailing : List Entry → List Entry      -- argument: the slice, LAST element first
  | e :: (e' :: rest) => if e.off = e.endo then trimTrailing (e' :: rest) else e :: e' :: rest
  | l => l

/-- The listener calls of `applyRule` for `rule`; `none` = index out of range (Go panic).
`stackTop` is the whole stack (top first) BEFORE the right-hand side is popped. -/
def applyRuleEvents (x : XTables) (rule : Int) (ln : Nat) (off endo : Nat) (stackTop : List Entry) :
    Option (List XEv × Nat) :=
  let info := if rule < 0 then none else x.rules[rule.toNat]?
  match info with
  | none => some ([], endo)          -- synthetic rules have no actions
  | some info =>
    let rhsTop := stackTop.take ln
    let endo' := if info.fixWS then fixTrailingWS off endo rhsTop else endo
    let evs : Option (List XEv) := info.reports.foldl (fun acc r =>
      match acc with
      | none => none
      | some evs =>
        if r.start = r.stop then
          -- `stack[len(stack)-(rulelen-End)]`: the entry right after the empty range
          match rhsAt rhsTop ln r.stop with
          | some e => some (evs ++ [XEv.node r.type e.off e.off])
          | none => none
        else if x.fixWhitespace then
          -- slice rhs[start:stop], handled last-first
          let slice := ((List.range (r.stop - r.start)).reverse.filterMap fun k => rhsAt rhsTop ln (r.start + k))
          if slice.length ≠ r.stop - r.start then none
          else match trimTrailing slice with
            | [] => none
            | last :: rest =>
              let first := (rest.getLast?).getD last
              some (evs ++ [XEv.node r.type first.off last.endo])
        else
          match rhsAt rhsTop ln r.start, rhsAt rhsTop ln (r.stop - 1) with
          | some a, some b => some (evs ++ [XEv.node r.type a.off b.endo])
          | _, _ => none) (some [])
    match evs with
    | none => none
    | some evs =>
      let evs := if info.ruleType ≠ 0 then evs ++ [XEv.node info.ruleType off endo'] else evs
      some (evs, endo')

/-- decode with the core model's functions -/
def xdecode (x : XTables) (inp : Input) (c : XCfg) : Option (XCfg × Act) :=
  match needsTok x.t c.state with
  | none => none
  | some true =>
    let (c1, tk) := c.fetch inp
    (actOf x.t (deepLA x.t inp (inp.toks.size + 2) c1.pos) c.state tk.sym).map fun a => (c1, a)
  | some false =>
    (actOf x.t (fun _ => none) c.state 0).map fun a => (c, a)

/-! ### recovery -/

/-- `reduceAll(stack, state, symbol, endState)`: simulate pending reductions; `stackStates` are the
states of `stack[:size]`, top first. Returns `ok`. -/
def reduceAllLoop (x : XTables) (symbol : Int) (endState : Int) :
    Nat → List Int → List Int → Int → Option Bool
  | 0, _, _, _ => none
  | fuel + 1, stackStates, stack2, state =>
    -- parsing stack = stackStates (reversed) ++ stack2 (stack2: top first)
    if state = endState then some (symbol = 0)
    else
      match needsTok x.t state with
      | none => none
      | some _ =>
        match actOf x.t (fun _ => none) state symbol with
        | none =>
          -- a nested-lookahead pointer (`action < -2` after lalr): `return 0, false`
          if x.t.optimized then none else
          match geti x.t.action state with
          | some a => if a < -2 then some false else none
          | none => none
        | some (.reduce rule) =>
          match geti x.t.ruleLen rule, geti x.t.ruleSymbol rule with
          | some ln, some lhs =>
            let ln := ln.toNat
            -- pop ln states
            let (stackStates', stack2', base) : List Int × List Int × Option Int :=
              if ln = 0 then (stackStates, stack2, some state)
              else if ln < stack2.length then
                (stackStates, stack2.drop ln, (stack2.drop ln).head?)
              else
                let rest := stackStates.drop (ln - stack2.length)
                (rest, [], rest.head?)
            match base with
            | none => none
            | some b =>
              match gotoState x.t b lhs with
              | none => none
              | some q => reduceAllLoop x symbol endState fuel stackStates' (q :: stack2') q
          | _, _ => none
        | some (.shift _) => some true
        | some .error => some false

def reduceAll (x : XTables) (stackStates : List Int) (state symbol endState : Int) : Option Bool :=
  if state < 0 then some false
  else reduceAllLoop x symbol endState (4 * (stackStates.length + x.t.nStates + 4)) stackStates [state] state

/-- `skipBrokenCode`: drop tokens until EOI or a recovery token; returns the end offset of the last
dropped token (0 if none). -/
def skipBroken (inp : Input) (canRecover : Int → Bool) : Nat → XCfg → Nat → XCfg × Nat
  | 0, c, e => (c, e)
  | fuel + 1, c, e =>
    let (c1, tk) := c.fetch inp
    if tk.sym ≠ 0 ∧ !canRecover tk.sym then
      skipBroken inp canRecover fuel { c1 with next := none } tk.endo
    else (c1, e)

/-- `recoverFromError`: `none` = give up (`return nil`). -/
def recoverLoop (x : XTables) (inp : Input) (endState : Int) (recoverPos : List Nat) :
    Nat → XCfg → List Int → Nat → Nat → Option (Option XCfg)
  | 0, _, _, _, _ => none
  | fuel + 1, c, recoverSyms, s, e =>
    let (c1, endoff) := skipBroken inp (fun sym => recoverSyms.contains sym) (inp.toks.size + 2) c 0
    let e := if endoff > e then endoff else e
    match c1.next with
    | none => none
    | some tk =>
      let len := c1.stack.length
      let stackBottomUp := c1.stack.reverse          -- index = Go index
      let matching : Option (Option Nat) := recoverPos.foldl (fun acc pos =>
        match acc with
        | none => none
        | some (some p) => some (some p)
        | some none =>
          match stackBottomUp[pos - 1]? with
          | none => none
          | some below =>
            match gotoState x.t below.state x.errSym with
            | none => none
            | some q =>
              let states := ((stackBottomUp.take pos).map (·.state)).reverse
              match reduceAll x states q tk.sym endState with
              | none => none
              | some true => some (some pos)
              | some false => some none) (some none)
      match matching with
      | none => none
      | some none =>
        if tk.sym = 0 then some none
        else recoverLoop x inp endState recoverPos fuel c1 (recoverSyms.filter (· ≠ tk.sym)) s e
      | some (some pos) =>
        let (s, e) :=
          if pos < len then
            let e := if s = e then (c1.stack.head?.map (·.endo)).getD e else e
            ((stackBottomUp[pos]?.map (·.off)).getD s, e)
          else (s, e)
        match stackBottomUp[pos - 1]? with
        | none => none
        | some below =>
          match gotoState x.t below.state x.errSym with
          | none => none
          | some q =>
            let kept := (stackBottomUp.take pos).reverse
            some (some { c1 with stack := ⟨x.errSym, s, e, q⟩ :: kept, state := q })

def recoverFromError (x : XTables) (inp : Input) (endState : Int) (c : XCfg) : Option (Option XCfg) :=
  let stackBottomUp := c.stack.reverse
  -- `for size := len(stack); size > 0; size--`
  let cand : Option (List Nat) := (List.range c.stack.length).reverse.foldl (fun acc k =>
    match acc with
    | none => none
    | some l =>
      match stackBottomUp[k]? with
      | none => none
      | some e =>
        match gotoState x.t e.state x.errSym with
        | none => none
        | some q => if q = -1 then some l else some (l ++ [k + 1])) (some [])
  match cand with
  | none => none
  | some [] => some none
  | some recoverPos =>
    let (c1, tk) := c.fetch inp
    recoverLoop x inp endState recoverPos (inp.toks.size + 3) c1 x.afterErr tk.off tk.off

/-! ### the loop -/

inductive XStep where
  | cont (c : XCfg)
  | done (r : XResult) (c : XCfg)

/-- the error branch of the loop (`action == error || state == -1`) -/
def onError (x : XTables) (inp : Input) (endState : Int) (stopOnError : Bool) (c : XCfg) : XStep :=
  if !x.recovering then
    let (c1, tk) := c.fetch inp
    .done (.syntaxError tk.off tk.endo) c1
  else
    let (c1, stop) : XCfg × Bool :=
      if c.recovering = 0 then
        let (c1, tk) := c.fetch inp
        let c2 := { c1 with lastErr := (tk.off, tk.endo) }.emit (.error tk.off tk.endo)
        (c2, stopOnError)
      else (c, false)
    if stop then .done (.syntaxError c1.lastErr.1 c1.lastErr.2) c1
    else
      let c2 := { c1 with recovering := 4 }
      match recoverFromError x inp endState c2 with
      | none => .done .panic c2
      | some none => .done (.syntaxError c2.lastErr.1 c2.lastErr.2) c2
      | some (some c3) => .cont c3

/-- `cancelAt`: the context is cancelled during the k-th listener call (0 = never). -/
def xstep (x : XTables) (inp : Input) (endState : Int) (stopOnError : Bool) (cancelAt : Nat) (c : XCfg) : XStep :=
  match xdecode x inp c with
  | none => .done .panic c
  | some (c1, .reduce rule) =>
    match geti x.t.ruleLen rule, geti x.t.ruleSymbol rule with
    | some ln, some lhs =>
      let ln := ln.toNat
      if ln > c1.stack.length then .done .panic c1
      else
        let rhs := c1.stack.take ln
        let (c2, off, endo) : XCfg × Nat × Nat :=
          if ln = 0 then
            let (c2, tk) := c1.fetch inp
            (c2, tk.off, tk.off)
          else (c1, (rhs.getLast?.map (·.off)).getD 0, (rhs.head?.map (·.endo)).getD 0)
        match applyRuleEvents x rule ln off endo c2.stack with
        | none => .done .panic c2
        | some (evs, endo') =>
          let c2 := { c2 with evs := evs.reverse ++ c2.evs }
          let rest := c2.stack.drop ln
          match rest with
          | [] => .done .panic c2
          | top :: _ =>
            match gotoState x.t top.state lhs with
            | none => .done .panic c2
            | some q =>
              let c3 := { c2 with stack := ⟨lhs, off, endo', q⟩ :: rest, state := q }
              if q = -1 then onError x inp endState stopOnError c3 else .cont c3
    | _, _ => .done .panic c1
  | some (c1, .shift q) =>
    let counter := c1.shiftCounter + 1
    if x.cancellable ∧ counter % 512 = 0 ∧ cancelAt ≠ 0 ∧ c1.nodeCount ≥ cancelAt then
      .done .cancelled { c1 with shiftCounter := counter }
    else
      match c1.next with
      | none => .done .panic c1
      | some tk =>
        .cont { c1 with stack := ⟨tk.sym, tk.off, tk.endo, q⟩ :: c1.stack, state := q,
                        next := if tk.sym ≠ 0 then none else c1.next,
                        recovering := c1.recovering - 1,
                        shiftCounter := if x.cancellable then counter else c1.shiftCounter }
  | some (c1, .error) =>
    -- default encoding: a shift whose goto is missing has already bumped (and polled) the counter
    let failedShift : Bool := x.cancellable && !x.t.optimized &&
      (match geti x.t.action c1.state, c1.next with
       | some a, some tk =>
         if a = -1 then true
         else if a < -2 then lalrLookup x.t a tk.sym == some (-1) else false
       | _, _ => false)
    if failedShift then
      let counter := c1.shiftCounter + 1
      if counter % 512 = 0 ∧ cancelAt ≠ 0 ∧ c1.nodeCount ≥ cancelAt then
        .done .cancelled { c1 with shiftCounter := counter }
      else onError x inp endState stopOnError { c1 with shiftCounter := counter }
    else onError x inp endState stopOnError c1

def xrunLoop (x : XTables) (inp : Input) (fin : Int) (stopOnError : Bool) (cancelAt : Nat) :
    Nat → XCfg → XResult × XCfg
  | 0, c => (.fuel, c)
  | fuel + 1, c =>
    if c.state = fin then (.accept, c)
    else
      match xstep x inp fin stopOnError cancelAt c with
      | .cont c' => xrunLoop x inp fin stopOnError cancelAt fuel c'
      | .done r c' => (r, c')

def xinit (inp : Input) (start : Int) : XCfg :=
  { stack := [⟨0, 0, 0, start⟩], state := start, pos := 1, next := some (inp.tok 0), evs := [] }

def xrun (x : XTables) (inp : Input) (input : Nat) (stopOnError : Bool) (cancelAt : Nat) (fuel : Nat) :
    XResult × XCfg :=
  match x.t.finalStates[input]? with
  | none => (.panic, xinit inp input)
  | some fin => xrunLoop x inp fin stopOnError cancelAt fuel (xinit inp input)

end TmVerif.LRX
