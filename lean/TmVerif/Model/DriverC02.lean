import TmVerif.Model.LRXProto
import TmVerif.Model.EventsWF
namespace TmVerif.DriverC02
open TmVerif.Proto TmVerif.LR TmVerif.LRX TmVerif.Events

def showEvs (evs : List XEv) : String :=
  " ".intercalate (evs.map fun e => match e with
    | .node ty o e => s!"{ty}:{o}:{e}"
    | .error o e => s!"E:{o}:{e}")

/-- `events <xtables…> <input> <toks> <endOff>`: the runtime model's listener trace; for accepted
inputs it must ALSO equal the events the specification (`Events.eventsOf`, computed on the
derivation tree without a stack) assigns — otherwise the answer is `SPEC-MISMATCH …`. -/
def handle (args : List String) : Option String :=
  match args with
  | "xrun" :: rest => handleXRun rest
  | "events" :: rest => do
    let (x, rest) ← parseXTables rest
    match rest with
    | [input, toks, endOff] =>
      let input ← parseNat? input
      let toks ← parseToks toks; let endOff ← parseNat? endOff
      let inp : Input := { toks := toks.toArray, endOff := endOff }
      let fuel := 80 * (toks.length + 2) * (x.t.nStates + 2) + 400
      let (res, c) := xrun x inp input false 0 fuel
      let shown := showXRun res c
      match res with
      | .accept =>
        -- the decidable hypotheses of theorem `C02_events_eq_eventsOf` must hold on every real case
        if !(reportsWF x && symsWF x inp && acceptShape x c && !x.recovering) then
          some s!"HYPOTHESIS-FAILS reportsWF={reportsWF x} symsWF={symsWF x inp} acceptShape={acceptShape x c} recovering={x.recovering} model={shown}"
        else
        match eventsOf x inp input fuel with
        | some spec =>
          if spec == c.evs.reverse then some shown
          else some s!"SPEC-MISMATCH model={shown} spec={showEvs spec}"
        | none => some s!"SPEC-MISMATCH model={shown} spec=none"
      | _ => some shown
    | _ => none
  | _ => none

end TmVerif.DriverC02
