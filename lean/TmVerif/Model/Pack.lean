/-
C05, packer level: `lalr.pack` places sparse lines `(pos, val)…` into one displacement table; the
generated parser reads cell `p` of the line with base `b` as
`if 0 ≤ b+p < len(table) && check[b+p] == p then table[b+p] else <default>`.
`packOk` is the decode specification evaluated on the REAL output of the packer (hook
`lalr.VerifPack`): every cell of every line reads back exactly, and every position that is not a
cell of the line reads as "absent" (so two different lines can never be confused).
-/
namespace TmVerif.Pack

abbrev Line := List (Nat × Int)

def lineVal (l : Line) (p : Nat) : Option Int := (l.find? (fun c => c.1 == p)).map (·.2)

/-- the lookup of `go_parser.go.tmpl` (`tmTable` / `tmCheck`) -/
def lookup (table check : Array Int) (base : Int) (p : Nat) : Option Int :=
  let idx := base + (p : Int)
  if 0 ≤ idx ∧ idx.toNat < table.size ∧ check.getD idx.toNat (-1) = (p : Int) then
    some (table.getD idx.toNat 0)
  else none

def width (ls : List Line) : Nat :=
  ls.foldl (fun w l => l.foldl (fun w c => max w (c.1 + 1)) w) 0

def lineOk (table check : Array Int) (w : Nat) (l : Line) (b : Int) : Bool :=
  (List.range w).all fun p => lookup table check b p == lineVal l p

def packOk (ls : List Line) (idx : List Int) (table check : Array Int) : Bool :=
  ls.length == idx.length && table.size == check.size &&
  (ls.zip idx).all fun lb => lineOk table check (width ls) lb.1 lb.2

/-- first failing (line, position) for diagnostics -/
def firstBad (ls : List Line) (idx : List Int) (table check : Array Int) : String :=
  if ls.length != idx.length then "number of bases differs from the number of lines" else
  if table.size != check.size then "table and check differ in length" else
  match ((ls.zip idx).zipIdx).findSome? (fun (lb, i) =>
      ((List.range (width ls)).find? (fun p => lookup table check lb.2 p != lineVal lb.1 p)).map
        (fun p => s!"line {i} (base {lb.2}) position {p}: the table reads {repr (lookup table check lb.2 p)}, the line has {repr (lineVal lb.1 p)}")) with
  | some m => m
  | none => "ok"

end TmVerif.Pack
