import TmVerif.Model.LRProto
import TmVerif.Model.LRCheck
import TmVerif.Model.LRRef
namespace TmVerif.DriverC06
open TmVerif.Proto TmVerif.LR TmVerif.LRCheck

def verdict (args : List String) : Option String := do
  let g ← CFG.parseGrammar (args.take 6)
  match args.drop 6 with
  | acts :: rest =>
    let acts ← parseArr acts
    let (t, rest) ← parseTables rest
    let (t', rest) ← parseTables rest
    if !rest.isEmpty then none
    match checkMinimized t t' acts g.inputs.size with
    | .ok _ =>
      -- the decidable side conditions of the run-level theorem `C06_runs_equal`
      if !tablesWf t then some "hypothesis-fails tablesWf(unminimized)"
      else if !tablesWf t' then some "hypothesis-fails tablesWf(minimized)"
      else if !sameRules t t' then some "hypothesis-fails sameRules"
      else some "ok"
    | .error e =>
      -- classify: is the unminimized automaton already in the known shared-final-state class?
      -- (only a mismatch of the kind that class causes — a state that is final for one input is
      -- merged with a state another input passes through — is attributed to it)
      let tag := if (e.splitOn "final state is").length ≤ 1 then "" else
        match LRRef.phiWalk g t with
        | .error m => if (m.splitOn "[C01-shared-final-state]").length > 1 then " [C01-shared-final-state]" else ""
        | .ok _ => ""
      some s!"mismatch {e}{tag}"
  | _ => none

/-- `min <grammar 6> <rule action ids> <tables> <minimized tables>` -/
def handle (args : List String) : Option String :=
  match args with
  | "min" :: rest => verdict rest
  | "judge" :: _ :: "::" :: "min" :: rest => do
    let v ← verdict rest
    some (if v == "ok" then "holds" else s!"violates: {v}")
  | _ => none

end TmVerif.DriverC06
