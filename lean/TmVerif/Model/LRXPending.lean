/-
C20 / C19 — reported skipped tokens (`pending`, `flush`, `reportIgnoredToken`) as a LAYER over the
extended runtime model `Model/LRX.lean` (whose semantics is untouched: the `x` component of a layered
configuration is, by definition, the `xstep` successor of the previous one).

Modelled (mirror of `go_parser.go.tmpl` for lexer-driven parsers, `tokenStream = false`, whose
`ReportTokens(true)` is non-empty: space/comment tokens with an `%inject`ed node type, and
`invalid_token` when it is reported):

* `fetchNext` appends every reported skipped token it meets to `p.pending` before it returns the next
  real token: `PInput.ign[i]` is the list of reported skipped tokens that precede real token `i`
  (index `toks.size` = the ones before end-of-input); `Tok.sym` of such a token is its NODE TYPE;
* `parse()` starts with `p.pending = p.pending[:0]` and one `fetchNext` (so a reused Parser starts
  clean): `pinit`;
* `flush(sym)` right after a shift reports, in order, the pending tokens with
  `endoffset <= sym.endoffset` and keeps the rest (`flushSplit`); `reportIgnoredToken` is one
  listener call `(type, offset, endoffset)`;
* a parser WITHOUT error recovery never flushes elsewhere (a syntax error returns without a flush,
  acceptance of a `no-eoi` input leaves the tokens pending).

NOT modelled: cancellation (`cancelAt = 0`: ignored-token listener calls would count for the
harness's cancellation point) and the flushes INSIDE error recovery (`skipBrokenCode`,
`recoverFromError` incl. the extension of the `error` range over pending invalid tokens, the flush on
the give-up exits): for `x.recovering = true` the layer is only faithful up to the first error.
-/
import TmVerif.Model.LRX
namespace TmVerif.LRXPending
open TmVerif.LR TmVerif.LRX

structure PInput where
  inp : Input
  ign : Array (List Tok)
deriving Repr, Inhabited

/-- reported skipped tokens in front of real token `i` -/
def PInput.ignAt (p : PInput) (i : Nat) : List Tok :=
  if i ≤ p.inp.toks.size then (p.ign[i]?).getD [] else []

/-- one listener call of the layered run -/
inductive PEv where
  | x (e : XEv)                          -- a call / handler call of the underlying run
  | ign (ty : Int) (off endo : Nat)      -- `reportIgnoredToken`
deriving Repr, DecidableEq, Inhabited

structure PCfg where
  x : XCfg
  pending : List Tok
  out : List PEv                          -- most recent first
deriving Repr, Inhabited

/-- skipped tokens appended to `pending` while the lexer position went from `a` to `b` -/
def fetched (p : PInput) (a b : Nat) : List Tok := (List.range' a (b - a)).flatMap p.ignAt

/-- `flush(sym)`: report up to the first pending token that ends after `sym`, keep the rest -/
def flushSplit (pending : List Tok) (endo : Nat) : List Tok × List Tok :=
  (pending.takeWhile (fun t => decide (t.endo ≤ endo)), pending.dropWhile (fun t => decide (t.endo ≤ endo)))

def stepCfg : XStep → XCfg
  | .cont c => c
  | .done _ c => c

inductive PStep where
  | cont (c : PCfg)
  | done (r : XResult) (c : PCfg)

/-- one loop iteration: `xstep` on the underlying configuration; the skipped tokens met by its
`fetchNext` calls go to `pending`; if the iteration shifted a token, `flush(token)` follows -/
def pstep (x : XTables) (p : PInput) (fin : Int) (stop : Bool) (c : PCfg) : PStep :=
  let r := xstep x p.inp fin stop 0 c.x
  let c' := stepCfg r
  let newX := c'.evs.take (c'.evs.length - c.x.evs.length)
  let pend1 := c.pending ++ fetched p c.x.pos c'.pos
  let shifted : Option Nat :=
    match xdecode x p.inp c.x, r with
    | some (_, .shift _), .cont c'' => (c''.stack.head?).map (·.endo)
    | _, _ => none
  let (rep, keep) := match shifted with
    | some endo => flushSplit pend1 endo
    | none => ([], pend1)
  let out := (rep.reverse.map fun t => PEv.ign t.sym t.off t.endo) ++ newX.map PEv.x ++ c.out
  match r with
  | .cont _ => .cont ⟨c', keep, out⟩
  | .done res _ => .done res ⟨c', keep, out⟩

def prunLoop (x : XTables) (p : PInput) (fin : Int) (stop : Bool) : Nat → PCfg → XResult × PCfg
  | 0, c => (.fuel, c)
  | fuel + 1, c =>
    if c.x.state = fin then (.accept, c)
    else
      match pstep x p fin stop c with
      | .cont c' => prunLoop x p fin stop fuel c'
      | .done r c' => (r, c')

/-- `parse()`: pending reset, first `fetchNext` -/
def pinit (p : PInput) (start : Int) : PCfg :=
  ⟨xinit p.inp start, p.ignAt 0, []⟩

def prun (x : XTables) (p : PInput) (input : Nat) (stop : Bool) (fuel : Nat) : XResult × PCfg :=
  match x.t.finalStates[input]? with
  | none => (.panic, pinit p input)
  | some fin => prunLoop x p fin stop fuel (pinit p input)

/-- erase the ignored-token calls -/
def eraseIgn : List PEv → List XEv
  | [] => []
  | .x e :: rest => e :: eraseIgn rest
  | .ign _ _ _ :: rest => eraseIgn rest

/-! ### hypotheses of the nesting theorem (decidable; evaluated by the harness on every case) -/

/-- the reported skipped tokens lie, in order, between the real tokens they are attached to -/
def IgnWF (p : PInput) : Prop :=
  ∀ i, i < p.inp.toks.size + 1 →
    (p.ignAt i).Pairwise (fun a b => a.endo ≤ b.off) ∧
    ∀ t ∈ p.ignAt i, t.off ≤ t.endo ∧ t.endo ≤ (p.inp.tok i).off ∧
      (0 < i → (p.inp.tok (i - 1)).endo ≤ t.off)

instance (p : PInput) : Decidable (IgnWF p) := by unfold IgnWF; infer_instance

/-- "trims trailing whitespace from node ranges": `fixWhitespace = true`, and `fixTrailingWS` is applied
to every rule. (The generator emits the call only for rules whose last symbol is nullable; for the
others the last entry is never empty and the call would be the identity — the driver replays every
real run with the flag set for all rules and compares.) Every reducible rule of positive length has
its `RuleInfo`. -/
def TrimAll (x : XTables) : Prop :=
  x.fixWhitespace = true ∧ (∀ info ∈ x.rules.toList, info.fixWS = true) ∧
  ∀ i, i < x.t.ruleLen.size → 0 < (x.t.ruleLen[i]?).getD 0 → i < x.rules.size

instance (x : XTables) : Decidable (TrimAll x) := by unfold TrimAll; infer_instance

/-- the same tables with `fixTrailingWS` on every rule -/
def trimAll (x : XTables) : XTables :=
  { x with rules := x.rules.map fun info => { info with fixWS := true } }

end TmVerif.LRXPending
