/-
C01 error-position validator: "the consumed prefix is always a prefix of a sentence" (viable
prefix property of the automaton found in the tables).

A certificate `VCert` gives, for every table state, an ORDERED list of LR(0) items
`(rule, dot)` (rule indices as in `LRRef`: `g.rules.size + i` is the augmented rule of input `i`)
and an ORDERED list of the nonterminals. It is computed from the executable LR(0) reference
(`mkVCert`, untrusted) and then CHECKED (`viableOk`, decidable):

 (P) productive: every nonterminal occurs in `order`, and each one has a rule whose right-hand side
     consists of terminals and nonterminals EARLIER in `order` (so it derives a terminal string);
 (E) the entry state of input `i` holds the start item `(nRules+i, 0)` and only items with dot 0;
 (J) every item with dot 0 is justified by an EARLIER item of the same state with the dot before
     its left-hand side (no cyclic self-justification), or is the start item in its entry state;
 (K) for every transition `(p, X, q)` of `LRSound.edges t` that is relevant (X a terminal, or some
     item of `p` has the dot before `X` — the displacement encoding answers gotos that no reduction
     can ask for), `q` has items, and every item of `q` with dot `d > 0` has `X` before the dot and
     its predecessor `(rule, d-1)` in `p`;
 (R) whenever a state can reduce by `r` (`LRSound.stateActs`), it holds the complete item of `r`.

`viableOk g t vc = true` is the extra hypothesis of `C01_lr_error_position` (Props/C01.lean).
-/
import TmVerif.Model.LRSound
import TmVerif.Model.LRRef
namespace TmVerif.LRViable
open TmVerif.LR TmVerif.CFG TmVerif.LRSound TmVerif.LRRef

structure VCert where
  items : Array (List Item)
  order : List Nat
deriving Repr, Inhabited, DecidableEq

def itemsOf (vc : VCert) (s : Nat) : List Item := vc.items.getD s []

/-! ### (P) productive nonterminals -/

/-- `X` has a rule all of whose right-hand side symbols are terminals or in `pre` -/
def hasProdRule (g : Grammar) (pre : List Nat) (X : Nat) : Bool :=
  g.rules.toList.any fun r =>
    r.lhs == X && r.rhs.all fun s => decide (s < g.nTerms) || pre.contains s

def prodFrom (g : Grammar) : List Nat → List Nat → Bool
  | _, [] => true
  | pre, X :: rest => hasProdRule g pre X && prodFrom g (X :: pre) rest

/-- every nonterminal derives some terminal string, witnessed by the order -/
def productiveOk (g : Grammar) (order : List Nat) : Bool :=
  prodFrom g [] order &&
  (List.range (g.nSyms - g.nTerms)).all fun k => order.contains (g.nTerms + k)

/-! ### items -/

/-- (J) for one state: the items after `pre` -/
def justFrom (g : Grammar) (s : Nat) : List Item → List Item → Bool
  | _, [] => true
  | pre, it :: rest =>
    (it.2 != 0 ||
      (match g.rules[it.1]? with
       | some rule => pre.any fun p => symAfterDot g p == some rule.lhs
       | none => it.1 == g.rules.size + s && decide (s < g.inputs.size))) &&
    justFrom g s (it :: pre) rest

/-- (E) -/
def entryOk (g : Grammar) (vc : VCert) : Bool :=
  (List.range g.inputs.size).all fun s =>
    (itemsOf vc s).contains (g.rules.size + s, 0) && (itemsOf vc s).all fun it => it.2 == 0

def relevant (g : Grammar) (vc : VCert) (p X : Nat) : Bool :=
  decide (X < g.nTerms) || (itemsOf vc p).any fun it => symAfterDot g it == some X

/-- (K) for one transition -/
def kernelOk (g : Grammar) (vc : VCert) (p X : Nat) (q : Int) : Bool :=
  decide (0 ≤ q) && !(itemsOf vc q.toNat).isEmpty &&
  (itemsOf vc q.toNat).all fun it =>
    it.2 == 0 ||
    ((rhsOf g it.1)[it.2 - 1]? == some X && (itemsOf vc p).contains (it.1, it.2 - 1))

def edgesOk (g : Grammar) (t : Tables) (vc : VCert) : Bool :=
  (edges t).all fun (p, X, q) => !relevant g vc p X || kernelOk g vc p X q

/-- (R) for one state -/
def reduceOk (g : Grammar) (t : Tables) (vc : VCert) (s : Nat) : Bool :=
  (stateActs t s).all fun
    | (_, some (.reduce r)) =>
      decide (0 ≤ r) && (itemsOf vc s).contains (r.toNat, (rhsOf g r.toNat).length)
    | _ => true

def viableOk (g : Grammar) (t : Tables) (vc : VCert) : Bool :=
  g.wf && productiveOk g vc.order && entryOk g vc &&
  ((List.range vc.items.size).all fun s => justFrom g s [] (itemsOf vc s)) &&
  edgesOk g t vc &&
  ((List.range t.nStates).all fun s => reduceOk g t vc s)

/-! ### computing the certificate (untrusted) -/

def prodRound (g : Grammar) (acc : List Nat) : List Nat :=
  (List.range (g.nSyms - g.nTerms)).foldl (fun acc k =>
    let X := g.nTerms + k
    if acc.contains X then acc
    else if hasProdRule g acc X then acc ++ [X] else acc) acc

def prodFuel (g : Grammar) : Nat → List Nat → List Nat
  | 0, acc => acc
  | n + 1, acc =>
    let acc' := prodRound g acc
    if acc'.length == acc.length then acc else prodFuel g n acc'

def prodOrder (g : Grammar) : List Nat := prodFuel g (g.nSyms + 1) []

/-- closure in discovery order: an item is appended after the item that asks for it -/
def closeRound (g : Grammar) (acc : List Item) : List Item :=
  acc.foldl (fun a it =>
    match symAfterDot g it with
    | some x =>
      if x ≥ g.nTerms then
        (rulesOf g x).foldl (fun a r => if a.contains (r, 0) then a else a ++ [(r, 0)]) a
      else a
    | none => a) acc

def closeFuel (g : Grammar) : Nat → List Item → List Item
  | 0, a => a
  | n + 1, a =>
    let a' := closeRound g a
    if a'.length == a.length then a else closeFuel g n a'

def orderedClosure (g : Grammar) (k : List Item) : List Item := closeFuel g (g.nSyms + 1) k

/-- kernels by `LRRef.phiWalk` (fails on automata that are not the canonical LR(0) collection) -/
def mkVCert (g : Grammar) (t : Tables) : Except String VCert := do
  let phi ← phiWalk g t
  pure { items := phi.kernel.map fun k => orderedClosure g (k.getD []),
         order := prodOrder g }

/-- diagnostics: the first failing condition -/
def viableFailure (g : Grammar) (t : Tables) (vc : VCert) : String :=
  if !g.wf then "grammar not well-formed" else
  if !productiveOk g vc.order then
    match (List.range (g.nSyms - g.nTerms)).find? (fun k => !vc.order.contains (g.nTerms + k)) with
    | some k => s!"(P) nonterminal {g.nTerms + k} derives no terminal string [C01-unproductive-error-position]"
    | none => "(P) the order of nonterminals is not a productivity witness"
  else
  if !entryOk g vc then "(E) an entry state lacks its start item or has an item with the dot inside" else
  match (List.range vc.items.size).find? (fun s => !justFrom g s [] (itemsOf vc s)) with
  | some s => s!"(J) state {s}: an item with dot 0 is not justified by an earlier item"
  | none =>
    match (edges t).find? (fun (p, X, q) => relevant g vc p X && !kernelOk g vc p X q) with
    | some (p, X, q) => s!"(K) transition {p} -{X}-> {q}: a kernel item of the target has no predecessor in the source"
    | none =>
      match (List.range t.nStates).find? (fun s => !reduceOk g t vc s) with
      | some s => s!"(R) state {s} reduces by a rule whose complete item it does not hold"
      | none => "certificate rejected"

end TmVerif.LRViable
