/-
Reference LALR(1) construction (the specification side of C01/C03/C04) computed over the automaton
found in the real tables.

* LR(0) items with augmented start items `S'_i → . S_i $` (eoi inputs) / `S'_i → . S_i` (no-eoi).
* `phiWalk`: maps every table state to the LR(0) kernel it must stand for by walking the tables'
  transitions from the entry states; fails if a state is reached with two different kernels, if a
  transition is missing or spurious, or if two states carry the same kernel.
* `laFix`: LALR(1) lookahead sets as the least fixpoint of item-level propagation
  (closure: `[A → α . B β, L]` gives `B → . γ` the set `FIRST(β) ∪ (L if β nullable)`;
   goto: the kernel item inherits the set) — this is the definition "LR(1) items merged by core".
* `expectedCells`: per state and terminal the action textmapper documents (shift / reduce / error,
  precedence resolution of `resolvePrec`/`ruleAction`, conflict counting as `conflictBuilder`).
-/
import TmVerif.Model.CFG
import TmVerif.Model.LR
namespace TmVerif.LRRef
open TmVerif.CFG TmVerif.LR

abbrev Item := Nat × Nat   -- (rule, dot); rule ≥ nRules is the augmented rule of input (rule - nRules)

def itemLt (a b : Item) : Bool := a.1 < b.1 || (a.1 == b.1 && a.2 < b.2)

def insertItem (x : Item) : List Item → List Item
  | [] => [x]
  | y :: ys => if x == y then y :: ys else if itemLt x y then x :: y :: ys else y :: insertItem x ys

def nRules (g : Grammar) : Nat := g.rules.size

/-- right-hand side of a (possibly augmented) rule -/
def rhsOf (g : Grammar) (r : Nat) : List Nat :=
  if r < g.rules.size then (g.rules[r]?.map (·.rhs)).getD []
  else match g.inputs[r - g.rules.size]? with
    | some inp => if inp.eoi then [inp.sym, 0] else [inp.sym]
    | none => []

def symAfterDot (g : Grammar) (it : Item) : Option Nat := (rhsOf g it.1)[it.2]?

def rulesOf (g : Grammar) (nt : Nat) : List Nat :=
  (List.range g.rules.size).filter fun r => (g.rules[r]?.map (·.lhs)) == some nt

/-- closure of an item set (worklist, fuel = number of rules + 1 rounds is enough because each round
adds the initial items of at least one new nonterminal or stops). -/
def closureRound (g : Grammar) (items : List Item) : List Item :=
  items.foldl (fun acc it =>
    match symAfterDot g it with
    | some x => if x ≥ g.nTerms then (rulesOf g x).foldl (fun a r => insertItem (r, 0) a) acc else acc
    | none => acc) items

def closureFuel (g : Grammar) : Nat → List Item → List Item
  | 0, items => items
  | n + 1, items =>
    let items' := closureRound g items
    if items'.length == items.length then items else closureFuel g n items'

def closure (g : Grammar) (k : List Item) : List Item :=
  closureFuel g (g.nSyms + 1) (k.foldl (fun a it => insertItem it a) [])

def gotoKernel (g : Grammar) (items : List Item) (x : Nat) : List Item :=
  (items.filter fun it => symAfterDot g it == some x).map fun it => (it.1, it.2 + 1)

/-! ### nullable and FIRST (bit masks over terminals) -/

def nullableRound (g : Grammar) (n : List Nat) : List Nat :=
  g.rules.foldl (fun acc r =>
    if acc.contains r.lhs then acc
    else if r.rhs.all (fun s => acc.contains s) then r.lhs :: acc else acc) n

def nullableFuel (g : Grammar) : Nat → List Nat → List Nat
  | 0, n => n
  | k + 1, n =>
    let n' := nullableRound g n
    if n'.length == n.length then n else nullableFuel g k n'

def nullable (g : Grammar) : List Nat := nullableFuel g (g.nSyms + 1) []

/-- FIRST sets as an array indexed by symbol, bit `a` set iff terminal `a ∈ FIRST`. -/
def firstOfSeq (g : Grammar) (nl : List Nat) (first : Array Nat) : List Nat → Nat
  | [] => 0
  | s :: rest =>
    let f := if s < g.nTerms then 1 <<< s else first.getD s 0
    if s ≥ g.nTerms && nl.contains s then f ||| firstOfSeq g nl first rest else f

def seqNullable (nl : List Nat) (seq : List Nat) : Bool := seq.all fun s => nl.contains s

def firstRound (g : Grammar) (nl : List Nat) (first : Array Nat) : Array Nat :=
  g.rules.foldl (fun acc r => acc.modify r.lhs (· ||| firstOfSeq g nl acc r.rhs)) first

def firstFuel (g : Grammar) (nl : List Nat) : Nat → Array Nat → Array Nat
  | 0, f => f
  | k + 1, f =>
    let f' := firstRound g nl f
    if f' == f then f else firstFuel g nl k f'

def firstSets (g : Grammar) (nl : List Nat) : Array Nat :=
  firstFuel g nl ((g.nSyms + 1) * (g.nTerms + 1)) (Array.replicate g.nSyms 0)

/-! ### φ: table state ↦ kernel -/

inductive Verdict where
  | ok
  | fail (what : String)
deriving Repr, DecidableEq, Inhabited

structure Phi where
  kernel : Array (Option (List Item))   -- per table state
deriving Repr, Inhabited

/-- Process one state of the work list: check its transitions against the reference gotos and
assign kernels to the targets. Returns newly discovered states. -/
def phiStep (g : Grammar) (t : Tables) (phi : Phi) (s : Nat) : Except String (Phi × List Nat) := do
  let some (some k) := phi.kernel[s]? | throw s!"state {s} has no kernel"
  let items := closure g k
  let mut phi := phi
  let mut fresh : List Nat := []
  for x in List.range g.nSyms do
    let k' := gotoKernel g items x
    match gotoState t s x with
    | none => throw s!"gotoState({s},{x}) reads out of range"
    | some q =>
      if k'.isEmpty then
        if q ≠ -1 then throw s!"spurious transition: state {s} on symbol {x} goes to {q} but no item has the dot before {x}"
      else
        if q < 0 then throw s!"missing transition: state {s} on symbol {x}"
        let qn := q.toNat
        match phi.kernel[qn]? with
        | none => throw s!"transition {s} -{x}-> {q} leaves the table"
        | some none =>
          phi := { kernel := phi.kernel.set! qn (some k') }
          fresh := qn :: fresh
        | some (some old) =>
          if old ≠ k' then
            -- known defect class: the state after an input's start symbol is shared with an ordinary
            -- LR(0) state (no augmented start item in lalr/compile.go: computeStates)
            let plain (k : List Item) := k.filter fun it => it.1 < g.rules.size
            let isLast := (List.range g.inputs.size).any fun i =>
              match g.inputs[i]? with
              | some inp => gotoState t i inp.sym == some q
              | none => false
            let tag := if isLast && plain old == plain k' then " [C01-shared-final-state]" else ""
            throw s!"state {q} stands for two LR(0) kernels (reached on symbol {x} from state {s} with a kernel different from an earlier one): the automaton is not the canonical LR(0) collection{tag}"
  return (phi, fresh.reverse)

def phiLoop (g : Grammar) (t : Tables) : Nat → Phi → List Nat → Except String Phi
  | 0, _, _ => throw "phi walk out of fuel"
  | _ + 1, phi, [] => pure phi
  | n + 1, phi, s :: rest => do
    let (phi', fresh) ← phiStep g t phi s
    phiLoop g t n phi' (rest ++ fresh)

def phiWalk (g : Grammar) (t : Tables) : Except String Phi := do
  let n := t.nStates
  let nin := g.inputs.size
  if n < nin then throw "fewer states than inputs"
  let init : Array (Option (List Item)) :=
    (Array.range n).map fun s => if s < nin then some [(g.rules.size + s, 0)] else none
  let phi ← phiLoop g t (n + 1) { kernel := init } (List.range nin)
  -- every state reachable, kernels pairwise distinct
  for s in List.range n do
    match phi.kernel[s]? with
    | some (some _) => pure ()
    | _ => throw s!"state {s} is unreachable from the entry states"
  for s in List.range n do
    for s' in List.range s do
      if phi.kernel[s]? == phi.kernel[s']? then
        throw s!"states {s'} and {s} carry the same LR(0) kernel"
  return phi

/-! ### LALR(1) lookahead by item propagation -/

/-- `la[s]` = list of (item, mask) for every item of the closure of state `s`. -/
abbrev LA := Array (List (Item × Nat))

def laGet (la : LA) (s : Nat) (it : Item) : Nat :=
  match (la.getD s []).find? (fun p => p.1 == it) with
  | some p => p.2
  | none => 0

def laAdd (la : LA) (s : Nat) (it : Item) (m : Nat) : LA :=
  la.modify s fun l => l.map fun p => if p.1 == it then (p.1, p.2 ||| m) else p

def allTerms (g : Grammar) : Nat := (1 <<< g.nTerms) - 1

def laInit (g : Grammar) (phi : Phi) : LA :=
  (Array.range phi.kernel.size).map fun s =>
    let k := (phi.kernel.getD s none).getD []
    (closure g k).map fun it =>
      -- the start item of a no-eoi input may be followed by any terminal
      let isNoEoiStart := it.2 == 0 && it.1 ≥ g.rules.size &&
        ((g.inputs[it.1 - g.rules.size]?.map (fun i => !i.eoi)).getD false) && s == it.1 - g.rules.size
      (it, if isNoEoiStart then allTerms g else 0)

def laRound (g : Grammar) (t : Tables) (nl : List Nat) (first : Array Nat) (la : LA) : LA := Id.run do
  let mut la := la
  for s in List.range la.size do
    for (it, _) in la.getD s [] do
      let m := laGet la s it
      let rhs := rhsOf g it.1
      match rhs[it.2]? with
      | none => pure ()
      | some x =>
        -- goto propagation
        match gotoState t s x with
        | some q => if q ≥ 0 then la := laAdd la q.toNat (it.1, it.2 + 1) m
        | none => pure ()
        -- closure propagation
        if x ≥ g.nTerms then
          let beta := rhs.drop (it.2 + 1)
          let f := firstOfSeq g nl first beta ||| (if seqNullable nl beta then m else 0)
          for r in rulesOf g x do
            la := laAdd la s (r, 0) f
  return la

def laFuel (g : Grammar) (t : Tables) (nl : List Nat) (first : Array Nat) : Nat → LA → LA
  | 0, la => la
  | k + 1, la =>
    let la' := laRound g t nl first la
    if la' == la then la else laFuel g t nl first k la'

def laFix (g : Grammar) (t : Tables) (phi : Phi) : LA :=
  let nl := nullable g
  let first := firstSets g nl
  laFuel g t nl first (phi.kernel.size * (g.nTerms + 2) * 4 + 16) (laInit g phi)

def subMask (a b : Nat) : Bool := a &&& b == a

/-- the set the closure rule sends from item `it` (with set `m`) to the initial items of `x` -/
def closureContribution (g : Grammar) (nl : List Nat) (first : Array Nat) (it : Item) (m : Nat) : Nat :=
  let beta := (rhsOf g it.1).drop (it.2 + 1)
  firstOfSeq g nl first beta ||| (if seqNullable nl beta then m else 0)

/-- closedness of the computed sets under both propagation rules (checked, not assumed):
declarative form, one conjunct per state, item and rule. -/
def laClosedAt (g : Grammar) (t : Tables) (nl : List Nat) (first : Array Nat) (la : LA) (s : Nat) (it : Item) : Bool :=
  let m := laGet la s it
  match (rhsOf g it.1)[it.2]? with
  | none => true
  | some x =>
    (match gotoState t s x with
     | some q => q < 0 || subMask m (laGet la q.toNat (it.1, it.2 + 1))
     | none => false) &&
    (x < g.nTerms ||
      (rulesOf g x).all fun r => subMask (closureContribution g nl first it m) (laGet la s (r, 0)))

def laClosed (g : Grammar) (t : Tables) (la : LA) : Bool :=
  let nl := nullable g
  let first := firstSets g nl
  (List.range la.size).all fun s => (la.getD s []).all fun p => laClosedAt g t nl first la s p.1

/-! ### expected cells -/

inductive Cell where
  | shift
  | reduce (r : Nat)
  | errExplicit        -- %nonassoc error: an explicit `(term, -2)` entry
  | err
deriving Repr, DecidableEq, Inhabited

def precGroup (g : Grammar) (term : Nat) : Option Nat :=
  -- `precGroup[term] = group`: later declarations overwrite earlier ones
  (List.range g.prec.size).foldl (fun acc i =>
    if ((g.prec[i]?.map (·.terms)).getD []).contains term then some i else acc) none

inductive Res where
  | shift | reduce | error | conflict
deriving Repr, DecidableEq, Inhabited

/-- `resolvePrec(rule, term)` -/
def rulePrecOf (g : Grammar) (rule : Nat) : Nat :=
  let r := g.rules.getD rule default
  if r.prec ≠ 0 then r.prec
  else match (r.rhs.reverse.find? fun s => s > 0 && s < g.nTerms) with
    | some s => s
    | none => 0

def resolvePrec (g : Grammar) (rule term : Nat) : Res :=
  let rulePrec := rulePrecOf g rule
  if rulePrec = 0 || term = 0 then .conflict
  else match precGroup g rulePrec, precGroup g term with
    | some red, some sh =>
      if red > sh then .reduce
      else if red < sh then .shift
      else match (g.prec[sh]?.map (·.assoc)).getD 3 with
        | 0 => .reduce
        | 1 => .shift
        | 2 => .error
        | _ => .conflict
    | _, _ => .conflict

structure CellState where
  action : Int                        -- -1 shift, -2 none, -3 nonassoc error, ≥ 0 rule
  amb : Option (Bool × Res) := none   -- (canShift, resolution so far)
deriving Repr, Inhabited

def ambAdd (amb : Option (Bool × Res)) (canShift : Bool) (res : Res) : Option (Bool × Res) :=
  match amb with
  | none => some (canShift, res)
  | some (cs, old) => some (cs, if old ≠ res then .conflict else res)

/-- fold step of `populateTables` for one reduction candidate (`next[term] == -2` / `ruleAction`) -/
def cellAddRule (g : Grammar) (term : Nat) (st : CellState) (rule : Nat) : CellState :=
  if st.action = -2 then { st with action := rule }
  else
    let hasConflict := match st.amb with | some (_, .conflict) => true | _ => false
    if hasConflict || st.action = -3 then { st with amb := ambAdd st.amb true .conflict }
    else if st.action = -1 then
      let res := resolvePrec g rule term
      let amb := ambAdd st.amb true res
      match res with
      | .reduce => { action := rule, amb := amb }
      | .error => { action := -3, amb := amb }
      | _ => { action := -1, amb := amb }
    else
      -- reduce/reduce: both rules are added with `conflict`
      { st with amb := ambAdd (ambAdd st.amb false .conflict) false .conflict }

/-- the fold of `populateTables` over the reductions whose lookahead contains `term` -/
def cellFold (g : Grammar) (term : Nat) (hasShift : Bool) (cands : List Nat) : CellState :=
  cands.foldl (cellAddRule g term) { action := if hasShift then -1 else -2 }

def cellOf (st : CellState) : Cell :=
  if st.action = -1 then Cell.shift
  else if st.action = -3 then .errExplicit
  else if st.action = -2 then .err
  else .reduce st.action.toNat

def isSR (st : CellState) : Bool := match st.amb with | some (true, .conflict) => true | _ => false
def isRR (st : CellState) : Bool := match st.amb with | some (false, .conflict) => true | _ => false

structure StateExp where
  lr0 : Bool
  reduces : List Nat
  cells : List Cell          -- per terminal (only meaningful when ¬lr0)
  sr : Nat
  rr : Nat
deriving Repr, Inhabited

def expectedState (g : Grammar) (t : Tables) (la : LA) (s : Nat) : StateExp :=
  let items := (la.getD s []).map (·.1)
  let reduces := (items.filter fun it => it.1 < g.rules.size && it.2 == (rhsOf g it.1).length).map (·.1)
  let hasTermShift := (List.range g.nTerms).any fun a => !(gotoKernel g items a).isEmpty
  let lr0 := reduces.isEmpty || (reduces.length == 1 && !hasTermShift)
  let folded := (List.range g.nTerms).map fun a =>
    cellFold g a (!(gotoKernel g items a).isEmpty)
      (reduces.filter fun r => (laGet la s (r, (rhsOf g r).length)).testBit a)
  let _ := t
  let cells := folded.map cellOf
  let sr := (folded.filter isSR).length
  let rr := (folded.filter isRR).length
  { lr0, reduces, cells, sr, rr }

/-! ### decoding the real tables -/

/-- the cell the (default-encoding) tables hold for `(s, a)`, without deep lookahead -/
def decodeCell (t : Tables) (s a : Nat) : Option Cell := do
  let action ← geti t.action s
  if action ≥ 0 then pure (.reduce action.toNat)
  else if action = -1 then
    let q ← gotoDefault t s a
    pure (if q ≥ 0 then .shift else .err)
  else if action = -2 then pure .err
  else
    -- scan the list to tell explicit errors from the default
    let rec scan (fuel : Nat) (i : Int) : Option Cell :=
      match fuel with
      | 0 => none
      | fuel + 1 =>
        match geti t.lalr i, geti t.lalr (i + 1) with
        | some term, some act =>
          if term < 0 then some .err
          else if term = a then
            (if act ≥ 0 then some (.reduce act.toNat)
             else if act = -1 then some .shift
             else if act = -2 then some .errExplicit
             else none)   -- nested lookahead pointer: not an LALR(1) cell
          else scan fuel (i + 2)
        | _, _ => none
    scan (t.lalr.size + 1) (-action - 3)

end TmVerif.LRRef
