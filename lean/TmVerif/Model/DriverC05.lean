import TmVerif.Model.LRProto
import TmVerif.Model.LRCheck
import TmVerif.Model.Pack
namespace TmVerif.DriverC05
open TmVerif.Proto TmVerif.LR TmVerif.LRCheck

/-- the decidable side conditions of the run-level theorems (`C05_runs_equal…`): every real table
must satisfy them, otherwise the theorems would not apply to it -/
def sideFailure (t : Tables) : Option String :=
  if !tablesWf t then some "tablesWf"
  else if !noBlindShift t then some "noBlindShift"
  else if !gotoClosed t (mkPreds t) then some "gotoClosed"
  else none

/-- `pos,val,pos,val;…` (lines), bases, table, check -/
def parsePack (lines idx table check : String) :
    Option (List Pack.Line × List Int × Array Int × Array Int) := do
  let ls ← (lines.splitOn ";").mapM fun l => do
    let xs ← parseInts l
    let rec pairs : List Int → Option Pack.Line
      | p :: v :: rest => do
        if p < 0 then none
        let r ← pairs rest
        pure ((p.toNat, v) :: r)
      | [] => some []
      | _ => none
    pairs xs
  pure (ls, ← parseInts idx, ← parseArr table, ← parseArr check)

/-- `pack <lines> <bases> <table> <check>` → `ok` or the first cell that does not read back.
`opt <tables with opt> <defaultReduce>` → `ok` or the first differing cell (or the side
condition of the run-level theorems that the tables violate). -/
def handle (args : List String) : Option String :=
  match args with
  | "opt" :: rest => do
    let (t, rest) ← parseTables rest
    match rest with
    | [dr] =>
      let dr ← parseBool? dr
      if checkOptimized t dr then
        match sideFailure t with
        | none => some "ok"
        | some w => some s!"hypothesis-fails {w}"
      else some s!"mismatch {(firstBadCell t dr).getD "?"}"
    | _ => none
  | ["pack", lines, idx, table, check] => do
    let (ls, idx, table, check) ← parsePack lines idx table check
    if Pack.packOk ls idx table check then some "ok"
    else some s!"mismatch {Pack.firstBad ls idx table check}"
  | ["judge", _, "::", "pack", lines, idx, table, check] => do
    let (ls, idx, table, check) ← parsePack lines idx table check
    if Pack.packOk ls idx table check then some "holds"
    else some s!"violates: {Pack.firstBad ls idx table check}"
  | "judge" :: _ :: "::" :: "opt" :: rest => do
    let (t, rest) ← parseTables rest
    match rest with
    | [dr] =>
      let dr ← parseBool? dr
      if checkOptimized t dr then some "holds"
      else some s!"violates: {(firstBadCell t dr).getD "?"}"
    | _ => none
  | _ => none

end TmVerif.DriverC05
