import TmVerif.Model.LRProto
import TmVerif.Model.LRCheck
namespace TmVerif.DriverC05
open TmVerif.Proto TmVerif.LR TmVerif.LRCheck

/-- the decidable side conditions of the run-level theorems (`C05_runs_equal…`): every real table
must satisfy them, otherwise the theorems would not apply to it -/
def sideFailure (t : Tables) : Option String :=
  if !tablesWf t then some "tablesWf"
  else if !noBlindShift t then some "noBlindShift"
  else if !gotoClosed t (mkPreds t) then some "gotoClosed"
  else none

/-- `opt <tables with opt> <defaultReduce>` → `ok` or the first differing cell (or the side
condition of the run-level theorems that the tables violate). -/
def handle (args : List String) : Option String :=
  match args with
  | "opt" :: rest => do
    let (t, rest) ← parseTables rest
    match rest with
    | [dr] =>
      let dr ← parseBool? dr
      if checkOptimized t dr then
        match sideFailure t with
        | none => some "ok"
        | some w => some s!"hypothesis-fails {w}"
      else some s!"mismatch {(firstBadCell t dr).getD "?"}"
    | _ => none
  | "judge" :: _ :: "::" :: "opt" :: rest => do
    let (t, rest) ← parseTables rest
    match rest with
    | [dr] =>
      let dr ← parseBool? dr
      if checkOptimized t dr then some "holds"
      else some s!"violates: {(firstBadCell t dr).getD "?"}"
    | _ => none
  | _ => none

end TmVerif.DriverC05
