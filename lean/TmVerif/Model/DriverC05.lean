import TmVerif.Model.LRProto
import TmVerif.Model.LRCheck
namespace TmVerif.DriverC05
open TmVerif.Proto TmVerif.LR TmVerif.LRCheck

/-- `opt <tables with opt> <defaultReduce>` → `ok` or the first differing cell. -/
def handle (args : List String) : Option String :=
  match args with
  | "opt" :: rest => do
    let (t, rest) ← parseTables rest
    match rest with
    | [dr] =>
      let dr ← parseBool? dr
      if checkOptimized t dr then some "ok"
      else some s!"mismatch {(firstBadCell t dr).getD "?"}"
    | _ => none
  | "judge" :: _ :: "::" :: "opt" :: rest => do
    let (t, rest) ← parseTables rest
    match rest with
    | [dr] =>
      let dr ← parseBool? dr
      if checkOptimized t dr then some "holds"
      else some s!"violates: {(firstBadCell t dr).getD "?"}"
    | _ => none
  | _ => none

end TmVerif.DriverC05
