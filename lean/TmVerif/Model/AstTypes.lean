/-!
# C21 — typed AST accessors vs. the trees the parser builds (Mode V)

Model of what the compiler emits for `eventFields = true` / `eventAST = true`:

* `AGrammar` — the COMPILED grammar as the generated parser sees it: per rule the right-hand side and
  the nesting of reported ranges (`Items`; built by `layout` from `Parser.Rules[i].RHS` and
  `Parser.Actions[rule.Action].Report`, which lists inner ranges first), the rule's node type
  (`tmRuleType`), and the node types of reported (non-space) terminals.
* `Yield g (.sym X) w` / `Yield g (.seq items) w` — denotational semantics: `w` is the sequence of node
  types of the TOP-LEVEL nodes in some derivation of `X` (of the item sequence). A nonterminal whose
  rule has no node type is transparent.  `ChildSeq g T w` — `w` is the sequence of direct children of
  some `T` node (rule type or nested range), in source order.
* `Re` — small regular expressions over node types with Brzozowski derivatives (smart constructors:
  unit/zero laws, alternatives flattened, sorted and deduplicated so that the set of derivatives is
  finite).  `approx g alph T` over-approximates `ChildSeq g T`: transparent nonterminals are inlined; a
  nonterminal met again on the inlining stack (recursion) is replaced by the star over its alphabet
  `alph X` (the node types that can occur at the top level of `X`; computed by iteration and CHECKED
  closed, `alphClosed`).
* accessor semantics: `Acc` is one generated accessor after `RangeType.DecodeField` (`decodeField`):
  the selectors of the `FetchAfter` chain and the field's own selector.  `access` mirrors
  `go_ast.go.tmpl` + `go_ast_tree.go.tmpl` literally (nil-safe `Child(s0).Next(s1)…`, `Children`,
  `NextAll`), `scan` is the fused one-pass version used by the checker (equal by theorem).
* `checkTypes g alph types` — for every node type `T`, on `approx g alph T`: explores the product of the
  derivatives of the expression with the progress of every accessor chain and checks, on a set of states
  that is verified CLOSED under all symbols, that (1) every required non-list accessor has found its
  node whenever the expression accepts, (3) every symbol read is captured by at least one accessor;
  (2) (results lie in the declared selector) holds for the accessor semantics by construction.
  Inclusion is therefore decided with derivatives, not by bounded enumeration.

Core Lean only.
-/
namespace TmVerif.AstTypes

/-! ## Regular expressions over node types -/

inductive Re where
  | empty
  | eps
  | sym (a : Nat)
  | alt (r s : Re)
  | seq (r s : Re)
  | star (r : Re)
deriving DecidableEq, Repr, Inhabited

namespace Re

/-- Language of an expression. -/
inductive L : Re → List Nat → Prop
  | eps : L .eps []
  | sym (a : Nat) : L (.sym a) [a]
  | altL {r s w} : L r w → L (.alt r s) w
  | altR {r s w} : L s w → L (.alt r s) w
  | seq {r s u v} : L r u → L s v → L (.seq r s) (u ++ v)
  | starNil {r} : L (.star r) []
  | starCons {r u v} : L r u → L (.star r) v → L (.star r) (u ++ v)

def nullable : Re → Bool
  | .empty => false
  | .eps => true
  | .sym _ => false
  | .alt r s => nullable r || nullable s
  | .seq r s => nullable r && nullable s
  | .star _ => true

/-- Any deterministic comparison (only used to put alternatives into a canonical order). -/
def rank : Re → Nat
  | .empty => 0 | .eps => 1 | .sym _ => 2 | .alt .. => 3 | .seq .. => 4 | .star _ => 5

def lt : Re → Re → Bool
  | .sym a, .sym b => a < b
  | .alt a b, .alt c d => lt a c || (a == c && lt b d)
  | .seq a b, .seq c d => lt a c || (a == c && lt b d)
  | .star a, .star b => lt a b
  | r, s => rank r < rank s

/-- Alternatives of an expression (`empty` has none). -/
def toList : Re → List Re
  | .empty => []
  | .alt r s => toList r ++ toList s
  | r => [r]

def fromList : List Re → Re
  | [] => .empty
  | [r] => r
  | r :: rs => .alt r (fromList rs)

/-- Ordered insertion without duplicates. -/
def insert (r : Re) : List Re → List Re
  | [] => [r]
  | x :: xs => if r = x then x :: xs else if lt r x then r :: x :: xs else x :: insert r xs

def insertAll (l acc : List Re) : List Re := l.foldl (fun acc r => insert r acc) acc

def mkAlt (r s : Re) : Re := fromList (insertAll (toList r ++ toList s) [])

def mkSeq : Re → Re → Re
  | .empty, _ => .empty
  | _, .empty => .empty
  | .eps, s => s
  | r, .eps => r
  | r, s => .seq r s

/-- Brzozowski derivative. -/
def deriv (a : Nat) : Re → Re
  | .empty => .empty
  | .eps => .empty
  | .sym b => if a = b then .eps else .empty
  | .alt r s => mkAlt (deriv a r) (deriv a s)
  | .seq r s => if nullable r then mkAlt (mkSeq (deriv a r) s) (deriv a s) else mkSeq (deriv a r) s
  | .star r => mkSeq (deriv a r) (.star r)

/-- Symbols occurring in an expression. -/
def syms : Re → List Nat
  | .empty => []
  | .eps => []
  | .sym a => [a]
  | .alt r s => syms r ++ syms s
  | .seq r s => syms r ++ syms s
  | .star r => syms r

def derivs (r : Re) : List Nat → Re
  | [] => r
  | a :: w => derivs (deriv a r) w

/-- Decision procedure for membership (used by the driver for observed child sequences). -/
def accepts (r : Re) (w : List Nat) : Bool := nullable (derivs r w)

def altAll : List Re → Re
  | [] => .empty
  | r :: rs => .alt r (altAll rs)

def seqAll : List Re → Re
  | [] => .eps
  | r :: rs => .seq r (seqAll rs)

/-- `(a₁ | … | aₙ)*`. -/
def starOf (l : List Nat) : Re := .star (altAll (l.map .sym))

end Re

open Re

/-! ## Annotated grammar -/

/-- A sequence of right-hand-side elements: plain symbols and reported ranges (nodes) with their own
element sequence. -/
inductive Items where
  | nil
  | sym (s : Nat) (rest : Items)
  | node (t : Nat) (kids : Items) (rest : Items)
deriving DecidableEq, Repr, Inhabited

namespace Items

def append : Items → Items → Items
  | .nil, b => b
  | .sym s r, b => .sym s (append r b)
  | .node t k r, b => .node t k (append r b)

/-- All nested nodes `(type, children items)` at any depth. -/
def occs : Items → List (Nat × Items)
  | .nil => []
  | .sym _ r => occs r
  | .node t k r => (t, k) :: (occs k ++ occs r)

end Items

structure ARule where
  lhs : Nat
  body : Items
  ruleType : Nat := 0      -- `tmRuleType[rule]` (with fileNode: the type the builder adds), 0 = none
deriving Repr, Inhabited

structure AGrammar where
  nTerms : Nat
  rules : List ARule
  tokTypes : List (Nat × Nat) := []   -- reported (non-space) terminal → node type
deriving Repr, Inhabited

/-- Node types produced by shifting terminal `s` (none or one). -/
def AGrammar.tokSeq (g : AGrammar) (s : Nat) : List Nat :=
  match g.tokTypes.find? (fun p => p.1 == s) with
  | some p => [p.2]
  | none => []

/-- What a yield is taken of. -/
inductive Tgt where
  | sym (s : Nat)
  | seq (is : Items)

/-- `Yield g tgt w`: the top-level node types, in source order, of some derivation of `tgt`. -/
inductive Yield (g : AGrammar) : Tgt → List Nat → Prop
  | term (s : Nat) : s < g.nTerms → Yield g (.sym s) (g.tokSeq s)
  | untyped (r : ARule) (w : List Nat) : r ∈ g.rules → r.ruleType = 0 →
      Yield g (.seq r.body) w → Yield g (.sym r.lhs) w
  | typed (r : ARule) (w : List Nat) : r ∈ g.rules → r.ruleType ≠ 0 →
      Yield g (.seq r.body) w → Yield g (.sym r.lhs) [r.ruleType]
  | nil : Yield g (.seq .nil) []
  | consSym (s : Nat) (rest : Items) (u v : List Nat) :
      Yield g (.sym s) u → Yield g (.seq rest) v → Yield g (.seq (.sym s rest)) (u ++ v)
  | consNode (t : Nat) (kids rest : Items) (u v : List Nat) :
      Yield g (.seq kids) u → Yield g (.seq rest) v → Yield g (.seq (.node t kids rest)) (t :: v)

/-- `w` is the sequence of direct children of some node of type `T`. -/
def ChildSeq (g : AGrammar) (T : Nat) (w : List Nat) : Prop :=
  (∃ r ∈ g.rules, r.ruleType = T ∧ T ≠ 0 ∧ Yield g (.seq r.body) w) ∨
  (∃ r ∈ g.rules, ∃ kids, (T, kids) ∈ r.body.occs ∧ Yield g (.seq kids) w)

/-! ### Building `Items` from positions and reports (`layout`) -/

structure Report where
  type : Nat
  start : Nat
  stop : Nat
deriving Repr, Inhabited

/-- One top-level element with the range of right-hand-side positions it covers. -/
structure Entry where
  start : Nat
  stop : Nat
  isNode : Bool
  a : Nat            -- symbol or node type
  kids : Items
deriving Repr, Inhabited

def entriesToItems : List Entry → Items
  | [] => .nil
  | e :: es => if e.isNode then .node e.a e.kids (entriesToItems es) else .sym e.a (entriesToItems es)

/-- Wrap the top-level entries lying inside `[s, e)` into a node (reports list inner ranges first). -/
def applyReport (es : List Entry) (r : Report) : List Entry :=
  let before := es.takeWhile (fun x => x.start < r.start)
  let rest := es.dropWhile (fun x => x.start < r.start)
  let inside := rest.takeWhile (fun x => x.stop ≤ r.stop)
  let after := rest.dropWhile (fun x => x.stop ≤ r.stop)
  before ++ [{ start := r.start, stop := r.stop, isNode := true, a := r.type, kids := entriesToItems inside }] ++ after

def symEntries : List Nat → Nat → List Entry
  | [], _ => []
  | s :: ss, i => { start := i, stop := i + 1, isNode := false, a := s, kids := .nil } :: symEntries ss (i + 1)

def layout (rhs : List Nat) (reports : List Report) : Items :=
  entriesToItems (reports.foldl applyReport (symEntries rhs 0))

/-! ## Alphabets and the regular over-approximation -/

def lookupAlph (alph : List (List Nat)) (s : Nat) : List Nat := alph.getD s []

/-- Top-level alphabet of an item sequence given alphabets of symbols. -/
def itemsAlph (alph : List (List Nat)) : Items → List Nat
  | .nil => []
  | .sym s r => lookupAlph alph s ++ itemsAlph alph r
  | .node t _ r => t :: itemsAlph alph r

def subset (a b : List Nat) : Bool := a.all (fun x => b.contains x)

/-- `alph` is closed: it contains the node type of every reported terminal and is closed under the rules. -/
def alphClosed (g : AGrammar) (alph : List (List Nat)) : Bool :=
  (List.range g.nTerms).all (fun s => subset (g.tokSeq s) (lookupAlph alph s)) &&
  g.rules.all (fun r =>
    if r.ruleType ≠ 0 then (lookupAlph alph r.lhs).contains r.ruleType
    else subset (itemsAlph alph r.body) (lookupAlph alph r.lhs))

def union (a b : List Nat) : List Nat := b.foldl (fun acc x => if acc.contains x then acc else acc ++ [x]) a

def alphStep (g : AGrammar) (nSyms : Nat) (alph : List (List Nat)) : List (List Nat) :=
  (List.range nSyms).map fun s =>
    if s < g.nTerms then g.tokSeq s
    else g.rules.foldl (fun acc r =>
      if r.lhs = s then
        (if r.ruleType ≠ 0 then union acc [r.ruleType] else union acc (itemsAlph alph r.body))
      else acc) (lookupAlph alph s)

def iterate {α} (f : α → α) : Nat → α → α
  | 0, x => x
  | n + 1, x => iterate f n (f x)

/-- Alphabets by iteration (untrusted; `alphClosed` is what the theorems use). -/
def computeAlph (g : AGrammar) (nSyms : Nat) : List (List Nat) :=
  iterate (alphStep g nSyms) (nSyms + 1) ((List.range nSyms).map fun _ => [])

def expandItemsWith (f : Nat → Re) : Items → Re
  | .nil => .eps
  | .sym s r => .seq (f s) (expandItemsWith f r)
  | .node t _ r => .seq (.sym t) (expandItemsWith f r)

/-- Expression for the top-level yields of symbol `s`: rules without a node type are inlined; a
nonterminal already on the inlining stack (or fuel exhausted) becomes the star over its alphabet. -/
def expandSym (g : AGrammar) (alph : List (List Nat)) : Nat → List Nat → Nat → Re
  | 0, _, s => starOf (lookupAlph alph s)
  | fuel + 1, stack, s =>
    if s < g.nTerms then seqAll ((g.tokSeq s).map .sym)
    else if stack.contains s then starOf (lookupAlph alph s)
    else altAll ((g.rules.filter (fun r => r.lhs == s)).map fun r =>
      if r.ruleType ≠ 0 then .sym r.ruleType
      else expandItemsWith (expandSym g alph fuel (s :: stack)) r.body)

def expandItems (g : AGrammar) (alph : List (List Nat)) (fuel : Nat) (is : Items) : Re :=
  expandItemsWith (expandSym g alph fuel []) is

/-- Over-approximation of `ChildSeq g T`. -/
def approx (g : AGrammar) (alph : List (List Nat)) (fuel : Nat) (T : Nat) : Re :=
  altAll (
    ((g.rules.filter (fun r => r.ruleType == T && T != 0)).map fun r => expandItems g alph fuel r.body) ++
    (g.rules.flatMap fun r => (r.body.occs.filter (fun p => p.1 == T)).map fun p => expandItems g alph fuel p.2))

/-- Well-formedness used by the soundness proof: rules belong to nonterminals. -/
def wfGrammar (g : AGrammar) : Bool := g.rules.all (fun r => g.nTerms ≤ r.lhs)

/-! ### Nodes are never empty

The generated AST builder nests nodes by OFFSETS; a node with an empty range is attached to whatever
follows it (finding C21-empty-node), so the tree notion of this model (`ChildSeq`) only describes the
real trees of grammars in which no reported range can derive the empty string. -/

def itemsNullable (nul : List Bool) : Items → Bool
  | .nil => true
  | .sym s r => nul.getD s false && itemsNullable nul r
  | .node _ k r => itemsNullable nul k && itemsNullable nul r

def nullStep (g : AGrammar) (nul : List Bool) : List Bool :=
  (List.range nul.length).map fun s =>
    nul.getD s false || g.rules.any (fun r => r.lhs == s && itemsNullable nul r.body)

def computeNullable (g : AGrammar) (nSyms : Nat) : List Bool :=
  iterate (nullStep g) (nSyms + 1) ((List.range nSyms).map fun _ => false)

def nullClosed (g : AGrammar) (nul : List Bool) : Bool :=
  g.rules.all (fun r => !itemsNullable nul r.body || nul.getD r.lhs false)

/-- Number of tokens of a derivation (`Toks g tgt n`: some derivation of `tgt` has `n` tokens). -/
inductive Toks (g : AGrammar) : Tgt → Nat → Prop
  | term (s : Nat) : s < g.nTerms → Toks g (.sym s) 1
  | rule (r : ARule) (n : Nat) : r ∈ g.rules → Toks g (.seq r.body) n → Toks g (.sym r.lhs) n
  | nil : Toks g (.seq .nil) 0
  | consSym (s : Nat) (rest : Items) (m n : Nat) :
      Toks g (.sym s) m → Toks g (.seq rest) n → Toks g (.seq (.sym s rest)) (m + n)
  | consNode (t : Nat) (kids rest : Items) (m n : Nat) :
      Toks g (.seq kids) m → Toks g (.seq rest) n → Toks g (.seq (.node t kids rest)) (m + n)

def nodesNonEmpty (g : AGrammar) (nul : List Bool) : Bool :=
  g.rules.all (fun r =>
    (r.ruleType == 0 || !itemsNullable nul r.body) &&
    r.body.occs.all (fun p => !itemsNullable nul p.2))

/-! ## Accessors -/

/-- A selector after category expansion: the node types it accepts. -/
abbrev Sel := List Nat

/-- One field of `syntax.RangeType.Fields`. -/
structure Field where
  sel : Sel
  required : Bool
  isList : Bool
  fetchAfter : Int
deriving Repr, Inhabited, DecidableEq

/-- One generated accessor: selectors of the `Child(..).Next(..)…` steps before the last one, the
field's own selector, and its flags. -/
structure Acc where
  chain : List Sel
  last : Sel
  required : Bool
  isList : Bool
deriving Repr, Inhabited, DecidableEq

/-- `RangeType.DecodeField`: the fields on the `FetchAfter` path ending in field `i`, first step first
(`none` when the path leaves the field list or does not decrease — the Go loop would not terminate —
or when an intermediate step is a list, for which the template emits code that does not compile). -/
def decodeField (fields : List Field) : Nat → Nat → Option (List Field)
  | 0, _ => none
  | fuel + 1, i =>
    match fields[i]? with
    | none => none
    | some f =>
      if f.fetchAfter < 0 then some [f]
      else
        let j := f.fetchAfter.toNat
        if j < i then
          match fields[j]? with
          | none => none
          | some p => if p.isList then none else (decodeField fields fuel j).map (· ++ [f])
        else none

def mkAcc (fields : List Field) (i : Nat) : Option Acc :=
  match decodeField fields (i + 1) i, fields[i]? with
  | some steps, some f => some { chain := (steps.dropLast).map (·.sel), last := f.sel, required := f.required, isList := f.isList }
  | _, _ => none

def mkAccs (fields : List Field) : Option (List Acc) :=
  (List.range fields.length).mapM (mkAcc fields)

/-! ### Literal mirror of `go_ast_tree.go.tmpl` on the list of child node types

A node is identified by its index among the children of the receiver; `none` is the nil node. -/

/-- First index `≥ k` whose type is selected. -/
def findFrom (sel : Sel) : List Nat → Nat → Option Nat
  | [], _ => none
  | a :: w, 0 => if sel.contains a then some 0 else (findFrom sel w 0).map (· + 1)
  | _ :: w, k + 1 => (findFrom sel w k).map (· + 1)

/-- All indices `≥ k` whose type is selected. -/
def findAllFrom (sel : Sel) : List Nat → Nat → List Nat
  | [], _ => []
  | a :: w, 0 => if sel.contains a then 0 :: (findAllFrom sel w 0).map (· + 1) else (findAllFrom sel w 0).map (· + 1)
  | _ :: w, k + 1 => (findAllFrom sel w k).map (· + 1)

/-- `n.Child(sel)` for the receiver (always valid). -/
def child (sel : Sel) (w : List Nat) : Option Nat := findFrom sel w 0
/-- `c.Next(sel)`, nil-safe. -/
def next (sel : Sel) (w : List Nat) : Option Nat → Option Nat
  | none => none
  | some i => findFrom sel w (i + 1)
/-- `n.Children(sel)`. -/
def children (sel : Sel) (w : List Nat) : List Nat := findAllFrom sel w 0
/-- `c.NextAll(sel)`, nil-safe. -/
def nextAll (sel : Sel) (w : List Nat) : Option Nat → List Nat
  | none => []
  | some i => findAllFrom sel w (i + 1)

/-- The node reached by `n.Child(s₀).Next(s₁)…` for a non-empty list of steps. -/
def chainNode (w : List Nat) : List Sel → Option Nat → Option Nat
  | [], p => p
  | s :: ss, p => chainNode w ss (next s w p)

/-- Result of an accessor as the list of returned child indices (at most one for a non-list field),
exactly as `go_ast.go.tmpl` chains the calls. -/
def access (acc : Acc) (w : List Nat) : List Nat :=
  match acc.chain with
  | [] => if acc.isList then children acc.last w else (child acc.last w).toList
  | s :: ss =>
    let p := chainNode w ss (child s w)
    if acc.isList then nextAll acc.last w p else (next acc.last w p).toList

/-! ### One-pass version -/

/-- `scan chain last isList w`: indices captured by the accessor when the remaining steps are `chain`. -/
def scan : List Sel → Sel → Bool → List Nat → List Nat
  | _, _, _, [] => []
  | s :: ss, last, l, a :: w =>
    if s.contains a then (scan ss last l w).map (· + 1) else (scan (s :: ss) last l w).map (· + 1)
  | [], last, l, a :: w =>
    if last.contains a then 0 :: (if l then (scan [] last l w).map (· + 1) else [])
    else (scan [] last l w).map (· + 1)

/-- Progress of one accessor while reading the children left to right: number of steps already matched;
`chain.length + 1` = a non-list accessor that has returned its node. -/
def stepAcc (acc : Acc) (k : Nat) (a : Nat) : Nat × Bool :=
  if k < acc.chain.length then
    (if (acc.chain.getD k []).contains a then k + 1 else k, false)
  else if k = acc.chain.length then
    if acc.last.contains a then (if acc.isList then k else k + 1, true) else (k, false)
  else (k, false)

/-- Indices captured from progress `k`. -/
def runAcc (acc : Acc) : Nat → List Nat → List Nat
  | _, [] => []
  | k, a :: w =>
    let (k', c) := stepAcc acc k a
    (if c then [0] else []) ++ (runAcc acc k' w).map (· + 1)

/-- What property C21 asks of one node with child types `w` and accessors `accs` (the model has no
injected tokens; panics are impossible for results inside the selector, see `Props/C21`). -/
structure Good (accs : List Acc) (w : List Nat) : Prop where
  /-- required (non-list) accessors return a valid node -/
  present : ∀ acc ∈ accs, acc.required = true → acc.isList = false → access acc w ≠ []
  /-- every returned node is a child whose type is in the declared selector -/
  typed : ∀ acc ∈ accs, ∀ p ∈ access acc w, ∃ a, w[p]? = some a ∧ a ∈ acc.last
  /-- every child is returned by at least one accessor -/
  covered : ∀ p, p < w.length → ∃ acc ∈ accs, p ∈ access acc w

/-! ## The checker -/

structure State where
  re : Re
  ks : List Nat
deriving DecidableEq, Repr, Inhabited

def stepAll (accs : List Acc) (ks : List Nat) (a : Nat) : List Nat × Bool :=
  match accs, ks with
  | acc :: accs, k :: ks =>
    let (k', c) := stepAcc acc k a
    let (ks', cs) := stepAll accs ks a
    (k' :: ks', c || cs)
  | _, _ => ([], false)

def stepState (accs : List Acc) (st : State) (a : Nat) : State × Bool :=
  let (ks', c) := stepAll accs st.ks a
  ({ re := deriv a st.re, ks := ks' }, c)

/-- An accepting point: every required non-list accessor is done. -/
def finalOK (accs : List Acc) (ks : List Nat) : Bool :=
  match accs, ks with
  | acc :: accs, k :: ks => (!(acc.required && !acc.isList) || k == acc.chain.length + 1) && finalOK accs ks
  | [], [] => true
  | _, _ => false

def dedupNat (l : List Nat) : List Nat := l.foldl (fun acc x => if acc.contains x then acc else acc ++ [x]) []

/-- The verified part: `S` contains the initial state, every state is fine where the expression accepts,
and for every symbol of a state's expression the successor is in `S` and the symbol was captured. -/
def closedOK (accs : List Acc) (S : List State) (init : State) : Bool :=
  S.contains init &&
  S.all (fun st =>
    st.ks.length == accs.length &&
    (!nullable st.re || finalOK accs st.ks) &&
    (dedupNat (syms st.re)).all (fun a =>
      let (st', c) := stepState accs st a
      (st'.re == .empty) || (c && S.contains st')))

/-- Worklist exploration (untrusted; `closedOK` verifies its result). -/
def explore (accs : List Acc) : Nat → List State → List State → List State
  | 0, _, seen => seen
  | _, [], seen => seen
  | fuel + 1, st :: todo, seen =>
    let succs := (dedupNat (syms st.re)).map (fun a => (stepState accs st a).1)
    let new := succs.foldl (fun acc s => if s.re == .empty || seen.contains s || acc.contains s then acc else acc ++ [s]) []
    explore accs fuel (todo ++ new) (seen ++ new)

def initState (accs : List Acc) (re : Re) : State := { re := re, ks := accs.map fun _ => 0 }

def exploreFuel : Nat := 4000

/-- Normal form of the start expression (a derivative-closed form is not needed for soundness). -/
def checkRe (accs : List Acc) (re : Re) : Bool :=
  let init := initState accs re
  closedOK accs (explore accs exploreFuel [init] [init]) init

/-- Why a regular expression fails (diagnostics for the driver). -/
def firstBad (accs : List Acc) (re : Re) : String :=
  let init := initState accs re
  let S := explore accs exploreFuel [init] [init]
  if S.length ≥ exploreFuel then "state limit" else
  match S.find? (fun st => nullable st.re && !finalOK accs st.ks) with
  | some st => s!"a required accessor finds no node (progress {st.ks})"
  | none =>
    match S.find? (fun st => (dedupNat (syms st.re)).any (fun a =>
        let (st', c) := stepState accs st a
        !(st'.re == .empty) && !c)) with
    | some st =>
      let bad := (dedupNat (syms st.re)).filter (fun a =>
        let (st', c) := stepState accs st a
        !(st'.re == .empty) && !c)
      s!"a child of type {bad} is returned by no accessor (progress {st.ks})"
    | none => "not closed"

abbrev Types := List (List Field)   -- index i ↔ node type i + 1

def fuelOf (g : AGrammar) : Nat := g.rules.length + 2

/-- Field part of the validator: presence, typing and coverage on the regular approximation. -/
def checkFields (g : AGrammar) (alph : List (List Nat)) (types : Types) : Bool :=
  wfGrammar g && alphClosed g alph &&
  (List.range types.length).all (fun i =>
    match mkAccs (types.getD i []) with
    | none => false
    | some accs => checkRe accs (approx g alph (fuelOf g) (i + 1)))

/-- The validator. -/
def checkTypes (g : AGrammar) (alph : List (List Nat)) (nul : List Bool) (types : Types) : Bool :=
  checkFields g alph types && nullClosed g nul && nodesNonEmpty g nul

/-- First failing condition of `checkFields`, for the driver's answer. -/
def explainFields (g : AGrammar) (alph : List (List Nat)) (types : Types) : String :=
  if !wfGrammar g then "grammar: rule of a terminal"
  else if !alphClosed g alph then "alphabet not closed"
  else
    match (List.range types.length).find? (fun i =>
      match mkAccs (types.getD i []) with
      | none => true
      | some accs => !checkRe accs (approx g alph (fuelOf g) (i + 1))) with
    | none => "ok"
    | some i =>
      match mkAccs (types.getD i []) with
      | none => s!"type {i + 1}: FetchAfter chain is not well formed"
      | some accs => s!"type {i + 1}: {firstBad accs (approx g alph (fuelOf g) (i + 1))}"

def explain (g : AGrammar) (alph : List (List Nat)) (nul : List Bool) (types : Types) : String :=
  if !nullClosed g nul then "nullable set not closed"
  else if !nodesNonEmpty g nul then "a reported range can be empty (nodes are nested by offsets: finding C21-empty-node)"
  else explainFields g alph types

end TmVerif.AstTypes
