import TmVerif.Model.Proto
import TmVerif.Model.Bison
namespace TmVerif.DriverC30
open TmVerif.Proto TmVerif.Bison

def bytesToChars (l : List Nat) : List Char := l.map Char.ofNat

def parseWords (s : String) : Option (List Word) :=
  if s == "_" then some [] else (s.splitOn ",").mapM fun h => (parseHex h).map bytesToChars

def parseItem (i : Int) : Item := if i < 0 then .marker (-1 - i).toNat else .sym i.toNat

def parseRule (s : String) : Option Rule :=
  match s.splitOn ":" with
  | [l, r, p] => do
    let l ← parseNat? l; let r ← parseInts r; let p ← parseNat? p
    pure ⟨l, r.map parseItem, p⟩
  | _ => none

def parseAssoc (n : Nat) : Option Assoc :=
  if n == 0 then some .left else if n == 1 then some .right else if n == 2 then some .nonassoc else none

def parsePrec (s : String) : Option Prec :=
  match s.splitOn ":" with
  | [a, t] => do
    let a ← parseNat? a; let a ← parseAssoc a; let t ← parseNats t
    pure ⟨a, t⟩
  | _ => none

def parseInput (s : String) : Option Input :=
  match s.splitOn ":" with
  | [n, e] => do pure ⟨← parseNat? n, ← parseBool? e⟩
  | _ => none

def parseList (f : String → Option α) (s : String) : Option (List α) :=
  if s == "_" then some [] else (s.splitOn ";").mapM f

def parseGram (nt names markers inputs prec rules : String) : Option Gram := do
  pure ⟨← parseWords names, ← parseWords markers, ← parseNat? nt, ← parseList parseInput inputs,
    ← parseList parsePrec prec, ← parseList parseRule rules⟩

def showWord (w : Word) : String := String.ofList w

def stmtPrec (p : PrecN) : List String := (showWord (assocWord p.assoc) :: p.terms.map showWord) ++ [";"]

def stmtRule (r : RuleN) : List String :=
  [showWord r.lhs, ":"] ++ r.rhs.map showWord ++
  (match r.prec with | some p => ["%prec", showWord p] | none => []) ++ [";"]

/-- canonical dump: `%left A B ; … lhs : x y %prec P ; …` -/
def dump (r : List RuleN × List PrecN) : String :=
  let ws := r.2.flatMap stmtPrec ++ r.1.flatMap stmtRule
  if ws.isEmpty then "-" else " ".intercalate ws

def dumpY (cs : List Char) : String :=
  match parseChars cs with
  | some r => dump r
  | none => "unparsable"

def wfB (g : Gram) : Bool :=
  decide (IdsWF g.names) && decide (MarkersWF g.markers) && decide (OrderKept g.rules) && inRange g

/-- first name that is not `goodName`, or occurs twice -/
def wfWhy (g : Gram) : String :=
  match g.names.find? (fun w => !goodName w) with
  | some w => s!"the symbol spelling `{showWord w}` cannot be read back as one symbol token"
  | none =>
    let rec dup : List Word → Option Word
      | [] => none
      | w :: ws => if ws.contains w then some w else dup ws
    match dup g.names with
    | some w => s!"[C30-name-collision] two different symbols are spelled `{showWord w}` in the .y file"
    | none =>
      if !decide (OrderKept g.rules) then "the rules of a nonterminal are not contiguous: grouping by left-hand side reorders them"
      else if !decide (MarkersWF g.markers) then "a state marker name contains a blank or a brace"
      else "a symbol index has no spelling"

/-- every symbol spelled in a rule or precedence line is declared (`%token`/`%left`/`%right`/`%nonassoc`),
is the left-hand side of a rule, or is `eoi` (the spelling of symbol 0, which the template never declares) -/
def undeclared (cs : List Char) (eoi : Word) : Option Word :=
  match chunks (fun w => w == kPP) (lexY cs), parseChars cs with
  | ds :: _, some (rules, precs) =>
    let declared := (parseDecls ds).flatMap fun d =>
      if d.1 == kToken || (assocOf d.1).isSome then d.2 else []
    let known := eoi :: declared ++ rules.map (·.lhs)
    let used := rules.flatMap (fun r => r.rhs ++ r.prec.toList) ++ precs.flatMap (·.terms)
    used.find? fun w => !known.contains w
  | _, _ => some []

def splitStmts (ws : List String) : List (List String) := chunks (fun w => w == ";") ws

def firstDiff : Nat → List (List String) → List (List String) → Option (Nat × String × String)
  | _, [], [] => none
  | n, a :: _, [] => some (n, " ".intercalate a, "<nothing>")
  | n, [], b :: _ => some (n, "<nothing>", " ".intercalate b)
  | n, a :: as, b :: bs => if a == b then firstDiff (n + 1) as bs else some (n, " ".intercalate a, " ".intercalate b)

/-- ops:
`y <hex .y text> <numTokens> <names> <markers> <inputs> <prec> <rules>` →
  `<dump of parseY text> | wf=<IdsWF etc. on the real spellings> tokens=<lexY text = lexY (render g)> decl=<every symbol used is declared>`;
`judge <go dump …> | wf=1 tokens=1 decl=1 :: y …` → does the real `.y` text say something else than the
grammar the tables were built from? -/
def handle (args : List String) : Option String :=
  match args with
  | ["y", y, nt, names, markers, inputs, prec, rules] => do
    let y ← parseHex y
    let cs := bytesToChars y
    let g ← parseGram nt names markers inputs prec rules
    -- `%empty` is left out by the template when an empty rule carries an action (`ExprString` of a lone
    -- command is ""), so the token streams are compared without it
    let noEmpty := fun (ws : List Word) => ws.filter (fun w => !(w == kEmpty))
    let same := noEmpty (lexY cs) == noEmpty (lexY (renderChars g))
    some s!"{dumpY cs} | wf={showBool (wfB g)} tokens={showBool same} decl={showBool (undeclared cs (name g 0)).isNone}"
  | "judge" :: rest =>
    let goDump := rest.takeWhile (fun w => w != "|")
    match (rest.dropWhile (fun w => w != "::")) with
    | ["::", "y", y, nt, names, markers, inputs, prec, rules] => do
      let y ← parseHex y
      let cs := bytesToChars y
      let g ← parseGram nt names markers inputs prec rules
      let mine := dumpY cs
      if mine == "unparsable" then
        some "violates: the .y text is not of the form `decls %% lhs : alt | alt ; … %%`"
      else if mine != " ".intercalate goDump then
        match firstDiff 0 (splitStmts ((mine.splitOn " ").filter (· != ""))) (splitStmts goDump) with
        | some (n, a, b) => some s!"violates: statement {n} of the .y file reads `{a}` but the tables were built from `{b}`"
        | none => some "violates: the .y file differs from the grammar the tables were built from"
      else if !wfB g then some s!"violates: {wfWhy g}"
      else if let some w := undeclared cs (name g 0) then
        some s!"violates: the .y file uses the symbol `{showWord w}` which is neither a declared token nor the left-hand side of a rule"
      else some "holds"
    | _ => none
  | _ => none

end TmVerif.DriverC30
