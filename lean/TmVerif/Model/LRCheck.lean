/-
Mode V validators for table transformations:
* `checkOptimized` (C05): the displacement encoding decodes, for every state and terminal, to the
  same shift target / reduction / error as the default encoding, and to the same goto target for
  every existing (state, nonterminal) transition; with `defaultReduce` only a plain error may turn
  into the state's most frequent reduction.
* `checkMinimized` (C06): a functional simulation relation from the unminimized to the minimized
  automaton, seeded with `(i, i)` for every input `i`.
-/
import TmVerif.Model.LR
namespace TmVerif.LRCheck
open TmVerif.LR

/-- What a parser does in state `s` on terminal `a` (the observable cell). -/
inductive Obs where
  | shift (q : Int)
  | reduce (r : Int)
  | errExplicit       -- explicit `(a, -2)` list entry: %nonassoc
  | err
  | bad               -- undecodable (index out of range / nested lookahead)
deriving Repr, DecidableEq, Inhabited

/-- scan of a Lalr list telling explicit entries from the default -/
def lalrEntry (l : Array Int) (a : Int) : Nat → Int → Option (Option Int)
  | 0, _ => none
  | fuel + 1, i =>
    match geti l i, geti l (i + 1) with
    | some term, some act =>
      if term < 0 then some none
      else if term = a then some (some act)
      else lalrEntry l a fuel (i + 2)
    | _, _ => none

def obsDefault (t : Tables) (s a : Nat) : Obs :=
  match geti t.action s with
  | none => .bad
  | some action =>
    if action ≥ 0 then .reduce action
    else if action = -1 then
      match gotoDefault t s a with
      | some q => if q ≥ 0 then .shift q else .err
      | none => .bad
    else if action = -2 then .err
    else
      match lalrEntry t.lalr a (t.lalr.size + 1) (-action - 3) with
      | none => .bad
      | some none => .err
      | some (some act) =>
        if act ≥ 0 then .reduce act
        else if act = -1 then
          match gotoDefault t s a with
          | some q => if q ≥ 0 then .shift q else .bad
          | none => .bad
        else if act = -2 then .errExplicit
        else .bad

def obsOpt (t : Tables) (s a : Nat) : Obs :=
  match geti t.oAction s with
  | none => .bad
  | some action =>
    let r := if action > t.oBase then optLookup t s action a else geti t.oDefAct s
    match r with
    | none => .bad
    | some x => if x ≥ 0 then .reduce x else if x < -1 then .shift (-2 - x) else .err

/-- number of explicit list entries of state `s` reducing rule `r` -/
def ruleFreq (t : Tables) (s : Nat) (r : Int) : Nat :=
  ((List.range t.nTerms).filter fun a => obsDefault t s a == .reduce r).length

/-- the most frequent reduction of a lookahead state (lowest rule index on ties), if any -/
def mostFrequent (t : Tables) (s : Nat) : Option Int :=
  let rules := (List.range t.ruleLen.size).map (Int.ofNat ·)
  rules.foldl (fun best r =>
    let f := ruleFreq t s r
    if f = 0 then best else
    match best with
    | none => some r
    | some b => if f > ruleFreq t s b then some r else some b) none

def isLookaheadState (t : Tables) (s : Nat) : Bool :=
  match geti t.action s with
  | some a => a < -2
  | none => false

def cellOk (t : Tables) (defaultReduce : Bool) (s a : Nat) : Bool :=
  let d := obsDefault t s a
  let o := obsOpt t s a
  match d with
  | .bad => false
  | .errExplicit => o == .err
  | .err =>
    o == .err ||
      (defaultReduce && isLookaheadState t s &&
        match mostFrequent t s with
        | some r => o == .reduce r
        | none => false)
  | _ => o == d

def gotoOk (t : Tables) (s x : Nat) : Bool :=
  match gotoDefault t s x with
  | none => false
  | some q => q < 0 || gotoOpt t s x == some q

def checkOptimized (t : Tables) (defaultReduce : Bool) : Bool :=
  (List.range t.nStates).all fun s =>
    ((List.range t.nTerms).all fun a => cellOk t defaultReduce s a) &&
    ((List.range (t.nSyms - t.nTerms)).all fun k => gotoOk t s (t.nTerms + k))

def firstBadCell (t : Tables) (defaultReduce : Bool) : Option String :=
  (List.range t.nStates).findSome? fun s =>
    match (List.range t.nTerms).find? fun a => !cellOk t defaultReduce s a with
    | some a => some s!"state {s} terminal {a}: default encoding {repr (obsDefault t s a)}, optimized {repr (obsOpt t s a)}"
    | none =>
      match (List.range (t.nSyms - t.nTerms)).find? fun k => !gotoOk t s (t.nTerms + k) with
      | some k => some s!"state {s} nonterminal {t.nTerms + k}: goto {repr (gotoDefault t s (t.nTerms + k))} vs optimized {repr (gotoOpt t s (t.nTerms + k))}"
      | none => none

/-! ### minimisation -/

/-- rule class: rules the minimiser may identify (same lhs, length and action id) -/
def ruleClassEq (t : Tables) (acts : Array Int) (r r' : Int) : Bool :=
  geti t.ruleSymbol r == geti t.ruleSymbol r' && geti t.ruleLen r == geti t.ruleLen r' &&
  geti acts r == geti acts r' && (geti t.ruleLen r).isSome

def obsSim (t t' : Tables) (acts : Array Int) (rel : Array (Option Nat)) (o o' : Obs) : Bool :=
  match o, o' with
  | .shift q, .shift q' => q ≥ 0 && rel.getD q.toNat none == some q'.toNat && q' ≥ 0
  | .reduce r, .reduce r' => ruleClassEq t acts r r' && geti t'.ruleLen r' == geti t.ruleLen r'
  | .errExplicit, .errExplicit => true
  | .errExplicit, .err => true
  | .err, .errExplicit => true
  | .err, .err => true
  | _, _ => false

/-- One BFS step: relate the successors of the pair `(s, s')`. -/
def simStep (t t' : Tables) (rel : Array (Option Nat)) (s s' : Nat) : Except String (Array (Option Nat) × List Nat) := do
  let mut rel := rel
  let mut fresh : List Nat := []
  for x in List.range t.nSyms do
    match gotoDefault t s x, gotoDefault t' s' x with
    | some q, some q' =>
      if q < 0 ∧ q' < 0 then pure ()
      else if q < 0 ∨ q' < 0 then throw s!"state {s} (minimized {s'}) symbol {x}: transition to {q} vs {q'}"
      else match rel.getD q.toNat none with
        | none =>
          if q.toNat ≥ rel.size then throw s!"transition leaves the table"
          rel := rel.set! q.toNat (some q'.toNat)
          fresh := q.toNat :: fresh
        | some old =>
          if old ≠ q'.toNat then throw s!"state {q} corresponds to two minimized states {old} and {q'}"
    | _, _ => throw s!"gotoState out of range at state {s}/{s'} symbol {x}"
  return (rel, fresh.reverse)

def simLoop (t t' : Tables) : Nat → Array (Option Nat) → List Nat → Except String (Array (Option Nat))
  | 0, _, _ => throw "simulation out of fuel"
  | _ + 1, rel, [] => pure rel
  | n + 1, rel, s :: rest => do
    match rel.getD s none with
    | none => throw "internal: unrelated state on the work list"
    | some s' =>
      let (rel', fresh) ← simStep t t' rel s s'
      simLoop t t' n rel' (rest ++ fresh)

/-- states reachable from `start` through the transition tables -/
def reachLoop (t : Tables) : Nat → List Nat → List Nat → List Nat
  | 0, seen, _ => seen
  | _ + 1, seen, [] => seen
  | n + 1, seen, s :: rest =>
    let succ := (List.range t.nSyms).filterMap fun x =>
      match gotoDefault t s (x : Nat) with
      | some q => if q ≥ 0 then some q.toNat else none
      | none => none
    let new := (succ.filter fun q => !seen.contains q).eraseDups
    reachLoop t n (seen ++ new) (rest ++ new)

def reach (t : Tables) (start : Nat) : List Nat := reachLoop t (t.nStates + 1) [start] [start]

/-- The certificate check (declarative; the relation `rel` and the per-input reachable sets are
computed by the loops above but only this check is trusted):
1. entry states correspond: `rel[i] = i` for every input `i`;
2. related states have the same outgoing symbols and related targets;
3. related states have the same observable action on every terminal (rules up to class);
4. per input, a set of states containing the entry and closed under transitions, all related, on
   which "being the final state" coincides. -/
def relAt (rel : Array (Option Nat)) (s : Nat) : Option Nat := rel.getD s none

def gotoSim (t t' : Tables) (rel : Array (Option Nat)) (s s' x : Nat) : Bool :=
  match gotoDefault t s x, gotoDefault t' s' x with
  | some q, some q' =>
    (q < 0 && q' < 0) || (q ≥ 0 && q' ≥ 0 && relAt rel q.toNat == some q'.toNat)
  | _, _ => false

def reachClosed (t : Tables) (set : List Nat) : Bool :=
  set.all fun s => (List.range t.nSyms).all fun x =>
    match gotoDefault t s x with
    | some q => q < 0 || set.contains q.toNat
    | none => false

def simCheck (t t' : Tables) (acts : Array Int) (nInputs : Nat) (rel : Array (Option Nat))
    (reachSets : List (List Nat)) : Bool :=
  ((List.range nInputs).all fun i => relAt rel i == some i) &&
  ((List.range t.nStates).all fun s =>
    match relAt rel s with
    | none => true
    | some s' =>
      ((List.range t.nSyms).all fun x => gotoSim t t' rel s s' x) &&
      ((List.range t.nTerms).all fun a => obsSim t t' acts rel (obsDefault t s a) (obsDefault t' s' a))) &&
  reachSets.length == nInputs &&
  ((List.range nInputs).all fun i =>
    let set := reachSets.getD i []
    set.contains i && reachClosed t set &&
    match t.finalStates[i]?, t'.finalStates[i]? with
    | some f, some f' =>
      set.all fun s => s < t.nStates &&
        match relAt rel s with
        | some s' => (f == (s : Int)) == (f' == (s' : Int))
        | none => false
    | _, _ => false)

def checkMinimized (t t' : Tables) (acts : Array Int) (nInputs : Nat) : Except String Unit := do
  if t'.nStates < nInputs then throw "minimized tables have fewer states than inputs"
  let init : Array (Option Nat) := (Array.range t.nStates).map fun s => if s < nInputs then some s else none
  let rel ← simLoop t t' (t.nStates + 1) init (List.range nInputs)
  let reachSets := (List.range nInputs).map (reach t)
  if simCheck t t' acts nInputs rel reachSets then return ()
  -- diagnostics only
  for s in List.range t.nStates do
    match rel.getD s none with
    | none => pure ()
    | some s' =>
      for a in List.range t.nTerms do
        let o := obsDefault t s a
        let o' := obsDefault t' s' a
        if !obsSim t t' acts rel o o' then
          throw s!"state {s} (minimized {s'}) terminal {a}: {repr o} vs {repr o'}"
  for i in List.range nInputs do
    match t.finalStates[i]?, t'.finalStates[i]? with
    | some f, some f' =>
      for s in reach t i do
        match rel.getD s none with
        | none => throw s!"state {s} reachable from input {i} is unrelated"
        | some s' =>
          if (f == (s : Int)) != (f' == (s' : Int)) then
            throw s!"input {i}: state {s} (minimized {s'}): final state is {f} vs {f'}"
    | _, _ => throw "missing final state"
  throw "simulation certificate rejected"

/-! ### decidable side conditions of the run-level theorems (C05/C06)

`checkOptimized`/`simCheck` compare decoded cells; lifting them to whole runs of the runtime model
needs a few structural facts about the tables that every `lalr.Compile` output satisfies. They are
evaluated by the drivers on every real table next to the check itself. -/

/-- the `(terminal, action)` list starting at `i` ends with `(negative, -2)`: the default of a
lookahead state is "error" (`c.out.Lalr = append(c.out.Lalr, -1, -2)`) -/
def lalrEndOk (l : Array Int) : Nat → Int → Bool
  | 0, _ => false
  | fuel + 1, i =>
    match geti l i with
    | none => false
    | some term => if term < 0 then geti l (i + 1) == some (-2) else lalrEndOk l fuel (i + 2)

/-- structural sanity of the default encoding: EOI is a terminal, entry states exist, `FromTo`
holds state numbers, left-hand sides are nonterminals, lookahead lists end with the error default -/
def tablesWf (t : Tables) : Bool :=
  decide (0 < t.nTerms) && decide (t.nTerms ≤ t.nSyms) &&
  decide (t.finalStates.size ≤ t.nStates) &&
  t.fromTo.all (fun v => decide (0 ≤ v) && decide (v < (t.nStates : Int))) &&
  t.ruleSymbol.all (fun x => decide ((t.nTerms : Int) ≤ x) && decide (x < (t.nSyms : Int))) &&
  (List.range t.nStates).all fun s =>
    match geti t.action s with
    | some a => decide (a ≥ -2) || lalrEndOk t.lalr (t.lalr.size + 1) (-a - 3)
    | none => true

/-- a state of the displacement encoding that does not consult the next token never shifts
(`Optimize` sets `Action[s] = Base` only when all terminals agree, and two terminals never lead to
the same state) -/
def noBlindShift (t : Tables) : Bool :=
  (List.range t.nStates).all fun s =>
    match geti t.oAction s, geti t.oDefAct s with
    | some a, some d => decide (a > t.oBase) || decide (d ≥ -1)
    | _, _ => true

/-- token symbols are terminals -/
def inputOk (t : Tables) (inp : Input) : Bool :=
  inp.toks.all fun tk => decide (0 ≤ tk.sym) && decide (tk.sym < (t.nTerms : Int))

/-- Certificate that a reduction never finds the goto entry missing (`gotoState = -1`): `preds`
lists, per state, all states with a transition into it; for every reduction `r` a state may
perform, every state `|r|` transitions back has a goto on the left-hand side. -/
def predsOk (t : Tables) (preds : Array (List Nat)) : Bool :=
  (List.range t.nStates).all fun p => (List.range t.nSyms).all fun x =>
    match gotoDefault t p x with
    | some q => decide (q < 0) || (preds.getD q.toNat []).contains p
    | none => true

def backAll (preds : Array (List Nat)) (P : Nat → Bool) : Nat → Nat → Bool
  | 0, p => P p
  | n + 1, q => (preds.getD q []).all fun p => backAll preds P n p

def ruleGotoOk (t : Tables) (preds : Array (List Nat)) (s : Nat) (r : Int) : Bool :=
  match geti t.ruleLen r, geti t.ruleSymbol r with
  | some ln, some lhs =>
    backAll preds (fun p => match gotoDefault t p lhs with
      | some q => decide (q ≥ 0)
      | none => true) ln.toNat s
  | _, _ => true

def gotoClosed (t : Tables) (preds : Array (List Nat)) : Bool :=
  predsOk t preds &&
  (List.range t.nStates).all fun s => (List.range t.nTerms).all fun a =>
    match obsDefault t s a with
    | .reduce r => ruleGotoOk t preds s r
    | _ => true

/-- the predecessor lists (untrusted: `predsOk` checks them) -/
def mkPreds (t : Tables) : Array (List Nat) := Id.run do
  let mut preds : Array (List Nat) := Array.replicate t.nStates []
  for p in List.range t.nStates do
    for x in List.range t.nSyms do
      match gotoDefault t p x with
      | some q =>
        if q ≥ 0 ∧ q.toNat < preds.size ∧ !(preds.getD q.toNat []).contains p then
          preds := preds.set! q.toNat (p :: preds.getD q.toNat [])
      | none => pure ()
  return preds

/-- the minimiser does not touch the rule tables -/
def sameRules (t t' : Tables) : Bool :=
  t.ruleLen == t'.ruleLen && t.ruleSymbol == t'.ruleSymbol && t.nTerms == t'.nTerms

/-- trace events of the unminimized and the minimized run correspond: the same token shifted, or
rules of one class reduced over the same range -/
def evSim (t : Tables) (acts : Array Int) : Ev → Ev → Bool
  | .shift s o e, .shift s' o' e' => s == s' && o == o' && e == e'
  | .reduce r o e, .reduce r' o' e' => ruleClassEq t acts r r' && o == o' && e == e'
  | _, _ => false

def traceSim (t : Tables) (acts : Array Int) : List Ev → List Ev → Bool
  | [], [] => true
  | e :: es, e' :: es' => evSim t acts e e' && traceSim t acts es es'
  | _, _ => false

end TmVerif.LRCheck
