import TmVerif.Model.Charset
/-!
Model of /repo/lex/regexp.go for C10 (reusable by C09/C11): regex AST, escape decoding and the
reference parser `refParse` for textmapper's pattern syntax.

* `Regex` — language-level AST over *symbols* (code points in rune mode, bytes in byte mode):
  ε, one symbol out of a range list, concatenation, alternation, bounded/unbounded repetition,
  named reference `{name}`.  Literals are sequences of one-symbol classes.
* `hexval`, `octval`, `parseEscape`, `parseClass`, `parse` — a recursive-descent reading of the syntax
  (the repository has no written description of the pattern language besides `lex/regexp_test.go`;
  the reading follows the code and its tests and is the trusted definition of "what a pattern denotes").
* `Variant` — the four places where the pinned tree deviates from that reading; `Variant.strict` is
  the reading itself (`refParse`), the other settings mirror the code as it is, so that the
  correspondence run can tie the model to the code on *all* inputs and show each deviation on a witness.
* `canon` — language-preserving normal form used to compare two ASTs (flatten, drop ε, normalise classes).

Positions: the parser walks the UTF-8 bytes of the pattern; an error records how many bytes were
left when it was detected, `refParse` turns that into a byte range inside the pattern.
Unicode data (`unicode.SimpleFold` orbits, `\p{…}` tables) is a parameter (`Env`).
Core Lean only.

Peculiarities of the syntax that the reading takes over from the code and its tests (observed, not judged):
`.` inside a class is "any but newline"; a `-` at the start of a class item is a literal unless `[` or a
set escape follows (then it subtracts), so `[--a]` is `{-,a}`; `x-[` after a single character is a range
up to `[` (subtraction needs a range or a set before it: `[a-z-[b]]`, `[\d-[5]]`); a named set with exactly
one code point can be a range end; `\Q…\E` is not case-folded and a quantifier after it applies to the whole
quoted text; outside a class `\d \w \s`, `\p{Any}`, `\p{Ascii}` and Unicode *properties* are not closed under
`(?i)` (categories and scripts are, through `unicode.FoldCategory/FoldScript`), inside a class the whole class
is closed once at the end, after subtraction and before negation; `(?i-)` switches folding off; a quantifier
with nothing before it in its branch (`*a`, `(+)`, `a|?`) is a literal; in byte mode a lone escape above
0x7f (`\xff`, `\u00e9`) denotes the UTF-8 bytes of that code point while `[\xff]` denotes the byte.
-/
namespace TmVerif.Regex
open TmVerif.Charset

/-! ### UTF-8 (as `utf8.DecodeRuneInString` / `string(rune)`) -/

def isCont (b : Nat) : Bool := 0x80 ≤ b && b ≤ 0xBF

/-- First rune of a byte string and its width; `none` for the empty string and for an invalid
encoding (where Go returns `RuneError, 1`). -/
def decodeRune : List Nat → Option (Int × Nat)
  | [] => none
  | b0 :: rest =>
    if b0 < 0x80 then some (b0, 1)
    else if b0 < 0xC2 then none
    else if b0 < 0xE0 then
      match rest with
      | b1 :: _ => if isCont b1 then some (Int.ofNat ((b0 - 0xC0) * 64 + (b1 - 0x80)), 2) else none
      | _ => none
    else if b0 < 0xF0 then
      match rest with
      | b1 :: b2 :: _ =>
        let lo := if b0 == 0xE0 then 0xA0 else 0x80
        let hi := if b0 == 0xED then 0x9F else 0xBF
        if lo ≤ b1 && b1 ≤ hi && isCont b2 then
          some (Int.ofNat ((b0 - 0xE0) * 4096 + (b1 - 0x80) * 64 + (b2 - 0x80)), 3)
        else none
      | _ => none
    else if b0 < 0xF5 then
      match rest with
      | b1 :: b2 :: b3 :: _ =>
        let lo := if b0 == 0xF0 then 0x90 else 0x80
        let hi := if b0 == 0xF4 then 0x8F else 0xBF
        if lo ≤ b1 && b1 ≤ hi && isCont b2 && isCont b3 then
          some (Int.ofNat ((b0 - 0xF0) * 262144 + (b1 - 0x80) * 4096 + (b2 - 0x80) * 64 + (b3 - 0x80)), 4)
        else none
      | _ => none
    else none

/-- `[]byte(string(rune(r)))`: surrogates and out-of-range values become U+FFFD. -/
def encodeRune (r : Int) : List Nat :=
  let n := r.toNat
  if r < 0 || r > 0x10FFFF || (0xD800 ≤ r && r ≤ 0xDFFF) then [0xEF, 0xBF, 0xBD]
  else if n < 0x80 then [n]
  else if n < 0x800 then [0xC0 + n / 64, 0x80 + n % 64]
  else if n < 0x10000 then [0xE0 + n / 4096, 0x80 + n / 64 % 64, 0x80 + n % 64]
  else [0xF0 + n / 262144, 0x80 + n / 4096 % 64, 0x80 + n / 64 % 64, 0x80 + n % 64]

/-- Is the whole byte string valid UTF-8?  Returns the number of bytes left at the first invalid one. -/
def firstInvalid : Nat → List Nat → Option Nat
  | 0, _ => none
  | _, [] => none
  | fuel + 1, inp =>
    match decodeRune inp with
    | none => some inp.length
    | some (_, w) => firstInvalid fuel (inp.drop w)

/-- Next rune and the remaining input. -/
def nextRune (inp : List Nat) : Option (Int × List Nat) :=
  match decodeRune inp with
  | some (r, w) => some (r, inp.drop w)
  | none => none

/-! ### Variants, leaf decoders -/

/-- The deviations of the pinned tree from the reference reading (all `false` = reference). -/
structure Variant where
  /-- `hexval` accepts `'G'..'Z'` as digits 16..35 (`case r >= 'A' && r <= 'Z'`). -/
  laxHex : Bool
  /-- `\x{…}` and `\UHHHHHHHH` accumulate in an `int32` that wraps around, so values ≥ 2^31 come out
  negative or small and pass the `> MaxRune` test. -/
  wrap32 : Bool
  /-- `appendNamedSet` adds `unicode.FoldScript[name]` even when case folding is off. -/
  scriptFold : Bool
  /-- in byte mode a single escaped rune ≥ 0x80 is case-folded like any other (its ASCII
  orbit-mates are added and the class keeps a rune > 0xff). -/
  bytesFoldAny : Bool
deriving Repr, DecidableEq

def Variant.strict : Variant := ⟨false, false, false, false⟩

def ch (c : Char) : Int := Int.ofNat c.toNat

/-- `hexval`: value of a hexadecimal digit, `-1` otherwise. -/
def hexval (lax : Bool) (r : Int) : Int :=
  if ch 'a' ≤ r ∧ r ≤ ch 'f' then r - ch 'a' + 10
  else if ch 'A' ≤ r ∧ r ≤ (if lax then ch 'Z' else ch 'F') then r - ch 'A' + 10
  else if ch '0' ≤ r ∧ r ≤ ch '9' then r - ch '0'
  else -1

/-- `octval`. -/
def octval (r : Int) : Int :=
  if ch '0' ≤ r ∧ r ≤ ch '7' then r - ch '0' else -1

def isHexDigit (r : Int) : Prop :=
  (ch '0' ≤ r ∧ r ≤ ch '9') ∨ (ch 'a' ≤ r ∧ r ≤ ch 'f') ∨ (ch 'A' ≤ r ∧ r ≤ ch 'F')

instance (r : Int) : Decidable (isHexDigit r) := by unfold isHexDigit; exact inferInstance

/-- `isid`. -/
def isid (r : Int) : Bool :=
  (ch 'a' ≤ r && r ≤ ch 'z') || r == ch '_' || (ch '0' ≤ r && r ≤ ch '9') || (ch 'A' ≤ r && r ≤ ch 'Z')

/-- Two's complement reduction to `int32`. -/
def wrap32 (x : Int) : Int := (x + 2147483648) % 4294967296 - 2147483648

/-- `r<<4 + d` (or `r<<3 + d`) on Go's `rune`. -/
def shiftAdd (wrap : Bool) (r : Int) (bits : Nat) (d : Int) : Int :=
  if wrap then wrap32 (r * (2 ^ bits : Nat) + d) else r * (2 ^ bits : Nat) + d

/-- Unicode data the parser depends on (Go standard library, supplied by the harness / Facts). -/
structure Env where
  orbits : List (List Int)
  tabs : List NamedTable

structure PErr where
  msg : String
  /-- bytes of input left when the error was detected -/
  rem : Nat
deriving Repr

def fail {α : Type} (msg : String) (inp : List Nat) : Except PErr α := .error ⟨msg, inp.length⟩

/-- exactly `n` digits in base `2^bits` (`bits = 3`: octal, `4`: hex). -/
def fixedDigits (v : Variant) (bits : Nat) : Nat → Int → List Nat → Option (Int × List Nat)
  | 0, acc, inp => some (acc, inp)
  | n + 1, acc, inp =>
    match nextRune inp with
    | none => none
    | some (c, rest) =>
      let d := if bits == 3 then octval c else hexval v.laxHex c
      if d == -1 then none else fixedDigits v bits n (shiftAdd v.wrap32 acc bits d) rest

/-- the digits of `\x{…}` after the opening brace, up to and including the closing brace. -/
def bracedDigits (v : Variant) : Nat → Int → List Nat → Option (Int × List Nat)
  | 0, _, _ => none
  | fuel + 1, acc, inp =>
    match nextRune inp with
    | none => none
    | some (c, rest) =>
      let d := hexval v.laxHex c
      if d == -1 then none
      else
        let acc := shiftAdd v.wrap32 acc 4 d
        match rest with
        | 0x7D :: rest' => some (acc, rest')
        | _ => bracedDigits v fuel acc rest

/-- `parser.rune`: the set of one rune, case-folded when folding is on. -/
def runeSet (env : Env) (v : Variant) (fold bytes : Bool) (r : Int) : Charset :=
  if fold && !(bytes && decide (r ≥ 0x80) && !v.bytesFoldAny) then Charset.fold env.orbits bytes [(r, r)]
  else [(r, r)]

def takeIdent : Nat → List Nat → List Nat × List Nat
  | 0, inp => ([], inp)
  | _, [] => ([], [])
  | fuel + 1, b :: rest =>
    if b < 0x80 && isid b then
      let (n, r) := takeIdent fuel rest
      (b :: n, r)
    else ([], b :: rest)

def bytesToString (l : List Nat) : String := String.ofList (l.map Char.ofNat)

def digitSet : Charset := [(ch '0', ch '9')]
def wordSet : Charset := [(ch '0', ch '9'), (ch 'A', ch 'Z'), (ch '_', ch '_'), (ch 'a', ch 'z')]
def spaceSet : Charset := [(9, 9), (10, 10), (11, 11), (12, 12), (13, 13), (32, 32)]
def dotSet (bytes : Bool) : Charset := [(0, 9), (11, maxRune bytes)]

/-- `parseEscape` with the input positioned after the backslash.  Returns the set (one rune or a
class) and the remaining input.  `fold` is `opts.Fold` (always off inside a class). -/
def parseEscape (env : Env) (v : Variant) (fold bytes standalone : Bool) (inp : List Nat) :
    Except PErr (Charset × List Nat) :=
  let mx := maxRune bytes
  match nextRune inp with
  | none => fail "trailing backslash at end of regular expression" inp
  | some (c, rest) =>
    if ch '0' ≤ c ∧ c ≤ ch '7' then
      match fixedDigits v 3 3 0 inp with
      | none => fail "invalid escape sequence" inp
      | some (r, rest') =>
        if r > 0xff then fail "invalid escape sequence (max = \\377)" inp
        else .ok (runeSet env v fold bytes r, rest')
    else if c == ch 'p' || c == ch 'P' then
      let negated := c == ch 'P'
      let named (negated : Bool) (name : String) (rest' : List Nat) : Except PErr (Charset × List Nat) :=
        match namedSet env.tabs v.scriptFold name fold bytes with
        | none => fail "unknown unicode character class" inp
        | some l =>
          let ret := newCharset l
          .ok (if negated then invert mx ret else ret, rest')
      match rest with
      | 0x7B :: rest1 =>
        let (negated, rest2) := match rest1 with
          | 0x5E :: r2 => (!negated, r2)
          | _ => (negated, rest1)
        let (name, rest3) := takeIdent rest2.length rest2
        match rest3 with
        | 0x7D :: rest4 => if name.isEmpty then fail "invalid \\p{} range" rest3 else named negated (bytesToString name) rest4
        | _ => fail "invalid \\p{} range" rest3
      | _ =>
        match nextRune rest with
        | none => fail "unknown unicode character class" rest
        | some (n, rest1) => named negated (String.singleton (Char.ofNat n.toNat)) rest1
    else if c == ch 'd' then .ok (digitSet, rest)
    else if c == ch 'D' then .ok ([(0, ch '0' - 1), (ch '9' + 1, mx)], rest)
    else if c == ch 'w' then .ok (wordSet, rest)
    else if c == ch 'W' then
      .ok ([(0, ch '0' - 1), (ch '9' + 1, ch 'A' - 1), (ch 'Z' + 1, ch '_' - 1), (ch '_' + 1, ch 'a' - 1),
            (ch 'z' + 1, mx)], rest)
    else if c == ch 's' then .ok (spaceSet, rest)
    else if c == ch 'S' then .ok (invert mx spaceSet, rest)
    else if c == ch 'x' || c == ch 'u' || c == ch 'U' then
      let l := if c == ch 'u' then 4 else if c == ch 'U' then 8 else 2
      let digits := match rest with
        | 0x7B :: rest1 => bracedDigits v rest1.length 0 rest1
        | _ => fixedDigits v 4 l 0 rest
      match digits with
      | none => fail "invalid escape sequence" rest
      | some (r, rest') =>
        if (r > mx && !standalone) || r > 0x10FFFF then fail "invalid escape sequence (exceeds maximum)" inp
        else .ok (runeSet env v fold bytes r, rest')
    else
      let simple (r : Int) : Except PErr (Charset × List Nat) := .ok (runeSet env v fold bytes r, rest)
      if c == ch 'a' then simple 7
      else if c == ch 'f' then simple 12
      else if c == ch 'n' then simple 10
      else if c == ch 'r' then simple 13
      else if c == ch 't' then simple 9
      else if c == ch 'v' then simple 11
      else if c ≥ 0x80 || (c != ch '_' && isid c) then fail "invalid escape sequence" inp
      else simple c

/-! ### Character classes -/

mutual
/-- Items of a class up to and including the closing bracket: accumulated ranges and subtrahends. -/
def classItems (env : Env) (v : Variant) (bytes : Bool) :
    Nat → Charset → List Charset → List Nat → Except PErr (Charset × List Charset × List Nat)
  | 0, _, _, inp => fail "out of fuel" inp
  | fuel + 1, r, subs, inp =>
    let mx := maxRune bytes
    /- after a single rune `lo`: either `lo-hi` or just `lo` -/
    let rangeTail (r : Charset) (lo : Int) (inp : List Nat) : Except PErr (Charset × List Charset × List Nat) :=
      let isRange := match inp with
        | 0x2D :: c2 :: _ => c2 != 0x5D
        | _ => false
      if isRange then
        let rest := inp.drop 1
        match nextRune rest with
        | none => fail "invalid character class range" rest
        | some (c, rest1) =>
          if c == ch '\\' then
            match parseEscape env v false bytes false rest1 with
            | .error e => .error e
            | .ok (cs, rest2) =>
              match cs with
              | [(hi, hi')] =>
                if hi != hi' then fail "invalid character class range" rest1
                else if hi < lo then fail "invalid character class range" rest1
                else classItems env v bytes fuel (appendRange r lo hi) subs rest2
              | _ => fail "invalid character class range" rest1
          else if c > mx then fail "invalid character (exceeds maximum)" rest
          else if c < lo then fail "invalid character class range" rest
          else classItems env v bytes fuel (appendRange r lo c) subs rest1
      else classItems env v bytes fuel (appendRange r lo lo) subs inp
    match nextRune inp with
    | none => fail "missing closing bracket" inp
    | some (c, rest) =>
      if c == ch ']' then .ok (r, subs, rest)
      else if c == ch '.' then classItems env v bytes fuel (r ++ dotSet bytes) subs rest
      else if c == ch '-' then
        match nextRune rest with
        | some (c2, rest2) =>
          if c2 == ch '[' then
            match parseClass env v false bytes fuel rest2 with
            | .error e => .error e
            | .ok (sub, rest3) => classItems env v bytes fuel r (subs ++ [sub]) rest3
          else if c2 == ch '\\' then
            match parseEscape env v false bytes false rest2 with
            | .error e => .error e
            | .ok (cs, rest3) =>
              if !oneRune cs then classItems env v bytes fuel r (subs ++ [cs]) rest3
              else
                match cs with
                | (lo, _) :: _ => rangeTail (r ++ [(ch '-', ch '-')]) lo rest3
                | [] => fail "internal" rest3
          else classItems env v bytes fuel (r ++ [(ch '-', ch '-')]) subs rest
        | none => classItems env v bytes fuel (r ++ [(ch '-', ch '-')]) subs rest
      else if c == ch '\\' then
        match parseEscape env v false bytes false rest with
        | .error e => .error e
        | .ok (cs, rest2) =>
          if !oneRune cs then classItems env v bytes fuel (r ++ cs) subs rest2
          else
            match cs with
            | (lo, _) :: _ => rangeTail r lo rest2
            | [] => fail "internal" rest2
      else if c > mx then fail "invalid character (exceeds maximum)" inp
      else rangeTail r c rest

/-- `parseClass` with the input positioned after the opening bracket; `fold` is the folding mode
of the *outer* class (nested classes and all items are read without folding, the outer class is
folded once at the end, then negated). -/
def parseClass (env : Env) (v : Variant) (fold bytes : Bool) :
    Nat → List Nat → Except PErr (Charset × List Nat)
  | 0, inp => fail "out of fuel" inp
  | fuel + 1, inp =>
    let (negated, inp1) := match inp with
      | 0x5E :: r => (true, r)
      | _ => (false, inp)
    let (r0, inp2) : Charset × List Nat := match inp1 with
      | 0x5D :: r => ([(ch ']', ch ']')], r)
      | _ => ([], inp1)
    match classItems env v bytes fuel r0 [] inp2 with
    | .error e => .error e
    | .ok (r, subs, rest) =>
      let cs := subs.foldl subtract (newCharset r)
      let cs := if fold then Charset.fold env.orbits bytes cs else cs
      let cs := if negated then invert (maxRune bytes) cs else cs
      .ok (cs, rest)
end

/-! ### Regular expressions -/

inductive Regex where
  | eps
  | cc (c : Charset)
  | cat (a b : Regex)
  | alt (a b : Regex)
  | rep (r : Regex) (min : Nat) (max : Option Nat)
  | ext (name : List Nat)
deriving Repr, DecidableEq, Inhabited

def mkCat : List Regex → Regex
  | [] => .eps
  | [r] => r
  | r :: rs => .cat r (mkCat rs)

def mkAlt : List Regex → Regex
  | [] => .eps
  | [r] => r
  | r :: rs => .alt r (mkAlt rs)

/-- a literal: one single-symbol class per symbol -/
def litSyms (l : List Int) : Regex := mkCat (l.map fun s => .cc [(s, s)])

/-- `{n}`, `{n,}`, `{n,m}` with the input positioned after the brace (first character is a digit).
Numbers are limited to Go's `int` (`strconv.Atoi`). -/
def takeDigits : Nat → List Nat → List Nat × List Nat
  | 0, inp => ([], inp)
  | _, [] => ([], [])
  | fuel + 1, b :: rest =>
    if 0x30 ≤ b && b ≤ 0x39 then
      let (n, r) := takeDigits fuel rest
      (b :: n, r)
    else ([], b :: rest)

def digitsVal (l : List Nat) : Nat := l.foldl (fun acc d => acc * 10 + (d - 0x30)) 0

def maxInt : Nat := 9223372036854775807

def parseQuantifier (inp : List Nat) : Except PErr (Nat × Option Nat × List Nat) :=
  let (d1, rest) := takeDigits inp.length inp
  let mn := digitsVal d1
  if d1.isEmpty || mn > maxInt then fail "cannot parse quantifier" inp
  else
    match rest with
    | 0x2C :: rest1 =>
      let (d2, rest2) := takeDigits rest1.length rest1
      let mx := digitsVal d2
      if !d2.isEmpty && mx > maxInt then fail "cannot parse quantifier" rest1
      else if !d2.isEmpty && mx < mn then fail "invalid quantifier" rest1
      else
        match rest2 with
        | 0x7D :: rest3 => .ok (mn, if d2.isEmpty then none else some mx, rest3)
        | _ => fail "cannot parse quantifier" rest2
    | 0x7D :: rest1 => .ok (mn, some mn, rest1)
    | _ => fail "cannot parse quantifier" rest

/-- `(?flags` with the input positioned after the `?`: the characters `i` and `-` up to `:` or `)`.
Returns (saw `i`, saw `-`, terminator is `)`, rest after the terminator). -/
def parseFlags : Nat → Bool → Bool → List Nat → Except PErr (Bool × Bool × Bool × List Nat)
  | 0, _, _, inp => fail "out of fuel" inp
  | _, _, _, [] => fail "unknown perl flags" []
  | fuel + 1, si, sn, b :: rest =>
    if b == 0x3A then .ok (si, sn, false, rest)
    else if b == 0x29 then .ok (si, sn, true, rest)
    else if b == 0x69 then parseFlags fuel true sn rest
    else if b == 0x2D then parseFlags fuel si true rest
    else fail "unknown perl flags" (b :: rest)

def applyQuant (cur : List Regex) (mn : Nat) (mx : Option Nat) : List Regex :=
  match cur.getLast? with
  | none => cur
  | some last => cur.dropLast ++ [.rep last mn mx]

/-- position of `\E` in a byte string: (quoted text, rest after `\E`) -/
def takeQuoted : List Nat → List Nat × List Nat
  | [] => ([], [])
  | 0x5C :: 0x45 :: rest => ([], rest)
  | b :: rest =>
    let (q, r) := takeQuoted rest
    (b :: q, r)

def decodeAll : Nat → List Nat → List Int
  | 0, _ => []
  | fuel + 1, inp =>
    match nextRune inp with
    | none => []
    | some (r, rest) => r :: decodeAll fuel rest

/-- The body of a group (or of the whole pattern): `branch ('|' branch)*`, up to a closing
parenthesis (left in the input) or the end.  `fold` is the current case-folding mode, `done` the finished
branches, `cur` the items of the current branch. -/
def parseItems (env : Env) (v : Variant) (bytes : Bool) :
    Nat → Bool → List Regex → List Regex → List Nat → Except PErr (Regex × List Nat)
  | 0, _, _, _, inp => fail "out of fuel" inp
  | fuel + 1, fold, done, cur, inp =>
    let finish : Regex := mkAlt (done ++ [mkCat cur])
    let literal (c : Int) (w : List Nat) (rest : List Nat) : Except PErr (Regex × List Nat) :=
      let item : Regex :=
        if fold && !(bytes && decide (c ≥ 0x80)) then .cc (Charset.fold env.orbits bytes [(c, c)])
        else if bytes then litSyms (w.map Int.ofNat) else litSyms [c]
      parseItems env v bytes fuel fold done (cur ++ [item]) rest
    match nextRune inp with
    | none => .ok (finish, inp)
    | some (c, rest) =>
      let w := inp.take (inp.length - rest.length)
      if c == ch ')' then .ok (finish, inp)
      else if c == ch '|' then parseItems env v bytes fuel fold (done ++ [mkCat cur]) [] rest
      else if c == ch '.' then parseItems env v bytes fuel fold done (cur ++ [.cc (dotSet bytes)]) rest
      else if c == ch '(' then
        let group (gfold : Bool) (body : List Nat) : Except PErr (Regex × List Nat) :=
          match parseItems env v bytes fuel gfold [] [] body with
          | .error e => .error e
          | .ok (r, rest') =>
            match rest' with
            | 0x29 :: rest'' => parseItems env v bytes fuel fold done (cur ++ [r]) rest''
            | _ => fail "missing closing parenthesis" rest'
        match rest with
        | 0x3F :: rest1 =>
          match parseFlags rest1.length false false rest1 with
          | .error e => .error e
          | .ok (si, sn, closed, rest2) =>
            let nfold := if si then !sn else fold
            if closed then parseItems env v bytes fuel nfold done cur rest2
            else group nfold rest2
        | _ => group fold rest
      else if c == ch '[' then
        match parseClass env v fold bytes fuel rest with
        | .error e => .error e
        | .ok (cs, rest') => parseItems env v bytes fuel fold done (cur ++ [.cc cs]) rest'
      else if c == ch '\\' then
        match rest with
        | 0x51 :: rest1 =>
          let (q, rest2) := takeQuoted rest1
          let item := if bytes then litSyms (q.map Int.ofNat) else litSyms (decodeAll q.length q)
          parseItems env v bytes fuel fold done (cur ++ [item]) rest2
        | _ =>
          match parseEscape env v fold bytes true rest with
          | .error e => .error e
          | .ok (cs, rest') =>
            let item : Regex := match cs with
              | [(lo, hi)] => if bytes && lo == hi && lo > 0x7f then litSyms ((encodeRune lo).map Int.ofNat) else .cc cs
              | _ => .cc cs
            parseItems env v bytes fuel fold done (cur ++ [item]) rest'
      else if c == ch '{' then
        match rest with
        | [] => fail "invalid external regexp reference" inp
        | b :: _ =>
          if 0x30 ≤ b && b ≤ 0x39 then
            if cur.isEmpty then fail "unexpected quantifier" inp
            else
              match parseQuantifier rest with
              | .error e => .error e
              | .ok (mn, mx, rest') => parseItems env v bytes fuel fold done (applyQuant cur mn mx) rest'
          else
            let (name, rest1) := takeIdent rest.length rest
            match rest1 with
            | 0x7D :: rest2 =>
              if name.isEmpty then fail "invalid external regexp reference" inp
              else parseItems env v bytes fuel fold done (cur ++ [.ext name]) rest2
            | _ => fail "invalid external regexp reference" inp
      else if (c == ch '*' || c == ch '+' || c == ch '?') && !cur.isEmpty then
        let (mn, mx) : Nat × Option Nat :=
          if c == ch '+' then (1, none) else if c == ch '?' then (0, some 1) else (0, none)
        parseItems env v bytes fuel fold done (applyQuant cur mn mx) rest
      else literal c w rest

inductive Result where
  | ok (r : Regex)
  | error (msg : String) (lo hi : Nat)
deriving Repr

/-- Parse a pattern given as UTF-8 bytes under variant `v`. An error detected with `rem` bytes left is
reported on the byte at which the parser stopped (an empty range at the end of the pattern). -/
def parse (env : Env) (v : Variant) (fold bytes : Bool) (pat : List Nat) : Result :=
  let n := pat.length
  let err (e : PErr) : Result := .error e.msg (n - e.rem) (n - (e.rem - 1))
  match firstInvalid (n + 1) pat with
  | some rem => err ⟨"invalid rune", rem⟩
  | none =>
    match parseItems env v bytes (2 * n + 8) fold [] [] pat with
    | .error e => err e
    | .ok (r, rest) =>
      match rest with
      | [] => .ok r
      | _ => err ⟨"unexpected closing parenthesis", rest.length⟩

/-- The reference parser: the reading of the pattern syntax without the deviations. -/
def refParse (env : Env) (fold bytes : Bool) (pat : List Nat) : Result :=
  parse env Variant.strict fold bytes pat

/-! ### Canonical form (language preserving) -/

/-- concatenation that drops ε and associates to the right -/
def catC : Regex → Regex → Regex
  | .eps, b => b
  | .cat a1 a2, b => .cat a1 (catC a2 b)
  | a, b => match b with
    | .eps => a
    | _ => .cat a b

/-- alternation that associates to the right -/
def altC : Regex → Regex → Regex
  | .alt a1 a2, b => .alt a1 (altC a2 b)
  | a, b => .alt a b

def canon : Regex → Regex
  | .eps => .eps
  | .cc c => .cc (newCharset c)
  | .cat a b => catC (canon a) (canon b)
  | .alt a b => altC (canon a) (canon b)
  | .rep r mn mx => if mx == some 0 && mn == 0 then .eps else .rep (canon r) mn mx
  | .ext n => .ext n

/-! ### Denotation -/

/-- `k`-fold concatenation of a language. -/
def Pow (L : List Int → Prop) : Nat → List Int → Prop
  | 0, w => w = []
  | k + 1, w => ∃ u v, w = u ++ v ∧ L u ∧ Pow L k v

/-- The language of a regular expression over symbols (code points, or bytes in byte mode);
`ρ` interprets the named references. -/
def Lang (ρ : List Nat → List Int → Prop) : Regex → List Int → Prop
  | .eps => fun w => w = []
  | .cc c => fun w => ∃ s, w = [s] ∧ Mem s c
  | .cat a b => fun w => ∃ u v, w = u ++ v ∧ Lang ρ a u ∧ Lang ρ b v
  | .alt a b => fun w => Lang ρ a w ∨ Lang ρ b w
  | .rep r mn mx => fun w => ∃ k, mn ≤ k ∧ (∀ m, mx = some m → k ≤ m) ∧ Pow (Lang ρ r) k w
  | .ext n => fun w => ρ n w

end TmVerif.Regex
