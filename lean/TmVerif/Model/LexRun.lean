import TmVerif.Model.LexTables
/-!
F4: model of the generated Go lexer (`/repo/gen/templates/go_lexer.go.tmpl`,
`go_lexer_tables.go.tmpl`, `gen/funcs.go: asStringSwitch/stringHash`) — Mode M, hand mirror.

* `decodeRune` — `utf8.DecodeRuneInString` (invalid input: `RuneError`, width 1).
* `classOf` — `tmRuneClass[ch]` / `mapRune(ch)` (binary search over `tmRuneRanges`) / the constant
  `LastMapEntry.Target`.
* `Lexer` — the fields of the generated `type Lexer struct`; `rewind`, `init`, `loop` (the
  `for state >= 0` loop of `Next` with `backupToken/backupOffset/backupHash`), `finish` (label
  `recovered:`: class-action hash switch, `handleInvalidToken`, space restart), `next`.
* the DFA arrays are the SAME record as in `Model/LexTables.lean` (`Tables`: `tmLexerAction = dfa`,
  `tmBacktracking[2i], [2i+1] = backtrack[i].action, .nextState`, `tmFirstRule = actionStart`,
  `tmStateMap = stateMap`, `tmNumClasses = numSymbols`).
* `stringHash`, `asStringSwitch`, `StringSwitch.lookup` — the keyword switch.
* `skipAction` — mirror of `/repo/parsers/tm/lexer_actions.go`.

Facts about the current tree that the checks found to deviate from the documented behaviour are
explicit `Variant` flags of the model (the harness probes the real code and passes the observed
variant; the theorems in Props/C11, Props/C12 say what holds for which variant):
* `colFix`: at `'\n'` the template stores `l.lineOffset = l.scanOffset` and maintains `lineOffset`
  independently of `tokenLine` (current tree: `l.lineOffset = l.offset`, inside `if TokenLine`);
* `hashFix`: `stringHash` hashes bytes when `scanBytes` (current tree: always runes);
* `skipFix`: `skipAction` counts a newline that is skipped after a backslash inside a quoted string
  and maintains `lineOffset` (current tree: neither).

Go `int` is `Int`/`Nat` (offsets are `Nat`: they index the source), `uint32` hashes are `Nat` reduced
mod 2^32. A Go run-time panic and running out of fuel are `none` (`TablesWF` excludes both, Props/C12).
-/
namespace TmVerif.LexRun
open TmVerif.LexTables

/-! ## UTF-8 decoding (`unicode/utf8`) -/

def runeError : Int := 0xFFFD

/-- `first[b0]` and `acceptRanges`: (size, lo, hi) of a multi-byte lead byte; size 0 = invalid lead. -/
def leadInfo (b0 : Nat) : Nat × Nat × Nat :=
  if 0xC2 ≤ b0 ∧ b0 ≤ 0xDF then (2, 0x80, 0xBF)
  else if b0 = 0xE0 then (3, 0xA0, 0xBF)
  else if 0xE1 ≤ b0 ∧ b0 ≤ 0xEC then (3, 0x80, 0xBF)
  else if b0 = 0xED then (3, 0x80, 0x9F)
  else if 0xEE ≤ b0 ∧ b0 ≤ 0xEF then (3, 0x80, 0xBF)
  else if b0 = 0xF0 then (4, 0x90, 0xBF)
  else if 0xF1 ≤ b0 ∧ b0 ≤ 0xF3 then (4, 0x80, 0xBF)
  else if b0 = 0xF4 then (4, 0x80, 0x8F)
  else (0, 0, 0)

def isCont (b : Nat) : Bool := decide (0x80 ≤ b ∧ b ≤ 0xBF)

/-- `utf8.DecodeRuneInString(s)`: `(rune, width)`. -/
def decodeRune (s : List UInt8) : Int × Nat :=
  match s with
  | [] => (runeError, 0)
  | b0 :: rest =>
    let s0 := b0.toNat
    if s0 < 0x80 then ((s0 : Int), 1)
    else
      let (sz, lo, hi) := leadInfo s0
      if sz = 0 then (runeError, 1)
      else
        match rest with
        | [] => (runeError, 1)
        | b1 :: r2 =>
          let s1 := b1.toNat
          if s1 < lo ∨ hi < s1 then (runeError, 1)
          else if sz ≤ 2 then (((s0 % 32 * 64 + s1 % 64 : Nat) : Int), 2)
          else
            match r2 with
            | [] => (runeError, 1)
            | b2 :: r3 =>
              let s2 := b2.toNat
              if !isCont s2 then (runeError, 1)
              else if sz ≤ 3 then (((s0 % 16 * 4096 + s1 % 64 * 64 + s2 % 64 : Nat) : Int), 3)
              else
                match r3 with
                | [] => (runeError, 1)
                | b3 :: _ =>
                  let s3 := b3.toNat
                  if !isCont s3 then (runeError, 1)
                  else (((s0 % 8 * 262144 + s1 % 64 * 4096 + s2 % 64 * 64 + s3 % 64 : Nat) : Int), 4)

/-- One character of the input as the lexer reads it: byte mode `(b, 1)`; rune mode
`r, w := rune(s[0]), 1; if r >= 0x80 { r, w = utf8.DecodeRuneInString(s) }`. `s` is non-empty. -/
def readChar (scanBytes : Bool) (s : List UInt8) : Int × Nat :=
  match s with
  | [] => (-1, 0)
  | b :: _ =>
    if scanBytes then ((b.toNat : Int), 1)
    else if b.toNat ≥ 0x80 then decodeRune s else ((b.toNat : Int), 1)

/-- All characters of `s` (what `for _, r := range s` / repeated reading yields), with widths. -/
def decodeAll (scanBytes : Bool) : Nat → List UInt8 → List (Int × Nat)
  | 0, _ => []
  | _ + 1, [] => []
  | fuel + 1, b :: rest =>
    let c := readChar scanBytes (b :: rest)
    c :: decodeAll scanBytes fuel ((b :: rest).drop c.2)

/-- The decoder handed to `LexTables.lexScan` (rune mode). -/
def decodeText (s : List UInt8) : List (Int × Nat) := decodeAll false s.length s

/-! ## Generated rune-class lookup -/

/-- `type mapRange struct { lo, hi rune; defaultVal uintN; val []uintN }`. -/
structure MapRange where
  lo : Int
  hi : Int
  defaultVal : Int
  vals : Array Int
deriving Repr, Inhabited

/-- The generated rune → class tables: `tmRuneClass` (`tmRuneClassLen = len`), `tmRuneRanges`
(present iff `LastMapEntry.Start > 2048`), and the constant `LastMapEntry.Target`. -/
structure ClassMap where
  runeClass : Array Int
  useMapRune : Bool
  ranges : Array MapRange
  lastTarget : Int
deriving Repr, Inhabited

/-- The loop of the generated `mapRune`. -/
def mapRuneLoop (m : ClassMap) (c : Int) : Nat → Nat → Nat → Int
  | 0, _, _ => m.lastTarget
  | fuel + 1, lo, hi =>
    if lo < hi then
      let mid := lo + (hi - lo) / 2
      match m.ranges[mid]? with
      | none => m.lastTarget
      | some r =>
        if c < r.lo then mapRuneLoop m c fuel lo mid
        else if c ≥ r.hi then mapRuneLoop m c fuel (mid + 1) hi
        else
          let i := (c - r.lo).toNat
          if i < r.vals.size then r.vals.getD i 0 else r.defaultVal
    else m.lastTarget

def mapRune (m : ClassMap) (c : Int) : Int := mapRuneLoop m c (m.ranges.size + 1) 0 m.ranges.size

/-- The class of a character `ch ≥ 0` in `Next`:
`if uint(l.ch) < tmRuneClassLen { tmRuneClass[l.ch] } else { mapRune(l.ch) | <LastMapEntry.Target> }`. -/
def classOf (m : ClassMap) (ch : Int) : Int :=
  if ch.toNat < m.runeClass.size then m.runeClass.getD ch.toNat 0
  else if m.useMapRune then mapRune m ch else m.lastTarget

/-! ## Keyword switch (`gen/funcs.go`) -/

def u32 : Nat := 4294967296

/-- `hash = hash*uint32(31) + uint32(c)`. -/
def hashStep (h : Nat) (c : Int) : Nat := (h * 31 + c.toNat) % u32

/-- The hash the generated lexer accumulates over the characters it consumed (runes, or bytes with
`scanBytes`), for the token text `s`. -/
def runtimeHash (scanBytes : Bool) (s : List UInt8) : Nat :=
  ((decodeAll scanBytes s.length s).map (·.1)).foldl hashStep 0

/-- `stringHash(s)`: `for _, r := range s { hash = hash*31 + uint32(r) }`; with `bytes` (the fixed
generator in byte mode) it ranges over the bytes. -/
def stringHash (bytes : Bool) (s : List UInt8) : Nat := runtimeHash bytes s

structure SwitchCase where
  hash : Nat
  str : List UInt8
  action : Int
deriving Repr, Inhabited, DecidableEq

structure HashCase where
  value : Nat
  subcases : List SwitchCase
deriving Repr, Inhabited

structure StringSwitch where
  size : Nat
  cases : List HashCase
deriving Repr, Inhabited

/-- `size := uint32(8); for int(size) < len(m) { size *= 2 }`. -/
def switchSizeLoop (n : Nat) : Nat → Nat → Nat
  | 0, size => size
  | fuel + 1, size => if size < n then switchSizeLoop n fuel (size * 2) else size

def switchSize (n : Nat) : Nat := switchSizeLoop n n 8

/-- Byte-wise lexicographic `<` of Go strings. -/
def strLt : List UInt8 → List UInt8 → Bool
  | [], [] => false
  | [], _ :: _ => true
  | _ :: _, [] => false
  | a :: as, b :: bs => if a < b then true else if b < a then false else strLt as bs

def insertBy {α : Type} (lt : α → α → Bool) (x : α) : List α → List α
  | [] => [x]
  | y :: ys => if lt x y then x :: y :: ys else y :: insertBy lt x ys

/-- `sort.Strings` / `sort.Slice` on keys that are pairwise different (insertion sort). -/
def sortBy {α : Type} (lt : α → α → Bool) (l : List α) : List α := l.foldr (insertBy lt) []

/-- `i, ok := index[rng]; if !ok { append a new case }; ret.Cases[i].Subcases = append(…)`. -/
def addSubcase (rng : Nat) (sc : SwitchCase) : List HashCase → List HashCase
  | [] => [⟨rng, [sc]⟩]
  | c :: cs => if c.value == rng then ⟨c.value, c.subcases ++ [sc]⟩ :: cs else c :: addSubcase rng sc cs

/-- `m[str]` of the Go map given as an association list. -/
def mapLookup (m : List (List UInt8 × Int)) (k : List UInt8) : Option Int :=
  (m.find? (·.1 == k)).map (·.2)

/-- `asStringSwitch(m)` with the hash function as a parameter. -/
def asStringSwitch (hashf : List UInt8 → Nat) (m : List (List UInt8 × Int)) : StringSwitch :=
  let size := switchSize m.length
  let list := sortBy strLt (m.map (·.1))
  let cases := list.foldl (fun cases str =>
    let hash := hashf str
    addSubcase (hash % size) ⟨hash, str, (mapLookup m str).getD 0⟩ cases) []
  ⟨size, sortBy (fun a b => decide (a.value < b.value)) cases⟩

/-- The generated code: `hh := hash & Mask; switch hh { case V: if hash == H && "str" == text {…; break} … }`. -/
def StringSwitch.lookup (sw : StringSwitch) (hash : Nat) (text : List UInt8) : Option Int :=
  let hh := hash &&& (sw.size - 1)
  match sw.cases.find? (·.value == hh) with
  | none => none
  | some c => (c.subcases.find? (fun s => s.hash == hash && s.str == text)).map (·.action)

/-! ## The lexer -/

/-- Deviations of the tree from the documented behaviour, as observed by the harness. -/
structure Variant where
  colFix : Bool
  hashFix : Bool
  skipFix : Bool
deriving Repr, Inhabited, DecidableEq

/-- The tree at the pinned commit. -/
def Variant.current : Variant := ⟨false, false, false⟩
/-- The tree after fixes/C11-column.diff, C11-bytes-hash.diff, C12-skipaction-line.diff. -/
def Variant.fixed : Variant := ⟨true, true, true⟩

structure Opts where
  tokenLine : Bool
  tokenLineOffset : Bool
  tokenColumn : Bool
  scanBytes : Bool
  skipBOM : Bool
deriving Repr, Inhabited, DecidableEq

/-- `or .Options.TokenLineOffset .Options.TokenColumn`. -/
def Opts.hasLineOffset (o : Opts) : Bool := o.tokenLineOffset || o.tokenColumn

/-- Everything the templates instantiate for one grammar. -/
structure Spec where
  t : Tables
  cm : ClassMap
  opts : Opts
  v : Variant
  /-- `len(StartConditions) > 1`: `tmStateMap[l.State]`, otherwise the constant `StateMap[0]`. -/
  multiState : Bool
  /-- `tmToken` (`Lexer.RuleToken`); `none`: rule ids were replaced by token ids. -/
  ruleToken : Option (Array Int)
  invalidToken : Int
  /-- `SpaceActions` (rule ids, or token ids when inlined). -/
  spaceActions : List Int
  /-- `Lexer.ClassActions`: action ↦ `Custom` (keyword text ↦ action). -/
  classActions : List (Int × List (List UInt8 × Int))
deriving Repr, Inhabited

/-- The hash function `asStringSwitch` is instantiated with for this grammar: `stringHash`
(over runes; over bytes for a byte-mode lexer once fixes/C11-bytes-hash.diff is applied). -/
def genHash (sp : Spec) : List UInt8 → Nat := stringHash (sp.v.hashFix && sp.opts.scanBytes)

/-- The generated `type Lexer struct`. -/
structure Lexer where
  source : List UInt8
  ch : Int
  offset : Nat
  scanOffset : Nat
  tokenOffset : Nat
  line : Int
  tokenLine : Int
  lineOffset : Int
  tokenColumn : Int
  state : Int
deriving Repr, Inhabited, DecidableEq

/-- Go `s[a:b]` (for `a ≤ b ≤ len(s)`). -/
def slice (s : List UInt8) (a b : Nat) : List UInt8 := (s.drop a).take (b - a)

/-- `strings.Count(s, "\n")`. -/
def countNL (s : List UInt8) : Nat := s.count 10

def lineStartAux : List UInt8 → Nat → Nat → Nat
  | [], _, acc => acc
  | b :: rest, pos, acc => lineStartAux rest (pos + 1) (if b = 10 then pos + 1 else acc)

/-- `1 + strings.LastIndexByte(s[:off], '\n')`. -/
def lineStart (s : List UInt8) (off : Nat) : Nat := lineStartAux (s.take off) 0 0

/-- The block "Scan the next character" (in `Next` and `rewind`), entered with
`l.scanOffset = l.offset`. -/
def readCh (o : Opts) (l : Lexer) : Lexer :=
  match l.source.drop l.offset with
  | [] => { l with ch := -1 }
  | b :: rest =>
    let c := readChar o.scanBytes (b :: rest)
    { l with ch := c.1, scanOffset := l.scanOffset + c.2 }

/-- `func (l *Lexer) rewind(offset int)`. -/
def rewind (o : Opts) (v : Variant) (l : Lexer) (offset : Nat) : Lexer :=
  let len := l.source.length
  let clamp (x : Nat) : Nat := if x > len then len else x
  let (offset, line) :=
    if o.tokenLine then
      if offset < l.offset then (offset, l.line - (countNL (slice l.source offset l.offset) : Int))
      else (clamp offset, l.line + (countNL (slice l.source l.offset (clamp offset)) : Int))
    else ((if v.colFix && o.hasLineOffset then clamp offset else offset), l.line)
  let lineOffset : Int :=
    if o.hasLineOffset && (o.tokenLine || v.colFix) then (lineStart l.source offset : Int) else l.lineOffset
  readCh o { l with line := line, lineOffset := lineOffset, scanOffset := offset, offset := offset }

def bom : List UInt8 := [0xEF, 0xBB, 0xBF]

/-- Offset of the first token: after the byte-order mark
(`if strings.HasPrefix(source, bomSeq) { l.offset += len(bomSeq) }`, with `skipByteOrderMark`). -/
def startOffset (o : Opts) (src : List UInt8) : Nat := if o.skipBOM && src.take 3 == bom then 3 else 0

/-- The fields `Init` assigns before it calls `rewind`. -/
def initLexer (source : List UInt8) (off : Nat) : Lexer :=
  { source := source, ch := 0, offset := off, scanOffset := 0, tokenOffset := 0,
    line := 1, tokenLine := 1, lineOffset := 0, tokenColumn := 1, state := 0 }

/-- `func (l *Lexer) Init(source string)`: reset, skip the BOM, `l.rewind(l.offset)`. -/
def init (o : Opts) (v : Variant) (source : List UInt8) : Lexer :=
  rewind o v (initLexer source (startOffset o source)) (startOffset o source)

/-- The newline bookkeeping in the loop of `Next`, before the character is consumed. -/
def newlineBook (o : Opts) (v : Variant) (l : Lexer) : Lexer :=
  if l.ch = 10 then
    if v.colFix then
      { l with line := if o.tokenLine then l.line + 1 else l.line,
               lineOffset := if o.hasLineOffset then (l.scanOffset : Int) else l.lineOffset }
    else if o.tokenLine then
      { l with line := l.line + 1,
               lineOffset := if o.hasLineOffset then (l.offset : Int) else l.lineOffset }
    else l
  else l

/-- Consuming the current character: newline bookkeeping, `l.offset = l.scanOffset`, read. -/
def consume (o : Opts) (v : Variant) (l : Lexer) : Lexer :=
  let l := newlineBook o v l
  readCh o { l with offset := l.scanOffset }

/-- Loop-local variables of `Next`. -/
structure Scan where
  state : Int
  hash : Nat
  backup : Int
  backupOffset : Nat
  backupHash : Nat
deriving Repr, Inhabited, DecidableEq

/-- `state = (-1 - state) * 2; backupX = tmBacktracking[state]; backupOffset = l.offset;
backupHash = hash; state = tmBacktracking[state+1]`. -/
def takeCheckpoint (t : Tables) (s : Scan) (l : Lexer) (st : Int) : Option Scan :=
  (getI t.backtrack (-1 - st)).map fun bt =>
    { s with state := bt.nextState, backup := bt.action, backupOffset := l.offset, backupHash := s.hash }

/-- `for state >= 0 { … }`. -/
def loop (sp : Spec) : Nat → Scan → Lexer → Option (Scan × Lexer)
  | 0, _, _ => none
  | fuel + 1, s, l =>
    if s.state < 0 then some (s, l)
    else if l.ch < 0 then
      match getI sp.t.dfa (s.state * sp.t.numSymbols) with
      | none => none
      | some st =>
        if st > actionStart sp.t ∧ st < 0 then
          match takeCheckpoint sp.t s l st with
          | none => none
          | some s' => loop sp fuel s' l
        else loop sp fuel { s with state := st } l
    else
      match getI sp.t.dfa (s.state * sp.t.numSymbols + classOf sp.cm l.ch) with
      | none => none
      | some st =>
        if st > actionStart sp.t then
          let s1 := if st < 0 then takeCheckpoint sp.t s l st else some { s with state := st }
          match s1 with
          | none => none
          | some s1 =>
            loop sp fuel { s1 with hash := hashStep s1.hash l.ch } (consume sp.opts sp.v l)
        else loop sp fuel { s with state := st } l

/-- `l.source[l.tokenOffset:l.offset]`. -/
def Lexer.text (l : Lexer) : List UInt8 := slice l.source l.tokenOffset l.offset

/-- `switch rule { case A: hh := hash & mask; switch hh { … } }`. -/
def classSwitch (sp : Spec) (act : Int) (hash : Nat) (text : List UInt8) : Int :=
  match sp.classActions.find? (·.1 == act) with
  | none => act
  | some (_, m) => ((asStringSwitch (genHash sp) m).lookup hash text).getD act

/-- `tok := tmToken[rule]`, or the action itself when rule ids are inlined. -/
def tokenOf (sp : Spec) (act : Int) : Option Int :=
  match sp.ruleToken with
  | none => some act
  | some rt => getI rt act

/-- `rule == 0` / `tok == InvalidToken`. -/
def isInvalid (sp : Spec) (act : Int) : Bool :=
  match sp.ruleToken with
  | none => act == sp.invalidToken
  | some _ => act == 0

inductive Outcome where
  | restart (l : Lexer)
  | token (tok : Int) (l : Lexer)
deriving Repr, Inhabited

/-- From the label `recovered:` to `return tok` (`goto recovered` = recursive call). -/
def finish (sp : Spec) : Nat → Int → Scan → Lexer → Option Outcome
  | 0, _, _, _ => none
  | fuel + 1, act, s, l =>
    let act := classSwitch sp act s.hash l.text
    match tokenOf sp act with
    | none => none
    | some tok =>
      if isInvalid sp act then
        -- handleInvalidToken
        if s.backup ≥ 0 then
          let l := rewind sp.opts sp.v l s.backupOffset
          let s := { s with hash := s.backupHash }
          if !isInvalid sp s.backup then finish sp fuel s.backup s l
          else some (.token tok l)
        else if l.offset = l.tokenOffset then
          let tok := if l.ch = -1 then 0 else tok
          some (.token tok (rewind sp.opts sp.v l l.scanOffset))
        else some (.token tok l)
      else if sp.spaceActions.contains act then some (.restart l)
      else some (.token tok l)

/-- `state := tmStateMap[l.State]` / the constant. -/
def startState (sp : Spec) (l : Lexer) : Option Int :=
  if sp.multiState then getI sp.t.stateMap l.state else getI sp.t.stateMap 0

/-- The head of `Next` (label `restart:`). -/
def beginToken (o : Opts) (l : Lexer) : Lexer :=
  { l with tokenLine := if o.tokenLine then l.line else l.tokenLine,
           tokenColumn := if o.tokenColumn then (l.offset : Int) - l.lineOffset + 1 else l.tokenColumn,
           tokenOffset := l.offset }

def loopFuel (sp : Spec) (l : Lexer) : Nat := (l.source.length - l.offset) + numStates sp.t + 4

/-- One pass from `restart:` to `goto restart` / `return tok`. -/
def nextOnce (sp : Spec) (l : Lexer) : Option Outcome :=
  let l := beginToken sp.opts l
  match startState sp l with
  | none => none
  | some st =>
    match loop sp (loopFuel sp l) ⟨st, 0, -1, 0, 0⟩ l with
    | none => none
    | some (s, l) => finish sp 2 (actionStart sp.t - s.state) s l

def nextLoop (sp : Spec) : Nat → Lexer → Option (Int × Lexer)
  | 0, _ => none
  | fuel + 1, l =>
    match nextOnce sp l with
    | none => none
    | some (.restart l) => nextLoop sp fuel l
    | some (.token tok l) => some (tok, l)

/-- `func (l *Lexer) Next() token.Type`: the token and the new lexer state. -/
def next (sp : Spec) (l : Lexer) : Option (Int × Lexer) :=
  nextLoop sp (l.source.length - l.offset + 2) l

/-- What the harness observes after a call of `Next`: `tok, Pos(), Line(), Column()`. -/
structure Tok where
  tok : Int
  start : Nat
  stop : Nat
  line : Int
  col : Int
deriving Repr, Inhabited, DecidableEq

def observe (tok : Int) (l : Lexer) : Tok := ⟨tok, l.tokenOffset, l.offset, l.tokenLine, l.tokenColumn⟩

/-- Calls `Next` until EOI (token 0) or `n` tokens; `none` = panic. -/
def tokenize (sp : Spec) : Nat → Lexer → Option (List Tok)
  | 0, _ => some []
  | n + 1, l =>
    match next sp l with
    | none => none
    | some (tok, l) =>
      if tok = 0 then some [observe tok l]
      else (tokenize sp n l).map (observe tok l :: ·)

/-! ## Specification level: tokenization in terms of `Tables.Scan` -/

/-- The action value that means "no match": rule 0, or the `invalid_token` id when rule ids were
replaced by token ids (`compiler/lexer.go: canInlineRules`). -/
def invalidAct (sp : Spec) : Int :=
  match sp.ruleToken with
  | none => sp.invalidToken
  | some _ => 0

/-- `LexTables.scanLoop` (the body of `lex.Tables.Scan`) with the "no match" action as a parameter:
`inv = 0` is `Tables.Scan` itself (`scanLoopG_zero`); inlined tables use `inv = invalid_token`. -/
def scanLoopG (t : Tables) (inv : Int) : List (Int × Nat) → Nat → Int → Nat → Int → Option (Nat × Int)
  | [], index, state, size, action =>
    match getI t.dfa (state * t.numSymbols) with
    | none => none
    | some st =>
      if actionStart t - inv = st ∧ size > 0 then some (size, action)
      else some (index, actionStart t - st)
  | (r, w) :: rest, index, state, size, action =>
    let start := index
    let index := index + w
    match symOf t r with
    | none => none
    | some ch =>
      match getI t.dfa (state * t.numSymbols + ch) with
      | none => none
      | some st =>
        if st < 0 then
          if st > actionStart t then
            match getI t.backtrack (-1 - st) with
            | none => none
            | some bt => scanLoopG t inv rest index bt.nextState start bt.action
          else if actionStart t - inv = st ∧ size > 0 then some (size, action)
          else some (start, actionStart t - st)
        else scanLoopG t inv rest index st size action

/-- `Tables.Scan(start, text)` generalised in the "no match" action. -/
def scanG (t : Tables) (inv : Int) (scanBytes : Bool) (start : Int) (text : List UInt8) : Option (Nat × Int) :=
  match getI t.stateMap start with
  | none => none
  | some st => scanLoopG t inv (decodeAll scanBytes text.length text) 0 st 0 0

/-- The start condition index `Next` scans with. -/
def startIndex (sp : Spec) (state : Int) : Int := if sp.multiState then state else 0

/-- Keyword specialisation of a `(class)` rule by the matched TEXT (no hashing). -/
def classSpec (sp : Spec) (act : Int) (text : List UInt8) : Int :=
  match sp.classActions.find? (·.1 == act) with
  | none => act
  | some (_, m) => (mapLookup m text).getD act

inductive SpecOutcome where
  | restart (off : Nat)
  | token (tok : Int) (start stop : Nat)
deriving Repr, Inhabited, DecidableEq

/-- What one pass of `Next` must do at offset `off` in start condition `state`:
scan; no match → `invalid_token` over the scanned prefix, over ONE character when the prefix is
empty, EOI at the end of the input; a match → the keyword of a class rule, space rules restart. -/
def specOnce (sp : Spec) (src : List UInt8) (state : Int) (off : Nat) : Option SpecOutcome :=
  match scanG sp.t (invalidAct sp) sp.opts.scanBytes (startIndex sp state) (src.drop off) with
  | none => none
  | some (size, act) =>
    if isInvalid sp act then
      match tokenOf sp act with
      | none => none
      | some tok =>
        if size = 0 then
          match src.drop off with
          | [] => some (.token 0 off off)
          | b :: rest => some (.token tok off (off + (readChar sp.opts.scanBytes (b :: rest)).2))
        else some (.token tok off (off + size))
    else
      let act := classSpec sp act (slice src off (off + size))
      match tokenOf sp act with
      | none => none
      | some tok =>
        if sp.spaceActions.contains act then some (.restart (off + size))
        else some (.token tok off (off + size))

def specNextLoop (sp : Spec) (src : List UInt8) (state : Int) : Nat → Nat → Option (Int × Nat × Nat)
  | 0, _ => none
  | fuel + 1, off =>
    match specOnce sp src state off with
    | none => none
    | some (.restart off') => specNextLoop sp src state fuel off'
    | some (.token tok a b) => some (tok, a, b)

/-- The token `Next` must return when called at offset `off`: `(tok, start, end)`. -/
def specNext (sp : Spec) (src : List UInt8) (state : Int) (off : Nat) : Option (Int × Nat × Nat) :=
  specNextLoop sp src state (src.length - off + 2) off

/-- Documented positions of a token starting at `start`: line `1 + #newlines before`, column
`bytes since the last newline + 1`. -/
def specTok (sp : Spec) (src : List UInt8) (tok : Int) (a b : Nat) : Tok :=
  ⟨tok, a, b, if sp.opts.tokenLine then 1 + (countNL (src.take a) : Int) else 1,
   if sp.opts.tokenColumn then (a : Int) - (lineStart src a : Int) + 1 else 1⟩

/-- The documented token sequence of a whole input (until EOI or `n` tokens). -/
def specTokenize (sp : Spec) (src : List UInt8) (state : Int) : Nat → Nat → Option (List Tok)
  | 0, _ => some []
  | n + 1, off =>
    match specNext sp src state off with
    | none => none
    | some (tok, a, b) =>
      if tok = 0 then some [specTok sp src tok a b]
      else (specTokenize sp src state n b).map (specTok sp src tok a b :: ·)

/-! ## Decidable well-formedness (`TablesWF`) -/

/-- Following the EOI column from `state` (checkpoints included) reaches a final action within
`fuel` steps: the action reached. -/
def eoiChain (t : Tables) : Nat → Int → Option Int
  | 0, _ => none
  | fuel + 1, state =>
    match getI t.dfa (state * t.numSymbols) with
    | none => none
    | some st =>
      if st ≤ actionStart t then some (actionStart t - st)
      else if st < 0 then
        match getI t.backtrack (-1 - st) with
        | none => none
        | some bt => eoiChain t fuel bt.nextState
      else eoiChain t fuel st

/-- An action value the tables can deliver is usable: in range of `tmToken`, and its token is not EOI
unless the rule is a space rule or has hand-written code (`exempt`). -/
def actOk (sp : Spec) (exempt : List Int) (a : Int) : Bool :=
  decide (0 ≤ a) && !isInvalid sp a &&
  match tokenOf sp a with
  | none => false
  | some tok => tok != 0 || sp.spaceActions.contains a || exempt.contains a

def startStates (sp : Spec) : List Int :=
  if sp.multiState then sp.t.stateMap.toList else (sp.t.stateMap.toList.take 1)

/-- `eoiChain` that refuses checkpoints (used for start states: a checkpoint taken before any
character is consumed would restore an empty token). -/
def eoiChainNC (t : Tables) : Nat → Int → Option Int
  | 0, _ => none
  | fuel + 1, state =>
    match getI t.dfa (state * t.numSymbols) with
    | none => none
    | some st =>
      if st ≤ actionStart t then some (actionStart t - st)
      else if st < 0 then none
      else eoiChainNC t fuel st

/-- Row of a start state: every entry is a transition or "no match" (no checkpoint, no accepting
action before a character is consumed), and at the end of the input the EOI column leads to
"no match" (or to a rule with hand-written code). -/
def startRowOk (sp : Spec) (exempt : List Int) (s : Int) : Bool :=
  let ns := sp.t.numSymbols.toNat
  let inv := actionStart sp.t - invalidAct sp
  ((List.range ns).all fun c =>
    match getI sp.t.dfa (s * sp.t.numSymbols + c) with
      | none => false
      | some e => decide (0 ≤ e) || e == inv) &&
  (match eoiChainNC sp.t (numStates sp.t + 1) s with
   | none => false
   | some a => a == invalidAct sp || exempt.contains a)

def classMapInRange (cm : ClassMap) (ns : Int) : Bool :=
  let ok := fun (x : Int) => decide (0 ≤ x) && decide (x < ns)
  cm.runeClass.all ok && ok cm.lastTarget &&
  cm.ranges.all fun r => ok r.defaultVal && r.vals.all ok

def keysNodup : List (List UInt8 × Int) → Bool
  | [] => true
  | (k, _) :: rest => !(rest.any (·.1 == k)) && keysNodup rest

/-- `TablesWF`: decidable, evaluated by the drivers on every real table (all five shipped lexers and
every generated one). `exempt` = rule ids whose hand-written code is outside the table model. -/
def tablesWF (sp : Spec) (exempt : List Int) : Bool :=
  sp.t.wf &&
  decide (sp.t.dfa.size = numStates sp.t * sp.t.numSymbols.toNat) &&
  decide (sp.t.scanBytes = sp.opts.scanBytes) &&
  decide (0 ≤ invalidAct sp) && (tokenOf sp (invalidAct sp)).any (· != 0) &&
  classMapInRange sp.cm sp.t.numSymbols &&
  -- every final action in the table is usable
  sp.t.dfa.all (fun e => decide (e > actionStart sp.t) || e == actionStart sp.t - invalidAct sp ||
    actOk sp exempt (actionStart sp.t - e)) &&
  sp.t.backtrack.all (fun bt => actOk sp exempt bt.action) &&
  (startStates sp).all (startRowOk sp exempt) && !(startStates sp).isEmpty &&
  (List.range (numStates sp.t)).all (fun s => (eoiChain sp.t (numStates sp.t + 1) s).isSome) &&
  !sp.spaceActions.contains (invalidAct sp) &&
  sp.classActions.all (fun (a, m) => !isInvalid sp a && keysNodup m && m.all fun (_, x) => actOk sp exempt x)

/-- The symbol lookup of `Tables.Scan` and the generated class lookup agree on `[0, n)`. -/
def classMapOkUpTo (sp : Spec) (n : Nat) : Bool :=
  (List.range n).all fun r => symOf sp.t (r : Int) == some (classOf sp.cm (r : Int))

/-- No `{eoi}` transitions: the EOI column holds final actions only (then `Tables.Scan`'s single EOI
step is the whole story). -/
def eoiFinal (t : Tables) : Bool :=
  (List.range (numStates t)).all fun s =>
    match getI t.dfa ((s : Int) * t.numSymbols) with
    | none => false
    | some e => decide (e ≤ actionStart t)

/-! ## `parsers/tm/lexer_actions.go: skipAction` -/

/-- `strings.Index(s, pat)` for a non-empty `pat`. -/
def indexOf (pat : List UInt8) : List UInt8 → Option Nat
  | [] => none
  | b :: rest =>
    if pat.isPrefixOf (b :: rest) then some 0 else (indexOf pat rest).map (· + 1)

/-- `case '\n': l.line++` (the fixed code also sets `l.lineOffset = l.scanOffset`). -/
def skipNewline (v : Variant) (l : Lexer) : Lexer :=
  if v.skipFix then { l with line := l.line + 1, lineOffset := (l.scanOffset : Int) }
  else { l with line := l.line + 1 }

/-- The code after the `switch` (label `next:`), with `skipNext` already decided. -/
def skipAdvance (o : Opts) (v : Variant) (skipNext : Bool) (l : Lexer) : Lexer :=
  let l := { l with offset := l.scanOffset }
  if l.offset < l.source.length then
    let l := readCh o l
    if skipNext then
      let l := if v.skipFix && l.ch = 10 then skipNewline v l else l
      readCh o { l with offset := l.scanOffset }
    else l
  else { l with ch := -1 }

/-- `func (l *Lexer) skipAction() bool`: loop state `open`, `openQuote`. -/
def skipLoop (o : Opts) (v : Variant) : Nat → Int → Int → Lexer → Option (Bool × Lexer)
  | 0, _, _, _ => none
  | fuel + 1, opn, quote, l =>
    if opn ≤ 0 then some (true, l)
    else if l.ch = -1 then some (false, l)
    else if l.ch = 123 then skipLoop o v fuel (if quote = 0 then opn + 1 else opn) quote (skipAdvance o v false l)
    else if l.ch = 125 then skipLoop o v fuel (if quote = 0 then opn - 1 else opn) quote (skipAdvance o v false l)
    else if l.ch = 39 ∨ l.ch = 34 then
      skipLoop o v fuel opn (if quote = 0 then l.ch else if l.ch = quote then 0 else quote) (skipAdvance o v false l)
    else if l.ch = 92 then skipLoop o v fuel opn quote (skipAdvance o v (quote != 0) l)
    else if l.ch = 47 then
      if quote ≠ 0 ∨ l.scanOffset ≥ l.source.length then skipLoop o v fuel opn quote (skipAdvance o v false l)
      else
        match l.source.drop l.scanOffset with
        | 42 :: rest =>
          match indexOf [42, 47] rest with
          | some e => skipLoop o v fuel opn quote (rewind o v l (e + l.scanOffset + 3))
          | none => skipLoop o v fuel opn quote (skipAdvance o v false l)
        | 47 :: rest =>
          match indexOf [10] rest with
          | some e => skipLoop o v fuel opn quote (rewind o v l (e + l.scanOffset + 2))
          | none => skipLoop o v fuel opn quote (skipAdvance o v false l)
        | _ => skipLoop o v fuel opn quote (skipAdvance o v false l)
    else if l.ch = 10 then skipLoop o v fuel opn quote (skipAdvance o v false (skipNewline v l))
    else skipLoop o v fuel opn quote (skipAdvance o v false l)

/-- The options of `parsers/tm` (`tokenColumn = true`, rune mode). -/
def tmOpts : Opts := ⟨true, false, true, false, true⟩

/-- `l.skipAction()` entered with `open = 1`. -/
def skipAction (v : Variant) (l : Lexer) : Option (Bool × Lexer) :=
  skipLoop tmOpts v (l.source.length - l.offset + 2) 1 0 l

end TmVerif.LexRun
