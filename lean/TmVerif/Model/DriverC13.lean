import TmVerif.Model.ExpandEval
/-!
C13 line protocol.

* `struct <ext 4> :: <real grammar 6> <pinned> <alphabet> <L>` — STRUCTURAL tie: the rules the REAL
  compiler produced (mid-rule action nonterminals erased by the harness) against the rules of the Lean
  mirror `plainRules`, both in the canonical form `canon` (up to renaming of the non-user nonterminals
  and rule order). Answer `ok` / `mismatch …` / `notwf`.
* `sem <ext 4> <alphabet> <L>` — SEMANTIC search: for every user nonterminal the membership bitmap
  of all strings over `alphabet` up to length `L` in the DENOTATION of the extended notation
  (independent of the mirror); the harness computes the same bitmap by brute-force derivability in the
  real expanded rules.
* `mem <ext 4> <user> <string>` — one (longer) string.
* `judge …` — decides whether a disagreement is a violation of the property itself: a concrete
  (grammar, nonterminal, string) on which denotation and real rules differ.
-/
namespace TmVerif.DriverC13
open TmVerif.Proto TmVerif.Expand TmVerif.CFG

def splitAt (toks : List String) : List String × List String :=
  (toks.takeWhile (· ≠ "::"), (toks.dropWhile (· ≠ "::")).drop 1)

def showWord (w : List Nat) : String := showNats w

/-- first string up to length L on which the denotation of `g` and the plain grammar `real` differ -/
def firstDiff (g : ExtGrammar) (real : Grammar) (pinned : List Nat) (alphabet : List Nat) (L : Nat) :
    Option String :=
  let rg := plainAsExt real.nTerms (real.nSyms - real.nTerms) real.rules.toList
  (allStrings alphabet L).findSome? fun w =>
    let d := members g w
    let r := members rg w
    (List.range g.user.length).findSome? fun u =>
      let dv := d.getD u false
      let rv := r.getD ((pinned.getD u 0) - real.nTerms) false
      if dv != rv then
        some s!"nonterminal {g.cx.userNames.getD u "?"} string {showWord w}: denotation={showBool dv} expanded-rules={showBool rv}"
      else none

def handleCase (tagged : Bool) (args : List String) : Option String :=
  match args with
  | "struct" :: rest =>
    let (ext, real) := splitAt rest
    match real with
    | [a, b, c, d, e, f, pinned, _alphabet, _l] => do
      let g ← parseExt ext
      let rg ← parseGrammar [a, b, c, d, e, f]
      let pinned ← parseNats pinned
      -- the hypotheses of `C13_expand_preserves_sentences_partial` (cases of the known empty-set class
      -- are tagged by the harness and only compared)
      if !wfGrammar g || (!tagged && !setsOkB g.cx) then some "notwf" else
      let cm := canon g.cx.nT (plainRules g) ((List.range g.user.length).map (g.cx.nT + ·))
      let cr := canon rg.nTerms rg.rules.toList pinned
      if cm == cr then some "ok" else some s!"mismatch mirror=[{cm}] real=[{cr}]"
    | _ => none
  | "sem" :: rest =>
    match rest with
    | [a, b, c, d, alphabet, l] => do
      let g ← parseExt [a, b, c, d]
      let alphabet ← parseNats alphabet
      let l ← parseNat? l
      some (";".intercalate (bitmaps g alphabet l))
    | _ => none
  | "mem" :: rest =>
    match rest with
    | [a, b, c, d, u, w] => do
      let g ← parseExt [a, b, c, d]
      let u ← parseNat? u
      let w ← parseNats w
      some (showBool (member g u w))
    | _ => none
  | _ => none

/-- index of the first differing bit of two hex bitmaps -/
def firstBitDiff (a b : String) : Option Nat :=
  let bits (s : String) : List Bool := s.toList.flatMap fun c =>
    let v := (hexDigit? c).getD 0
    [v / 8 % 2 == 1, v / 4 % 2 == 1, v / 2 % 2 == 1, v % 2 == 1]
  let (x, y) := (bits a, bits b)
  (List.range (max x.length y.length)).find? fun i => x.getD i false != y.getD i false

def judge (goAns : List String) (case : List String) : Option String :=
  match case with
  | "struct" :: rest =>
    let (ext, real) := splitAt rest
    match real with
    | [a, b, c, d, e, f, pinned, alphabet, l] => do
      let g ← parseExt ext
      let rg ← parseGrammar [a, b, c, d, e, f]
      let pinned ← parseNats pinned
      let alphabet ← parseNats alphabet
      let l ← parseNat? l
      -- a rule-level mismatch is followed by a string search in both directions, deeper than the
      -- `sem` enumeration of the same grammar
      let l := if alphabet.length ≤ 2 then l + 2 else l + 1
      match firstDiff g rg pinned alphabet l with
      | some d => some s!"violates: {d}"
      | none => some "holds"
    | _ => none
  | "sem" :: rest =>
    match rest, goAns with
    | [a, b, c, d, alphabet, l], [ga] => do
      let g ← parseExt [a, b, c, d]
      let alphabet ← parseNats alphabet
      let l ← parseNat? l
      let mine := bitmaps g alphabet l
      let theirs := ga.splitOn ";"
      let strs := allStrings alphabet l
      let diff := (List.range g.user.length).findSome? fun u =>
        match firstBitDiff (mine.getD u "") (theirs.getD u "") with
        | some i =>
          let w := strs.getD i []
          let dv := member g u w
          some s!"nonterminal {g.cx.userNames.getD u "?"} string {showWord w}: denotation={showBool dv} expanded-rules={showBool (!dv)}"
        | none => none
      match diff with
      | some d => some s!"violates: {d}"
      | none => some "holds"
    | _, _ => none
  | "mem" :: rest =>
    match rest, goAns with
    | [a, b, c, d, u, w], [ga] => do
      let g ← parseExt [a, b, c, d]
      let u ← parseNat? u
      let w ← parseNats w
      let dv := member g u w
      if showBool dv == ga then some "holds"
      else some s!"violates: nonterminal {g.cx.userNames.getD u "?"} string {showWord w}: denotation={showBool dv} expanded-rules={ga}"
    | _, _ => none
  | _ => none

def handle (args : List String) : Option String :=
  -- tokens starting with `#` are tags for the known-findings matcher, not part of the case
  let tagged := args.any (fun t => t.startsWith "#[C13-empty-set]")
  let args := args.filter (fun t => !t.startsWith "#")
  match args with
  | "judge" :: rest =>
    -- `judge <go answer…> :: <case…>`; the first `::` ends the go answer
    let (goAns, case) := splitAt rest
    judge goAns case
  | _ => handleCase tagged args

end TmVerif.DriverC13
