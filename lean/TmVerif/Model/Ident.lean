/-
Model of /repo/util/ident/id.go `Produce` (Mode M: hand mirror), of the name spellings the tm lexer
admits (`ID`, `quoted_id`, `scon` patterns of /repo/parsers/tm/textmapper.tm) and of the duplicate-ID
detection in /repo/compiler/resolver.go (`addToken`, `addNonterms`) + /repo/compiler/syntax.go
(`collectNonterms`).

Representation. A Go `string` is a byte string: `List Nat` (every element < 256 on real inputs; the
functions are total on all naturals). `Produce` mixes byte indexing (`len(name)`, `name[i-1]`,
`name[i+1]`, `name[1:ln-1]`) with rune iteration (`for i, r := range name`), so the model keeps both:
`runes` mirrors Go's UTF-8 decoding of `range` over a string (invalid bytes → U+FFFD, width 1).
Runes and output characters are code points (`Nat`). The output of `Produce` is pure ASCII (proved in
Props/C28), which is why one ASCII identifier class is the conjunction of the Go, C++ and TypeScript
identifier rules.

Go `unicode.*` calls and how they are mirrored (only as the code uses them):
* `unicode.IsUpper(r)`, `unicode.ToLower(r)`, `unicode.ToUpper(r)` on `r` are guarded by
  `r ∈ [a-zA-Z0-9]`, so ASCII tables are exact;
* `unicode.IsUpper(rune(name[i±1]))` is applied to a *byte* (0..255) read as a Latin-1 code point:
  upper-case there is `A-Z`, `À-Ö` (C0–D6), `Ø-Þ` (D8–DE) — `isUpperLatin1`;
* `strings.ToUpper` is applied to table words / `x%02x` / `u%06x` words only (ASCII).
* `strings.ContainsFunc(id, unicode.IsLower)` (compiler/lexer.go, explicit lexeme IDs) is applied to an
  `identifier` token, which is ASCII by the `ID` pattern; `lexemeId` mirrors it on ASCII only.
-/
namespace TmVerif.Ident

inductive Style where
  | camelCase        -- FooBar
  | camelLower       -- fooBar
  | upperCase        -- FOOBAR
  | upperUnderscores -- FOO_BAR
  deriving DecidableEq, Repr

/-- A Go string (bytes) / an identifier (ASCII code points). -/
abbrev Str := List Nat

def cs (l : List Char) : Str := l.map Char.toNat

/-- `charName`: the default names of non-letter ASCII symbols (id.go). -/
def charNameTable : List (Nat × Str) := [
  (0x09, cs ['t','a','b']),
  (0x0a, cs ['l','f']),
  (0x0d, cs ['c','r']),
  (0x20, cs ['s','p','a','c','e']),
  (0x21, cs ['e','x','c','l']),
  (0x22, cs ['q','u','o','t','e']),
  (0x23, cs ['s','h','a','r','p']),
  (0x24, cs ['d','o','l','l','a','r']),
  (0x25, cs ['r','e','m']),
  (0x26, cs ['a','n','d']),
  (0x27, cs ['a','p','o','s']),
  (0x28, cs ['l','p','a','r','e','n']),
  (0x29, cs ['r','p','a','r','e','n']),
  (0x2a, cs ['m','u','l','t']),
  (0x2b, cs ['p','l','u','s']),
  (0x2c, cs ['c','o','m','m','a']),
  (0x2d, cs ['m','i','n','u','s']),
  (0x2e, cs ['d','o','t']),
  (0x2f, cs ['d','i','v']),
  (0x3a, cs ['c','o','l','o','n']),
  (0x3b, cs ['s','e','m','i','c','o','l','o','n']),
  (0x3c, cs ['l','t']),
  (0x3d, cs ['a','s','s','i','g','n']),
  (0x3e, cs ['g','t']),
  (0x3f, cs ['q','u','e','s','t']),
  (0x40, cs ['a','t','s','i','g','n']),
  (0x5b, cs ['l','b','r','a','c','k']),
  (0x5c, cs ['e','s','c']),
  (0x5d, cs ['r','b','r','a','c','k']),
  (0x5e, cs ['x','o','r']),
  (0x60, cs ['b','q','u','o','t','e']),
  (0x7b, cs ['l','b','r','a','c','e']),
  (0x7c, cs ['o','r']),
  (0x7d, cs ['r','b','r','a','c','e']),
  (0x7e, cs ['t','i','l','d','e'])]

def charName (r : Nat) : Option Str := charNameTable.lookup r

/-! ### character classes (ASCII) -/

def isLowerA (r : Nat) : Bool := decide (97 ≤ r ∧ r ≤ 122)
def isUpperA (r : Nat) : Bool := decide (65 ≤ r ∧ r ≤ 90)
def isDigitA (r : Nat) : Bool := decide (48 ≤ r ∧ r ≤ 57)
/-- `r >= 'a' && r <= 'z' || r >= 'A' && r <= 'Z' || r >= '0' && r <= '9'` -/
def isAlnum (r : Nat) : Bool := isLowerA r || isUpperA r || isDigitA r
/-- `unicode.IsUpper(rune(b))` for a byte `b`. -/
def isUpperLatin1 (b : Nat) : Bool :=
  isUpperA b || decide (0xC0 ≤ b ∧ b ≤ 0xD6) || decide (0xD8 ≤ b ∧ b ≤ 0xDE)
def toUpperA (r : Nat) : Nat := if 97 ≤ r ∧ r ≤ 122 then r - 32 else r
def toLowerA (r : Nat) : Nat := if 65 ≤ r ∧ r ≤ 90 then r + 32 else r

/-! ### UTF-8 decoding as done by Go's `range` over a string / `utf8.DecodeRuneInString` -/

def runeError : Nat := 0xFFFD
def isContB (b : Nat) : Bool := decide (0x80 ≤ b ∧ b ≤ 0xBF)

/-- `(rune, width)` of the first rune of a non-empty byte string; `(RuneError, 0)` on the empty one.
Overlong forms, surrogates, values above U+10FFFF and truncated sequences give `(RuneError, 1)`
(`first`/`acceptRanges` tables of unicode/utf8). -/
def decodeRune : Str → Nat × Nat
  | [] => (runeError, 0)
  | p0 :: rest =>
    if p0 < 0x80 then (p0, 1)
    else if p0 < 0xC2 ∨ 0xF4 < p0 then (runeError, 1)
    else if p0 < 0xE0 then
      match rest with
      | b1 :: _ => if isContB b1 then (p0 % 32 * 64 + b1 % 64, 2) else (runeError, 1)
      | _ => (runeError, 1)
    else
      let lo := if p0 = 0xE0 then 0xA0 else if p0 = 0xF0 then 0x90 else 0x80
      let hi := if p0 = 0xED then 0x9F else if p0 = 0xF4 then 0x8F else 0xBF
      if p0 < 0xF0 then
        match rest with
        | b1 :: b2 :: _ =>
          if lo ≤ b1 ∧ b1 ≤ hi ∧ isContB b2 then (p0 % 16 * 4096 + b1 % 64 * 64 + b2 % 64, 3)
          else (runeError, 1)
        | _ => (runeError, 1)
      else
        match rest with
        | b1 :: b2 :: b3 :: _ =>
          if lo ≤ b1 ∧ b1 ≤ hi ∧ isContB b2 ∧ isContB b3 then
            (p0 % 8 * 262144 + b1 % 64 * 4096 + b2 % 64 * 64 + b3 % 64, 4)
          else (runeError, 1)
        | _ => (runeError, 1)

/-- `for i, r := range s`: the list of `(r, i)` (rune, byte index), starting at index `i`. -/
def runesAux : Nat → Nat → Str → List (Nat × Nat)
  | 0, _, _ => []
  | _ + 1, _, [] => []
  | fuel + 1, i, b :: bs =>
    let d := decodeRune (b :: bs)
    (d.1, i) :: runesAux fuel (i + d.2) ((b :: bs).drop d.2)

def runes (s : Str) : List (Nat × Nat) := runesAux s.length 0 s

/-! ### `Produce` -/

def hexDigit (n : Nat) : Nat := if n < 10 then 48 + n else 87 + n

/-- `charName[r]`, else `fmt.Sprintf("x%02x", r)` for `r <= 0xff`, else `fmt.Sprintf("u%06x", r)`
(runes produced by decoding are at most 0x10FFFF, so six digits are exact). -/
def wordOf (r : Nat) : Str :=
  match charName r with
  | some w => w
  | none =>
    if r ≤ 0xff then [120, hexDigit (r / 16 % 16), hexDigit (r % 16)]
    else [117, hexDigit (r / 1048576 % 16), hexDigit (r / 65536 % 16), hexDigit (r / 4096 % 16),
          hexDigit (r / 256 % 16), hexDigit (r / 16 % 16), hexDigit (r % 16)]

/-- the closure `write` of `Produce` (`buf` is the `strings.Builder`). -/
def write (style : Style) (buf word : Str) : Str :=
  match style with
  | .camelLower | .camelCase =>
    if buf.length > 0 ∨ style = .camelCase then buf ++ (word.take 1).map toUpperA ++ word.drop 1
    else buf ++ word
  | .upperUnderscores => (if buf.length > 0 then buf ++ [95] else buf) ++ word.map toUpperA
  | .upperCase => buf ++ word.map toUpperA

structure St where
  buf : Str
  cont : Bool

/-- One iteration of `for i, r := range name` (argument `(r, i)`). -/
def step (name : Str) (style : Style) (inQuotes : Bool) (st : St) (ri : Nat × Nat) : St :=
  let r := ri.1
  let i := ri.2
  if isAlnum r then
    -- We want to split FOOBar into foo and bar.
    let cont1 :=
      if isUpperA r && ((decide (i > 0) && !isUpperLatin1 (name.getD (i - 1) 0)) ||
                        (decide (i + 1 < name.length) && !isUpperLatin1 (name.getD (i + 1) 0)))
      then false else st.cont
    let buf1 :=
      if (!cont1 && decide (st.buf.length > 0) && decide (style = .upperUnderscores)) ||
         (decide (st.buf.length = 0) && isDigitA r)
      then st.buf ++ [95] else st.buf
    let camel := decide (style = .camelCase) || decide (style = .camelLower)
    let buf2 :=
      if camel && (cont1 || (decide (style = .camelLower) && decide (buf1.length = 0)))
      then buf1 ++ [toLowerA r] else buf1 ++ [toUpperA r]
    ⟨buf2, true⟩
  else if !inQuotes then
    if r = 36 ∨ (r = 95 ∧ style = .upperCase) then ⟨st.buf ++ [95], false⟩  -- '$', '_'
    else ⟨st.buf, false⟩
  else if r = 95 then ⟨st.buf ++ [95], true⟩
  else ⟨write style st.buf (wordOf r), false⟩

/-- `ln > 2 && (name[0]=='\'' && name[ln-1]=='\'' || name[0]=='"' && name[ln-1]=='"')` -/
def looksQuoted (name : Str) : Bool :=
  decide (name.length > 2) &&
    ((name.head? == some 39 && name.getLast? == some 39) ||
     (name.head? == some 34 && name.getLast? == some 34))

/-- the "char" prefix for one-byte quoted names without a `charName` entry. -/
def prefixOf (name : Str) (style : Style) : Str :=
  if name.length = 1 then
    let r := (decodeRune name).1
    if (charName r).isNone then
      let b := write style [] (cs ['c','h','a','r'])
      if style = .upperCase ∨ (style = .upperUnderscores ∧ r = 95) then b ++ [95] else b
    else []
  else []

def produce (name0 : Str) (style : Style) : Str :=
  if looksQuoted name0 then
    let name1 := (name0.drop 1).take (name0.length - 2)
    if name1 = [92, 92] ∧ style = .upperCase then [69, 83, 67]  -- "ESC"
    else
      let name :=
        if name1.length = 2 ∧ name1.head? = some 92 ∧ (charName (name1.getD 1 0)).isSome
        then name1.drop 1 else name1
      ((runes name).foldl (step name style true) ⟨prefixOf name style, false⟩).buf
  else
    ((runes name0).foldl (step name0 style false) ⟨[], false⟩).buf

/-! ### names the tm lexer admits -/

def isLetterA (b : Nat) : Bool := isLowerA b || isUpperA b
def isIdStart (b : Nat) : Bool := isLetterA b || b == 95
def isIdMid (b : Nat) : Bool := isLetterA b || isDigitA b || b == 95 || b == 45
def isIdEnd (b : Nat) : Bool := isLetterA b || isDigitA b || b == 95

/-- `ID: /[a-zA-Z_]([a-zA-Z_\-0-9]*[a-zA-Z_0-9])?/` -/
def isID : Str → Bool
  | [] => false
  | b :: rest => isIdStart b && rest.all isIdMid && (rest.getLast?.all isIdEnd)

/-- the part after the opening quote of `/'([^\n\\']|\\.)*'/` (`.` is any rune but `\n`; at byte level
an escaped multi-byte rune is `\\`, one byte ≠ `\n`, then bytes ≥ 0x80, which `[^\n\\']` admits, and an
invalid byte is admitted as U+FFFD — so the byte-level automaton accepts the same strings). -/
def quotedBody (q : Nat) : Str → Bool
  | [] => false
  | [b] => b == q
  | b :: b2 :: rest =>
    if b = 92 then b2 != 10 && quotedBody q rest
    else if b = 10 ∨ b = q then false
    else quotedBody q (b2 :: rest)

def isQuoted (q : Nat) : Str → Bool
  | [] => false
  | b :: rest => b == q && quotedBody q rest

/-- Spellings of symbol names the tm lexer admits: tokens `ID`, `quoted_id` (`'…'`) and `scon` (`"…"`).
Soft keywords (`no-eoi`, `s`, …) are `ID` spellings. This is a superset of what the parser admits
(`identifier` excludes the keywords true/false/separator/as/import/set unless `+Keywords`). -/
def tmName (name : Str) : Bool := isID name || isQuoted 39 name || isQuoted 34 name

def TmName (name : Str) : Prop := tmName name = true
instance : DecidablePred TmName := fun n => inferInstanceAs (Decidable (tmName n = true))

/-! ### valid identifiers -/

def isIdentChar (c : Nat) : Bool := isLetterA c || isDigitA c || c == 95

/-- Valid identifier in Go (`(letter|_)(letter|digit|_)*`), C++ (`[A-Za-z_][A-Za-z0-9_]*`) and
TypeScript (`[$_\p{ID_Start}][$_\p{ID_Continue}]*`) at once: on ASCII strings the conjunction of the
three is `[A-Za-z_][A-Za-z0-9_]*`; additionally non-empty and not the Go blank identifier `_`.
Reserved words are NOT excluded here (`Produce` does nothing about them: `Produce("if", CamelLower)` is
`if`); see `C28_not_lower_start` for what holds for the three styles used for symbol IDs. -/
def validIdent (id : Str) : Bool :=
  match id with
  | [] => false
  | c :: rest => !isDigitA c && (c :: rest).all isIdentChar && !(c == 95 && rest.isEmpty)

def ValidIdent (id : Str) : Prop := validIdent id = true
instance : DecidablePred ValidIdent := fun n => inferInstanceAs (Decidable (validIdent n = true))

/-- The exact side condition under which `Produce` yields a valid identifier for a `TmName`
(see `C28_produce_valid`, `C28_produce_invalid`): the name is a quoted form with non-empty contents, or
has a letter or digit, or the style is `UpperCase` and it has at least two underscores. Complement on
`TmName`: `''`, `""`, and unquoted names made of `_` and `-` only (`_`, `__`, `_-_`, …). -/
def good (name : Str) (style : Style) : Bool :=
  looksQuoted name || name.any isAlnum || (decide (style = .upperCase) && decide (2 ≤ name.count 95))

def Good (name : Str) (style : Style) : Prop := good name style = true
instance : Decidable (Good n s) := inferInstanceAs (Decidable (good n s = true))

/-! ### duplicate-ID detection (compiler/resolver.go, compiler/syntax.go, compiler/lexer.go) -/

structure Sym where
  name : Str
  id : Str
  deriving DecidableEq, Repr

inductive Err where
  | dup (name prev : Str)   -- "%v and %v get the same ID in generated code"
  | reid (name : Str)       -- "%v is redeclared with a different ID (%q vs %q)"
  | redecl (name : Str)     -- "redeclaration of '%v'"
  | dupName (name : Str)    -- "duplicate name %v"
  | spaceMix (name : Str)   -- "%v is declared as both a space and non-space terminal"
  deriving DecidableEq, Repr

def Err.isDup : Err → Bool
  | .dup _ _ => true
  | _ => false

/-- `resolver`: `Syms` (with `syms` = the names in it), `ids` (ID → name, last writer wins),
`tokID`, and the `status.Status` error list. -/
structure RState where
  syms : List Sym := []
  ids : List (Str × Str) := []
  tokID : List (Str × Str) := []
  /-- `Symbol.Space` of the registered terminals -/
  spaces : List (Str × Bool) := []
  errs : List Err := []

def hasName (st : RState) (name : Str) : Bool := st.syms.any (fun s => s.name == name)

/-- compiler/lexer.go: `id = lid.Text(); if strings.ContainsFunc(id, unicode.IsLower) { id =
ident.Produce(id, ident.UpperCase) }` (empty = no `(ID)` clause). -/
def lexemeId (id : Str) : Str := if id.any isLowerA then produce id .upperCase else id

/-- `resolver.addToken(name, id, rawType, space, …)` with a constant raw type; `space` = the lexeme has
the `(space)` attribute. The ID collision check does not depend on it. -/
def addToken (st : RState) (name id : Str) (space : Bool := false) : RState :=
  if hasName st name then
    let errs1 := if (st.spaces.lookup name).getD false != space then st.errs ++ [.spaceMix name] else st.errs
    if (st.tokID.lookup name).getD [] != id then { st with errs := errs1 ++ [.reid name] }
    else { st with errs := errs1 }
  else
    let id' := if id = [] then produce name .upperCase else id
    { syms := st.syms ++ [⟨name, id'⟩]
      ids := (id', name) :: st.ids
      tokID := (name, id) :: st.tokID
      spaces := (name, space) :: st.spaces
      errs := match st.ids.lookup id' with
        | some prev => st.errs ++ [.dup name prev]
        | none => st.errs }

/-- One iteration of `resolver.addNonterms`. -/
def addNonterm (st : RState) (name : Str) : RState :=
  let id := produce name .camelCase
  let errs1 := if hasName st name then st.errs ++ [.dupName name] else st.errs
  { st with
    syms := st.syms ++ [⟨name, id⟩]
    ids := (id, name) :: st.ids
    errs := match st.ids.lookup id with
      | some prev => errs1 ++ [.dup name prev]
      | none => errs1 }

/-- `syntaxLoader.collectNonterms` for plain (non-`extend`, parameterless) nonterminals: returns the
accepted names (in order) and the errors added. -/
def collectNonterms (st : RState) : List Str → List Str → List Err → List Str × List Err
  | [], acc, errs => (acc, errs)
  | name :: rest, acc, errs =>
    if hasName st name then collectNonterms st rest acc (errs ++ [.redecl name])
    else if acc.contains name then collectNonterms st rest acc (errs ++ [.redecl name])
    else
      let id := produce name .camelCase
      let errs := match st.ids.lookup id with
        | some prev => errs ++ [.dup name prev]
        | none => errs
      collectNonterms st rest (acc ++ [name]) errs

structure Decls where
  /-- lexemes in source order: name, the text of the `(ID)` clause (`[]` when absent), `(space)` attribute -/
  toks : List (Str × Str × Bool)
  nonterms : List Str
  /-- `flexMode = true` (C++ target): lexemes go through `parseFlexDeclarations` -/
  flex : Bool
  /-- names of `syntax.Model.Nonterms` after template instantiation and expansion, in order — the list
  `resolver.addNonterms` iterates over (template instances `x_B`, groups `y$1`, lists `D_list`, `copt`, …;
  uninstantiated templates are gone). `none`: a grammar without templates / nested constructs, where it
  equals the accepted source nonterminals. The expander itself is not modelled: this list is an input. -/
  final : Option (List Str)
  /-- names of the mid-rule action nonterminals (`u$1`) created by `commandExtractor.extract` during
  `generateTables`; they are appended to `Syms` with a CamelCase ID and NO collision check -/
  midrule : List Str

/-- One lexeme in `lexerCompiler.parseFlexDeclarations`: a second declaration of a name is an error
("redeclaration of '%v'") and is skipped; the explicit ID is normalised by the same test. -/
def addFlexToken (st : RState) (t : Str × Str × Bool) : RState :=
  if hasName st t.1 then { st with errs := st.errs ++ [.redecl t.1] }
  else addToken st t.1 (lexemeId t.2.1) t.2.2

/-- lexer phase: `eoi`, `invalid_token`, then every lexeme (`traverseLexer`); in flex mode `eoi`,
`error` with the fixed ID `YYerror`, `invalid_token`, then every lexeme (`parseFlexDeclarations`). -/
def tokenPhase (d : Decls) : RState :=
  if d.flex then
    let st0 := addToken (addToken (addToken {} (cs ['e','o','i']) [])
      (cs ['e','r','r','o','r']) (cs ['Y','Y','e','r','r','o','r']))
      (cs ['i','n','v','a','l','i','d','_','t','o','k','e','n']) []
    d.toks.foldl addFlexToken st0
  else
    let st0 := addToken (addToken {} (cs ['e','o','i']) [])
      (cs ['i','n','v','a','l','i','d','_','t','o','k','e','n']) []
    d.toks.foldl (fun st t => addToken st t.1 (lexemeId t.2.1) t.2.2) st0

structure Result where
  syms : List Sym
  errs : List Err
  /-- nonterminal names that passed `collectNonterms` -/
  accepted : List Str

/-- the nonterminals `addNonterms` registers -/
def finalNts (d : Decls) (accepted : List Str) : List Str := d.final.getD accepted

/-- `compiler.Compile` restricted to symbol registration: lexer phase, `collectNonterms`; when any
error was reported so far `compileParser` returns early; otherwise `addNonterms` over the expanded
model, then `commandExtractor.finalize` appends the mid-rule nonterminals (unchecked). -/
def compileSyms (d : Decls) : Result :=
  let st1 := tokenPhase d
  let (acc, errs2) := collectNonterms st1 d.nonterms [] st1.errs
  if errs2.isEmpty then
    let st3 := (finalNts d acc).foldl addNonterm st1
    ⟨st3.syms ++ d.midrule.map (fun n => ⟨n, produce n .camelCase⟩), st3.errs, acc⟩
  else ⟨st1.syms, errs2, acc⟩

/-- IDs of all source-declared symbols: the terminals (in `Syms` order) and the accepted nonterminals. -/
def declaredIds (d : Decls) : List Str :=
  (tokenPhase d).syms.map (·.id) ++ (compileSyms d).accepted.map (fun n => produce n .camelCase)

/-- IDs of the symbols registered by the resolver: terminals and the nonterminals of the expanded model. -/
def finalIds (d : Decls) : List Str :=
  (tokenPhase d).syms.map (·.id) ++
    (finalNts d (compileSyms d).accepted).map (fun n => produce n .camelCase)

/-- IDs of all symbols of the compiled grammar (`grammar.Syms`), mid-rule nonterminals included. -/
def allIds (d : Decls) : List Str :=
  finalIds d ++ d.midrule.map (fun n => produce n .camelCase)

end TmVerif.Ident
