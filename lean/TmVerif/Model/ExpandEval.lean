/-
C13 — executable spec-side tools (core only):
* protocol parser for extended grammars,
* `member`: bounded evaluation of the denotation `⟦·⟧` (membership of ONE terminal string in the
  least solution of the extended grammar, by a span table iterated to its fixpoint — exact),
* `canon`: canonical form of a plain grammar up to nonterminal renaming and rule order
  (colour refinement from the pinned user nonterminals).
-/
import TmVerif.Model.Expand
namespace TmVerif.Expand
open TmVerif.Proto

/-! ### Protocol: expressions

`e` empty · `r<sym>` · `o(E)` · `s(E,…)` · `c(E,…)` · `l<flags>(E,E)` flags = ne + 2·rr ·
`t<idx>` set · `k(<neg>.<sym>,…)` lookahead · `a<n>(E)` arrow · `g<n>(E)` assign · `p<n>(E)` append ·
`P<sym>(E)` prec · `x<id>` command · `m<id>` marker -/

def takeNat (cs : List Char) : Option (Nat × List Char) :=
  let ds := cs.takeWhile Char.isDigit
  if ds.isEmpty then none else some ((String.ofList ds).toNat!, cs.dropWhile Char.isDigit)

def parsePreds : Nat → List Char → Option (List (Bool × Nat) × List Char)
  | 0, _ => none
  | fuel + 1, cs =>
    match cs with
    | ')' :: rest => some ([], rest)
    | ',' :: rest => parsePreds fuel rest
    | _ => do
      let (neg, cs) ← takeNat cs
      match cs with
      | '.' :: cs =>
        let (sym, cs) ← takeNat cs
        let (ps, cs) ← parsePreds fuel cs
        pure ((neg != 0, sym) :: ps, cs)
      | _ => none

mutual
def parseExpr : Nat → List Char → Option (Expr × List Char)
  | 0, _ => none
  | fuel + 1, cs =>
    match cs with
    | 'e' :: rest => some (.empty, rest)
    | 'r' :: rest => do let (n, rest) ← takeNat rest; pure (.ref n, rest)
    | 't' :: rest => do let (n, rest) ← takeNat rest; pure (.set n, rest)
    | 'x' :: rest => do let (n, rest) ← takeNat rest; pure (.command n, rest)
    | 'm' :: rest => do let (n, rest) ← takeNat rest; pure (.marker n, rest)
    | 'o' :: '(' :: rest => do
      let (es, rest) ← parseArgs fuel rest
      match es with
      | [a] => pure (.opt a, rest)
      | _ => none
    | 's' :: '(' :: rest => do let (es, rest) ← parseArgs fuel rest; pure (.seq es, rest)
    | 'c' :: '(' :: rest => do let (es, rest) ← parseArgs fuel rest; pure (.choice es, rest)
    | 'k' :: '(' :: rest => do let (ps, rest) ← parsePreds (rest.length + 1) rest; pure (.lookahead ps, rest)
    | 'l' :: rest => do
      let (f, rest) ← takeNat rest
      match rest with
      | '(' :: rest =>
        let (es, rest) ← parseArgs fuel rest
        match es with
        | [a, b] => pure (.list (f % 2 == 1) (f / 2 % 2 == 1) a b, rest)
        | _ => none
      | _ => none
    | 'a' :: rest => parseWrap fuel rest Expr.arrow
    | 'g' :: rest => parseWrap fuel rest Expr.assign
    | 'p' :: rest => parseWrap fuel rest Expr.append
    | 'P' :: rest => parseWrap fuel rest Expr.prec
    | _ => none
def parseWrap : Nat → List Char → (Nat → Expr → Expr) → Option (Expr × List Char)
  | 0, _, _ => none
  | fuel + 1, cs, mk => do
    let (n, rest) ← takeNat cs
    match rest with
    | '(' :: rest =>
      let (es, rest) ← parseArgs fuel rest
      match es with
      | [a] => pure (mk n a, rest)
      | _ => none
    | _ => none
/-- arguments up to and including the closing parenthesis -/
def parseArgs : Nat → List Char → Option (List Expr × List Char)
  | 0, _ => none
  | fuel + 1, cs =>
    match cs with
    | ')' :: rest => some ([], rest)
    | ',' :: rest => parseArgs fuel rest
    | _ => do
      let (e, rest) ← parseExpr fuel cs
      let (es, rest) ← parseArgs fuel rest
      pure (e :: es, rest)
end

def parseExprStr (s : String) : Option Expr :=
  let cs := s.toList
  match parseExpr (2 * cs.length + 2) cs with
  | some (e, []) => some e
  | _ => none

def parseSet (s : String) : Option (String × List Nat) :=
  match s.splitOn ":" with
  | [n, ts] => do let ts ← parseNats ts; pure (n, ts)
  | _ => none

def parseUser (s : String) : Option (String × Expr) :=
  match s.splitOn "=" with
  | [n, e] => do let e ← parseExprStr e; pure (n, e)
  | _ => none

/-- four tokens: `nT termNames sets users` -/
def parseExt (toks : List String) : Option ExtGrammar :=
  match toks with
  | [nt, tn, sets, users] => do
    let nt ← parseNat? nt
    let tn := if tn == "-" then [] else tn.splitOn ","
    let sets ← if sets == "_" then some [] else (sets.splitOn ";").mapM parseSet
    let us ← (users.splitOn ";").mapM parseUser
    pure { cx := { nT := nt, termNames := tn, userNames := us.map (·.1),
                   setNames := sets.map (·.1), setTerms := sets.map (·.2) },
           user := us.map (·.2) }
  | _ => none

/-! ### Bounded evaluation of the denotation -/

structure EvalCtx where
  nT : Nat
  sets : Array (List Nat)
  w : Array Nat
deriving Inhabited

def EvalCtx.n (c : EvalCtx) : Nat := c.w.size

def tblIdx (n u i j : Nat) : Nat := (u * (n + 1) + i) * (n + 1) + j

/-- positions `q ∈ [i, j]` reachable by `E (S E)*` from `i` -/
def reachIter (E S : Nat → Nat → Bool) (i j : Nat) : Nat → List Nat → List Nat
  | 0, reach => reach
  | fuel + 1, reach =>
    let next := (List.range (j - i + 1)).filterMap fun d =>
      let q := i + d
      if reach.contains q then some q
      else if reach.any (fun p => p ≤ q && (List.range (q - p + 1)).any fun m => S p (p + m) && E (p + m) q)
      then some q else none
    if next.length == reach.length then reach else reachIter E S i j fuel next

mutual
/-- does `w[i..j)` belong to `⟦e⟧` under the span table `tbl` of the user nonterminals? -/
def evalE (c : EvalCtx) (tbl : Array Bool) : Expr → Nat → Nat → Bool
  | .empty, i, j => i == j
  | .ref s, i, j =>
    if s < c.nT then j == i + 1 && i < c.n && c.w.getD i 0 == s
    else tbl.getD (tblIdx c.n (s - c.nT) i j) false
  | .opt e, i, j => i == j || evalE c tbl e i j
  | .seq es, i, j => evalSeq c tbl es i j
  | .choice es, i, j => evalAlt c tbl es i j
  | .list ne _ e s, i, j =>
    (!ne && i == j) ||
      (let E := fun a b => evalE c tbl e a b
       let S := fun a b => evalE c tbl s a b
       let init := (List.range (j - i + 1)).filterMap fun d => if E i (i + d) then some (i + d) else none
       (reachIter E S i j (j - i + 2) init).contains j)
  | .set k, i, j => j == i + 1 && i < c.n && (c.sets.getD k []).contains (c.w.getD i 0)
  | .lookahead _, i, j => i == j
  | .arrow _ e, i, j => evalE c tbl e i j
  | .assign _ e, i, j => evalE c tbl e i j
  | .append _ e, i, j => evalE c tbl e i j
  | .prec _ e, i, j => evalE c tbl e i j
  | .command _, i, j => i == j
  | .marker _, i, j => i == j
def evalSeq (c : EvalCtx) (tbl : Array Bool) : List Expr → Nat → Nat → Bool
  | [], i, j => i == j
  | e :: es, i, j => (List.range (j - i + 1)).any fun d => evalE c tbl e i (i + d) && evalSeq c tbl es (i + d) j
def evalAlt (c : EvalCtx) (tbl : Array Bool) : List Expr → Nat → Nat → Bool
  | [], _, _ => false
  | e :: es, i, j => evalE c tbl e i j || evalAlt c tbl es i j
end

def evalRound (c : EvalCtx) (users : Array Expr) (tbl : Array Bool) : Array Bool :=
  let n := c.n
  Array.ofFn (n := users.size * (n + 1) * (n + 1)) fun idx =>
    let j := idx.val % (n + 1)
    let i := idx.val / (n + 1) % (n + 1)
    let u := idx.val / ((n + 1) * (n + 1))
    tbl.getD idx.val false || (i ≤ j && evalE c tbl (users.getD u .empty) i j)

def evalFix (c : EvalCtx) (users : Array Expr) : Nat → Array Bool → Array Bool
  | 0, tbl => tbl
  | fuel + 1, tbl =>
    let next := evalRound c users tbl
    if next == tbl then tbl else evalFix c users fuel next

/-- the span table of all user nonterminals for the string `w` -/
def spanTable (nT : Nat) (sets : List (List Nat)) (users : List Expr) (w : List Nat) : Array Bool :=
  let c : EvalCtx := { nT := nT, sets := sets.toArray, w := w.toArray }
  let n := w.length
  let size := users.length * (n + 1) * (n + 1)
  evalFix c users.toArray (size + 1) (Array.replicate size false)

/-- `w ∈ L(user u)` in the extended notation -/
def member (g : ExtGrammar) (u : Nat) (w : List Nat) : Bool :=
  (spanTable g.cx.nT g.cx.setTerms g.user w).getD (tblIdx w.length u 0 w.length) false

/-- membership of `w` for every user nonterminal at once -/
def members (g : ExtGrammar) (w : List Nat) : List Bool :=
  let t := spanTable g.cx.nT g.cx.setTerms g.user w
  (List.range g.user.length).map fun u => t.getD (tblIdx w.length u 0 w.length) false

/-- a plain grammar (rules over symbols; nonterminals numbered from `nT`) as an extended grammar whose
expressions are choices of sequences of references: the same evaluator then is a recogniser. -/
def plainAsExt (nT nN : Nat) (rules : List CFG.Rule) : ExtGrammar :=
  { cx := { nT := nT, termNames := [], userNames := List.replicate nN "", setNames := [], setTerms := [] },
    user := (List.range nN).map fun i =>
      .choice ((rules.filter (·.lhs == nT + i)).map fun r => .seq (r.rhs.map .ref)) }

/-- all strings over `alphabet` of length ≤ `maxLen`, by length, then lexicographic in alphabet order -/
def stringsOfLen (alphabet : List Nat) : Nat → List (List Nat)
  | 0 => [[]]
  | n + 1 => alphabet.flatMap fun a => (stringsOfLen alphabet n).map (a :: ·)

def allStrings (alphabet : List Nat) (maxLen : Nat) : List (List Nat) :=
  (List.range (maxLen + 1)).flatMap (stringsOfLen alphabet)

def nibble (a b c d : Bool) : Char :=
  hexChar ((if a then 8 else 0) + (if b then 4 else 0) + (if c then 2 else 0) + (if d then 1 else 0))

def bitsToHex : List Bool → List Char
  | [] => []
  | [a] => [nibble a false false false]
  | [a, b] => [nibble a b false false]
  | [a, b, c] => [nibble a b c false]
  | a :: b :: c :: d :: rest => nibble a b c d :: bitsToHex rest

/-- per user nonterminal, the membership bitmap of all strings up to `maxLen` (hex, MSB first) -/
def bitmaps (g : ExtGrammar) (alphabet : List Nat) (maxLen : Nat) : List String :=
  let rows := (allStrings alphabet maxLen).map (members g)
  (List.range g.user.length).map fun u => String.ofList (bitsToHex (rows.map fun r => r.getD u false))

/-! ### Canonical form up to renaming and rule order -/

def ltNats : List Nat → List Nat → Bool
  | [], [] => false
  | [], _ :: _ => true
  | _ :: _, [] => false
  | a :: l, b :: r => a < b || (a == b && ltNats l r)

def leNats (a b : List Nat) : Bool := !ltNats b a

def ltNatss : List (List Nat) → List (List Nat) → Bool
  | [], [] => false
  | [], _ :: _ => true
  | _ :: _, [] => false
  | a :: l, b :: r => ltNats a b || (a == b && ltNatss l r)

def leNatss (a b : List (List Nat)) : Bool := !ltNatss b a

def dedup : List (List (List Nat)) → List (List (List Nat))
  | a :: b :: rest => if a == b then dedup (b :: rest) else a :: dedup (b :: rest)
  | l => l

/-- signature of a nonterminal: its current colour, then its rules (recoloured, sorted) -/
def signature (col : Nat → Nat) (rules : List CFG.Rule) (x : Nat) : List (List Nat) :=
  [col x] :: ((rules.filter (·.lhs == x)).map fun r => r.rhs.map col).mergeSort leNats

def refine (nT : Nat) (rules : List CFG.Rule) (nts : List Nat) : Nat → (Nat → Nat) → (Nat → Nat)
  | 0, col => col
  | fuel + 1, col =>
    let sigs := nts.map fun x => (x, signature col rules x)
    let sorted := dedup ((sigs.map (·.2)).mergeSort leNatss)
    let col' := fun s =>
      if s < nT then s else
        match sigs.find? (·.1 == s) with
        | some (_, sg) => nT + sorted.findIdx (· == sg)
        | none => nT + sorted.length
    refine nT rules nts fuel col'

def showSig (sg : List (List Nat)) : String :=
  "/".intercalate (sg.map showNats)

/-- Canonical text of a plain grammar: nonterminals = `pinned` plus every symbol ≥ nT occurring in a
rule. Initial colour: terminal `t` ↦ `t`, `pinned[i]` ↦ `nT+i`, any other nonterminal ↦ `nT+|pinned|`.
One refinement round replaces each nonterminal's colour by the rank of its signature
(old colour, sorted list of its right-hand sides in old colours) among the sorted distinct
signatures; after `|nonterminals|` rounds the sorted multiset of signatures is printed. Two grammars
that differ only by a renaming of the non-pinned nonterminals and by rule order get the same text. -/
def canon (nT : Nat) (rules : List CFG.Rule) (pinned : List Nat) : String :=
  let occurring := (rules.flatMap fun r => r.lhs :: r.rhs).filter (· ≥ nT)
  let nts := (pinned ++ occurring).eraseDups
  let col0 := fun s =>
    if s < nT then s else
      match pinned.findIdx? (· == s) with
      | some i => nT + i
      | none => nT + pinned.length
  let col := refine nT rules nts nts.length col0
  let sigs := (nts.map (signature col rules)).mergeSort leNatss
  " | ".intercalate (sigs.map showSig)

end TmVerif.Expand
