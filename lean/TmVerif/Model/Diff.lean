/-
Model of /repo/util/diff/diff.go (Mode M: hand mirror; core Lean only).

* `lcsWith raw`  — `lcs` (prefix/suffix strip, `trace`, chunk merging) for an ARBITRARY split-point
  oracle `raw`; `traceWith` re-checks the snake element by element exactly as both return sites of
  the Go `middle` do, so every `eq` chunk is established by explicit comparisons.
* `middleRaw`    — the Myers forward/reverse search of `middle` (everything up to the re-check loop).
* `lcs`          — `lcsWith middleRaw`, the mirror of the Go `lcs`.
* `Edit`, `toEdits`, `applyEdits`, `editCost` — what "applying the script" means.
* `lcsRec`, `dpLcs` — textbook LCS length (recursive definition and row-by-row dynamic programme).
* `lineDiffHunks`, `renderHunks`, `lineDiff` — `LineDiff`: hunk assembly and rendering.
* `applyHunks`, `parsePatch`, `applyPatch` — a small unified-diff applier.

The Go code runs `lcs` on integer ids of lines (`index` map: equal ids ⇔ equal strings); the
algorithms only compare elements for equality, so the mirror is generic over a type with decidable
equality and is used directly on lines. Go `int` → `Nat`/`Int`; `log.Fatal`, an out-of-range slice
bound and fuel exhaustion → `none`.
-/
namespace TmVerif.Diff

structure Chunk where
  del : Nat
  ins : Nat
  eq : Nat
deriving Repr, DecidableEq, Inhabited

/-- `chunk.merge`: `some merged` when Go returns true (and updates the receiver). -/
def Chunk.merge (c oth : Chunk) : Option Chunk :=
  if c.eq = 0 ∨ (oth.ins = 0 ∧ oth.del = 0) then
    some ⟨c.del + oth.del, c.ins + oth.ins, c.eq + oth.eq⟩
  else none

/-- The "optimize chunks away" loop of `lcs`; `cur` is `ret[last]`. -/
def mergeInto (cur : Chunk) : List Chunk → List Chunk
  | [] => [cur]
  | c :: cs =>
    match cur.merge c with
    | some m => mergeInto m cs
    | none => cur :: mergeInto c cs

def optimize : List Chunk → List Chunk
  | [] => []
  | c :: cs => mergeInto c cs

section Generic
variable {α : Type} [DecidableEq α]

/-- length of the longest common prefix (`for p < ln && a[p] == b[p]`). -/
def commonPrefix : List α → List α → Nat
  | x :: xs, y :: ys => if x = y then commonPrefix xs ys + 1 else 0
  | _, _ => 0

/-- the snake re-check loop `for snake < mx && a[x2+snake] == b[y2+snake]`. -/
def snakeLen : Nat → List α → List α → Nat
  | mx + 1, x :: xs, y :: ys => if x = y then snakeLen mx xs ys + 1 else 0
  | _, _, _ => 0

/-- index of the first occurrence (`for i, v := range b { if v == a[0] …`). -/
def findFirst (x : α) : List α → Option Nat
  | [] => none
  | y :: ys => if y = x then some 0 else (findFirst x ys).map (· + 1)

/-- `trace`, returning the chunks it appends. `raw a b = some (ai, bi, mx)`: split point and the
upper bound of the snake length (`x - x2` resp. `x1 - x2` in `middle`). -/
def traceWith (raw : List α → List α → Option (Nat × Nat × Nat)) :
    Nat → List α → List α → Option (List Chunk)
  | 0, _, _ => none
  | fuel + 1, a, b =>
    match a, b with
    | [], b => some [⟨0, b.length, 0⟩]
    | a, [] => some [⟨a.length, 0, 0⟩]
    | [x], b =>
      match findFirst x b with
      | some i => some [⟨0, i, 1⟩, ⟨0, b.length - i - 1, 0⟩]
      | none => some [⟨1, b.length, 0⟩]
    | a, [y] =>
      match findFirst y a with
      | some i => some [⟨i, 0, 1⟩, ⟨a.length - i - 1, 0, 0⟩]
      | none => some [⟨a.length, 1, 0⟩]
    | a, b =>
      match raw a b with
      | none => none
      | some (ai, bi, mx) =>
        if ai > a.length ∨ bi > b.length then none
        else if (ai = a.length ∧ bi = b.length) ∨ (ai = 0 ∧ bi = 0) then none
        else
          let snake := snakeLen mx (a.drop ai) (b.drop bi)
          match traceWith raw fuel (a.take ai) (b.take bi) with
          | none => none
          | some l =>
            match traceWith raw fuel (a.drop (ai + snake)) (b.drop (bi + snake)) with
            | none => none
            | some r => some (l ++ (if snake > 0 then [⟨0, 0, snake⟩] else []) ++ r)

/-- common suffix length after the prefix has been removed. -/
def commonSuffix (a b : List α) : Nat := commonPrefix a.reverse b.reverse

/-- `lcs` before the merging loop. -/
def lcsRawWith (raw : List α → List α → Option (Nat × Nat × Nat)) (a b : List α) :
    Option (List Chunk) :=
  let p := commonPrefix a b
  let a1 := a.drop p
  let b1 := b.drop p
  let s := commonSuffix a1 b1
  let a2 := a1.take (a1.length - s)
  let b2 := b1.take (b1.length - s)
  match traceWith raw (a2.length + b2.length + 1) a2 b2 with
  | none => none
  | some t =>
    some ((if p > 0 then [⟨0, 0, p⟩] else []) ++ t ++ (if s > 0 then [⟨0, 0, s⟩] else []))

def lcsWith (raw : List α → List α → Option (Nat × Nat × Nat)) (a b : List α) :
    Option (List Chunk) :=
  (lcsRawWith raw a b).map optimize

/-! ### What a script means -/

inductive Edit (α : Type) where
  | del (n : Nat)
  | ins (l : List α)
  | keep (n : Nat)
deriving Repr

/-- The chunks with the inserted lines filled in from `b` (as `LineDiff` does: `b[bi:bi+c.ins]`). -/
def toEdits : List Chunk → List α → List (Edit α)
  | [], _ => []
  | c :: cs, b =>
    .del c.del :: .ins (b.take c.ins) :: .keep c.eq :: toEdits cs (b.drop (c.ins + c.eq))

/-- Apply an edit list to `a` (does not see `b`); every line of `a` must be consumed. -/
def applyEdits : List (Edit α) → List α → Option (List α)
  | [], a => if a = [] then some [] else none
  | .del n :: es, a => if n ≤ a.length then applyEdits es (a.drop n) else none
  | .ins l :: es, a => (applyEdits es a).map (l ++ ·)
  | .keep n :: es, a =>
    if n ≤ a.length then (applyEdits es (a.drop n)).map (a.take n ++ ·) else none

/-- number of deleted plus inserted lines -/
def editCost : List (Edit α) → Nat
  | [] => 0
  | .del n :: es => n + editCost es
  | .ins l :: es => l.length + editCost es
  | .keep _ :: es => editCost es

def scriptCost : List Chunk → Nat
  | [] => 0
  | c :: cs => c.del + c.ins + scriptCost cs

/-! ### Reference: longest common subsequence -/

/-- textbook recursive definition of the LCS length -/
def lcsRec : List α → List α → Nat
  | [], _ => 0
  | _ :: _, [] => 0
  | x :: a, y :: b =>
    if x = y then lcsRec a b + 1 else max (lcsRec a (y :: b)) (lcsRec (x :: a) b)
termination_by a b => a.length + b.length

/-- One row of the DP table: given `prev[j] = L(a, b.drop j)` (`j = 0..|b|`), returns
`row[j] = L(x :: a, b.drop j)`. -/
def dpRow (x : α) : List α → List Nat → List Nat
  | [], _ => [0]
  | y :: ys, prev =>
    let r := dpRow x ys prev.tail
    (if x = y then prev.tail.headD 0 + 1 else max (prev.headD 0) (r.headD 0)) :: r

/-- the last row of the table after all of `a` -/
def dpTable : List α → List α → List Nat
  | [], b => List.replicate (b.length + 1) 0
  | x :: a, b => dpRow x b (dpTable a b)

/-- textbook dynamic programme, O(|a|·|b|) -/
def dpLcs (a b : List α) : Nat := (dpTable a b).headD 0

end Generic

/-! ### Myers middle snake (`middle`) on arrays -/

/-- First transcription of `middle` (imperative loops). Kept only as an executable cross-check of
the recursive formulation `middleRawArr` below (the driver compares both on every `mid` case);
no theorem is about this function. -/
def middleRawArrLoop {α : Type} [DecidableEq α] (a b : Array α) : Option (Nat × Nat × Nat) := Id.run do
  let m : Int := a.size
  let n : Int := b.size
  let delta : Int := n - m
  let odd : Bool := delta % 2 != 0
  let max : Int := (m + n + 2) / 2
  let base : Int := max
  let bufLen : Nat := 2 * (a.size + b.size + 2)
  let mut v1 : Array Int := Array.replicate (2 * max.toNat) 0
  let mut v2 : Array Int := Array.replicate (bufLen - 2 * max.toNat) 0
  let mut pstart : Int := 0
  let mut plimit : Int := 0
  let res (x y s : Int) : Option (Nat × Nat × Nat) :=
    if x < 0 ∨ y < 0 ∨ s < 0 then none else some (x.toNat, y.toNat, s.toNat)
  for dN in [0 : max.toNat + 1] do
    let d : Int := dN
    let mut start : Int := -d
    let mut limit : Int := d
    if d > m then limit := limit - 2 * (d - m)
    if d > n then start := start + 2 * (d - n)
    let cnt : Nat := if limit < start then 0 else ((limit - start) / 2).toNat + 1
    -- Forward path.
    for j in [0 : cnt] do
      let k : Int := start + 2 * (j : Int)
      let mut x : Int := 0
      if k == -d || (k != d && v1.getD (base + k - 1).toNat 0 < v1.getD (base + k + 1).toNat 0) then
        x := v1.getD (base + k + 1).toNat 0
      else
        x := v1.getD (base + k - 1).toNat 0 + 1
      let mut y : Int := x - k
      for _ in [0 : a.size + 1] do
        if x < m && y < n && x ≥ 0 && y ≥ 0 && decide (a[x.toNat]? = b[y.toNat]?) then
          x := x + 1
          y := y + 1
        else break
      v1 := v1.setIfInBounds (base + k).toNat x
      if odd then
        let k2 := -delta - k
        if k2 ≥ pstart && k2 ≤ plimit then
          let x2 := m - v2.getD (base + k2).toNat 0
          if x ≥ x2 then
            return res x2 (x2 - k) (x - x2)
    -- Reverse path.
    for j in [0 : cnt] do
      let k : Int := start + 2 * (j : Int)
      let mut x : Int := 0
      if k == -d || (k != d && v2.getD (base + k - 1).toNat 0 < v2.getD (base + k + 1).toNat 0) then
        x := v2.getD (base + k + 1).toNat 0
      else
        x := v2.getD (base + k - 1).toNat 0 + 1
      let mut y : Int := x - k
      for _ in [0 : a.size + 1] do
        if x < m && y < n && x ≥ 0 && y ≥ 0 &&
            decide (a[(m - x - 1).toNat]? = b[(n - y - 1).toNat]?) then
          x := x + 1
          y := y + 1
        else break
      v2 := v2.setIfInBounds (base + k).toNat x
      if !odd then
        let k1 := -delta - k
        if k1 ≥ start && k1 ≤ limit then
          let x1 := v1.getD (base + k1).toNat 0
          let x2 := m - x
          if x1 ≥ x2 then
            return res x2 (n - y) (x1 - x2)
    pstart := start
    plimit := limit
  return none

/-! The same search written with structural recursion (this is the model the theorems are about).
Values of `x` are never negative in the Go code, so the `V` arrays hold `Nat`; diagonals `k` are
`Int`; `v[base+k]` is `v.getD (vidx base k) 0`, an out-of-range store is dropped (Go would panic). -/

/-- `for x < m && y < n && eq(x, y) { x++; y++ }` on diagonal `k` (`y = x - k`). -/
def slide (eqAt : Nat → Nat → Bool) (m n : Nat) (k : Int) : Nat → Nat → Nat
  | 0, x => x
  | fuel + 1, x =>
    if x < m ∧ 0 ≤ (x : Int) - k ∧ ((x : Int) - k).toNat < n ∧ eqAt x ((x : Int) - k).toNat = true then
      slide eqAt m n k fuel (x + 1)
    else x

/-- index `base+k` -/
def vidx (base : Nat) (k : Int) : Nat := ((base : Int) + k).toNat

/-- the `if k == -d || k != d && v[base+k-1] < v[base+k+1] { x = v[base+k+1] } else { x = v[base+k-1] + 1 }` -/
def pickX (v : Array Nat) (base d : Nat) (k : Int) : Nat :=
  if k = -(d : Int) ∨ (k ≠ (d : Int) ∧ v.getD (vidx base (k - 1)) 0 < v.getD (vidx base (k + 1)) 0) then
    v.getD (vidx base (k + 1)) 0
  else v.getD (vidx base (k - 1)) 0 + 1

/-- constants of one call of `middle` -/
structure MidEnv where
  m : Nat
  n : Nat
  base : Nat
  delta : Int
  odd : Bool
  /-- `a[x] == b[y]` -/
  eqF : Nat → Nat → Bool
  /-- `a[m-x-1] == b[n-y-1]` -/
  eqR : Nat → Nat → Bool

/-- The loop `for k := start; k <= limit; k += 2 { x := …; slide; v[base+k] = x; if check … return }`
shared by the forward and the reverse path of round `d`: `r` diagonals left, current diagonal `k`;
`check k x` is the overlap test (`some` = `return`). -/
def diagLoop (eqAt : Nat → Nat → Bool) (m n base d : Nat)
    (check : Int → Nat → Option (Int × Int × Int)) :
    Nat → Int → Array Nat → Array Nat × Option (Int × Int × Int)
  | 0, _, v => (v, none)
  | r + 1, k, v =>
    let x := slide eqAt m n k (m + 1) (pickX v base d k)
    let v := v.setIfInBounds (vidx base k) x
    match check k x with
    | some res => (v, some res)
    | none => diagLoop eqAt m n base d check r (k + 2) v

/-- overlap test of the forward path: `if odd { if k2 := -delta - k; k2 >= pstart && k2 <= plimit {
x2 := m - v2[base+k2]; if x >= x2 { return x2, x2 - k, x - x2 (before the re-check) } } }` -/
def fwdCheck (e : MidEnv) (pstart plimit : Int) (v2 : Array Nat) (k : Int) (x : Nat) :
    Option (Int × Int × Int) :=
  let k2 := -e.delta - k
  let x2 : Int := (e.m : Int) - (v2.getD (vidx e.base k2) 0 : Nat)
  if e.odd = true ∧ pstart ≤ k2 ∧ k2 ≤ plimit ∧ x2 ≤ (x : Int) then
    some (x2, x2 - k, (x : Int) - x2)
  else none

/-- overlap test of the reverse path: `if !odd { if k1 := -delta - k; k1 >= start && k1 <= limit {
x1 := v1[base+k1]; if x2 := m - x; x1 >= x2 { return x2, n - y, x1 - x2 } } }` -/
def revCheck (e : MidEnv) (start limit : Int) (v1 : Array Nat) (k : Int) (x : Nat) :
    Option (Int × Int × Int) :=
  let k1 := -e.delta - k
  let x1 : Int := (v1.getD (vidx e.base k1) 0 : Nat)
  let x2 : Int := (e.m : Int) - (x : Int)
  if e.odd = false ∧ start ≤ k1 ∧ k1 ≤ limit ∧ x2 ≤ x1 then
    some (x2, (e.n : Int) - ((x : Int) - k), x1 - x2)
  else none

/-- "Forward path" loop of round `d`. -/
def fwdLoop (e : MidEnv) (d : Nat) (pstart plimit : Int) (v2 : Array Nat) :
    Nat → Int → Array Nat → Array Nat × Option (Int × Int × Int) :=
  diagLoop e.eqF e.m e.n e.base d (fwdCheck e pstart plimit v2)

/-- "Reverse path" loop of round `d`. -/
def revLoop (e : MidEnv) (d : Nat) (start limit : Int) (v1 : Array Nat) :
    Nat → Int → Array Nat → Array Nat × Option (Int × Int × Int) :=
  diagLoop e.eqR e.m e.n e.base d (revCheck e start limit v1)

/-- `start, limit := -d, d; if d > m { limit -= 2*(d-m) }; if d > n { start += 2*(d-n) }` -/
def roundStart (n d : Nat) : Int := if d > n then -(d : Int) + 2 * ((d : Int) - n) else -(d : Int)
def roundLimit (m d : Nat) : Int := if d > m then (d : Int) - 2 * ((d : Int) - m) else (d : Int)
/-- number of iterations of `for k := start; k <= limit; k += 2` -/
def roundCount (start limit : Int) : Nat := if limit < start then 0 else ((limit - start) / 2).toNat + 1

/-- the loop `for d := 0; d <= max; d++`: `r` rounds left -/
def midLoop (e : MidEnv) : Nat → Nat → Array Nat → Array Nat → Int → Int → Option (Int × Int × Int)
  | 0, _, _, _, _, _ => none
  | r + 1, d, v1, v2, pstart, plimit =>
    let start := roundStart e.n d
    let limit := roundLimit e.m d
    let cnt := roundCount start limit
    match fwdLoop e d pstart plimit v2 cnt start v1 with
    | (_, some res) => some res
    | (v1, none) =>
      match revLoop e d start limit v1 cnt start v2 with
      | (_, some res) => some res
      | (v2, none) => midLoop e r (d + 1) v1 v2 start limit

def midEnv {α : Type} [DecidableEq α] (a b : Array α) : MidEnv where
  m := a.size
  n := b.size
  base := (a.size + b.size + 2) / 2
  delta := (b.size : Int) - a.size
  odd := ((b.size : Int) - a.size) % 2 != 0
  eqF := fun x y => decide (a[x]? = b[y]?)
  eqR := fun x y => decide (a[a.size - x - 1]? = b[b.size - y - 1]?)

/-- Everything of `middle` before the snake re-check: returns `(x2, y2, maxSnake)`.
`none` = `log.Fatal("no snake")` or a negative coordinate. Fresh zeroed buffers
(`v1 = buf[:2*max]`, `v2 = buf[2*max:]`, `len(buf) = 2*(m+n+2)`). -/
def middleRawArr {α : Type} [DecidableEq α] (a b : Array α) : Option (Nat × Nat × Nat) :=
  let e := midEnv a b
  let mx := e.base
  match midLoop e (mx + 1) 0 (Array.replicate (2 * mx) 0)
      (Array.replicate (2 * (a.size + b.size + 2) - 2 * mx) 0) 0 0 with
  | none => none
  | some (x, y, s) => if x < 0 ∨ y < 0 ∨ s < 0 then none else some (x.toNat, y.toNat, s.toNat)

section Generic2
variable {α : Type} [DecidableEq α]

def middleRaw (a b : List α) : Option (Nat × Nat × Nat) := middleRawArr a.toArray b.toArray

/-- `middle`: the search followed by the re-check loop. -/
def middle (a b : List α) : Option (Nat × Nat × Nat) :=
  match middleRaw a b with
  | none => none
  | some (ai, bi, mx) => some (ai, bi, snakeLen mx (a.drop ai) (b.drop bi))

/-- `trace` with a fresh buffer. -/
def trace (a b : List α) : Option (List Chunk) :=
  traceWith middleRaw (a.length + b.length + 1) a b

/-- `lcs`. -/
def lcs (a b : List α) : Option (List Chunk) := lcsWith middleRaw a b

end Generic2

/-! ### `LineDiff`: hunks -/

abbrev Line := List Char

structure Hunk where
  leftLine : Nat
  rightLine : Nat
  leftSize : Nat := 0
  rightSize : Nat := 0
  /-- `intro[i]`, `lines[i]` -/
  body : List (Char × Line) := []
deriving Repr, DecidableEq, Inhabited

/-- the branch of `hunk.add` for at most 14 lines -/
def Hunk.addPlain (h : Hunk) (c : Char) (lines : List Line) : Hunk :=
  { h with
    leftSize := h.leftSize + (if c ≠ '+' then lines.length else 0)
    rightSize := h.rightSize + (if c ≠ '-' then lines.length else 0)
    body := h.body ++ lines.map (fun l => (c, l)) }

/-- decimal digits (`%v` of an int ≥ 0) -/
def natText (n : Nat) : List Char := Nat.toDigits 10 n

/-- `fmt.Sprintf("  ... %v lines skipped ...", skipped)` -/
def skippedMarker (skipped : Nat) : Line :=
  [' ', ' ', '.', '.', '.', ' '] ++ natText skipped ++
    [' ', 'l', 'i', 'n', 'e', 's', ' ', 's', 'k', 'i', 'p', 'p', 'e', 'd', ' ', '.', '.', '.']

/-- `hunk.add` -/
def Hunk.add (h : Hunk) (c : Char) (lines : List Line) : Hunk :=
  if lines.length > 14 then
    let skipped := lines.length - 13
    let h := h.addPlain c (lines.take 10)
    let h := h.addPlain c [skippedMarker skipped]
    let h := h.addPlain c (lines.drop (lines.length - 3))
    { h with
      leftSize := h.leftSize + (if c ≠ '+' then skipped else 0)
      rightSize := h.rightSize + (if c ≠ '-' then skipped else 0) }
  else h.addPlain c lines

/-- `a[i:j]` for `i ≤ j ≤ len(a)` -/
def slice {β : Type} (l : List β) (i j : Nat) : List β := (l.drop i).take (j - i)

/-- State of the loop over chunks in `LineDiff`: finished hunks that `writeTo` actually printed
(`buf`), positions, current hunk. -/
structure LDState where
  out : List Hunk := []
  ai : Nat := 0
  bi : Nat := 0
  h : Hunk := { leftLine := 1, rightLine := 1 }
deriving Repr

/-- `h.writeTo(&buf)`: empty hunks are not written. -/
def writeHunk (out : List Hunk) (h : Hunk) : List Hunk :=
  if h.leftSize = 0 ∧ h.rightSize = 0 then out else out ++ [h]

/-- One iteration of the loop body (`first` = `i == 0`, `last` = `i+1 == len(chunks)`). -/
def ldStep (a b : List Line) (st : LDState) (c : Chunk) (first last : Bool) : LDState :=
  let h := st.h.add '-' (slice a st.ai (st.ai + c.del))
  let h := h.add '+' (slice b st.bi (st.bi + c.ins))
  let ai := st.ai + c.eq + c.del
  let bi := st.bi + c.eq + c.ins
  if first ∧ c.del = 0 ∧ c.ins = 0 ∧ c.eq > 3 then
    let h := { h with leftLine := c.eq - 2, rightLine := c.eq - 2 }
    { out := st.out, ai := ai, bi := bi, h := h.add ' ' (slice a (ai - 3) ai) }
  else if c.eq > 6 then
    let h := h.add ' ' (slice a (ai - c.eq) (ai - c.eq + 3))
    let out := writeHunk st.out h
    let h : Hunk := { leftLine := ai - 2, rightLine := bi - 2 }
    { out := out, ai := ai, bi := bi, h := h.add ' ' (slice a (ai - 3) ai) }
  else if last then
    let mx := min (ai - c.eq + 3) a.length
    let h := h.add ' ' (slice a (ai - c.eq) mx)
    { out := writeHunk st.out h, ai := ai, bi := bi, h := h }
  else
    { out := st.out, ai := ai, bi := bi, h := h.add ' ' (slice a (ai - c.eq) ai) }

def ldLoop (a b : List Line) : LDState → Bool → List Chunk → LDState
  | st, _, [] => st
  | st, first, c :: cs => ldLoop a b (ldStep a b st c first cs.isEmpty) false cs

/-- the hunks `LineDiff` writes for the given script -/
def hunksOfChunks (a b : List Line) (chunks : List Chunk) : List Hunk :=
  (ldLoop a b {} true chunks).out

/-- `strings.Split(s, "\n")` -/
def splitLines : List Char → List Line
  | [] => [[]]
  | c :: cs =>
    if c = '\n' then [] :: splitLines cs
    else
      match splitLines cs with
      | [] => [[c]]
      | l :: ls => (c :: l) :: ls

def joinLines : List Line → List Char
  | [] => []
  | [l] => l
  | l :: ls => l ++ '\n' :: joinLines ls

/-- `@@ -l,s +r,t @@` -/
def hunkHeader (h : Hunk) : Line :=
  ['@', '@', ' ', '-'] ++ (natText h.leftLine ++ ',' :: (natText h.leftSize ++ ' ' :: ('+' ::
    (natText h.rightLine ++ ',' :: (natText h.rightSize ++ ' ' :: ['@', '@'])))))

/-- the lines `hunk.writeTo` prints (each is followed by a newline) -/
def hunkLines (h : Hunk) : List Line := hunkHeader h :: h.body.map fun p => p.1 :: p.2

/-- `hunk.writeTo` -/
def renderHunk (h : Hunk) : List Char := (hunkLines h).flatMap fun l => l ++ ['\n']

def renderHunks (hs : List Hunk) : List Char := hs.flatMap renderHunk

/-- hunks of `LineDiff(left, right)`; `none` = the model of `lcs` failed (Go: log.Fatal). -/
def lineDiffHunks (left right : List Char) : Option (List Hunk) :=
  if left = right then some []
  else
    let a := splitLines left
    let b := splitLines right
    (lcs a b).map (hunksOfChunks a b)

/-- `LineDiff` -/
def lineDiff (left right : List Char) : Option (List Char) :=
  (lineDiffHunks left right).map renderHunks

/-! ### A small patch applier -/

/-- Body of one hunk against the rest of `a` (from the hunk's first line on): returns the produced
lines, the number of consumed and produced lines and the unconsumed rest. -/
def applyBody : List (Char × Line) → List Line → Option (List Line × Nat × Nat × List Line)
  | [], a => some ([], 0, 0, a)
  | (c, l) :: body, a =>
    if c = '+' then
      (applyBody body a).map fun (o, nl, nr, rest) => (l :: o, nl, nr + 1, rest)
    else
      match a with
      | [] => none
      | x :: a' =>
        if x ≠ l then none
        else if c = '-' then
          (applyBody body a').map fun (o, nl, nr, rest) => (o, nl + 1, nr, rest)
        else if c = ' ' then
          (applyBody body a').map fun (o, nl, nr, rest) => (l :: o, nl + 1, nr + 1, rest)
        else none

/-- Applies hunks in order. `pos` = number of lines of the original already consumed, `outLen` =
number of lines already produced. A hunk `@@ -l,s +r,t @@` must start at line `l` of the original
(1-based, `l - 1 ≥ pos`), produce its first line as line `r` of the result, consume exactly `s` and
produce exactly `t` lines; the lines between hunks are copied. -/
def applyHunksFrom : List Hunk → Nat → Nat → List Line → Option (List Line)
  | [], _, _, a => some a
  | h :: hs, pos, outLen, a =>
    if h.leftLine < pos + 1 then none
    else
      let gap := h.leftLine - 1 - pos
      if gap > a.length then none
      else if outLen + gap + 1 ≠ h.rightLine then none
      else
        match applyBody h.body (a.drop gap) with
        | none => none
        | some (o, nl, nr, rest) =>
          if nl ≠ h.leftSize ∨ nr ≠ h.rightSize then none
          else
            (applyHunksFrom hs (pos + gap + nl) (outLen + gap + nr) rest).map
              (a.take gap ++ o ++ ·)

def applyHunks (hs : List Hunk) (a : List Line) : Option (List Line) := applyHunksFrom hs 0 0 a

/-! parsing of the rendered text -/

def parseNatChars (cs : List Char) : Option Nat :=
  if cs = [] ∨ ¬ cs.all Char.isDigit then none else some (Nat.ofDigitChars 10 cs 0)

def splitAtChar (c : Char) : List Char → Option (List Char × List Char)
  | [] => none
  | x :: xs => if x = c then some ([], xs) else (splitAtChar c xs).map fun (p, q) => (x :: p, q)

def stripPrefix (p : List Char) (l : List Char) : Option (List Char) :=
  if p.isPrefixOf l then some (l.drop p.length) else none

/-- `@@ -l,s +r,t @@` → `(l, s, r, t)` -/
def parseHeader (l : Line) : Option (Nat × Nat × Nat × Nat) :=
  match stripPrefix ['@', '@', ' ', '-'] l with
  | none => none
  | some r =>
    match splitAtChar ',' r with
    | none => none
    | some (l1, r) =>
      match splitAtChar ' ' r with
      | none => none
      | some (s1, r) =>
        match stripPrefix ['+'] r with
        | none => none
        | some r =>
          match splitAtChar ',' r with
          | none => none
          | some (l2, r) =>
            match splitAtChar ' ' r with
            | none => none
            | some (s2, r) =>
              if r ≠ ['@', '@'] then none
              else
                match parseNatChars l1, parseNatChars s1, parseNatChars l2, parseNatChars s2 with
                | some a, some b, some c, some d => some (a, b, c, d)
                | _, _, _, _ => none

/-- Lines of the rendered diff → hunks. A line starting with `@` opens a hunk; other lines must
start with ' ', '+' or '-'. -/
def parseHunkLines : List Line → Option Hunk → List Hunk → Option (List Hunk)
  | [], cur, acc => some (acc ++ cur.toList)
  | l :: ls, cur, acc =>
    match l with
    | [] => none
    | c :: rest =>
      if c = '@' then
        match parseHeader l with
        | none => none
        | some (l1, s1, l2, s2) =>
          parseHunkLines ls (some { leftLine := l1, rightLine := l2, leftSize := s1, rightSize := s2 })
            (acc ++ cur.toList)
      else if c = ' ' ∨ c = '+' ∨ c = '-' then
        match cur with
        | none => none
        | some h => parseHunkLines ls (some { h with body := h.body ++ [(c, rest)] }) acc
      else none

/-- every rendered line ends in '\n': the text splits into lines plus a final empty piece -/
def parsePatch (text : List Char) : Option (List Hunk) :=
  let ls := splitLines text
  match ls.reverse with
  | [] :: revInit => parseHunkLines revInit.reverse none []
  | _ => none

/-- Apply the rendered unified diff `patch` to the text `left`. -/
def applyPatch (patch left : List Char) : Option (List Char) :=
  match parsePatch patch with
  | none => none
  | some hs => (applyHunks hs (splitLines left)).map joinLines

end TmVerif.Diff
