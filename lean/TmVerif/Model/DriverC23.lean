import TmVerif.Model.Proto
import TmVerif.Model.LS
/-!
Line-protocol driver for C23 (language server).

ops
  `dec <hex>`                         → `<rune> <width>`                     (utf8.DecodeRune)
  `pos <hex content> <line> <char>`   → `ok <offset>` | `err noline|badcol|midpair`   (ls.resolvePosition)
  `u16 <hex content> <offset>`        → `<line> <char>`                      (spec of outgoing positions)
  `hist <mode> <contents> <ops>`      → transcript of the server (see below)
  `judge <implementation answer…> :: <case>` → `holds` | `violates: …`

`hist`: `<mode>` = four characters `0/1`: diagUtf16, locUtf16, synFixed, emptyIgnored.
`<contents>` = `|`-separated entries `hex/problems/idents` (`_` = none): problems `;`-separated
`s:off:stop:line:col` (an entry of a status.Status) or `y:off:stop` (a tm.SyntaxError); idents `;`-separated
`off:stop:kind:decl:line:col`. `<ops>` = `|`-separated `o:name.variant:version:content`,
`g:name.variant:version:content,content…` (`-` = empty change list), `x:name.variant`,
`d:name.variant:line:char`.
Transcript: `wf=1` (every origin / identifier satisfies the hypotheses of the theorems: inside the content,
line/column of its offset, on a rune boundary) or `wf=0`, then one item per output in request order:
`P<name>.<variant>:<version>:<sorted ranges>`, `L<name>.<variant>:<sorted ranges>`, `E:<error>`, and `CRASH`
where the server dies.
-/
namespace TmVerif.DriverC23
open TmVerif.Proto TmVerif.LS

def showErr : PosErr → String
  | .noLine => "noline"
  | .badCol => "badcol"
  | .midPair => "midpair"

def parseMode (s : String) : Option Mode :=
  match s.toList with
  | [a, b, c, d] => some ⟨a == '1', b == '1', c == '1', d == '1'⟩
  | _ => none

def parseProblem (s : String) : Option Problem :=
  match s.splitOn ":" with
  | ["s", a, b, c, d] => do pure (.status ⟨← parseInt? a, ← parseInt? b, ← parseInt? c, ← parseInt? d⟩)
  | ["y", a, b] => do pure (.syntax (← parseInt? a) (← parseInt? b))
  | _ => none

def parseIdent (s : String) : Option Ident :=
  match s.splitOn ":" with
  | [a, b, k, d, l, c] => do
    pure ⟨← parseNat? a, ← parseNat? b, ← parseNat? k, ← parseBool? d, ← parseInt? l, ← parseInt? c⟩
  | _ => none

def parseList {α : Type} (f : String → Option α) (s : String) : Option (List α) :=
  if s == "_" then some [] else (s.splitOn ";").mapM f

structure Entry where
  text : Bytes
  problems : List Problem
  idents : List Ident

def parseEntry (s : String) : Option Entry :=
  match s.splitOn "/" with
  | [h, p, i] => do pure ⟨← parseHex h, ← parseList parseProblem p, ← parseList parseIdent i⟩
  | _ => none

def parseUri (s : String) : Option Uri :=
  match s.splitOn "." with
  | [n, v] => do pure ⟨← parseNat? n, ← parseNat? v⟩
  | _ => none

def parseOp (tab : Array Entry) (s : String) : Option Op :=
  match s.splitOn ":" with
  | ["o", u, v, c] => do
    let e ← tab[(← parseNat? c)]?
    pure (.openDoc (← parseUri u) (← parseInt? v) e.text)
  | ["g", u, v, cs] => do
    let idx ← if cs == "-" then some [] else (cs.splitOn ",").mapM parseNat?
    let texts ← idx.mapM fun i => (tab[i]?).map (·.text)
    pure (.change (← parseUri u) (← parseInt? v) texts)
  | ["x", u] => do pure (.close (← parseUri u))
  | ["d", u, l, c] => do pure (.definition (← parseUri u) (← parseNat? l) (← parseNat? c))
  | _ => none

def mkEnv (m : Mode) (tab : Array Entry) : Env where
  mode := m
  problems := fun t => match tab.find? (fun e => e.text == t) with
    | some e => e.problems
    | none => []
  idents := fun t => match tab.find? (fun e => e.text == t) with
    | some e => e.idents
    | none => []

def rangeKey (r : Range) : Nat × Nat × Nat × Nat := (r.start.line, r.start.char, r.stop.line, r.stop.char)

def rangeLe (a b : Range) : Bool :=
  let x := rangeKey a; let y := rangeKey b
  x.1 < y.1 || (x.1 == y.1 && (x.2.1 < y.2.1 || (x.2.1 == y.2.1 && (x.2.2.1 < y.2.2.1 ||
    (x.2.2.1 == y.2.2.1 && x.2.2.2 ≤ y.2.2.2)))))

def insertSorted (r : Range) : List Range → List Range
  | [] => [r]
  | x :: xs => if rangeLe r x then r :: x :: xs else x :: insertSorted r xs

def sortRanges (l : List Range) : List Range := l.foldr insertSorted []

def showRange (r : Range) : String :=
  s!"{r.start.line}.{r.start.char}-{r.stop.line}.{r.stop.char}"

def showRanges (l : List Range) : String :=
  if l.isEmpty then "-" else ",".intercalate ((sortRanges l).map showRange)

def showUri (u : Uri) : String := s!"{u.name}.{u.variant}"

def showOut : Out → String
  | .publish u v rs => s!"P{showUri u}:{v}:{showRanges rs}"
  | .locations u rs => if rs.isEmpty then "L:-" else s!"L{showUri u}:{showRanges rs}"  -- an empty list shows no URI
  | .defError .notOpen => "E:notopen"
  | .defError (.pos e) => s!"E:{showErr e}"

/-- Decidable version of `RuneBoundary` given the byte column: decoding from the line start reaches `off`
exactly, without meeting a newline. -/
def boundaryFrom : Nat → Bytes → Nat → Bool
  | _, _, 0 => true
  | 0, _, _ + 1 => false
  | fuel + 1, rest, k + 1 =>
    let rw := decodeRune rest
    if rw.2 = 0 ∨ rw.1 = 10 ∨ rw.2 > k + 1 then false
    else boundaryFrom fuel (rest.drop rw.2) (k + 1 - rw.2)

def isBoundary (c : Bytes) (off : Nat) : Bool :=
  let bc := (lineCol c off).2
  boundaryFrom (bc + 1) (c.drop (off - bc)) bc

/-- The hypotheses of the range theorems, on every origin / identifier of the table. -/
def entryWf (m : Mode) (e : Entry) : Bool :=
  decide (e.text.length < 4294967296) &&
  e.problems.all (fun p => match p with
    | .status o => (o.inDoc e.text && isBoundary e.text o.off.toNat) ||
        -- an origin-less error is clamped by the repaired code
        (m.synFixed && decide (o.line ≤ 0 ∧ o.off = 0 ∧ o.stop = 0))
    | .syntax off stop =>
        !m.synFixed || !(decide (0 ≤ off ∧ off ≤ stop ∧ stop ≤ e.text.length)) || isBoundary e.text off.toNat) &&
  e.idents.all (fun i => i.inDoc e.text && isBoundary e.text i.off)

def transcript (m : Mode) (tab : Array Entry) (ops : List Op) : String :=
  let r := run (mkEnv m tab) [] ops
  let items := r.1.flatMap (fun outs => outs.map showOut)
  let items := if r.2 then items else items ++ ["CRASH"]
  let wf := if tab.toList.all (entryWf m) then "wf=1" else "wf=0"
  " ".intercalate (wf :: items)

def parseHist (mode contents ops : String) : Option (Mode × Array Entry × List Op) := do
  let m ← parseMode mode
  let tab ← (if contents == "_" then some [] else (contents.splitOn "|").mapM parseEntry)
  let tab := tab.toArray
  let ops ← (if ops == "_" then some [] else (ops.splitOn "|").mapM (parseOp tab))
  pure (m, tab, ops)

/-- First position at which two transcripts differ. -/
def firstDiff : List String → List String → Option (String × String)
  | [], [] => none
  | a :: as, [] => some (a, "<nothing>")
  | [], b :: _ => some ("<nothing>", b)
  | a :: as, b :: bs => if a == b then firstDiff as bs else some (a, b)

def handle (args : List String) : Option String :=
  match args with
  | ["dec", h] => do
    let s ← parseHex h
    let rw := decodeRune s
    some s!"{rw.1} {rw.2}"
  | ["pos", h, l, c] => do
    let s ← parseHex h; let l ← parseNat? l; let c ← parseNat? c
    match resolvePosition s l c with
    | .ok off => some s!"ok {off}"
    | .error e => some s!"err {showErr e}"
  | ["u16", h, off] => do
    let s ← parseHex h; let off ← parseNat? off
    let p := utf16Pos s off
    some s!"{p.1} {p.2}"
  | ["hist", mode, contents, ops] => do
    let (m, tab, ops) ← parseHist mode contents ops
    some (transcript m tab ops)
  | "judge" :: rest =>
    -- split at "::"
    let go := rest.takeWhile (· != "::")
    let cs := (rest.dropWhile (· != "::")).drop 1
    match cs with
    | ["hist", mode, contents, ops] => do
      let (m, tab, ops) ← parseHist mode contents ops
      -- the documented behaviour: all repairs in place (UTF-16 columns, problems inside the document, no crash);
      -- an empty change list is judged only for "no crash"
      let _ := m
      let spec := transcript Mode.fixed tab ops
      let specItems := (spec.splitOn " ").filter (· ≠ "")
      if go.contains "CRASH" then some "violates: the server process died"
      else if go.contains "HANG" then some "violates: the server did not answer within the timeout"
      else if go.head? == some "wf=0" || specItems.head? == some "wf=0" then
        some "violates: a problem or identifier lies outside the document (or not on a rune boundary)"
      else match firstDiff go specItems with
        | none => some "holds"
        | some (g, s) => some s!"violates: the server sent `{g}` where the protocol (latest content, version of the change, request order, UTF-16 positions inside the document) prescribes `{s}`"
    | ["pos", h, l, c] => do
      let s ← parseHex h; let l ← parseNat? l; let c ← parseNat? c
      let want := match resolvePosition s l c with
        | .ok off => s!"ok {off}"
        | .error e => s!"err {showErr e}"
      if go == (want.splitOn " ") then some "holds"
      else some s!"violates: resolvePosition must answer `{want}` (the rune boundary with that UTF-16 position, an error when there is none)"
    | _ => none
  | _ => none

end TmVerif.DriverC23
