/-
C07 completeness validator: the LR(1)-item certificate of Model/LRComplete.lean generalised from
one lookahead terminal to lookahead STRINGS of length `k` (LALR(k), `lalr/trie.go`).

A certificate `KCert` gives, for every table state, a list of items `(rule, dot, strings)` —
the strings are the possible next `k` terminals (end-of-input `0` pads, the lexer returns EOI for
ever) after the item's rule — plus an over-approximation `first` of FIRST_k of every nonterminal.
It is computed from the executable LALR(k) reference (`mkKCert`: `LRK.lakFix`, untrusted) and
then CHECKED (`complKOk`, declarative, finite ranges only); `complKOk g t k cc = true` is the
hypothesis of `C07_lr_complete_k` (Props/C07.lean).

The action conditions quantify over the runtime's own decoding function `actOf` with the deep
lookahead replaced by a structural walk (`trieWalkZ`) over the rest of the lookahead string; the
proof shows that `deepLA` (`resolveDeepLA`) reading the same tokens from the lexer copy takes the
same decision.
-/
import TmVerif.Model.LRSound
import TmVerif.Model.LRK
namespace TmVerif.LRCompleteK
open TmVerif.LR TmVerif.CFG TmVerif.LRSound TmVerif.LRRef TmVerif.LRK

structure KItem where
  rule : Nat
  dot : Nat
  la : List Str
deriving Repr, DecidableEq, Inhabited

structure KCert where
  items : Array (List KItem)
  first : Array (List Str)    -- per symbol: prefixes of length k and shorter complete yields
deriving Repr, Inhabited, DecidableEq

def itemsOf (cc : KCert) (s : Nat) : List KItem := cc.items.getD s []

/-! ### string sets (declarative versions of `LRK.catSets`/`firstKOfSeq`) -/

/-- `A ⊕ₖ B` -/
def catD (k : Nat) (A B : List Str) : List Str :=
  A.flatMap fun x => if x.length ≥ k then [x.take k] else B.map (catK k x)

def firstSeq (g : Grammar) (k : Nat) (first : Array (List Str)) : List Nat → List Str
  | [] => [[]]
  | s :: rest => catD k (if s < g.nTerms then [[s]] else first.getD s []) (firstSeq g k first rest)

def subStr (A B : List Str) : Bool := A.all fun x => B.contains x

/-- state `s` has an item `(r, d, L')` with `L ⊆ L'` -/
def hasItem (cc : KCert) (s r d : Nat) (L : List Str) : Bool :=
  (itemsOf cc s).any fun it => it.rule == r && it.dot == d && subStr L it.la

/-! ### the decision on a lookahead string -/

/-- walk a lookahead list of the tables along the tokens `x`; the decision must have been taken
when the first EOI has been read (the runtime's `resolveDeepLA` keeps reading EOI for ever) -/
def trieWalkZ (t : Tables) : Int → Str → Option Int
  | action, [] => if action < -2 then none else some action
  | action, a :: rest =>
    if action < -2 then
      match lalrLookup t action a with
      | none => none
      | some act =>
        if a = 0 then (if act < -2 then none else some act) else trieWalkZ t act rest
    else some action

/-- the action in state `s` when the next tokens are `u` -/
def actOfU (t : Tables) (s : Nat) (u : Str) : Option Act :=
  match u with
  | [] => none
  | a :: rest => actOf t (fun x => trieWalkZ t x rest) s a

/-! ### the conditions -/

/-- (N) `first` is closed under the rules -/
def firstOk (g : Grammar) (k : Nat) (cc : KCert) : Bool :=
  g.rules.toList.all fun r => subStr (firstSeq g k cc.first r.rhs) (cc.first.getD r.lhs [])

/-- (S) start items; for a no-eoi input any terminal string may follow -/
def startOk (g : Grammar) (k : Nat) (cc : KCert) : Bool :=
  (List.range g.inputs.size).all fun i =>
    match g.inputs[i]? with
    | some inp =>
      hasItem cc i (g.rules.size + i) 0
        (if inp.eoi then [List.replicate k 0] else allStrings g.nTerms k)
    | none => false

/-- the next `k` terminals after the symbol behind the dot of `it` -/
def contrib (g : Grammar) (k : Nat) (cc : KCert) (it : KItem) : List Str :=
  catD k (firstSeq g k cc.first ((rhsOf g it.rule).drop (it.dot + 1))) it.la

/-- (C) closure -/
def closOk (g : Grammar) (k : Nat) (cc : KCert) (s : Nat) (it : KItem) : Bool :=
  match (rhsOf g it.rule)[it.dot]? with
  | none => true
  | some x =>
    x < g.nTerms || (rulesOf g x).all fun r' => hasItem cc s r' 0 (contrib g k cc it)

/-- (G) moves: a nonterminal by `gotoState`; a terminal `x` by a shift that is decided on every
lookahead string `x · contrib` -/
def moveOk (g : Grammar) (t : Tables) (k : Nat) (cc : KCert) (s : Nat) (it : KItem) : Bool :=
  match (rhsOf g it.rule)[it.dot]? with
  | none => true
  | some x =>
    if x < g.nTerms then
      needsTok t s == some true &&
      (catD k [[x]] (contrib g k cc it)).all fun u =>
        match actOfU t s u with
        | some (.shift q) => decide (0 ≤ q) && hasItem cc q.toNat it.rule (it.dot + 1) it.la
        | _ => false
    else
      match gotoState t s x with
      | some q => decide (0 ≤ q) && hasItem cc q.toNat it.rule (it.dot + 1) it.la
      | none => false

/-- (R) a complete item of a grammar rule: on every lookahead string of its set the decoded action
(one-token lookup, or the walk over the lookahead automaton) is the reduction by that rule -/
def redOk (g : Grammar) (t : Tables) (k : Nat) (s : Nat) (it : KItem) : Bool :=
  match g.rules[it.rule]? with
  | none => true
  | some rule =>
    it.dot != rule.rhs.length ||
    (geti t.ruleLen it.rule == some (rule.rhs.length : Int) &&
     geti t.ruleSymbol it.rule == some (rule.lhs : Int) &&
     match needsTok t s with
     | none => false
     | some true =>
       it.la.all fun u =>
         u.length != k || actOfU t s u == some (.reduce (it.rule : Int))
     | some false =>
       it.la.isEmpty || actOf t noDeep s 0 == some (.reduce (it.rule : Int)))

/-- (F) a complete augmented item of input `i` occurs only in the final state of `i` -/
def finOk (g : Grammar) (t : Tables) (s : Nat) (it : KItem) : Bool :=
  it.rule < g.rules.size || it.dot != (rhsOf g it.rule).length ||
  t.finalStates[it.rule - g.rules.size]? == some (s : Int)

def itemOk (g : Grammar) (t : Tables) (k : Nat) (cc : KCert) (s : Nat) (it : KItem) : Bool :=
  closOk g k cc s it && moveOk g t k cc s it && redOk g t k s it && finOk g t s it

def complKOk (g : Grammar) (t : Tables) (k : Nat) (cc : KCert) : Bool :=
  g.wf && decide (t.nTerms = g.nTerms) && decide (1 ≤ k) &&
  firstOk g k cc && startOk g k cc &&
  ((List.range cc.items.size).all fun s => (itemsOf cc s).all fun it => itemOk g t k cc s it)

/-! ### computing the certificate (untrusted) -/

def mkKCert (g : Grammar) (t : Tables) (k : Nat) : Except String KCert := do
  let phi ← phiWalk g t
  let la := lakFix g t k phi
  pure { items := la.map fun l => l.map fun p => ⟨p.1.1, p.1.2, p.2⟩, first := firstK g k }

/-- diagnostics: the first failing condition -/
def complKFailure (g : Grammar) (t : Tables) (k : Nat) (cc : KCert) : String :=
  if !g.wf then "grammar not well-formed" else
  if t.nTerms ≠ g.nTerms then "terminal counts differ" else
  if k = 0 then "k = 0" else
  if !firstOk g k cc then "(N) first_k is not closed under the rules" else
  if !startOk g k cc then "(S) an entry state lacks its augmented start item" else
  match (List.range cc.items.size).findSome? (fun s =>
      (itemsOf cc s).findSome? fun it =>
        let d := s!"state {s} item ({it.rule},{it.dot},{it.la})"
        if !closOk g k cc s it then some s!"(C) {d}: closure items missing or lookahead set too small"
        else if !moveOk g t k cc s it then some s!"(G) {d}: no transition on the symbol after the dot for some lookahead string, or the target lacks the advanced item"
        else if !redOk g t k s it then some s!"(R) {d}: the state does not reduce by the rule on every lookahead string [C07-trie]"
        else if !finOk g t s it then some s!"(F) {d}: complete augmented item outside the final state"
        else none) with
  | some m => m
  | none => "certificate rejected"

end TmVerif.LRCompleteK
