/-
C17: the (use, definition) pairs of the Go templates, computed from the regenerated facts
(Facts/GeneratedC17.lean) and the expectation tables (Facts/ExpectC17.lean). Core Lean only.
-/
import TmVerif.Model.Guards
import TmVerif.Facts.GeneratedC17
import TmVerif.Facts.ExpectC17
namespace TmVerif.Guards
open TmVerif.Facts

/-- Id of the atom with this text; an id no atom has when there is none (see `axiomsResolve`). -/
def atomId (s : String) : Nat :=
  match c17Atoms.find? (fun a => a.text == s) with
  | some a => a.id
  | none => 1000000

def atomKnown (s : String) : Bool := c17Atoms.any (fun a => a.text == s)

def tfToGF : TF → GF
  | .tt => .tt
  | .a s => .atom (atomId s)
  | .not f => .not (tfToGF f)
  | .and f g => .and (tfToGF f) (tfToGF g)
  | .or f g => .or (tfToGF f) (tfToGF g)

def tfKnown : TF → Bool
  | .tt => true
  | .a s => atomKnown s
  | .not f => tfKnown f
  | .and f g => tfKnown f && tfKnown g
  | .or f g => tfKnown f && tfKnown g

/-- The implication table, resolved. -/
def axioms : List Ax := c17Axioms.map (fun a => ⟨tfToGF a.hyp, tfToGF a.concl⟩)

/-- Ids of the `.Options.IsEnabled "x"` atoms. -/
def delegatedIds : List Nat :=
  (c17AtomExpectations.filter (fun e => e.kind == .delegated)).map (fun e => atomId e.text)

def isDelegated (n : Nat) : Bool := delegatedIds.contains n

def localDefIds : List Nat :=
  (c17AtomExpectations.filter (fun e => e.kind == .localDef)).map (fun e => atomId e.text)

def fileCond (id : Nat) : GF :=
  match c17Files.find? (fun f => f.id == id) with
  | some f => f.cond
  | none => GF.ff

def fileName (id : Nat) : String :=
  match c17Files.find? (fun f => f.id == id) with
  | some f => f.file
  | none => "?"

def nameOf (id : Nat) : String × String :=
  match c17Names.find? (fun n => n.id == id) with
  | some n => (n.pkg, n.name)
  | none => ("?", "?")

/-- Guard of a use: its file is generated and the guards around the text hold. -/
def useGuard (u : TmplUse) : GF := .and (fileCond u.file) u.guard

/-- Guard of one declaration site as seen by a use: `.Options.IsEnabled` atoms count as true. -/
def defSiteGuard (d : TmplDef) : GF := .and (fileCond d.file) (substTrue isDelegated d.guard)

/-- Guard of one declaration site as it is (duplicate check). -/
def defSiteGuardRaw (d : TmplDef) : GF := .and (fileCond d.file) d.guard

def disj : List GF → GF
  | [] => GF.ff
  | [f] => f
  | f :: rest => .or f (disj rest)

/-- The identifier is declared: some declaration site of it is generated. -/
def defGuard (name : Nat) : GF := disj ((c17Defs.filter (fun d => d.name == name)).map defSiteGuard)

def useIs (u : TmplUse) (pkg name file tmpl : String) : Bool :=
  nameOf u.name == (pkg, name) && fileName u.file == file && u.tmpl == tmpl

def knownFor (u : TmplUse) : Option KnownInconsistent :=
  c17KnownInconsistent.find? (fun k => useIs u k.pkg k.name k.file k.tmpl)

def notPropFor (u : TmplUse) : Option NotPropositional :=
  c17NotPropositional.find? (fun k => useIs u k.pkg k.name k.file k.tmpl)

/-- Uses outside the obligation: listed as known-inconsistent or as not propositional. -/
def excluded (u : TmplUse) : Bool := (knownFor u).isSome || (notPropFor u).isSome

def useOk (u : TmplUse) : Bool := excluded u || checkImp axioms (useGuard u) (defGuard u.name)

/-- Everything at once, grouped by name so that each definition guard is built once. -/
def allUsesOk : Bool :=
  c17Names.all (fun n =>
    let dg := defGuard n.id
    (c17Uses.filter (fun u => u.name == n.id)).all (fun u => excluded u || checkImp axioms (useGuard u) dg))

/-- The counter-valuation of a known-inconsistent entry: its `trues` and every delegated atom. -/
def knownTrues (k : KnownInconsistent) : List Nat := k.trues.map atomId ++ delegatedIds

def knownEntryOk (k : KnownInconsistent) : Bool :=
  let us := c17Uses.filter (fun u => useIs u k.pkg k.name k.file k.tmpl)
  !us.isEmpty && k.trues.all atomKnown &&
    us.all (fun u => refutes axioms (useGuard u) (defGuard u.name) (knownTrues k))

def notPropEntryOk (k : NotPropositional) : Bool :=
  let us := c17Uses.filter (fun u => useIs u k.pkg k.name k.file k.tmpl)
  !us.isEmpty && us.all (fun u =>
    (c17Defs.filter (fun d => d.name == u.name)).all (fun d => shares (atomsOf d.guard) localDefIds))

/-- Two declaration sites of one name are never generated together. -/
def noDuplicates : Bool :=
  c17Names.all (fun n =>
    let ds := (c17Defs.filter (fun d => d.name == n.id)).map defSiteGuardRaw
    let rec go : List GF → Bool
      | [] => true
      | g :: rest => rest.all (fun h => checkImp axioms (.and g h) GF.ff) && go rest
    go ds)

def atomsClassified : Bool :=
  c17Atoms.all (fun a => c17AtomExpectations.any (fun e => e.text == a.text)) &&
  c17AtomExpectations.all (fun e => atomKnown e.text) &&
  c17Atoms.length == c17AtomExpectations.length

def axiomsResolve : Bool := c17Axioms.all (fun a => tfKnown a.hyp && tfKnown a.concl)

def hashesPinned : Bool :=
  c17ExpectedHashes.all (fun e => c17Hashes.any (fun h => h.what == e.what && h.hash == e.hash))

/-- Counts for the driver: uses, consistent, known-inconsistent, not propositional, inconsistent. -/
def counts : Nat × Nat × Nat × Nat × Nat :=
  c17Uses.foldl (fun (t, c, k, p, i) u =>
    if (knownFor u).isSome then (t + 1, c, k + 1, p, i)
    else if (notPropFor u).isSome then (t + 1, c, k, p + 1, i)
    else if checkImp axioms (useGuard u) (defGuard u.name) then (t + 1, c + 1, k, p, i)
    else (t + 1, c, k, p, i + 1)) (0, 0, 0, 0, 0)

/-- The uses that are neither listed nor consistent (for the driver's report). -/
def openUses : List String :=
  (c17Uses.filter (fun u => !useOk u)).map (fun u =>
    let (p, n) := nameOf u.name
    s!"{p}.{n}@{fileName u.file}:{u.tmpl}")

end TmVerif.Guards
