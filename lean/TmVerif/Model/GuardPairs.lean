/-
C17: the (use, definition) pairs of the Go templates, computed from the regenerated facts
(Facts/GeneratedC17.lean) and the expectation tables (Facts/ExpectC17.lean). Core Lean only.

Kernel evaluation of String equality is very slow, so everything that an obligation evaluates works on ids
(atom id = position in `c17Atoms`, likewise names, files, define blocks). The texts of the hand-written tables
are connected to ids through the hint tables of ExpectC17.lean; `textsOfAxioms …` below are the two sides of the
`rfl` checks that validate the hints (Props/C17.lean, `C17_tables_resolve`).
-/
import TmVerif.Model.Guards
import TmVerif.Facts.GeneratedC17
import TmVerif.Facts.ExpectC17
namespace TmVerif.Guards
open TmVerif.Facts

/-! ## ids ↔ texts -/

def atomText (i : Nat) : String := ((c17Atoms[i]?).map (·.text)).getD "<no such atom>"
def nameText (i : Nat) : String × String := ((c17Names[i]?).map (fun n => (n.pkg, n.name))).getD ("?", "?")
def fileName (i : Nat) : String := ((c17Files[i]?).map (·.file)).getD "?"
def tmplName (i : Nat) : String := (c17Tmpls[i]?).getD "?"

/-- ids are positions. -/
def idsAreOrdinals : Bool :=
  c17Atoms.map (·.id) == List.range c17Atoms.length &&
  c17Names.map (·.id) == List.range c17Names.length &&
  c17Files.map (·.id) == List.range c17Files.length

/-- Atom texts of a table formula, in order of occurrence. -/
def tfTexts : TF → List String
  | .tt => []
  | .a s => [s]
  | .not f => tfTexts f
  | .and f g => tfTexts f ++ tfTexts g
  | .or f g => tfTexts f ++ tfTexts g

/-- Resolves a table formula with the hinted ids (consumed in order of occurrence). -/
def tfToGF : TF → List Nat → GF × List Nat
  | .tt, ids => (.tt, ids)
  | .a _, [] => (.atom 1000000, [])
  | .a _, i :: ids => (.atom i, ids)
  | .not f, ids => let (g, r) := tfToGF f ids; (.not g, r)
  | .and f g, ids => let (f', r) := tfToGF f ids; let (g', r') := tfToGF g r; (.and f' g', r')
  | .or f g, ids => let (f', r) := tfToGF f ids; let (g', r') := tfToGF g r; (.or f' g', r')

def resolveAx (a : AxExpect) (ids : List Nat) : Ax :=
  let (h, r) := tfToGF a.hyp ids
  let (c, _) := tfToGF a.concl r
  ⟨h, c⟩

/-- The implication table, resolved. -/
def axioms : List Ax := (c17Axioms.zip c17AxiomAtomIds).map (fun (a, ids) => resolveAx a ids)

/-- Both sides of the check that the axiom hints are right. -/
def axiomTextsWritten : List (List String) := c17Axioms.map (fun a => tfTexts a.hyp ++ tfTexts a.concl)
def axiomTextsHinted : List (List String) := c17AxiomAtomIds.map (fun ids => ids.map atomText)

def knownTextsWritten : List (List String) :=
  c17KnownInconsistent.map (fun k => [k.pkg, k.name, k.file, k.tmpl] ++ k.trues)
def knownTextsHinted : List (List String) :=
  c17KnownIds.map (fun (n, f, t, tr) => [(nameText n).1, (nameText n).2, fileName f, tmplName t] ++ tr.map atomText)

def notPropTextsWritten : List (List String) := c17NotPropositional.map (fun k => [k.pkg, k.name, k.file, k.tmpl])
def notPropTextsHinted : List (List String) :=
  c17NotPropIds.map (fun (n, f, t) => [(nameText n).1, (nameText n).2, fileName f, tmplName t])

/-- Atom texts of the facts and of the classification, both in id order. -/
def atomTextsFacts : List String := c17Atoms.map (·.text)
def atomTextsExpected : List String := c17AtomExpectations.map (·.text)

def kindOf (i : Nat) : Option AtomKind := (c17AtomExpectations[i]?).map (·.kind)

/-- `.Options.IsEnabled "x"` atoms. -/
def isDelegated (n : Nat) : Bool := kindOf n == some .delegated
def isLocalDef (n : Nat) : Bool := kindOf n == some .localDef

def delegatedIds : List Nat := (List.range c17AtomExpectations.length).filter isDelegated

/-! ## guards -/

/-- All declaration sites / use sites. -/
def c17Defs : List TmplDef := c17Groups.flatMap (·.defs)
def c17Uses : List TmplUse := c17Groups.flatMap (·.uses)

/-- Groups are indexed by name id and every site sits in the group of its name. -/
def groupsWellFormed : Bool :=
  c17Groups.map (·.name) == List.range c17Names.length &&
  c17Groups.all (fun g => g.defs.all (fun d => d.name == g.name) && g.uses.all (fun u => u.name == g.name))

def fileCond (id : Nat) : GF := ((c17Files[id]?).map (·.cond)).getD GF.ff

/-- Guard of a use: its file is generated and the guards around the text hold. -/
def useGuard (u : TmplUse) : GF := .and (fileCond u.file) u.guard

/-- Guard of one declaration site as seen by a use: `.Options.IsEnabled` atoms count as true. -/
def defSiteGuard (d : TmplDef) : GF := .and (fileCond d.file) (substTrue (fun n => delegatedIds.contains n) d.guard)

/-- Guard of one declaration site as it is (duplicate check). -/
def defSiteGuardRaw (d : TmplDef) : GF := .and (fileCond d.file) d.guard

def disj : List GF → GF
  | [] => GF.ff
  | [f] => f
  | f :: rest => .or f (disj rest)

/-- The identifier is declared: some declaration site of it is generated. -/
def defGuardOf (defs : List TmplDef) : GF := disj (defs.map defSiteGuard)

/-- Declaration guard of the identifier with this name id. -/
def defGuard (name : Nat) : GF := defGuardOf (((c17Groups[name]?).map (·.defs)).getD [])

def useIs (u : TmplUse) (n f t : Nat) : Bool := u.name == n && u.file == f && u.tmpl == t

def isKnown (u : TmplUse) : Bool := c17KnownIds.any (fun (n, f, t, _) => useIs u n f t)
def isNotProp (u : TmplUse) : Bool := c17NotPropIds.any (fun (n, f, t) => useIs u n f t)

/-- Uses outside the obligation: listed as known-inconsistent or as not propositional. -/
def excluded (u : TmplUse) : Bool := isKnown u || isNotProp u

def useOk (u : TmplUse) : Bool := excluded u || checkImp axioms (useGuard u) (defGuard u.name)

/-- Everything at once, group by group so that each definition guard is built once. -/
def allUsesOk : Bool :=
  c17Groups.all (fun g =>
    let dg := defGuardOf g.defs
    g.uses.all (fun u => excluded u || checkImp axioms (useGuard u) dg))

/-- A known-inconsistent entry matches at least one use, and its valuation (`trues` and every delegated atom)
refutes every use it matches. -/
def knownEntryOk (k : Nat × Nat × Nat × List Nat) : Bool :=
  let us := (((c17Groups[k.1]?).map (·.uses)).getD []).filter (fun u => useIs u k.1 k.2.1 k.2.2.1)
  !us.isEmpty && us.all (fun u => refutes axioms (useGuard u) (defGuard k.1) (k.2.2.2 ++ delegatedIds))

def notPropEntryOk (k : Nat × Nat × Nat) : Bool :=
  let us := (((c17Groups[k.1]?).map (·.uses)).getD []).filter (fun u => useIs u k.1 k.2.1 k.2.2)
  !us.isEmpty && (((c17Groups[k.1]?).map (·.defs)).getD []).all (fun d => (atomsOf d.guard).any isLocalDef)

def noDupGo : List GF → Bool
  | [] => true
  | g :: rest => rest.all (fun h => checkImp axioms (.and g h) GF.ff) && noDupGo rest

/-- Two declaration sites of one name are never generated together. -/
def noDuplicates : Bool := c17Groups.all (fun g => noDupGo (g.defs.map defSiteGuardRaw))

/-- Go rejects a label that nothing jumps to: whenever a label is generated, a `goto` / `break` / `continue`
naming it is generated in the same function. -/
def labelsUsed : Bool :=
  c17LabelNames.all (fun n =>
    match c17Groups[n]? with
    | some g => g.defs.all (fun d => checkImp axioms (defSiteGuardRaw d) (disj (g.uses.map useGuard)))
    | none => false)

/-- Counts for the driver: uses, consistent, known-inconsistent, not propositional, inconsistent. -/
def counts : Nat × Nat × Nat × Nat × Nat :=
  c17Uses.foldl (fun (t, c, k, p, i) u =>
    if isKnown u then (t + 1, c, k + 1, p, i)
    else if isNotProp u then (t + 1, c, k, p + 1, i)
    else if checkImp axioms (useGuard u) (defGuard u.name) then (t + 1, c + 1, k, p, i)
    else (t + 1, c, k, p, i + 1)) (0, 0, 0, 0, 0)

/-- The uses that are neither listed nor consistent (for the driver's report). -/
def openUses : List String :=
  (c17Uses.filter (fun u => !useOk u)).map (fun u =>
    let (p, n) := nameText u.name
    s!"{p}.{n}@{fileName u.file}:{tmplName u.tmpl}")

end TmVerif.Guards
