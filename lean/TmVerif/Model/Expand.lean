/-
C13 — desugaring of the extended grammar notation (`syntax/expand.go`, `compiler/syntax.go`,
the rule flattening of `compiler/compiler.go: generateTables` and the set/lookahead rules of
`syntax/set.go: ResolveSets`).

* `Expr`      : the expression kinds of `syntax.Expr` that survive template instantiation.
* `den`       : denotational semantics `⟦e⟧ρ` (a set of terminal strings) over an environment `ρ` of
                symbol languages; sets denote the choice of their terminals, lookahead markers,
                commands and state markers the empty string, wrappers the language of their body.
* `expandExpr`, `extract`, `synth`, `expandAll`, `plainRules` : executable mirror of `expandExpr`,
  `extractNonterm`, the list/optional synthesis of `Expand`, and the flattening into plain rules
  (types, origins, positions and semantic-action text are dropped; mid-rule actions are erased).

Core Lean only.
-/
import TmVerif.Model.CFG
namespace TmVerif.Expand

/-! ### Languages -/

abbrev Lang := List Nat → Prop

def Lang.eps : Lang := fun w => w = []
def Lang.none : Lang := fun _ => False
def Lang.cat (A B : Lang) : Lang := fun w => ∃ u v, A u ∧ B v ∧ w = u ++ v
def Lang.union (A B : Lang) : Lang := fun w => A w ∨ B w
/-- Kleene star, explicitly: concatenation of finitely many members. -/
def Lang.star (A : Lang) : Lang := fun w => ∃ ws : List (List Nat), (∀ x ∈ ws, A x) ∧ w = ws.flatten
/-- `e (s e)*` -/
def Lang.sepIter (E S : Lang) : Lang := Lang.cat E (Lang.star (Lang.cat S E))

/-! ### Expressions -/

inductive Expr where
  | empty
  | ref (sym : Nat)
  | opt (e : Expr)
  | seq (es : List Expr)
  | choice (es : List Expr)
  /-- `ListFlags`: `ne` = OneOrMore, `rr` = RightRecursive; `sep = .empty` encodes "no separator"
  (`len(Sub) == 1`; a real separator is a terminal reference or a sequence of them, never Empty). -/
  | list (ne rr : Bool) (elem sep : Expr)
  | set (idx : Nat)
  /-- predicates `(negated, nonterminal)`; a leaf as far as the language is concerned -/
  | lookahead (preds : List (Bool × Nat))
  | arrow (name : Nat) (e : Expr)      -- name = interned (Name, ArrowFlags)
  | assign (name : Nat) (e : Expr)
  | append (name : Nat) (e : Expr)
  | prec (sym : Nat) (e : Expr)
  | command (id : Nat)                  -- id = interned command text
  | marker (id : Nat)                   -- id = interned marker name
deriving Repr, Inhabited

mutual
/-- `⟦e⟧ρ`. `sets i` is the terminal list of `Model.Sets[i]`. -/
def den (sets : Nat → List Nat) (ρ : Nat → Lang) : Expr → Lang
  | .empty => Lang.eps
  | .ref s => ρ s
  | .opt e => Lang.union (den sets ρ e) Lang.eps
  | .seq es => denSeq sets ρ es
  | .choice es => denAlt sets ρ es
  | .list ne _ e s =>
    if ne then Lang.sepIter (den sets ρ e) (den sets ρ s)
    else Lang.union (Lang.sepIter (den sets ρ e) (den sets ρ s)) Lang.eps
  | .set i => fun w => ∃ t, t ∈ sets i ∧ w = [t]
  | .lookahead _ => Lang.eps
  | .arrow _ e => den sets ρ e
  | .assign _ e => den sets ρ e
  | .append _ e => den sets ρ e
  | .prec _ e => den sets ρ e
  | .command _ => Lang.eps
  | .marker _ => Lang.eps
def denSeq (sets : Nat → List Nat) (ρ : Nat → Lang) : List Expr → Lang
  | [] => Lang.eps
  | e :: es => Lang.cat (den sets ρ e) (denSeq sets ρ es)
def denAlt (sets : Nat → List Nat) (ρ : Nat → Lang) : List Expr → Lang
  | [] => Lang.none
  | e :: es => Lang.union (den sets ρ e) (denAlt sets ρ es)
end

/-- the union of the languages of a list of alternatives -/
def denAlts (sets : Nat → List Nat) (ρ : Nat → Lang) (alts : List Expr) : Lang :=
  fun w => ∃ a, a ∈ alts ∧ den sets ρ a w

/-! ### `Expr.Equal` -/

def eqPreds : List (Bool × Nat) → List (Bool × Nat) → Bool
  | [], [] => true
  | (a, x) :: l, (b, y) :: r => a == b && x == y && eqPreds l r
  | _, _ => false

mutual
/-- mirror of `(*Expr).Equal` (Args are absent after instantiation; Name/ArrowFlags interned). -/
def equal : Expr → Expr → Bool
  | .empty, .empty => true
  | .ref a, .ref b => a == b
  | .opt a, .opt b => equal a b
  | .seq a, .seq b => equalList a b
  | .choice a, .choice b => equalList a b
  | .list n1 r1 e1 s1, .list n2 r2 e2 s2 => n1 == n2 && r1 == r2 && equal e1 e2 && equal s1 s2
  | .set a, .set b => a == b
  | .lookahead a, .lookahead b => eqPreds a b
  | .arrow n a, .arrow m b => n == m && equal a b
  | .assign n a, .assign m b => n == m && equal a b
  | .append n a, .append m b => n == m && equal a b
  | .prec n a, .prec m b => n == m && equal a b
  | .command a, .command b => a == b
  | .marker a, .marker b => a == b
  | _, _ => false
def equalList : List Expr → List Expr → Bool
  | [], [] => true
  | a :: l, b :: r => equal a b && equalList l r
  | _, _ => false
end

/-! ### Expansion state and names -/

/-- a nonterminal created by `extractNonterm` -/
structure NT where
  name : String
  value : Expr
deriving Repr, Inhabited

/-- the fixed part of the model: terminals, user nonterminals, token sets -/
structure Ctx where
  nT : Nat
  termNames : List String            -- `ident.Produce(Terminals[i].Name, CamelCase)`
  userNames : List String
  setNames : List String             -- `"setof_" ++ appendSetName`
  setTerms : List (List Nat)         -- resolved terminal lists (`ResolveSets`)
deriving Repr, Inhabited

def Ctx.nU (cx : Ctx) : Nat := cx.userNames.length
/-- first symbol number of the extracted nonterminals -/
def Ctx.base (cx : Ctx) : Nat := cx.nT + cx.nU
def Ctx.sets (cx : Ctx) (i : Nat) : List Nat := cx.setTerms.getD i []

def symName (cx : Ctx) (ext : List NT) (s : Nat) : String :=
  if s < cx.nT then cx.termNames.getD s ""
  else if s < cx.base then cx.userNames.getD (s - cx.nT) ""
  else ((ext[s - cx.base]?).map (·.name)).getD ""

def isEmptyExpr : Expr → Bool
  | .empty => true
  | _ => false

/-- `Empty, StateMarker, Lookahead, Command` are skipped when naming a choice/sequence -/
def nameSkipped : Expr → Bool
  | .empty => true
  | .marker _ => true
  | .lookahead _ => true
  | .command _ => true
  | _ => false

def lookaheadName (cx : Ctx) (ext : List NT) (ps : List (Bool × Nat)) : String :=
  ps.foldl (fun acc p => acc ++ "_" ++ (if p.1 then "not" else "") ++ symName cx ext p.2) "lookahead"

mutual
/-- mirror of `ProvisionalName` -/
def pname (cx : Ctx) (ext : List NT) : Expr → String
  | .ref s => symName cx ext s
  | .opt e => let r := pname cx ext e; if r = "" then "" else r ++ "opt"
  | .assign _ e => pname cx ext e
  | .append _ e => pname cx ext e
  | .arrow _ e => pname cx ext e
  | .list ne _ e s =>
    let r := pname cx ext e
    if r = "" then "" else
      let r := r ++ (if ne then "_list" else "_optlist")
      if isEmptyExpr s then r
      else
        let sn := pname cx ext s
        if sn = "" then r ++ "_withsep" else r ++ "_" ++ sn ++ "_separated"
  | .choice es => match pnameCands cx ext es with
    | some (some n) => n
    | _ => ""
  | .seq es => match pnameCands cx ext es with
    | some (some n) => n
    | _ => ""
  | .set i => cx.setNames.getD i ""
  | .lookahead ps => lookaheadName cx ext ps
  | _ => ""
/-- `none`: two or more candidates; `some none`: no candidate; `some (some n)`: exactly one, named n -/
def pnameCands (cx : Ctx) (ext : List NT) : List Expr → Option (Option String)
  | [] => some none
  | e :: es =>
    if nameSkipped e then pnameCands cx ext es
    else match pnameCands cx ext es with
      | some none => some (some (pname cx ext e))
      | _ => none
end

def nameTaken (ext : List NT) (n : String) : Bool := ext.any (·.name == n)

/-- first `base ++ toString i`, `i = idx, idx+1, …`, that is not taken -/
def freshName (ext : List NT) (base : String) : Nat → Nat → String
  | 0, idx => base ++ toString idx
  | fuel + 1, idx =>
    let n := base ++ toString idx
    if nameTaken ext n then freshName ext base fuel (idx + 1) else n

def findName (ext : List NT) (n : String) : Option Nat := ext.findIdx? (·.name == n)

/-- mirror of `extractNonterm` (`curr` = name of the nonterminal being expanded). -/
def extract (cx : Ctx) (curr : String) (ext : List NT) (e : Expr) : Expr × List NT :=
  let name := pname cx ext e
  let found := if name = "" then none else findName ext name
  let reuse := match found with
    | some k => match ext[k]? with
      | some nt => if equal e nt.value then some k else none
      | none => none
    | none => none
  match reuse with
  | some k => (.ref (cx.base + k), ext)
  | none =>
    let name := if name = "" then freshName ext (curr ++ "$") (ext.length + 1) 1
      else if found.isSome then freshName ext name (ext.length + 1) 1 else name
    (.ref (cx.base + ext.length), ext ++ [⟨name, e⟩])

/-- what one argument of `concat` contributes: a sequence is flattened, `Empty` dropped -/
def concatPart : Expr → List Expr
  | .seq s => s
  | .empty => []
  | e => [e]

/-- mirror of `concat` -/
def concat (l : List Expr) : Expr :=
  match l.flatMap concatPart with
  | [] => .empty
  | [x] => x
  | subs => .seq subs

def multiConcat (a b : List Expr) : List Expr :=
  a.flatMap fun x => b.map fun y => concat [x, y]

/-- `Choice{Sub: alts}` when there are several alternatives, the alternative itself otherwise -/
def wrapChoice (alts : List Expr) : Expr :=
  match alts with
  | [a] => a
  | _ => .choice alts

mutual
/-- mirror of `expandExpr`; the state is the list of extracted nonterminals -/
def expandExpr (cx : Ctx) (curr : String) (ext : List NT) : Expr → List Expr × List NT
  | .empty => ([.empty], ext)
  | .opt e =>
    let (r, ext) := expandExpr cx curr ext e
    (r ++ [.empty], ext)
  | .seq es => expandSeq cx curr ext [.empty] es
  | .choice es => expandAlt cx curr ext es
  | .arrow n e =>
    let (r, ext) := expandExpr cx curr ext e
    (r.map (fun v => .arrow n v), ext)
  | .assign n e =>
    let (r, ext) := expandExpr cx curr ext e
    (r.map (fun v => if isEmptyExpr v then v else .assign n v), ext)
  | .append n e =>
    let (r, ext) := expandExpr cx curr ext e
    (r.map (fun v => if isEmptyExpr v then v else .append n v), ext)
  | .set i =>
    let (r, ext) := extract cx curr ext (.set i)
    ([r], ext)
  | .lookahead ps =>
    let (r, ext) := extract cx curr ext (.lookahead ps)
    ([r], ext)
  | .list ne rr e s =>
    let (alts, ext) := expandExpr cx curr ext e
    let hasSep := !isEmptyExpr s
    let (sepAlts, ext) := if hasSep then expandExpr cx curr ext s else ([.empty], ext)
    let out := Expr.list (ne || hasSep) rr (wrapChoice alts) (wrapChoice sepAlts)
    let (r, ext) := extract cx curr ext out
    if !ne && hasSep then
      let (r, ext) := extract cx curr ext (.opt r)
      ([r], ext)
    else ([r], ext)
  | e => ([e], ext)
def expandSeq (cx : Ctx) (curr : String) (ext : List NT) (acc : List Expr) : List Expr → List Expr × List NT
  | [] => (acc, ext)
  | e :: es =>
    let (r, ext) := expandExpr cx curr ext e
    expandSeq cx curr ext (multiConcat acc r) es
def expandAlt (cx : Ctx) (curr : String) (ext : List NT) : List Expr → List Expr × List NT
  | [] => ([], ext)
  | e :: es =>
    let (r, ext) := expandExpr cx curr ext e
    let (rs, ext) := expandAlt cx curr ext es
    (r ++ rs, ext)
end

/-- mirror of `expandRule` (a top-level `Prec` stays on every produced rule) -/
def expandRule (cx : Ctx) (curr : String) (ext : List NT) : Expr → List Expr × List NT
  | .prec s e =>
    let (r, ext) := expandExpr cx curr ext e
    (r.map (fun v => .prec s v), ext)
  | e => expandExpr cx curr ext e

def expandRules (cx : Ctx) (curr : String) (ext : List NT) : List Expr → List Expr × List NT
  | [] => ([], ext)
  | e :: es =>
    let (r, ext) := expandRule cx curr ext e
    let (rs, ext) := expandRules cx curr ext es
    (r ++ rs, ext)

/-- drops every `Empty` alternative after the first one -/
def dropEmpties : List Expr → List Expr
  | [] => []
  | e :: es => if isEmptyExpr e then dropEmpties es else e :: dropEmpties es

def collapseEmpty : List Expr → List Expr
  | [] => []
  | e :: es => if isEmptyExpr e then e :: dropEmpties es else e :: collapseEmpty es

/-- the recursive part of a list rule: the list itself with its separator on the proper side
(`rec` in `Expand`: `Sequence[listRef]`, then `concat(sep, rec)` / `concat(rec, sep)`) -/
def listRec (self : Nat) (rr : Bool) (sep : Expr) : Expr :=
  if isEmptyExpr sep then .seq [.ref self]
  else if rr then concat [sep, .seq [.ref self]] else concat [.seq [.ref self], sep]

/-- the rules of a nonterminal whose value is a set, a lookahead, an extracted optional or list
(second loop of `Expand`, `ResolveSets`, the lookahead rule of `generateTables`); `self` is the
nonterminal's own symbol. `none`: "internal error" / not properly instantiated. -/
def synth (cx : Ctx) (self : Nat) : Expr → Option (List Expr)
  | .set i =>
    match cx.sets i with
    | [] => some [.empty]                      -- an empty set becomes an empty rule
    | ts => some (ts.map .ref)
  | .lookahead _ => some [.empty]
  | .opt (.ref s) => some [.ref s, .empty]
  | .list ne rr elem sep =>
    let rec_ := listRec self rr sep
    match elem with
    | .choice subs =>
      some ((if rr then multiConcat subs [rec_] else multiConcat [rec_] subs) ++
        (if ne then subs else [.empty]))
    | _ =>
      some [if rr then concat [elem, rec_] else concat [rec_, elem], if ne then elem else .empty]
  | _ => none

/-- first loop of `Expand` for one user nonterminal; `none` = top-level set/lookahead (kept) -/
def expandTop (cx : Ctx) (curr : String) (ext : List NT) : Expr → Option (List Expr) × List NT
  | .choice subs =>
    let (r, ext) := expandRules cx curr ext subs
    (some (collapseEmpty r), ext)
  | .set _ => (none, ext)
  | .lookahead _ => (none, ext)
  | e =>
    let (r, ext) := expandRule cx curr ext e
    (some (collapseEmpty r), ext)

def expandUsers (cx : Ctx) (ext : List NT) : List (String × Expr) → List (Option (List Expr)) × List NT
  | [] => ([], ext)
  | (n, e) :: us =>
    let (r, ext) := expandTop cx n ext e
    let (rs, ext) := expandUsers cx ext us
    (r :: rs, ext)

/- the symbols of a rule (`generateTables: traverse`; state markers are not symbols, commands are
erased — a mid-rule command becomes an empty nonterminal in the real output, which the tie erases). -/
mutual
def flat : Expr → List Nat
  | .ref s => [s]
  | .seq es => flatList es
  | .arrow _ e => flat e
  | .assign _ e => flat e
  | .append _ e => flat e
  | .prec _ e => flat e
  | _ => []
def flatList : List Expr → List Nat
  | [] => []
  | e :: es => flat e ++ flatList es
end

structure ExtGrammar where
  cx : Ctx
  user : List Expr                  -- values of the user nonterminals, `cx.userNames` in order
deriving Repr, Inhabited

/-- alternatives per nonterminal: users first, then extracted (symbol = position + nT) -/
def altsOf (g : ExtGrammar) : List (List Expr) × List NT :=
  let (ua, ext) := expandUsers g.cx [] (g.cx.userNames.zip g.user)
  let userAlts := (ua.zip g.user).zipIdx.map fun ((a, v), i) =>
    match a with
    | some alts => alts
    | none => (synth g.cx (g.cx.nT + i) v).getD []
  let extAlts := ext.zipIdx.map fun (nt, k) => (synth g.cx (g.cx.base + k) nt.value).getD []
  (userAlts ++ extAlts, ext)

def plainRules (g : ExtGrammar) : List CFG.Rule :=
  ((altsOf g).1.zipIdx.map fun (alts, i) => alts.map fun a => ({ lhs := g.cx.nT + i, rhs := flat a } : CFG.Rule)).flatten

/-- the expanded grammar as a plain CFG (inputs are not part of the property: every user
nonterminal is compared) -/
def toGrammar (g : ExtGrammar) : CFG.Grammar :=
  { nTerms := g.cx.nT, nSyms := g.cx.nT + (altsOf g).1.length,
    rules := (plainRules g).toArray, inputs := #[] }

/-! ### Well-formedness (decidable; what `compiler/syntax.go` guarantees for every loaded grammar) -/

def isRef : Expr → Bool
  | .ref _ => true
  | _ => false

/-- `convertSeparator`: no separator, one terminal, or a sequence of terminals -/
def simpleSep : Expr → Bool
  | .empty => true
  | .ref _ => true
  | .seq es => es.all isRef
  | _ => false

mutual
/-- references and set indices in range, separators simple, no nested `Prec` -/
def wfExpr (nSyms : Nat) (nSets : Nat) : Expr → Bool
  | .empty => true
  | .ref s => s < nSyms
  | .opt e => wfExpr nSyms nSets e
  | .seq es => wfList nSyms nSets es
  | .choice es => wfList nSyms nSets es
  | .list _ _ e s => wfExpr nSyms nSets e && (simpleSep s && wfExpr nSyms nSets s)
  | .set i => i < nSets
  | .lookahead _ => true
  | .arrow _ e => wfExpr nSyms nSets e
  | .assign _ e => wfExpr nSyms nSets e
  | .append _ e => wfExpr nSyms nSets e
  | .prec _ _ => false
  | .command _ => true
  | .marker _ => true
def wfList (nSyms : Nat) (nSets : Nat) : List Expr → Bool
  | [] => true
  | e :: es => wfExpr nSyms nSets e && wfList nSyms nSets es
end

/-- a rule: `Prec` may wrap the whole rule (`convertRules`) -/
def wfRule (nSyms nSets : Nat) : Expr → Bool
  | .prec _ e => wfExpr nSyms nSets e
  | e => wfExpr nSyms nSets e

def wfTop (nSyms nSets : Nat) : Expr → Bool
  | .choice subs => subs.all (wfRule nSyms nSets)
  | e => wfRule nSyms nSets e

/-- every set resolves to at least one terminal and only to terminals (Bool form of `SetsOk`) -/
def setsOkB (cx : Ctx) : Bool :=
  cx.setTerms.all fun ts => !ts.isEmpty && ts.all (· < cx.nT)

def wfGrammar (g : ExtGrammar) : Bool :=
  g.user.length == g.cx.nU && g.user.all (wfTop g.cx.base g.cx.setTerms.length)

end TmVerif.Expand
