/-
C19 panic-freedom validator for the extended runtime (`Model/LRX.lean`): decidable well-formedness
`xwf g x cert xc` of the data the recovering runtime uses beyond what `LRSound.certOk` checks.
`xwf … = true` together with `certOk g x.t cert = true` is the hypothesis of `C19_no_panic` and
`C19_recovery_terminates` (Props/C19.lean); the driver evaluates both on the REAL tables of every
sampled grammar (`C19 xvalidate`).

* `reportsOk` — every report range of every rule lies inside the rule's right-hand side
  (`applyRuleEvents` index arithmetic).
* `errOk` — recovery looks up `gotoState(state, errSymbol)` directly: the lookup is defined in
  every state and its targets respect the `past` certificate like any other transition.
* `reachXOk` — transitions on the error symbol stay inside the reachable sets `reach` of the
  soundness certificate.
* `reduceOk` / `ranksOk` — relative to every input `i`, for the states `s` reachable from the entry
  state `i` other than the final state of `i` (where the loops stop): for every reduce action
  `(s, a) ↦ A → α` and every reachable state `p'` from which `α` leads to `s` along the transitions
  of the tables: `gotoState p' A` is a state (`≥ 0`; `certOk` alone admits `-1`, which the
  recovering runtime would push and then use as an index), and the potential
  `weight · height + rank i a (top state)` decreases:
  `rank i a q + weight + 1 ≤ rank i a s + weight · |α|`. This bounds every chain of reductions
  under a fixed lookahead `a` (`reduceAll`'s simulated reductions, and the main loop's reductions
  between two shifts) — `weight` and `rank` are the untrusted part `XCert` of the certificate,
  computed by `mkXCert`. A shift of EOI (which consumes nothing) has to decrease the potential too.
* `xhaltOk` (only for `C19_halts`) — from a reachable non-final state EOI is shifted into the final
  state only.
-/
import TmVerif.Model.LRX
import TmVerif.Model.LRSound
namespace TmVerif.LRX
open TmVerif.LR TmVerif.CFG TmVerif.LRSound

structure XCert where
  /-- weight of one stack entry in the potential `weight · height + rank i a (top state)` -/
  weight : Nat
  /-- `rank[i][a][s]`: per input `i`, per lookahead terminal `a`, per state `s` -/
  rank : Array (Array (Array Nat))
deriving Repr, Inhabited

def rankOf (xc : XCert) (i a s : Nat) : Nat := (((xc.rank.getD i #[]).getD a #[])).getD s 0

/-- the final state of input `i` -/
def finOf (x : XTables) (i : Nat) : Int := (x.t.finalStates[i]?).getD (-1)

/-- the transitions recovery takes on the error terminal -/
def errEdges (x : XTables) : List (Nat × Nat × Int) :=
  if x.recovering then
    (List.range x.t.nStates).filterMap fun (p : Nat) =>
      match gotoState x.t p x.errSym with
      | some q => if q ≥ 0 then some (p, x.errSym.toNat, q) else none
      | none => none
  else []

/-- all transitions `(p, X, q)` of the extended runtime -/
def xedges (x : XTables) : List (Nat × Nat × Int) := edges x.t ++ errEdges x

/-- sources of the transitions on `X` into a state of `S` -/
def preds (es : List (Nat × Nat × Int)) (X : Int) (S : List Nat) : List Nat :=
  es.filterMap fun (p, Y, q) =>
    if (Y : Int) = X ∧ 0 ≤ q ∧ S.contains q.toNat then some p else none

/-- the states from which the symbols `β` (LAST symbol first) lead into `S` -/
def backStates (es : List (Nat × Nat × Int)) : List Int → List Nat → List Nat
  | [], S => S
  | X :: β, S => backStates es β (preds es X S)

/-- the rank condition for input `i` in state `s` on terminal `a`; only states reachable from the
entry state `i` (the `reach` sets of the soundness certificate) other than the final state — where
the loops stop — have to satisfy it -/
def reduceOk (g : Grammar) (x : XTables) (cert : Cert) (xc : XCert) (es : List (Nat × Nat × Int))
    (i a s : Nat) : Bool :=
  !(reachOf cert i).contains s || (s : Int) == finOf x i ||
  match actOf x.t noDeep s a with
  | some (.reduce r) =>
    match g.rules[r.toNat]? with
    | none => false
    | some rule =>
      (backStates es (rule.rhs.reverse.map Int.ofNat) [s]).all fun (p' : Nat) =>
        !(reachOf cert i).contains p' ||
        match gotoState x.t p' rule.lhs with
        | some q => decide (0 ≤ q) &&
            decide (rankOf xc i a q.toNat + xc.weight + 1 ≤
              rankOf xc i a s + xc.weight * rule.rhs.length)
        | none => false
  | some (.shift q) =>
    -- a shift of EOI does not consume input: it has to decrease the potential too
    a != 0 || (decide (0 ≤ q) && decide (rankOf xc i 0 q.toNat + xc.weight + 1 ≤ rankOf xc i 0 s))
  | _ => true

def reportsOk (x : XTables) : Bool :=
  (List.range x.rules.size).all fun i =>
    match x.rules[i]?, geti x.t.ruleLen i with
    | some info, some ln =>
      info.reports.all fun r =>
        decide (r.start ≤ r.stop) && decide (r.stop ≤ ln.toNat) &&
        (r.start != r.stop || decide (r.stop < ln.toNat))
    | _, _ => true

def errOk (g : Grammar) (x : XTables) (cert : Cert) : Bool :=
  !x.recovering ||
  (decide (0 ≤ x.errSym) &&
   (List.range x.t.nStates).all fun (p : Nat) =>
     match gotoState x.t p x.errSym with
     | none => false
     | some q => q == -1 || edgeOk g.inputs.size x.t cert p x.errSym q)

def rankBound (x : XTables) : Nat := 4 * x.t.nStates + 11

def ranksOk (g : Grammar) (x : XTables) (cert : Cert) (xc : XCert) : Bool :=
  let es := xedges x
  decide (1 ≤ xc.weight) &&
  (List.range g.inputs.size).all fun i =>
    (List.range x.t.nTerms).all fun a => (List.range x.t.nStates).all fun s =>
      decide (rankOf xc i a s ≤ rankBound x) && reduceOk g x cert xc es i a s

/-- transitions on the error symbol stay inside the reachable sets of the soundness certificate -/
def reachXOk (g : Grammar) (x : XTables) (cert : Cert) : Bool :=
  (List.range g.inputs.size).all fun i =>
    (errEdges x).all fun (p, _, q) =>
      !(reachOf cert i).contains p || (reachOf cert i).contains q.toNat

/-- `weight ≤ 4`: `reduceAll`'s fuel in the model is `4 · (stack height + number of states + 4)` -/
def xwf (g : Grammar) (x : XTables) (cert : Cert) (xc : XCert) : Bool :=
  reportsOk x && errOk g x cert && reachXOk g x cert && ranksOk g x cert xc && decide (xc.weight ≤ 4)

/-- the rank check for the core tables alone (no recovery): hypothesis of `C01_lr_halts` -/
def coreRankOk (g : Grammar) (t : Tables) (cert : Cert) (xc : XCert) : Bool :=
  ranksOk g { t := t, rules := #[] } cert xc

/-- from a reachable state other than the final one, EOI is shifted into the final state only
(hypothesis of `C19_halts`) -/
def xhaltOk (g : Grammar) (x : XTables) (cert : Cert) : Bool :=
  (List.range g.inputs.size).all fun i =>
    (xedges x).all fun (p, X, q) =>
      !(reachOf cert i).contains p || X != 0 || (p : Int) == finOf x i || q == finOf x i

/-! ### computing the rank certificate (untrusted) -/

/-- the constraints `rank s ≥ rank q + weight + 1 - weight · n` of input `i` and lookahead `a`, as
`(s, q, n)` -/
def rankConstraints (g : Grammar) (x : XTables) (cert : Cert) (es : List (Nat × Nat × Int))
    (i a : Nat) : List (Nat × Nat × Nat) :=
  (reachOf cert i).flatMap fun (s : Nat) =>
    if (s : Int) = finOf x i then [] else
    match actOf x.t noDeep s a with
    | some (.reduce r) =>
      match g.rules[r.toNat]? with
      | none => []
      | some rule =>
        (backStates es (rule.rhs.reverse.map Int.ofNat) [s]).filterMap fun (p' : Nat) =>
          if !(reachOf cert i).contains p' then none else
          match gotoState x.t p' rule.lhs with
          | some q => if q ≥ 0 then some (s, q.toNat, rule.rhs.length) else none
          | none => none
    | some (.shift q) => if a = 0 ∧ q ≥ 0 then [(s, q.toNat, 0)] else []
    | _ => []

def rankRound (w : Nat) (cs : List (Nat × Nat × Nat)) (r : Array Nat) : Array Nat :=
  cs.foldl (fun acc (s, q, n) =>
    let need := acc.getD q 0 + w + 1 - w * n
    if acc.getD s 0 < need then acc.set! s need else acc) r

def rankFuel (w : Nat) (cs : List (Nat × Nat × Nat)) : Nat → Array Nat → Array Nat
  | 0, r => r
  | k + 1, r =>
    let r' := rankRound w cs r
    if r' == r then r else rankFuel w cs k r'

def mkXCertW (x : XTables) (csss : List (List (List (Nat × Nat × Nat)))) (w : Nat) : XCert :=
  { weight := w,
    rank := (csss.map fun css => (css.map fun cs =>
      rankFuel w cs (2 * x.t.nStates + 4) (Array.replicate x.t.nStates 0)).toArray).toArray }

/-- the smallest weight (1, 2, 3, 4, then `nStates + 1`) for which the relaxation yields a valid
certificate -/
def mkXCert (g : Grammar) (x : XTables) (cert : Cert) : XCert :=
  let es := xedges x
  let csss := (List.range g.inputs.size).map fun i =>
    (List.range x.t.nTerms).map fun a => rankConstraints g x cert es i a
  match [1, 2, 3, 4].find? (fun w => ranksOk g x cert (mkXCertW x csss w)) with
  | some w => mkXCertW x csss w
  | none => mkXCertW x csss (x.t.nStates + 1)

/-- diagnostics: the first failing condition -/
def xwfFailure (g : Grammar) (x : XTables) (cert : Cert) (xc : XCert) : String :=
  if !reportsOk x then "a report range lies outside its rule's right-hand side" else
  if !errOk g x cert then "a goto on the error symbol is not justified by the stack suffix" else
  if !reachXOk g x cert then "a goto on the error symbol leaves the reachable set of the soundness certificate" else
  if xc.weight = 0 then "weight 0" else
  let es := xedges x
  match (List.range g.inputs.size).findSome? (fun i => (List.range x.t.nTerms).findSome? (fun a =>
      (List.range x.t.nStates).findSome? fun s =>
      if rankOf xc i a s > rankBound x then some s!"input {i}: rank of state {s} on terminal {a} exceeds the bound"
      else if !reduceOk g x cert xc es i a s then
        some s!"input {i} state {s} terminal {a}: action {repr (actOf x.t noDeep s a)} leads to a missing goto or does not decrease the rank (weight {xc.weight})"
      else none)) with
  | some m => m
  | none =>
    if xc.weight > 4 then s!"reduction chains need weight {xc.weight} > 4 per stack entry: the fuel of the model's reduceAll may not suffice"
    else "certificate rejected"

end TmVerif.LRX
