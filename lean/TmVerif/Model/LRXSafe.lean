/-
C19 panic-freedom validator for the extended runtime (`Model/LRX.lean`): decidable well-formedness
`xwf g x cert xc` of the data the recovering runtime uses beyond what `LRSound.certOk` checks.
`xwf … = true` together with `certOk g x.t cert = true` is the hypothesis of `C19_no_panic` and
`C19_recovery_terminates` (Props/C19.lean); the driver evaluates both on the REAL tables of every
sampled grammar (`C19 xvalidate`).

* `reportsOk` — every report range of every rule lies inside the rule's right-hand side
  (`applyRuleEvents` index arithmetic).
* `errOk` — recovery looks up `gotoState(state, errSymbol)` directly: the lookup is defined in
  every state and its targets respect the `past` certificate like any other transition.
* `reduceOk` — for every reduce action `(s, a) ↦ A → α` and every state `p'` from which `α` leads
  to `s` along the transitions of the tables: `gotoState p' A` is a state (`≥ 0`; `certOk` alone
  admits `-1`, which the recovering runtime would push and then use as an index), and the potential
  `height + rank a (top state)` decreases: `rank a q + 2 ≤ rank a s + |α|`. This bounds every chain
  of reductions under a fixed lookahead `a` (`reduceAll`'s simulated reductions, and the main
  loop's reductions between two shifts) — `rank` is the untrusted part `XCert` of the certificate,
  computed by `mkXCert`. A shift of EOI (which consumes nothing) has to decrease the potential too.
* `xhaltOk` (only for `C19_halts`) — transitions on the error symbol stay inside the reachable
  sets of the soundness certificate, and from a reachable non-final state EOI is shifted into the
  final state only.
-/
import TmVerif.Model.LRX
import TmVerif.Model.LRSound
namespace TmVerif.LRX
open TmVerif.LR TmVerif.CFG TmVerif.LRSound

structure XCert where
  /-- weight of one stack entry in the potential `weight · height + rank a (top state)` -/
  weight : Nat
  /-- `rank[a][s]`: per lookahead terminal `a`, per state `s` -/
  rank : Array (Array Nat)
deriving Repr, Inhabited

def rankOf (xc : XCert) (a s : Nat) : Nat := (xc.rank.getD a #[]).getD s 0

/-- the transitions recovery takes on the error terminal -/
def errEdges (x : XTables) : List (Nat × Nat × Int) :=
  if x.recovering then
    (List.range x.t.nStates).filterMap fun (p : Nat) =>
      match gotoState x.t p x.errSym with
      | some q => if q ≥ 0 then some (p, x.errSym.toNat, q) else none
      | none => none
  else []

/-- all transitions `(p, X, q)` of the extended runtime -/
def xedges (x : XTables) : List (Nat × Nat × Int) := edges x.t ++ errEdges x

/-- sources of the transitions on `X` into a state of `S` -/
def preds (es : List (Nat × Nat × Int)) (X : Int) (S : List Nat) : List Nat :=
  es.filterMap fun (p, Y, q) =>
    if (Y : Int) = X ∧ 0 ≤ q ∧ S.contains q.toNat then some p else none

/-- the states from which the symbols `β` (LAST symbol first) lead into `S` -/
def backStates (es : List (Nat × Nat × Int)) : List Int → List Nat → List Nat
  | [], S => S
  | X :: β, S => backStates es β (preds es X S)

def reduceOk (g : Grammar) (x : XTables) (xc : XCert) (es : List (Nat × Nat × Int)) (a s : Nat) : Bool :=
  match actOf x.t noDeep s a with
  | some (.reduce r) =>
    match g.rules[r.toNat]? with
    | none => false
    | some rule =>
      (backStates es (rule.rhs.reverse.map Int.ofNat) [s]).all fun (p' : Nat) =>
        match gotoState x.t p' rule.lhs with
        | some q => decide (0 ≤ q) &&
            decide (rankOf xc a q.toNat + xc.weight + 1 ≤ rankOf xc a s + xc.weight * rule.rhs.length)
        | none => false
  | some (.shift q) =>
    -- a shift of EOI does not consume input: it has to decrease the potential too
    a != 0 || (decide (0 ≤ q) && decide (rankOf xc 0 q.toNat + xc.weight + 1 ≤ rankOf xc 0 s))
  | _ => true

def reportsOk (x : XTables) : Bool :=
  (List.range x.rules.size).all fun i =>
    match x.rules[i]?, geti x.t.ruleLen i with
    | some info, some ln =>
      info.reports.all fun r =>
        decide (r.start ≤ r.stop) && decide (r.stop ≤ ln.toNat) &&
        (r.start != r.stop || decide (r.stop < ln.toNat))
    | _, _ => true

def errOk (g : Grammar) (x : XTables) (cert : Cert) : Bool :=
  !x.recovering ||
  (decide (0 ≤ x.errSym) &&
   (List.range x.t.nStates).all fun (p : Nat) =>
     match gotoState x.t p x.errSym with
     | none => false
     | some q => q == -1 || edgeOk g.inputs.size x.t cert p x.errSym q)

def rankBound (x : XTables) : Nat := 4 * x.t.nStates + 11

def ranksOk (g : Grammar) (x : XTables) (xc : XCert) : Bool :=
  let es := xedges x
  decide (1 ≤ xc.weight) &&
  (List.range x.t.nTerms).all fun a => (List.range x.t.nStates).all fun s =>
    decide (rankOf xc a s ≤ rankBound x) && reduceOk g x xc es a s

/-- `weight ≤ 4`: `reduceAll`'s fuel in the model is `4 · (stack height + number of states + 4)` -/
def xwf (g : Grammar) (x : XTables) (cert : Cert) (xc : XCert) : Bool :=
  reportsOk x && errOk g x cert && ranksOk g x xc && decide (xc.weight ≤ 4)

/-- the rank check for the core tables alone (no recovery): hypothesis of `C01_lr_halts` -/
def coreRankOk (g : Grammar) (t : Tables) (xc : XCert) : Bool :=
  ranksOk g { t := t, rules := #[] } xc

/-- transitions on the error symbol stay inside the reachable sets of the soundness certificate -/
def reachXOk (g : Grammar) (x : XTables) (cert : Cert) : Bool :=
  (List.range g.inputs.size).all fun i =>
    (errEdges x).all fun (p, _, q) =>
      !(reachOf cert i).contains p || (reachOf cert i).contains q.toNat

/-- from a reachable state other than the final one, EOI is shifted into the final state only -/
def eoiOk (g : Grammar) (x : XTables) (cert : Cert) : Bool :=
  (List.range g.inputs.size).all fun i =>
    match x.t.finalStates[i]? with
    | none => false
    | some f =>
      (xedges x).all fun (p, X, q) =>
        !(reachOf cert i).contains p || X != 0 || (p : Int) == f || q == f

def xhaltOk (g : Grammar) (x : XTables) (cert : Cert) : Bool :=
  reachXOk g x cert && eoiOk g x cert

/-! ### computing the rank certificate (untrusted) -/

/-- the constraints `rank s ≥ rank q + weight + 1 - weight · n` of lookahead `a`, as `(s, q, n)` -/
def rankConstraints (g : Grammar) (x : XTables) (es : List (Nat × Nat × Int)) (a : Nat) :
    List (Nat × Nat × Nat) :=
  (List.range x.t.nStates).flatMap fun (s : Nat) =>
    match actOf x.t noDeep s a with
    | some (.reduce r) =>
      match g.rules[r.toNat]? with
      | none => []
      | some rule =>
        (backStates es (rule.rhs.reverse.map Int.ofNat) [s]).filterMap fun (p' : Nat) =>
          match gotoState x.t p' rule.lhs with
          | some q => if q ≥ 0 then some (s, q.toNat, rule.rhs.length) else none
          | none => none
    | some (.shift q) => if a = 0 ∧ q ≥ 0 then [(s, q.toNat, 0)] else []
    | _ => []

def rankRound (w : Nat) (cs : List (Nat × Nat × Nat)) (r : Array Nat) : Array Nat :=
  cs.foldl (fun acc (s, q, n) =>
    let need := acc.getD q 0 + w + 1 - w * n
    if acc.getD s 0 < need then acc.set! s need else acc) r

def rankFuel (w : Nat) (cs : List (Nat × Nat × Nat)) : Nat → Array Nat → Array Nat
  | 0, r => r
  | k + 1, r =>
    let r' := rankRound w cs r
    if r' == r then r else rankFuel w cs k r'

def mkXCertW (x : XTables) (css : List (List (Nat × Nat × Nat))) (w : Nat) : XCert :=
  { weight := w,
    rank := (css.map fun cs =>
      rankFuel w cs (2 * x.t.nStates + 4) (Array.replicate x.t.nStates 0)).toArray }

/-- the smallest weight (1, 2, 3, 4, then `nStates + 1`) for which the relaxation yields a valid
certificate -/
def mkXCert (g : Grammar) (x : XTables) : XCert :=
  let es := xedges x
  let css := (List.range x.t.nTerms).map fun a => rankConstraints g x es a
  match [1, 2, 3, 4].find? (fun w => ranksOk g x (mkXCertW x css w)) with
  | some w => mkXCertW x css w
  | none => mkXCertW x css (x.t.nStates + 1)

/-- diagnostics: the first failing condition -/
def xwfFailure (g : Grammar) (x : XTables) (cert : Cert) (xc : XCert) : String :=
  if !reportsOk x then "a report range lies outside its rule's right-hand side" else
  if !errOk g x cert then "a goto on the error symbol is not justified by the stack suffix" else
  if xc.weight = 0 then "weight 0" else
  if xc.weight > 4 then s!"reduction chains need weight {xc.weight} > 4 per stack entry: the fuel of the model's reduceAll may not suffice" else
  let es := xedges x
  match (List.range x.t.nTerms).findSome? (fun a => (List.range x.t.nStates).findSome? fun s =>
      if rankOf xc a s > rankBound x then some s!"rank of state {s} on terminal {a} exceeds the bound"
      else if !reduceOk g x xc es a s then
        some s!"state {s} terminal {a}: reduction {repr (actOf x.t noDeep s a)} leads to a missing goto or does not decrease the rank"
      else none) with
  | some m => m
  | none => "certificate rejected"

end TmVerif.LRX
