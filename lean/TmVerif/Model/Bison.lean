/-
C30 — Bison export (`gen/templates/bison.go.tmpl` + `grammar.ExprString` + `Parser.RulesByNonterm` +
`Grammar.TokensWithoutPrec`), core Lean only.

* `Gram` is what the parser tables are built from: `grammar.Parser.Rules[i].Rule` (`lalr.Rule`: LHS, RHS
  with state markers, Precedence), `Parser.Prec`, `Parser.Inputs`, and the spelling of every symbol in
  the export (terminals: `Syms[i].ID`, nonterminals: `Syms[i].Name`).
* `render` mirrors the template character by character for everything except semantic-action code
  and the `// lookahead: …` comment lines (both are erased by `lexY` before anything is compared).
* `parseY` reads the REAL `.y` text: line comments `// …`, block-comment words `/*.marker*/`, brace
  delimited code (`%{ … %}`, `{ … }` actions, nesting counted) are erased; what remains is
  `%directive args…` lines, `%%`, `lhs : alt | alt … ;` groups, `%%`.
-/
namespace TmVerif.Bison

abbrev Word := List Char

inductive Assoc | left | right | nonassoc
  deriving DecidableEq, Repr, Inhabited

structure Prec where
  assoc : Assoc
  terms : List Nat
  deriving DecidableEq, Repr

/-- element of `lalr.Rule.RHS`: a symbol or a state marker (index into `Tables.Markers`) -/
inductive Item
  | sym (i : Nat)
  | marker (m : Nat)
  deriving DecidableEq, Repr

structure Rule where
  lhs : Nat
  rhs : List Item
  /-- `lalr.Rule.Precedence`, 0 = none -/
  prec : Nat
  deriving DecidableEq, Repr

structure Input where
  nonterm : Nat
  noEoi : Bool
  deriving DecidableEq, Repr

structure Gram where
  /-- spelling of symbol `i` in the export -/
  names : List Word
  markers : List Word
  numTokens : Nat
  inputs : List Input
  prec : List Prec
  rules : List Rule
  deriving DecidableEq, Repr

/-! ### keywords -/
def kOpen : Word := ['%', '{']
def kClose : Word := ['%', '}']
def kStart : Word := ['%', 's', 't', 'a', 'r', 't']
def kToken : Word := ['%', 't', 'o', 'k', 'e', 'n']
def kLeft : Word := ['%', 'l', 'e', 'f', 't']
def kRight : Word := ['%', 'r', 'i', 'g', 'h', 't']
def kNonassoc : Word := ['%', 'n', 'o', 'n', 'a', 's', 's', 'o', 'c']
def kPP : Word := ['%', '%']
def kEmpty : Word := ['%', 'e', 'm', 'p', 't', 'y']
def kPrec : Word := ['%', 'p', 'r', 'e', 'c']
def kColon : Word := [':']
def kBar : Word := ['|']
def kSemi : Word := [';']
def kSlashes : Word := ['/', '/']
def kNoEoi : Word := ['n', 'o', '-', 'e', 'o', 'i']
def kBlock : Word := ['/', '*']

def assocWord : Assoc → Word
  | .left => kLeft
  | .right => kRight
  | .nonassoc => kNonassoc

/-! ### render -/

def name (g : Gram) (i : Nat) : Word := g.names.getD i ['?']

/-- `ExprString` of a state marker: `/*.name*/` -/
def markerWord (g : Gram) (m : Nat) : Word := ['/', '*', '.'] ++ g.markers.getD m ['?'] ++ ['*', '/']

def itemWord (g : Gram) : Item → Word
  | .sym i => name g i
  | .marker m => markerWord g m

/-- `ExprString` of one expanded rule: the items separated by blanks (`%empty` when there is none),
then ` %prec X`. -/
def altWords (g : Gram) (r : Rule) : List Word :=
  (if r.rhs.isEmpty then [kEmpty] else r.rhs.map (itemWord g)) ++
  (if r.prec == 0 then [] else [kPrec, name g r.prec])

/-- `Parser.RulesByNonterm`: rules grouped by left-hand side, groups in order of first occurrence,
rules of a group in their original order (fuel = number of rules, one group per step). -/
def groupsF : Nat → List Rule → List (Nat × List Rule)
  | 0, _ => []
  | _, [] => []
  | n + 1, r :: rs =>
    (r.lhs, r :: rs.filter (fun x => x.lhs == r.lhs)) :: groupsF n (rs.filter (fun x => !(x.lhs == r.lhs)))

def groups (rules : List Rule) : List (Nat × List Rule) := groupsF rules.length rules

/-- first alternative indented by two blanks, the others introduced by `| ` -/
def altLines (g : Gram) : List Rule → List (List Word)
  | [] => []
  | r :: rs => ([] :: [] :: altWords g r) :: rs.map (fun r => kBar :: altWords g r)

def groupLines (g : Gram) (grp : Nat × List Rule) : List (List Word) :=
  [[], [name g grp.1, kColon]] ++ altLines g grp.2 ++ [[kSemi]]

def hasPrec (g : Gram) (t : Nat) : Bool := g.prec.any (fun p => p.terms.contains t)

/-- `Grammar.TokensWithoutPrec` -/
def tokensWithoutPrec (g : Gram) : List Nat := (List.range g.numTokens).filter (fun t => !hasPrec g t)

def startLine (g : Gram) (i : Input) : List Word :=
  [kStart, name g i.nonterm] ++ (if i.noEoi then [kSlashes, kNoEoi] else [])

def precLine (g : Gram) (p : Prec) : List Word := assocWord p.assoc :: p.terms.map (name g)

def tokenLine (g : Gram) (t : Nat) : List Word := [kToken, name g t]

/-- The lines of the file; a line is a list of words separated by single blanks (empty words give
the indentation). -/
def lines (g : Gram) : List (List Word) :=
  [[kOpen], [kClose], []] ++ g.inputs.map (startLine g) ++ [[]] ++ g.prec.map (precLine g) ++
  ((tokensWithoutPrec g).drop 1).map (tokenLine g) ++ [[], [kPP]] ++
  (groups g.rules).flatMap (groupLines g) ++ [[], [kPP], []]

def joinSp : List Word → List Char
  | [] => []
  | [w] => w
  | w :: ws => w ++ ' ' :: joinSp ws

def unlines (ls : List (List Word)) : List Char := ls.flatMap (fun l => joinSp l ++ ['\n'])

def renderChars (g : Gram) : List Char := unlines (lines g)

def render (g : Gram) : String := String.ofList (renderChars g)

/-! ### lexer of the `.y` format -/

def isWs (c : Char) : Bool := c == ' ' || c == '\t' || c == '\r' || c == '\n' || c == '\x0c' || c == '\x0b'
def isNl (c : Char) : Bool := c == '\n'

def consHead (x : α) : List (List α) → List (List α)
  | [] => [[x]]
  | c :: cs => (x :: c) :: cs

/-- split at every element satisfying `p` (the separators are dropped, empty pieces kept) -/
def chunks (p : α → Bool) : List α → List (List α)
  | [] => [[]]
  | x :: xs => if p x then [] :: chunks p xs else consHead x (chunks p xs)

def wordsOf (l : List Char) : List Word := (chunks isWs l).filter (fun w => !w.isEmpty)

def isLineComment (w : Word) : Bool := kSlashes.isPrefixOf w
def isBlockComment (w : Word) : Bool := kBlock.isPrefixOf w

/-- words of one line, without the `// …` tail and without `/*…*/` words -/
def lexLine (l : List Char) : List Word :=
  ((wordsOf l).takeWhile (fun w => !isLineComment w)).filter (fun w => !isBlockComment w)

/-- drops brace-delimited code: a word is kept iff it contains no brace and the depth is 0 -/
def skipBraces : Nat → List Word → List Word
  | _, [] => []
  | d, w :: ws =>
    if d == 0 && w.count '{' == 0 && w.count '}' == 0 then w :: skipBraces 0 ws
    else skipBraces (d + w.count '{' - w.count '}') ws

def lexY (cs : List Char) : List Word := skipBraces 0 ((chunks isNl cs).flatMap lexLine)

/-! ### parser of the token stream -/

structure RuleN where
  lhs : Word
  rhs : List Word
  prec : Option Word
  deriving DecidableEq, Repr

structure PrecN where
  assoc : Assoc
  terms : List Word
  deriving DecidableEq, Repr

/-- a symbol: not a `%keyword`, not punctuation -/
def isPlain (w : Word) : Bool :=
  match w with
  | [] => false
  | c :: _ => c != '%' && w != kColon && w != kBar && w != kSemi

/-- declarations section: every non-plain word starts a directive whose arguments are the plain
words that follow -/
def parseDecls : List Word → List (Word × List Word)
  | [] => []
  | w :: rest => if isPlain w then parseDecls rest else (w, rest.takeWhile isPlain) :: parseDecls rest

def assocOf (w : Word) : Option Assoc :=
  if w == kLeft then some .left else if w == kRight then some .right
  else if w == kNonassoc then some .nonassoc else none

def precsOf (ds : List (Word × List Word)) : List PrecN :=
  ds.filterMap fun d => (assocOf d.1).map fun a => ⟨a, d.2⟩

def mapOpt (f : α → Option β) : List α → Option (List β)
  | [] => some []
  | x :: xs => match f x, mapOpt f xs with
    | some y, some ys => some (y :: ys)
    | _, _ => none

def bodyOk (body : List Word) : Bool := body.all fun w => isPlain w || w == kEmpty

/-- one alternative: symbols / `%empty`, then optionally `%prec X` -/
def parseAlt (lhs : Word) (ws : List Word) : Option RuleN :=
  match chunks (fun w => w == kPrec) ws with
  | [body] => if bodyOk body then some ⟨lhs, body.filter (fun w => !(w == kEmpty)), none⟩ else none
  | [body, [p]] =>
    if bodyOk body && isPlain p then some ⟨lhs, body.filter (fun w => !(w == kEmpty)), some p⟩ else none
  | _ => none

/-- `lhs : alt | alt …` (the closing `;` already removed) -/
def parseGroup (ws : List Word) : Option (List RuleN) :=
  match ws with
  | lhs :: c :: body =>
    if isPlain lhs && c == kColon then mapOpt (parseAlt lhs) (chunks (fun w => w == kBar) body) else none
  | _ => none

/-- all pieces but the last, which has to be empty (every group is closed by `;`) -/
def initIfLastNil : List (List α) → Option (List (List α))
  | [] => none
  | [x] => if x.isEmpty then some [] else none
  | x :: xs => (initIfLastNil xs).map (x :: ·)

def parseRules (ws : List Word) : Option (List RuleN) :=
  match initIfLastNil (chunks (fun w => w == kSemi) ws) with
  | some gs => (mapOpt parseGroup gs).map List.flatten
  | none => none

def declsOk (ds : List Word) : Bool :=
  match ds with
  | [] => true
  | w :: _ => !isPlain w

def parseToks (ts : List Word) : Option (List RuleN × List PrecN) :=
  match chunks (fun w => w == kPP) ts with
  | [ds, rs, _] =>
    if declsOk ds then (parseRules rs).map fun rules => (rules, precsOf (parseDecls ds)) else none
  | _ => none

def parseChars (cs : List Char) : Option (List RuleN × List PrecN) := parseToks (lexY cs)

/-- reads the rules and the precedence declarations off the text of a `.y` file -/
def parseY (s : String) : Option (List RuleN × List PrecN) := parseChars s.toList

/-! ### what the export has to say -/

def symNames (g : Gram) (rhs : List Item) : List Word :=
  rhs.filterMap fun
    | .sym i => some (name g i)
    | .marker _ => none

def ruleN (g : Gram) (r : Rule) : RuleN :=
  ⟨name g r.lhs, symNames g r.rhs, if r.prec == 0 then none else some (name g r.prec)⟩

/-- the rules the tables were built from (state markers are not symbols), spelled out -/
def rulesOf (g : Gram) : List RuleN := g.rules.map (ruleN g)

def precN (g : Gram) (p : Prec) : PrecN := ⟨p.assoc, p.terms.map (name g)⟩

def precOf (g : Gram) : List PrecN := g.prec.map (precN g)

/-! ### well-formedness of spellings (decidable, checked on every real grammar by the driver) -/

def goodChar (c : Char) : Bool := !isWs c && c != '{' && c != '}'

/-- non-empty, no blank and no brace inside, does not start with `%` or `/`, is not `:` `|` `;` -/
def goodName (w : Word) : Bool := isPlain w && w.all goodChar && w.head? != some '/'

def IdsWF (names : List Word) : Prop := names.all goodName = true ∧ names.Nodup

def MarkersWF (markers : List Word) : Prop := markers.all (fun w => w.all goodChar) = true

/-- grouping by left-hand side does not reorder the rules (true of everything the compiler builds:
the rules of a nonterminal are emitted together) -/
def OrderKept (rules : List Rule) : Prop := (groups rules).flatMap (·.2) = rules

instance (names : List Word) : Decidable (IdsWF names) := by unfold IdsWF; infer_instance
instance (ms : List Word) : Decidable (MarkersWF ms) := by unfold MarkersWF; infer_instance
instance (rules : List Rule) : Decidable (OrderKept rules) := by unfold OrderKept; infer_instance

/-- every symbol index used by the grammar has a spelling -/
def inRange (g : Gram) : Bool :=
  g.rules.all (fun r => r.lhs < g.names.length && (r.prec == 0 || r.prec < g.names.length) &&
    r.rhs.all (fun | .sym i => i < g.names.length | .marker _ => true)) &&
  g.prec.all (fun p => p.terms.all (· < g.names.length))

/-- a rule without its state markers -/
def eraseMarkers (r : Rule) : Rule :=
  { r with rhs := r.rhs.filter fun | .sym _ => true | .marker _ => false }

end TmVerif.Bison
