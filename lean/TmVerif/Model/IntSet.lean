/-
Model of /repo/util/container/intset.go (Mode M: hand mirror).
`IntSet{Inverse, Set}` with `Set` a sorted slice; `combine/intersect/subtract` are the
three merge loops; `Merge/Intersect/Complement` the public operations.
Go `int` is modelled as `Int` (no arithmetic is performed on elements, only comparisons).
-/
namespace TmVerif.IntSet

/-- `combine(a, b, reuse)`: sorted union of two slices. -/
def combine : List Int → List Int → List Int
  | [], b => b
  | v :: a, [] => v :: a
  | v :: a, w :: b =>
    if w < v then w :: combine (v :: a) b
    else if w = v then v :: combine a b
    else v :: combine a (w :: b)
termination_by a b => a.length + b.length

/-- `intersect(a, b, reuse)`. -/
def intersect : List Int → List Int → List Int
  | [], _ => []
  | _ :: _, [] => []
  | v :: a, w :: b =>
    if w < v then intersect (v :: a) b
    else if w = v then v :: intersect a (w :: b)
    else intersect a (w :: b)
termination_by a b => a.length + b.length

/-- `subtract(a, b, reuse)`. -/
def subtract : List Int → List Int → List Int
  | [], _ => []
  | v :: a, [] => v :: a
  | v :: a, w :: b =>
    if w < v then subtract (v :: a) b
    else if w = v then subtract a (w :: b)
    else v :: subtract a (w :: b)
termination_by a b => a.length + b.length

structure IntSet where
  inverse : Bool
  set : List Int
deriving Repr, DecidableEq, Inhabited

def IntSet.empty (s : IntSet) : Bool := s.set.isEmpty && !s.inverse

def IntSet.complement (s : IntSet) : IntSet := { inverse := !s.inverse, set := s.set }

/-- `container.Intersect`. -/
def IntSet.inter (a b : IntSet) : IntSet :=
  if a.empty || b.empty then { inverse := false, set := [] }
  else if a.inverse then
    if b.inverse then { inverse := true, set := combine a.set b.set }
    else { inverse := false, set := subtract b.set a.set }
  else if b.inverse then { inverse := false, set := subtract a.set b.set }
  else { inverse := false, set := intersect a.set b.set }

/-- `container.Merge`. -/
def IntSet.merge (a b : IntSet) : IntSet :=
  if a.empty then b
  else if b.empty then a
  else if a.inverse then
    if b.inverse then { inverse := true, set := intersect a.set b.set }
    else { inverse := true, set := subtract a.set b.set }
  else if b.inverse then { inverse := true, set := subtract b.set a.set }
  else { inverse := false, set := combine a.set b.set }

/-- Denotation: the subset of `Int` an `IntSet` stands for. -/
def IntSet.Mem (s : IntSet) (v : Int) : Prop :=
  if s.inverse then v ∉ s.set else v ∈ s.set

instance (s : IntSet) (v : Int) : Decidable (s.Mem v) := by
  unfold IntSet.Mem; exact inferInstance

/-- Strictly increasing (the representation invariant of `IntSet.Set`). -/
def Sorted : List Int → Prop
  | [] => True
  | [_] => True
  | a :: b :: l => a < b ∧ Sorted (b :: l)

def sortedB : List Int → Bool
  | [] => true
  | [_] => true
  | a :: b :: l => decide (a < b) && sortedB (b :: l)

end TmVerif.IntSet
