/-
C17: mirror of gen/funcs.go `bits` and `bitsPerElement`, the functions that choose the element type
(`int8` / `int16` / `int32`, `uint8` / … for the rune classes) of the tables the Go templates emit with
`[]int{{bits_per_element …}}{ … }`. A too narrow choice makes the generated file fail to compile
("constant overflows int8"). Core Lean only.
-/
namespace TmVerif.TableWidth

/-- `bits`: width for one value (signed ranges). -/
def bits (i : Int) : Nat :=
  if i < -128 || i > 127 then
    if i < -32768 || i > 32767 then 32 else 16
  else 8

/-- The loop of `bitsPerElement` with its accumulator (`ret`); returns 32 as soon as an element needs it. -/
def bpeLoop : List Int → Nat → Nat
  | [], ret => ret
  | i :: rest, ret =>
    if i < -128 || i > 127 then
      if i < -32768 || i > 32767 then 32 else bpeLoop rest 16
    else bpeLoop rest ret

/-- `bitsPerElement`. -/
def bitsPerElement (arr : List Int) : Nat := bpeLoop arr 8

/-- `i` is a value of the signed type `int<w>`. -/
def fitsSigned (w : Nat) (i : Int) : Bool := decide (-(2 ^ (w - 1) : Int) ≤ i) && decide (i < (2 ^ (w - 1) : Int))

/-- `i` is a value of the unsigned type `uint<w>`. -/
def fitsUnsigned (w : Nat) (i : Int) : Bool := decide (0 ≤ i) && decide (i < (2 ^ w : Int))

/-- Every element is an `int32` (the hypothesis under which the widest choice is wide enough; table entries are
state, rule and symbol numbers). -/
def allInt32 (arr : List Int) : Bool := arr.all (fitsSigned 32)

/-- The specification the harness's `judge` uses: width `w` is one of 8/16/32 and holds every element. -/
def widthOk (w : Nat) (arr : List Int) : Bool := (w == 8 || w == 16 || w == 32) && arr.all (fitsSigned w)

end TmVerif.TableWidth
