import TmVerif.Model.Proto
import TmVerif.Model.Graph
/-!
Line protocol for C26 (graphs are `parseNatss` adjacency rows):

  transpose <g>          → rows of the transposed graph            | `panic` when `g` is not well formed
  matrix <g>             → `<adj> <graph>` of NewMatrix+AddEdge alone (no Closure): ties the bit layout of
                           AddEdge/HasEdge/Graph, which the model abstracts to one Bool per cell
  closure <g>            → `<adj> <graph>`: adjacency by HasEdge of the closed matrix, and `Graph()`
                           (`_` for the empty matrix: `Graph()` is not called on it)
  lpath <g>              → `nil` | path                             | `panic`
  tarjan <g> <gocomps>   → `<comps> <onStack snapshots> <verdict>` where comps/snapshots come from the
                           mirror and verdict = `ok`/`bad` is `checkScc g gocomps` evaluated on the
                           components the REAL implementation reported (`skip` below two vertices)
  judge <answer…> :: <case…>  → `holds` | `violates: why`  (decided by the proved specs, not by the mirror:
                           transpose by edge counts, closure by the verified closure, lpath by acyclicity
                           + path + length, tarjan by the verified validator)
-/
namespace TmVerif.DriverC26
open TmVerif.Proto TmVerif.Graph

def showPath (p : List Nat) : String := if p.isEmpty then "nil" else showNats p

def verdict (g : Graph) (comps : List (List Nat)) : String :=
  if g.length < 2 then "skip" else if checkScc g comps then "ok" else "bad"

def closureAdj (g : Graph) : Graph := (Matrix.ofGraph g).closure.graph

/-- is there a cycle (decided with the verified closure)? -/
def cyclicB (g : Graph) : Bool :=
  let r := (Matrix.ofGraph g).closure
  (List.range g.length).any fun v => r.hasEdge v v

def isPathB (g : Graph) : List Nat → Bool
  | [] => true
  | [a] => a < g.length
  | a :: b :: rest => (succs g a).contains b && isPathB g (b :: rest)

def sortRow (l : List Nat) : List Nat := l.mergeSort (fun a b => a ≤ b)

def judgeCase (ans : List String) (cas : List String) : Option String :=
  match cas with
  | ["transpose", g] => do
    let g ← parseNatss g
    if !wfB g then return (if ans == ["panic"] then "holds" else "violates: no panic on a malformed graph")
    match ans with
    | [r] =>
      match parseNatss r with
      | none => some "violates: panics or answers garbage on a well-formed graph"
      | some r =>
        if r.length == g.length && r.map sortRow == (transpose g).map sortRow then some "holds"
        else some "violates: the answer is not the reversed edge multiset"
    | _ => some "violates: malformed answer"
  | ["matrix", g] => do
    let g ← parseNatss g
    let want := showNatss (Matrix.ofGraph g).graph
    match ans with
    | [a, gr] =>
      if a != want then some s!"violates: HasEdge after AddEdge differs from the added edges {want}"
      else if g.length > 0 && gr != want then some s!"violates: Graph() differs from the added edges {want}"
      else some "holds"
    | _ => some "violates: panics or malformed answer"
  | ["closure", g] => do
    let g ← parseNatss g
    let want := showNatss (closureAdj g)
    match ans with
    | [a, gr] =>
      if a != want then some s!"violates: HasEdge after Closure differs from the reachable pairs {want}"
      else if g.length > 0 && gr != want then some s!"violates: Graph() after Closure differs from the reachable pairs {want}"
      else some "holds"
    | _ => some "violates: panics or malformed answer"
  | ["lpath", g] => do
    let g ← parseNatss g
    if !wfB g then return (if ans == ["panic"] then "holds" else "violates: no panic on a malformed graph")
    match ans with
    | ["nil"] =>
      if cyclicB g || g.length == 0 then some "holds" else some "violates: nil for an acyclic graph"
    | [p] =>
      match parseNats p with
      | none => some "violates: panics or answers garbage on a well-formed graph"
      | some p =>
        if cyclicB g then some "violates: a path is returned for a cyclic graph"
        else if !isPathB g p then some "violates: the answer is not a path of the graph"
        else if some p.length != (longestPath g).map (·.length) then
          some s!"violates: the path has {p.length} vertices, the maximum is {((longestPath g).map (·.length)).getD 0}"
        else some "holds"
    | _ => some "violates: malformed answer"
  | ["tarjan", g, _] => do
    let g ← parseNatss g
    if g.length < 2 then return "holds"
    if !wfB g then return (if ans == ["panic"] then "holds" else "violates: no panic on a malformed graph")
    match ans with
    | [comps, _, _] =>
      match parseNatss comps with
      | none => some "violates: garbage"
      | some comps =>
        if checkScc g comps then some "holds"
        else some "violates: the reported components are not the strongly connected components in reverse topological order"
    | _ => some "violates: panics or malformed answer on a well-formed graph"
  | _ => none

def handle (args : List String) : Option String :=
  match args with
  | ["transpose", g] => do
    let g ← parseNatss g
    if !wfB g then return "panic"
    some (showNatss (transpose g))
  | ["matrix", g] => do
    let g ← parseNatss g
    let a := showNatss (Matrix.ofGraph g).graph
    some s!"{a} {a}"
  | ["closure", g] => do
    let g ← parseNatss g
    let a := showNatss (closureAdj g)
    some s!"{a} {a}"
  | ["lpath", g] => do
    let g ← parseNatss g
    if !wfB g then return "panic"
    some (showPath (longestPathGo g))
  | ["tarjan", g, gocomps] => do
    let g ← parseNatss g
    if g.length ≥ 2 && !wfB g then return "panic"
    let r := tarjanRun g
    let v := match parseNatss gocomps with
      | some c => verdict g c
      | none => "bad"
    some s!"{showNatss (r.map (·.1))} {showNatss (r.map (·.2))} {v}"
  | "judge" :: rest =>
    let ans := rest.takeWhile (· != "::")
    let cas := (rest.dropWhile (· != "::")).drop 1
    judgeCase ans cas
  | _ => none

end TmVerif.DriverC26
