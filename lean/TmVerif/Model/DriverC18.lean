import TmVerif.Model.Proto
import TmVerif.Facts.ExpectC18
namespace TmVerif.DriverC18
open TmVerif.Proto TmVerif.Facts

/-- all hashes equal? -/
def allSame : List String → Bool
  | [] => true
  | h :: t => t.all (· == h)

def nodupInts : List Int → Bool
  | [] => true
  | a :: t => !t.contains a && nodupInts t

/-- Evaluates one case; `none` = malformed.
* `site <file> <func> <hash> <ctx>` (a map-range loop found by the harness's own run of tools/factgen on the tree
  under test) → `covered` when the expectation table classifies it, else `uncovered`;
* `gen <grammar> <h₁> <h₂> …` (digest of all files written, one per run: in-process repetitions and child
  processes with GOMAXPROCS 1 and 16) → `same` / `differ`;
* `hist <grammar B> <grammar A> <digest of B in a fresh process> <digest of B generated after A in one process>`
  → `same` / `history`;
* `cli <scenario> <digest of the reused directory> <digest of the empty directory>` (real command-line writer,
  revision 2 generated over the files of revision 1 vs into an empty directory) → `same` / `stale`;
* `cwd <grammar> <digest> <digest>` (the same relative path and content generated from two working directories)
  → `same` / `cwd`;
* `shipped <grammar> <files> <differing>` (regeneration of a shipped grammar vs the committed files) →
  `match` / `mismatch`;
* `inv remap <grammar> <values>`: hypothesis of `genReverseLookup` (values of an `ActionVars.Remap`) →
  `holds` / `fails`; `inv argrefs <grammar> <keys> <pos fields>`: hypothesis of `compilerAddTypes`
  (`ArgRefs[k].Pos = k`). -/
def eval : List String → Option String
  | ["site", file, func, hash, ctx] =>
    some (if (lookupSite file func hash ctx).isSome then "covered" else "uncovered")
  | "gen" :: _ :: hashes => some (if allSame hashes then "same" else "differ")
  | ["cli", _, d1, d2] => some (if d1 == d2 then "same" else "stale")
  | ["cwd", _, d1, d2] => some (if d1 == d2 then "same" else "cwd")
  | ["hist", _, _, fresh, after] => some (if fresh == after then "same" else "history")
  | ["shipped", _, _, ndiff] => do
    let n ← parseNat? ndiff
    some (if n == 0 then "match" else "mismatch")
  | ["inv", "remap", _, vals] => do
    let vs ← parseInts vals
    some (if nodupInts vs then "holds" else "fails")
  | ["inv", "argrefs", _, keys, poss] => do
    let ks ← parseInts keys
    let ps ← parseInts poss
    some (if ks == ps then "holds" else "fails")
  | _ => none

/-- `judge <go answer> :: <case>`: does the case exhibit a concrete failing input of the PROPERTY (two runs
with different output, or a shipped grammar that does not reproduce the committed files)? An unclassified
loop or a broken invariant is not one (the check then reports the broken obligation instead). -/
def handle (args : List String) : Option String :=
  match args with
  | "judge" :: _ :: "::" :: rest =>
    match eval rest with
    | some "differ" => some "violates: the generated files differ between runs of the same grammar"
    | some "stale" => some "violates: the files on disk after `textmapper generate` depend on what an earlier generation left there"
    | some "cwd" => some "violates: the files of a grammar depend on the working directory of the process"
    | some "history" => some "violates: the files of a grammar depend on what was generated earlier in the same process"
    | some "mismatch" => some "violates: regenerating the shipped grammar does not reproduce the committed files"
    | some _ => some "holds"
    | none => none
  | _ => eval args

end TmVerif.DriverC18
