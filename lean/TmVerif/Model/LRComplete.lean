/-
C01 completeness validator (Jourdan–Pottier–Leroy, "Validating LR(1) parsers", ESOP 2012).

A certificate `CCert` gives, for every table state, a list of LR(1)-style items
`(rule, dot, lookahead mask)` (rule indices as in `LRRef`: `g.rules.size + i` is the augmented
rule of input `i` with right-hand side `[S_i, 0]` for eoi inputs and `[S_i]` otherwise), plus
over-approximations of nullable and FIRST. It is computed from the executable LALR(1) reference
(`mkCCert`, untrusted) and then CHECKED (`complOk`, declarative, all quantifiers are finite
ranges). `complOk g t cc = true` is the hypothesis of the completeness theorem `C01_lr_complete`
(Props/C01.lean): every sentence is accepted by the runtime model.

As in `LRSound.certOk` the conditions quantify over the SAME decoding functions the runtime model
uses (`needsTok`, `actOf t noDeep`, `gotoState`).
-/
import TmVerif.Model.LRSound
import TmVerif.Model.LRRef
namespace TmVerif.LRComplete
open TmVerif.LR TmVerif.CFG TmVerif.LRSound TmVerif.LRRef

structure CItem where
  rule : Nat
  dot : Nat
  la : Nat             -- bit `a` set = terminal `a` is in the lookahead set
deriving Repr, DecidableEq, Inhabited

structure CCert where
  items : Array (List CItem)
  nullable : List Nat
  first : Array Nat    -- per symbol, bit mask over terminals
deriving Repr, Inhabited, DecidableEq

def itemsOf (cc : CCert) (s : Nat) : List CItem := cc.items.getD s []

/-- state `s` has an item `(r, d, L')` with `L ⊆ L'` -/
def hasItem (cc : CCert) (s r d L : Nat) : Bool :=
  (itemsOf cc s).any fun it => it.rule == r && it.dot == d && subMask L it.la

/-- (N) `nullable` is closed under the rules -/
def nullOk (g : Grammar) (cc : CCert) : Bool :=
  g.rules.toList.all fun r => !seqNullable cc.nullable r.rhs || cc.nullable.contains r.lhs

/-- (N) `first` is closed under the rules -/
def firstOk (g : Grammar) (cc : CCert) : Bool :=
  g.rules.toList.all fun r =>
    subMask (firstOfSeq g cc.nullable cc.first r.rhs) (cc.first.getD r.lhs 0)

/-- (S) the entry state of input `i` holds the augmented start item; for a no-eoi input any
terminal may follow. -/
def startOk (g : Grammar) (cc : CCert) : Bool :=
  (List.range g.inputs.size).all fun i =>
    match g.inputs[i]? with
    | some inp => hasItem cc i (g.rules.size + i) 0 (if inp.eoi then 0 else allTerms g)
    | none => false

/-- what the closure rule sends from `it` to the initial items of the nonterminal after its dot -/
def contrib (g : Grammar) (cc : CCert) (it : CItem) : Nat :=
  closureContribution g cc.nullable cc.first (it.rule, it.dot) it.la

/-- (C) closure -/
def closOk (g : Grammar) (cc : CCert) (s : Nat) (it : CItem) : Bool :=
  match (rhsOf g it.rule)[it.dot]? with
  | none => true
  | some x =>
    x < g.nTerms || (rulesOf g x).all fun r' => hasItem cc s r' 0 (contrib g cc it)

/-- (G) the runtime moves over the symbol after the dot, and the target state holds the item with
the dot advanced. -/
def moveOk (g : Grammar) (t : Tables) (cc : CCert) (s : Nat) (it : CItem) : Bool :=
  match (rhsOf g it.rule)[it.dot]? with
  | none => true
  | some x =>
    if x < g.nTerms then
      needsTok t s == some true &&
      match actOf t noDeep s x with
      | some (.shift q) => decide (0 ≤ q) && hasItem cc q.toNat it.rule (it.dot + 1) it.la
      | _ => false
    else
      match gotoState t s x with
      | some q => decide (0 ≤ q) && hasItem cc q.toNat it.rule (it.dot + 1) it.la
      | none => false

/-- (R) a complete item of a grammar rule: on every terminal of its lookahead set the state
reduces by that rule (a state that does not consult the token reduces by it whatever the token
is), and `ruleLen`/`ruleSymbol` agree with the grammar. -/
def redOk (g : Grammar) (t : Tables) (s : Nat) (it : CItem) : Bool :=
  match g.rules[it.rule]? with
  | none => true
  | some rule =>
    it.dot != rule.rhs.length ||
    (geti t.ruleLen it.rule == some (rule.rhs.length : Int) &&
     geti t.ruleSymbol it.rule == some (rule.lhs : Int) &&
     match needsTok t s with
     | none => false
     | some b =>
       (List.range g.nTerms).all fun a =>
         !it.la.testBit a ||
         actOf t noDeep s (if b then (a : Int) else 0) == some (.reduce (it.rule : Int)))

/-- (F) a complete augmented item of input `i` occurs only in the final state of `i`. -/
def finOk (g : Grammar) (t : Tables) (s : Nat) (it : CItem) : Bool :=
  it.rule < g.rules.size || it.dot != (rhsOf g it.rule).length ||
  t.finalStates[it.rule - g.rules.size]? == some (s : Int)

/-- (F) and it does occur there -/
def finHasOk (g : Grammar) (t : Tables) (cc : CCert) : Bool :=
  (List.range g.inputs.size).all fun i =>
    match t.finalStates[i]? with
    | some f => decide (0 ≤ f) &&
      hasItem cc f.toNat (g.rules.size + i) (rhsOf g (g.rules.size + i)).length 0
    | none => false

def itemOk (g : Grammar) (t : Tables) (cc : CCert) (s : Nat) (it : CItem) : Bool :=
  closOk g cc s it && moveOk g t cc s it && redOk g t s it && finOk g t s it

def complOk (g : Grammar) (t : Tables) (cc : CCert) : Bool :=
  g.wf && decide (t.nTerms = g.nTerms) &&
  nullOk g cc && firstOk g cc && startOk g cc && finHasOk g t cc &&
  ((List.range cc.items.size).all fun s => (itemsOf cc s).all fun it => itemOk g t cc s it)

/-! ### computing the certificate (untrusted) -/

/-- from the reference construction: kernels by `phiWalk`, lookahead sets by `laFix` -/
def mkCCert (g : Grammar) (t : Tables) : Except String CCert := do
  let phi ← phiWalk g t
  let la := laFix g t phi
  let nl := nullable g
  pure { items := la.map fun l => l.map fun p => ⟨p.1.1, p.1.2, p.2⟩,
         nullable := nl, first := firstSets g nl }

/-- diagnostics: the first failing condition -/
def complFailure (g : Grammar) (t : Tables) (cc : CCert) : String :=
  if !g.wf then "grammar not well-formed" else
  if t.nTerms ≠ g.nTerms then "terminal counts differ" else
  if !nullOk g cc then "(N) nullable is not closed under the rules" else
  if !firstOk g cc then "(N) first is not closed under the rules" else
  if !startOk g cc then "(S) an entry state lacks its augmented start item" else
  if !finHasOk g t cc then "(F) a final state lacks the complete augmented item" else
  match (List.range cc.items.size).findSome? (fun s =>
      (itemsOf cc s).findSome? fun it =>
        let d := s!"state {s} item ({it.rule},{it.dot},{it.la})"
        if !closOk g cc s it then some s!"(C) {d}: closure items missing or lookahead too small"
        else if !moveOk g t cc s it then some s!"(G) {d}: no transition on the symbol after the dot, or the target lacks the advanced item"
        else if !redOk g t s it then some s!"(R) {d}: the state does not reduce by the rule on every lookahead terminal"
        else if !finOk g t s it then some s!"(F) {d}: complete augmented item outside the final state"
        else none) with
  | some m => m
  | none => "certificate rejected"

end TmVerif.LRComplete
