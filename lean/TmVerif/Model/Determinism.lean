/-
C18 (generation is deterministic): small faithful models of every loop of the generation pipeline that
ranges over a Go map (the inventory is regenerated into Facts/Generated.lean by tools/factgen).

How a map-range loop is modelled. `for k, v := range m { body }` visits every entry of `m` exactly once
in an order chosen by the runtime. The loop is therefore a left fold of `body` over SOME enumeration
`xs : List (κ × ν)` of the entries; two runs differ exactly by a permutation of `xs`, and the keys of
`xs` are pairwise distinct. A loop is *order independent* when
    ∀ xs ys, xs.Perm ys → loop xs = loop ys
(for some loops under `(xs.map key).Nodup`, which every map enumeration satisfies, or under an invariant of
the data that the harness checks on every compiled grammar).

Go values are modelled extensionally so that `=` is the observable equality:
  * a Go `map[κ]ν` / a slice indexed by key is a function `κ → Option ν` (`GoMap`),
  * a `map[κ]bool` used as a set and a `container.BitSet` are functions `κ → Bool` (`GoSet`),
  * `sort.Slice`/`sort.Strings` is ANY function `srt` that returns a permutation of its argument that is
    ordered w.r.t. the comparison (`SortSpec`): Go's pdqsort is not stable and nothing below needs it to be.

Core Lean only (linked into `tmv`). The theorems are in Props/C18.lean.
-/
namespace TmVerif.Determinism

/-! ## Go maps and sets, extensionally -/

abbrev GoMap (κ : Type) (ν : Type) := κ → Option ν
abbrev GoSet (κ : Type) := κ → Bool

/-- `m[k] = v` -/
def GoMap.set {κ ν} [DecidableEq κ] (m : GoMap κ ν) (k : κ) (v : ν) : GoMap κ ν :=
  fun k' => if k' = k then some v else m k'

/-- the general point update `m[k] = g(m[k])` (`g none` = the key is absent) -/
def GoMap.alter {κ ν} [DecidableEq κ] (m : GoMap κ ν) (k : κ) (g : Option ν → Option ν) : GoMap κ ν :=
  fun k' => if k' = k then g (m k') else m k'

/-- `s[k] = true`, `bitset.Set(k)` -/
def GoSet.add {κ} [DecidableEq κ] (s : GoSet κ) (k : κ) : GoSet κ :=
  fun k' => if k' = k then true else s k'

/-- What `sort.Slice(l, less)` guarantees, with `le a b := ¬ less b a`: a permutation of the input in
which no later element is `less` than an earlier one. -/
def SortSpec {α : Type} (srt : List α → List α) (le : α → α → Prop) : Prop :=
  ∀ l, (srt l).Perm l ∧ (srt l).Pairwise le

/-! ## Generic loop shapes -/

/-- shape (a): every iteration performs a point update of a map at a key computed from the entry. -/
def pointUpdates {α κ ν : Type} [DecidableEq κ] (key : α → κ) (upd : α → Option ν → Option ν)
    (m : GoMap κ ν) (xs : List α) : GoMap κ ν :=
  xs.foldl (fun m a => m.alter (key a) (upd a)) m

/-- shape (a): every iteration adds a key computed from the entry to a set when a condition on the entry
holds. -/
def condAdds {α κ : Type} [DecidableEq κ] (key : α → κ) (cond : α → Bool) (s : GoSet κ) (xs : List α) :
    GoSet κ :=
  xs.foldl (fun s a => if cond a then s.add (key a) else s) s

/-- shape (b): every iteration appends items computed from the entry to a slice which is sorted
afterwards. -/
def collectSort {α β : Type} (srt : List β → List β) (items : α → List β) (xs : List α) : List β :=
  srt (xs.flatMap items)

/-- shape (c): return the value computed from the first entry that satisfies a predicate. -/
def searchFirst {α ρ : Type} (p : α → Bool) (res : α → ρ) (dflt : ρ) (xs : List α) : ρ :=
  ((xs.find? p).map res).getD dflt

/-! ## The loops of /repo, one definition per distinct loop (names: file + function) -/

/-- lalr/compile.go `computeStates` and `checkLR0`:
`for item, v := range c.markers { if slices.Contains(v, i) { bits.Set(item) } }`
(`i` = index of the marker "greedy" / "lr0"). -/
def lalrMarkerBits (i : Nat) (bits : GoSet Nat) (markers : List (Nat × List Nat)) : GoSet Nat :=
  condAdds (fun e => e.1) (fun e => e.2.contains i) bits markers

/-- lalr/trie.go `resolve`, outer loop: `for rule, gts := range ruleGts { ri := …; rules = append(rules, ri) }`
then `sort.Slice(rules, by .rule)`. `info rule gts` is the loop body (a function of the entry: it only
reads `b.follow`, `b.c`, and builds a local `termMap` which is consumed by the inner loop `lalrTrieTerms`);
the result record carries its key in `.1`. -/
def lalrTrieRules {ι : Type} (srt : List (Nat × ι) → List (Nat × ι)) (info : Nat → List Nat → ι)
    (ruleGts : List (Nat × List Nat)) : List (Nat × ι) :=
  collectSort srt (fun e => [(e.1, info e.1 e.2)]) ruleGts

/-- lalr/trie.go `resolve`, inner loop: `for term, nextGts := range termMap { ri.terms = append(…{term, nextGts}) }`
then `sort.Slice(ri.terms, by .terminal)`. -/
def lalrTrieTerms (srt : List (Nat × List Nat) → List (Nat × List Nat)) (termMap : List (Nat × List Nat)) :
    List (Nat × List Nat) :=
  collectSort srt (fun e => [e]) termMap

/-- An `ArgRef` (syntax/syntax.go): only the fields the loops touch. -/
structure ArgRef where
  pos : Nat
  symbol : Int
  rest : Nat        -- Kind / Optional (never written by the loops)
  deriving DecidableEq, Repr

/-- syntax/expand.go `updateArgRefs`:
`for pos, sym := range newNts { copied, exists := refs[pos]; if !exists {continue}; copied.Symbol = sym; refs[pos] = copied }` -/
def expandUpdateArgRefs (refs : GoMap Nat ArgRef) (newNts : List (Nat × Int)) : GoMap Nat ArgRef :=
  pointUpdates (fun e => e.1) (fun e old => old.map fun r => { r with symbol := e.2 }) refs newNts

/-- syntax/syntax.go `Model.Rearrange`: the loop ranges over the map it updates (existing keys only):
`for pos, argRef := range refs { if nt := argRef.Symbol - terms; nt >= 0 { argRef.Symbol = terms + perm[nt]; refs[pos] = argRef } }`.
`entries` is the enumeration of `refs` itself. -/
def syntaxRearrangeArgRefs (terms : Int) (perm : Int → Int) (refs : GoMap Nat ArgRef)
    (entries : List (Nat × ArgRef)) : GoMap Nat ArgRef :=
  pointUpdates (fun e => e.1)
    (fun e old => if e.2.symbol - terms ≥ 0 then some { e.2 with symbol := terms + perm (e.2.symbol - terms) } else old)
    refs entries

/-- syntax/templates.go `remapArgRefs`: fills a FRESH map from the entries of the old one:
`for pos, ref := range cmd.CmdArgs.ArgRefs { if sym, ok := syms[pos]; ok { ref.Symbol = sym }; args.ArgRefs[pos] = ref }`
(`syms` is a local map that is only looked up). -/
def templatesRemapArgRefs (syms : GoMap Nat Int) (entries : List (Nat × ArgRef)) : GoMap Nat ArgRef :=
  pointUpdates (fun e => e.1)
    (fun e _ => some (match syms e.1 with | some sym => { e.2 with symbol := sym } | none => e.2))
    (fun _ => none) entries

/-- grammar/grammar.go `ActionVars.String`, both loops and the sort:
`for k, positions := range names { for _, pos := range positions { v, ok := remap[pos]; if !ok {v = -1}; ret = append(ret, fmt(k, v)) } }`
`for k, v := range remap { ret = append(ret, fmt(k, v)) }; sort.Strings(ret)`.
`σ` stands for Go strings with their (linear) byte order, `fmt1`/`fmt2` for the two `Sprintf("%v:%v")`. -/
def grammarActionVarsString {σ : Type} (srt : List σ → List σ) (fmt1 : String → Int → σ) (fmt2 : Nat → Int → σ)
    (remap : GoMap Nat Int) (names : List (String × List Nat)) (remapEntries : List (Nat × Int)) : List σ :=
  srt (names.flatMap (fun e => e.2.map fun pos => fmt1 e.1 ((remap pos).getD (-1)))
        ++ remapEntries.flatMap (fun e => [fmt2 e.1 e.2]))

/-- compiler/compiler.go `generateTables`:
`for name, positions := range args.Names { missing := true; for _, p := range positions { if _, ok := actualPos[p]; ok { missing = false; break } }; if missing { args.MayBeMissing[name] = true } }` -/
def compilerMayBeMissing (actualPos : GoMap Nat Int) (mayBeMissing : GoSet String)
    (names : List (String × List Nat)) : GoSet String :=
  condAdds (fun e => e.1) (fun e => e.2.all fun p => (actualPos p).isNone) mayBeMissing names

/-- compiler/compiler.go `addTypes`: `for _, ref := range argRefs { types[ref.Pos] = typeOf(ref.Symbol) }`
(`typeOf` = `syms[ref.Symbol].Type` when `0 ≤ ref.Symbol < len(syms)`, else "": extracted commands). The key written is a FIELD of the value. -/
def compilerAddTypes {τ : Type} (typeOf : Int → τ) (argRefs : List (Nat × ArgRef)) : GoMap Nat τ :=
  pointUpdates (fun e => e.2.pos) (fun e _ => some (typeOf e.2.symbol)) (fun _ => none) argRefs

/-- compiler/syntax.go `convertPart` (Command) as it was BEFORE /repo commit af67537 (fixed finding
C18-opt-alias-collision; kept for the record, no current site refers to it):
`for k, v := range rhs.names { if !aliasOptSuffix && hasOptSuffix(k) { k = trim(k) }; args.Names[k] = v }`.
`rename` is the identity when `aliasIncludesOptSuffix = true` (the default). The current code collects the
keys, sorts them (`sortedKeys`) and fills `args.Names` from the sorted slice. -/
def compilerCopyNamesOld (rename : String → String) (names : List (String × List Nat)) : GoMap String (List Nat) :=
  pointUpdates (fun e => rename e.1) (fun e _ => some e.2) (fun _ => none) names

/-- compiler/syntax.go `popRule`: `for name, pos := range rule.names { p.names[name] = pos }` -/
def compilerPopRuleNames (parent : GoMap String (List Nat)) (names : List (String × List Nat)) :
    GoMap String (List Nat) :=
  pointUpdates (fun e => e.1) (fun e _ => some e.2) parent names

/-- compiler/lexer.go `compile` (inline rules): ranges over the map it updates:
`for k, v := range val.Custom { val.Custom[k] = out.RuleToken[v] }` -/
def lexerInlineCustom (ruleToken : Int → Int) (custom : GoMap String Int) (entries : List (String × Int)) :
    GoMap String Int :=
  pointUpdates (fun e => e.1) (fun e _ => some (ruleToken e.2)) custom entries

/-- compiler/lexer.go `resolveTokenComments`: `for tok, val := range comments { syms[tok].Comment = val }`
(`syms` is a slice; only the `Comment` fields are modelled). -/
def lexerTokenComments (symComments : GoMap Nat String) (comments : List (Nat × String)) : GoMap Nat String :=
  pointUpdates (fun e => e.1) (fun e old => old.map fun _ => e.2) symComments comments

/-- gen/funcs.go `asStringSwitch`: `for s := range m { list = append(list, s) }; sort.Strings(list)`;
gen/post_ts.go `ExtractTsImports`: `for m := range byModule {…}; sort.Strings(modules)` and
`for sym := range byModule[mod] {…}; sort.Strings(symbols)`. -/
def sortedKeys {σ ν : Type} (srt : List σ → List σ) (m : List (σ × ν)) : List σ :=
  collectSort srt (fun e => [e.1]) m

/-- gen/funcs.go `reverseLookup`: `for pos, idx := range remap { if idx == i { return pos } }; return 0` -/
def genReverseLookup (i : Int) (remap : List (Nat × Int)) : Nat :=
  searchFirst (fun e => e.2 == i) (fun e => e.1) 0 remap

/-- An import of gen/post_go.go: `imp{alias, path}`; `toInsert[path] = imp{alias, path}`. -/
structure GoImp (π : Type) where
  alias : String
  path : π

/-- the comparison of gen/post_go.go: `if si, sj := isStd(a.path), isStd(b.path); si != sj { return si }; return a.path < b.path` -/
def goImpLess {π : Type} (isStd : π → Bool) (lt : π → π → Bool) (a b : GoImp π) : Bool :=
  if isStd a.path != isStd b.path then isStd a.path else lt a.path b.path

/-- gen/post_go.go `ExtractGoImports`: `for _, v := range toInsert { list = append(list, v) }; sort.Slice(list, less)` -/
def genGoImports {π : Type} (srt : List (GoImp π) → List (GoImp π)) (toInsert : List (π × GoImp π)) :
    List (GoImp π) :=
  collectSort srt (fun e => [e.2]) toInsert

/-- shiftdfa/shiftdfa.go `Compile`:
`for name, pattern := range opts.Patterns { re, err := parse(pattern); if err != nil { return err }; patterns[name] = mk(name, re, pattern) }`.
The state is `none` once a pattern failed to parse (WHICH error is returned then depends on the order; no
scanner is produced in that case). -/
def shiftdfaPatterns {ρ ψ : Type} (parse : String → Option ρ) (mk : String → ρ → String → ψ)
    (patterns : List (String × String)) : Option (GoMap String ψ) :=
  patterns.foldl
    (fun st e => st.bind fun m => (parse e.2).map fun re => m.set e.1 (mk e.1 re e.2))
    (some fun _ => none)

/-! ## Classification vocabulary (used by Facts/ExpectC18.lean) -/

/-- One constructor per distinct loop model above. -/
inductive Loop
  | lalrMarkerBits | lalrTrieRules | lalrTrieTerms | expandUpdateArgRefs | syntaxRearrangeArgRefs
  | grammarActionVarsString | compilerMayBeMissing | compilerAddTypes
  | compilerPopRuleNames | lexerInlineCustom | lexerTokenComments | sortedKeys | genReverseLookup
  | genGoImports | shiftdfaPatterns | templatesRemapArgRefs
  deriving DecidableEq, Repr

/-- `(xs.map key).Nodup`: what every enumeration of a Go map satisfies for `key = Prod.fst`. -/
abbrev DistinctBy {α κ : Type} (key : α → κ) (xs : List α) : Prop := (xs.map key).Nodup

/-- The order-independence statement of each loop. Hypotheses of the form `DistinctBy Prod.fst` hold for
every enumeration of a map. The remaining hypotheses are data invariants, named in Facts/ExpectC18.lean:
`compilerAddTypes`: `ArgRefs[k].Pos = k`; `genReverseLookup`: `Remap` is injective. -/
def Loop.OrderIndependent : Loop → Prop
  | .lalrMarkerBits => ∀ (i : Nat) (bits : GoSet Nat) (xs ys : List (Nat × List Nat)),
      xs.Perm ys → Determinism.lalrMarkerBits i bits xs = Determinism.lalrMarkerBits i bits ys
  | .lalrTrieRules => ∀ (ι : Type) (srt : List (Nat × ι) → List (Nat × ι)) (info : Nat → List Nat → ι)
      (xs ys : List (Nat × List Nat)), SortSpec srt (fun a b => a.1 ≤ b.1) → DistinctBy Prod.fst xs →
      xs.Perm ys → Determinism.lalrTrieRules srt info xs = Determinism.lalrTrieRules srt info ys
  | .lalrTrieTerms => ∀ (srt : List (Nat × List Nat) → List (Nat × List Nat)) (xs ys : List (Nat × List Nat)),
      SortSpec srt (fun a b => a.1 ≤ b.1) → DistinctBy Prod.fst xs →
      xs.Perm ys → Determinism.lalrTrieTerms srt xs = Determinism.lalrTrieTerms srt ys
  | .expandUpdateArgRefs => ∀ (refs : GoMap Nat ArgRef) (xs ys : List (Nat × Int)), DistinctBy Prod.fst xs →
      xs.Perm ys → Determinism.expandUpdateArgRefs refs xs = Determinism.expandUpdateArgRefs refs ys
  | .syntaxRearrangeArgRefs => ∀ (terms : Int) (perm : Int → Int) (refs : GoMap Nat ArgRef)
      (xs ys : List (Nat × ArgRef)), DistinctBy Prod.fst xs →
      xs.Perm ys → Determinism.syntaxRearrangeArgRefs terms perm refs xs = Determinism.syntaxRearrangeArgRefs terms perm refs ys
  | .grammarActionVarsString => ∀ (σ : Type) (le : σ → σ → Prop) (srt : List σ → List σ)
      (fmt1 : String → Int → σ) (fmt2 : Nat → Int → σ) (remap : GoMap Nat Int)
      (ns ns' : List (String × List Nat)) (rs rs' : List (Nat × Int)),
      (∀ a b, le a b → le b a → a = b) → SortSpec srt le → ns.Perm ns' → rs.Perm rs' →
      Determinism.grammarActionVarsString srt fmt1 fmt2 remap ns rs = Determinism.grammarActionVarsString srt fmt1 fmt2 remap ns' rs'
  | .compilerMayBeMissing => ∀ (actualPos : GoMap Nat Int) (mbm : GoSet String) (xs ys : List (String × List Nat)),
      xs.Perm ys → Determinism.compilerMayBeMissing actualPos mbm xs = Determinism.compilerMayBeMissing actualPos mbm ys
  | .compilerAddTypes => ∀ (τ : Type) (typeOf : Int → τ) (xs ys : List (Nat × ArgRef)),
      DistinctBy (fun e => e.2.pos) xs →
      xs.Perm ys → Determinism.compilerAddTypes typeOf xs = Determinism.compilerAddTypes typeOf ys
  | .compilerPopRuleNames => ∀ (parent : GoMap String (List Nat)) (xs ys : List (String × List Nat)),
      DistinctBy Prod.fst xs →
      xs.Perm ys → Determinism.compilerPopRuleNames parent xs = Determinism.compilerPopRuleNames parent ys
  | .lexerInlineCustom => ∀ (ruleToken : Int → Int) (custom : GoMap String Int) (xs ys : List (String × Int)),
      DistinctBy Prod.fst xs →
      xs.Perm ys → Determinism.lexerInlineCustom ruleToken custom xs = Determinism.lexerInlineCustom ruleToken custom ys
  | .lexerTokenComments => ∀ (syms : GoMap Nat String) (xs ys : List (Nat × String)), DistinctBy Prod.fst xs →
      xs.Perm ys → Determinism.lexerTokenComments syms xs = Determinism.lexerTokenComments syms ys
  | .sortedKeys => ∀ (σ ν : Type) (le : σ → σ → Prop) (srt : List σ → List σ) (xs ys : List (σ × ν)),
      (∀ a b, le a b → le b a → a = b) → SortSpec srt le →
      xs.Perm ys → Determinism.sortedKeys srt xs = Determinism.sortedKeys srt ys
  | .genReverseLookup => ∀ (i : Int) (xs ys : List (Nat × Int)), DistinctBy Prod.snd xs →
      xs.Perm ys → Determinism.genReverseLookup i xs = Determinism.genReverseLookup i ys
  | .genGoImports => ∀ (π : Type) (isStd : π → Bool) (lt : π → π → Bool)
      (srt : List (GoImp π) → List (GoImp π)) (xs ys : List (π × GoImp π)),
      (∀ a b, lt a b = false → lt b a = false → a = b) →
      SortSpec srt (fun a b => goImpLess isStd lt b a = false) →
      (∀ e ∈ xs, e.2.path = e.1) → DistinctBy Prod.fst xs →
      xs.Perm ys → Determinism.genGoImports srt xs = Determinism.genGoImports srt ys
  | .shiftdfaPatterns => ∀ (ρ ψ : Type) (parse : String → Option ρ) (mk : String → ρ → String → ψ)
      (xs ys : List (String × String)), DistinctBy Prod.fst xs →
      xs.Perm ys → Determinism.shiftdfaPatterns parse mk xs = Determinism.shiftdfaPatterns parse mk ys
  | .templatesRemapArgRefs => ∀ (syms : GoMap Nat Int) (xs ys : List (Nat × ArgRef)), DistinctBy Prod.fst xs →
      xs.Perm ys → Determinism.templatesRemapArgRefs syms xs = Determinism.templatesRemapArgRefs syms ys

end TmVerif.Determinism
