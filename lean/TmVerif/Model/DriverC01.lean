import TmVerif.Model.LRProto
import TmVerif.Model.LRSound
import TmVerif.Model.LRXSafe
import TmVerif.Model.LRRef
import TmVerif.Model.LRAccept
import TmVerif.Model.LRComplete
import TmVerif.Model.LRViable
import TmVerif.Model.DriverC03
namespace TmVerif.DriverC01
open TmVerif.Proto TmVerif.LR TmVerif.CFG TmVerif.LRSound

def parseTok (s : String) : Option Tok :=
  match s.splitOn ":" with
  | [a, b, c] => do
    let a ← parseInt? a; let b ← parseNat? b; let c ← parseNat? c
    pure ⟨a, b, c⟩
  | _ => none

def parseToks (s : String) : Option (List Tok) :=
  if s == "-" then some [] else (s.splitOn ",").mapM parseTok

/-- the listener trace of a run: one `rule:off:end` per reduction, then the result -/
def showRun (res : Result) (c : Cfg) : String :=
  let evs := c.evs.reverse.filterMap fun e => match e with
    | .reduce r o e => some s!"{r}:{o}:{e}"
    | .shift _ _ _ => none
  let r := match res with
    | .accept => "ok"
    | .syntaxError o e => s!"err:{o}:{e}"
    | .panic => "panic"
    | .fuel => "loop"
  " ".intercalate (evs ++ [r])

/-- completeness certificate: computed from the LALR(1) reference over the default encoding, then
checked against the encoding in use (`none` = accepted). -/
def validateCompl (g : Grammar) (t : Tables) : Option String :=
  match LRComplete.mkCCert g { t with optimized := false } with
  | .error m => some s!"mismatch completeness certificate: cannot be built: {m}"
  | .ok cc =>
    if LRComplete.complOk g t cc then none
    else some s!"mismatch completeness certificate: {LRComplete.complFailure g t cc}"

/-- viable-prefix certificate (hypothesis of `C01_lr_error_position`): kernels from the LR(0)
reference walk over the default encoding, checked against the encoding in use. -/
def validateViable (g : Grammar) (t : Tables) : Option String :=
  match LRViable.mkVCert g { t with optimized := false } with
  | .error m => some s!"mismatch viable-prefix certificate: cannot be built: {m}"
  | .ok vc =>
    if LRViable.viableOk g t vc then none
    else some s!"mismatch viable-prefix certificate: {LRViable.viableFailure g t vc}"

def validate (g : Grammar) (t : Tables) (compl : Bool := true) : String :=
  let cert := computePast g t
  if certOk g t cert then
    -- rank certificate for chains of reductions (hypothesis of `C01_lr_halts`)
    let rc := LRX.mkXCert g { t := t, rules := #[] } cert
    if !LRX.coreRankOk g t cert rc then
      s!"mismatch rank certificate: {LRX.xwfFailure g { t := t, rules := #[] } cert rc} [C01-rank]"
    else if compl then
      match validateCompl g t with
      | some m => m
      | none => (validateViable g t).getD "ok"
    else "ok"
  else
    let msg := firstFailure g t cert
    -- classify final-state failures precisely with the LR(0) reference walk (default encoding)
    let msg := if (msg.splitOn "[C01-shared-final-state]").length > 1 then
        match LRRef.phiWalk g { t with optimized := false } with
        | .error m => if (m.splitOn "[C01-shared-final-state]").length > 1 then msg
            else (msg.replace " [C01-shared-final-state]" "") ++ " (" ++ m ++ ")"
        | .ok _ => msg.replace " [C01-shared-final-state]" ""
      else msg
    s!"mismatch {msg}"

/-- `validate <grammar 6> <tables> <useOpt> [nocompl]` : soundness certificate check and, unless
`nocompl` is given (minimized tables: states are merged, the LR(0) reference walk does not apply),
the completeness certificate check and the viable-prefix certificate check (`ok` = all three
certificates hold, i.e. every hypothesis of the C01 theorems about the tables).
`run <tables> <useOpt> <input> <toks> <endOff>` : the model's listener trace.
`accept <tables> <useOpt> <input> <spec>…` : sentences check against the brute-force recogniser. -/
def handleCase (args : List String) : Option String :=
  match args with
  | "validate" :: rest => do
    let (g, t, rest) ← parseGrammarTables rest
    match rest with
    | [o] => let o ← parseBool? o; some (validate g { t with optimized := o })
    | [o, "nocompl"] => let o ← parseBool? o; some (validate g { t with optimized := o } false)
    | _ => none
  | "run" :: rest => do
    let (t, rest) ← parseTables rest
    match rest with
    | [o, input, toks, endOff] =>
      let o ← parseBool? o; let input ← parseNat? input
      let toks ← parseToks toks; let endOff ← parseNat? endOff
      let t := { t with optimized := o }
      let inp : Input := { toks := toks.toArray, endOff := endOff }
      let (res, c) := run t inp input (50 * (toks.length + 2) * (t.nStates + 2) + 200)
      some (showRun res c)
    | _ => none
  | "lalr1" :: _ => DriverC03.handle args
  | "accept" :: rest => do
    let (t, rest) ← parseTables rest
    match rest with
    | o :: input :: specs =>
      let o ← parseBool? o; let input ← parseNat? input
      match LRAccept.checkAll { t with optimized := o } input specs with
      | none => some "ok"
      | some e => some s!"mismatch {e}"
    | _ => none
  | _ => none

def handle (args : List String) : Option String :=
  match args with
  | "judge" :: goAns =>
    -- `judge <go answer…> :: <case…>`: validate/accept cases carry their own verdict
    match goAns.dropWhile (· ≠ "::") with
    | "::" :: "run" :: _ => none
    | "::" :: rest =>
      match handleCase rest with
      | some "ok" => some "holds"
      | some v => some s!"violates: {v}"
      | none => none
    | _ => none
  | _ => handleCase args

end TmVerif.DriverC01
