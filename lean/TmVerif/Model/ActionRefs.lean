/-
Model (Mode M: hand mirrors) of how `$`-references inside Go semantic actions are bound to parser
stack slots:

* `/repo/grammar/grammar.go`   `ActionVars.Resolve` / `resolve` (zero-based numbers, names via
  `CmdArgs.Names`, the `Remap` lookup)                                    → `resolve`
* `/repo/gen/funcs.go`         `parseMeta`, `reverseLookup`, `goParserAction` → `parseMeta`,
  `reverseLookup`, `locate`, `renderRef`, `action`
* `/repo/compiler/compiler.go` `generateTables`, closure `traverse` (`actualPos`, `numRefs`,
  `SymRefCount`, extraction of a pending mid-rule command before the next reference) → `build`
* `/repo/gen/templates/go_parser.go.tmpl` `applyRule`: the action text is inlined where `stack` still
  contains the right-hand side and `lhs` is the new entry; `stack[len(stack)-k]`     → `stackAt`, `evalRef`

Representation. A Go `string` is a byte string `List Nat`. Go `map[int]int` / `map[int]string` /
`map[string][]int` are association lists with distinct keys (`lookup` = first match). Positions
(`Pos`, 1-based, allocated per source rule) and stack indices are `Nat`; values that Go computes by
subtraction (`SymRefCount-index`) or that can be `-1` / `-2` are `Int`.

What is NOT mirrored: Go map iteration order in `reverseLookup` (the first matching key of the list is
taken; `Remap` is injective on real inputs — `C16_remap_spec` — so the answer does not depend on it);
the C++ / Bison variants (`ccParserAction`, `bisonParserAction`); error message texts (errors are a
small enum).
-/
namespace TmVerif.ActionRefs

abbrev Str := List Nat

/-- ASCII literal -/
def cs (s : String) : Str := s.toList.map Char.toNat

/-! ### integers as Go prints / parses them -/

def isDigit (c : Nat) : Bool := decide (48 ≤ c ∧ c ≤ 57)
def isLetter (c : Nat) : Bool := decide (97 ≤ c ∧ c ≤ 122) || decide (65 ≤ c ∧ c ≤ 90) || c == 95

def digitsVal (ds : Str) : Nat := ds.foldl (fun acc d => acc * 10 + (d - 48)) 0

/-- `strconv.Atoi`: optional sign, at least one digit, digits only, value in the int64 range. -/
def atoi (s : Str) : Option Int :=
  let neg := s.head? == some 45
  let ds := if s.head? == some 45 ∨ s.head? == some 43 then s.drop 1 else s
  if ds.isEmpty || !ds.all isDigit then none
  else
    let n := digitsVal ds
    if neg then (if n ≤ 9223372036854775808 then some (-(n : Int)) else none)
    else (if n < 9223372036854775808 then some (n : Int) else none)

/-- `strconv.ParseUint(s, 10, 32)` succeeds -/
def isUint32 (s : Str) : Bool :=
  !s.isEmpty && s.all isDigit && decide (digitsVal s < 4294967296)

def showNat (n : Nat) : Str := (toString n).toList.map Char.toNat
/-- `fmt.Sprintf("%v", n)` for an `int` -/
def showInt (n : Int) : Str := (toString n).toList.map Char.toNat

/-! ### `ActionVars` -/

structure Vars where
  names : List (Str × List Nat)   -- CmdArgs.Names: alias → positions
  maxPos : Nat                    -- CmdArgs.MaxPos (exclusive, 1-based)
  remap : List (Nat × Nat)        -- Remap: position → index in the expanded rule
  symRefCount : Nat               -- SymRefCount
  types : List (Nat × Str)        -- Types: position → Go type ("" = untyped)
  lhsType : Str                   -- LHSType
  deriving Repr

/-- `grammar.Reference` -/
structure Reference where
  pos : Nat
  endPos : Nat
  index : Int
  endIndex : Int
  deriving Repr, DecidableEq

inductive Err where
  | eos       -- "found $ at the end of the stream"
  | brace     -- "cannot find the matching }"
  | prop      -- "unrecognized property"
  | seq       -- "unrecognized sequence after $"
  | self      -- "invalid self reference"
  | range     -- "index … is out of range"
  | name      -- "invalid reference … Cannot find symbol"
  | internal  -- "internal error: cannot find the position for index"
  | span      -- "… is not accessible for alias … because it spans multiple symbols"
  deriving Repr, DecidableEq

def Err.toString : Err → String
  | .eos => "err:eos" | .brace => "err:brace" | .prop => "err:prop" | .seq => "err:seq"
  | .self => "err:self" | .range => "err:range" | .name => "err:name"
  | .internal => "err:internal" | .span => "err:span"

/-- `idx, exists := a.Remap[pos]; if !exists { idx = -1 }` -/
def remapIdx (v : Vars) (p : Nat) : Int :=
  match v.remap.lookup p with
  | some i => (i : Int)
  | none => -1

/-- `for _, p := range positions { if _, has := a.Remap[p]; has { active = append(active, p) } }` -/
def activeOf (v : Vars) (ps : List Nat) : List Nat := ps.filter fun p => (v.remap.lookup p).isSome

/-- `ActionVars.Resolve(val)` = `resolve(val, zeroBased = true, -1, …)`. -/
def resolve (v : Vars) (val : Str) : Except Err Reference :=
  match atoi val with
  | some n =>
    let pos := n + 1
    if pos < 1 ∨ pos ≥ (v.maxPos : Int) then .error .range
    else
      let p := pos.toNat
      .ok ⟨p, p, remapIdx v p, remapIdx v p⟩
  | none =>
    match v.names.lookup val with
    | none => .error .name
    | some [] => .error .name
    | some (p0 :: ps) =>
      match activeOf v (p0 :: ps) with
      | [] => .ok ⟨p0, (p0 :: ps).getLast?.getD p0, -1, -1⟩
      | a :: as => .ok ⟨a, (a :: as).getLast?.getD a, remapIdx v a, remapIdx v ((a :: as).getLast?.getD a)⟩

/-! ### `parseMeta` -/

inductive Prp where
  | value | sym | offset | endoffset
  deriving Repr, DecidableEq

def Prp.ofStr (s : Str) : Option Prp :=
  if s == cs "value" then some .value else if s == cs "sym" then some .sym
  else if s == cs "offset" then some .offset else if s == cs "endoffset" then some .endoffset else none

def identTail (c : Nat) : Bool := isDigit c || isLetter c || c == 45

/-- drop trailing `-` (the loop `for s[d-1] == '-' { d-- }`) -/
def dropTrailingDash (s : Str) : Str := (s.reverse.dropWhile (· == 45)).reverse

/-- `strings.Cut(s, ".")` -/
def cutDot (s : Str) : Str × Option Str :=
  let pre := s.takeWhile (· != 46)
  if pre.length < s.length then (pre, some (s.drop (pre.length + 1))) else (s, none)

/-- `parseMeta(s)` for non-empty `s` (the text after a `$`): consumed length, id, property. -/
def parseMeta (s : Str) : Except Err (Nat × Str × Prp) :=
  match s with
  | [] => .error .seq
  | c :: rest =>
    if isDigit c then
      let id := c :: rest.takeWhile isDigit
      .ok (id.length, id, .value)
    else if isLetter c then
      let id := dropTrailingDash (c :: rest.takeWhile identTail)
      .ok (id.length, id, .value)
    else if c == 123 then
      let inner := rest.takeWhile (· != 125)
      if inner.length == rest.length then .error .brace
      else
        match cutDot inner with
        | (id, none) => .ok (inner.length + 2, id, .value)
        | (id, some p) =>
          match Prp.ofStr p with
          | some pr => .ok (inner.length + 2, id, pr)
          | none => .error .prop
    else if c == 36 then .ok (1, cs "leftRaw()", .value)
    else .error .seq

/-! ### locating a reference -/

/-- what a reference denotes in the expanded rule -/
inductive Loc where
  | absent                          -- index == -1
  | lhs (raw : Bool)                -- index == -2 (`left()` / `leftRaw()` / `$$`)
  | span (index endIndex : Int) (pos : Nat)   -- stack entries; `pos` selects the type
  deriving Repr, DecidableEq

/-- `reverseLookup(i, remap)`; 0 when there is none -/
def reverseLookup (i : Int) (remap : List (Nat × Nat)) : Nat :=
  match remap.find? (fun e => (e.2 : Int) == i) with
  | some e => e.1
  | none => 0

/-- `if strings.HasPrefix(id, "self[") && strings.HasSuffix(id, "]") { id = id[5 : len(id)-1]; ParseUint … }`
(prefix and suffix cannot overlap: the prefix ends in `[`) -/
def stripSelf (id : Str) : Except Err Str :=
  if id.take 5 == cs "self[" ∧ id.getLast? == some 93 then
    let inner := (id.drop 5).take (id.length - 6)
    if isUint32 inner then .ok inner else .error .self
  else .ok id

/-- the `switch id` of `goParserAction` followed by the `reverseLookup` patch: index / endIndex / pos. -/
def locate (v : Vars) (id : Str) : Except Err Loc :=
  if id == cs "left()" then .ok (.lhs false)
  else if id == cs "leftRaw()" then .ok (.lhs true)
  else if id == cs "first()" ∨ id == cs "last()" then
    if v.symRefCount == 0 then .ok .absent
    else
      let index : Int := if id == cs "first()" then 0 else (v.symRefCount : Int) - 1
      let pos := reverseLookup index v.remap
      if pos == 0 then .error .internal else .ok (.span index index pos)
  else do
    let id' ← stripSelf id
    let r ← resolve v id'
    if r.pos == 0 ∧ r.index ≥ 0 then
      let pos := reverseLookup r.index v.remap
      if pos == 0 then .error .internal
      else .ok (.span r.index r.endIndex pos)
    else if r.index == -1 then .ok .absent
    else .ok (.span r.index r.endIndex r.pos)

/-! ### text produced for one reference -/

def typeOf (v : Vars) (pos : Nat) : Str := (v.types.lookup pos).getD []

def slotText (v : Vars) (index : Int) : Str :=
  cs "stack[len(stack)-" ++ showInt ((v.symRefCount : Int) - index) ++ cs "]"

/-- result of rendering one reference: declaration to add (and the index it is keyed by), text -/
structure Piece where
  decl : Option (Int × Str)
  text : Str
  deriving Repr

def renderLoc (v : Vars) (loc : Loc) (prop : Prp) : Except Err Piece :=
  match loc with
  | .absent =>
    .ok ⟨none, if prop == .value ∨ prop == .sym then cs "nil" else cs "-1"⟩
  | .lhs raw =>
    match prop with
    | .sym => .ok ⟨none, cs "(&lhs.sym)"⟩
    | .value =>
      if v.lhsType != [] ∧ !raw then
        .ok ⟨some (-2, cs "nn, _ := lhs.value.(" ++ v.lhsType ++ cs ")\n"), cs "nn"⟩
      else .ok ⟨none, cs "lhs.value"⟩
    | .offset => .ok ⟨none, cs "lhs.sym.offset"⟩
    | .endoffset => .ok ⟨none, cs "lhs.sym.endoffset"⟩
  | .span index endIndex pos =>
    if index != endIndex ∧ prop != .offset ∧ prop != .endoffset then .error .span
    else
      match prop with
      | .sym => .ok ⟨none, cs "(&" ++ slotText v index ++ cs ".sym)"⟩
      | .value =>
        if index ≥ 0 ∧ typeOf v pos != [] then
          let varName := cs "nn" ++ showInt index
          .ok ⟨some (index, varName ++ cs ", _ := " ++ slotText v index ++ cs ".value.(" ++ typeOf v pos ++ cs ")\n"),
               varName⟩
        else .ok ⟨none, slotText v index ++ cs ".value"⟩
      | .offset => .ok ⟨none, slotText v index ++ cs ".sym.offset"⟩
      | .endoffset => .ok ⟨none, slotText v endIndex ++ cs ".sym.endoffset"⟩

def renderRef (v : Vars) (id : Str) (prop : Prp) : Except Err Piece := do
  let loc ← locate v id
  renderLoc v loc prop

/-! ### `goParserAction` -/

/-- the `for len(s) > 0` loop; every iteration consumes the `$`, so `fuel = len(s) + 1` suffices -/
def actionLoop (v : Vars) : Nat → Str → Str → Str → List Int → Except Err Str
  | 0, _, decls, sb, _ => .ok (decls ++ sb)
  | fuel + 1, s, decls, sb, seen =>
    let pre := s.takeWhile (· != 36)
    if pre.length == s.length then .ok (decls ++ sb ++ s)
    else
      let s1 := s.drop (pre.length + 1)
      if s1.isEmpty then .error .eos
      else
        match parseMeta s1 with
        | .error e => .error e
        | .ok (size, id, prop) =>
          match renderRef v id prop with
          | .error e => .error e
          | .ok piece =>
            let (decls', seen') :=
              match piece.decl with
              | some (k, d) => if seen.contains k then (decls, seen) else (decls ++ d, k :: seen)
              | none => (decls, seen)
            actionLoop v fuel (s1.drop size) decls' (sb ++ pre ++ piece.text) seen'

def action (v : Vars) (s : Str) : Except Err Str := actionLoop v (s.length + 1) s [] [] []

/-! ### `traverse`: building `Remap`, `SymRefCount` and extracting mid-rule commands -/

/-- one leaf of the expanded rule expression in traversal order -/
inductive Elem where
  | ref (pos : Nat)       -- syntax.Reference with its Pos (0: no position, e.g. lookahead nonterminals)
  | marker                -- syntax.StateMarker
  | cmd (maxPos : Nat)    -- syntax.Command with CmdArgs.MaxPos
  deriving Repr, DecidableEq

/-- symbols of `rule.RHS` that occupy a parser stack slot (state markers do not) -/
inductive RSym where
  | sym (pos : Nat)       -- a referenced symbol (pos = 0: without position)
  | mid (k : Nat)         -- the nullable nonterminal of the k-th extracted mid-rule command
  deriving Repr, DecidableEq

structure Mid where
  symRefCount : Nat       -- vars.SymRefCount: non-marker symbols of rule.RHS before the nonterminal
  maxPos : Nat
  deriving Repr, DecidableEq

structure TState where
  rhs : List RSym := []          -- rule.RHS without state markers
  markers : Nat := 0             -- state markers appended to rule.RHS
  numRefs : Nat := 0
  actualPos : List (Nat × Nat) := []
  pending : Option Nat := none   -- `command != ""` (with the MaxPos of its args)
  mids : List Mid := []
  deriving Repr

/-- `actualPos[pos] = n` -/
def mapSet (m : List (Nat × Nat)) (pos n : Nat) : List (Nat × Nat) :=
  (pos, n) :: m.filter (fun e => e.1 != pos)

/-- a pending mid-rule command is extracted into a nullable nonterminal placed before the next reference:
`vars.SymRefCount` counts the non-marker symbols of `rule.RHS` so far; `rule.RHS = append(rule.RHS, cmdNT); numRefs++` -/
def flush (st : TState) : TState :=
  match st.pending with
  | some mp =>
    { st with mids := st.mids ++ [⟨st.rhs.length, mp⟩],
              rhs := st.rhs ++ [.mid st.mids.length],
              numRefs := st.numRefs + 1,
              pending := none }
  | none => st

/-- `if expr.Pos > 0 { actualPos[expr.Pos] = numRefs }; rule.RHS = append(rule.RHS, sym); numRefs++` -/
def pushRef (st : TState) (pos : Nat) : TState :=
  { st with actualPos := if pos > 0 then mapSet st.actualPos pos st.numRefs else st.actualPos,
            rhs := st.rhs ++ [.sym pos],
            numRefs := st.numRefs + 1 }

def step (st : TState) : Elem → TState
  | .ref pos => pushRef (flush st) pos
  | .marker => { st with markers := st.markers + 1 }
  | .cmd mp => { st with pending := some mp }

def run : List Elem → TState → TState
  | [], st => st
  | e :: es, st => run es (step st e)

def build (es : List Elem) : TState := run es {}

/-- `act.Vars.SymRefCount` of the end-of-rule action -/
def TState.symRefCount (st : TState) : Nat := st.rhs.length

/-! ### evaluation of the generated expression on a concrete stack -/

structure Entry (α : Type) where
  value : α
  off : Int
  endoff : Int
  deriving Repr, DecidableEq

/-- `stack[len(stack)-k]` (`none`: out of range, the Go code would panic) -/
def stackAt {β : Type} (stack : List β) (k : Int) : Option β :=
  if k ≥ 1 ∧ k ≤ (stack.length : Int) then stack[stack.length - k.toNat]? else none

inductive Out (α : Type) where
  | nil | neg1
  | val (a : α)
  | num (n : Int)
  | sym (off endoff : Int)
  | oob
  deriving Repr, DecidableEq

def entryOut {α : Type} (e : Option (Entry α)) (f : Entry α → Out α) : Out α :=
  match e with
  | some e => f e
  | none => .oob

/-- what the text produced by `renderLoc` evaluates to inside `applyRule` (type assertions on values of
the declared type are the identity) -/
def evalLoc {α : Type} (v : Vars) (stack : List (Entry α)) (lhs : Entry α) (loc : Loc) (prop : Prp) :
    Except Err (Out α) :=
  match loc with
  | .absent => .ok (if prop == .value ∨ prop == .sym then .nil else .neg1)
  | .lhs _ =>
    .ok (match prop with
      | .sym => .sym lhs.off lhs.endoff
      | .value => .val lhs.value
      | .offset => .num lhs.off
      | .endoffset => .num lhs.endoff)
  | .span index endIndex _ =>
    if index != endIndex ∧ prop != .offset ∧ prop != .endoffset then .error .span
    else
      let e := stackAt stack ((v.symRefCount : Int) - index)
      let ee := stackAt stack ((v.symRefCount : Int) - endIndex)
      .ok (match prop with
        | .sym => entryOut e fun e => .sym e.off e.endoff
        | .value => entryOut e fun e => .val e.value
        | .offset => entryOut e fun e => .num e.off
        | .endoffset => entryOut ee fun e => .num e.endoff)

def evalRef {α : Type} (v : Vars) (stack : List (Entry α)) (lhs : Entry α) (id : Str) (prop : Prp) :
    Except Err (Out α) := do
  let loc ← locate v id
  evalLoc v stack lhs loc prop

end TmVerif.ActionRefs
