import TmVerif.Model.IntSet
import TmVerif.Model.Graph
/-!
Model of /repo/util/set/closure.go (Mode M: hand mirror), core Lean only.

  Closure.nodes                → `Sys` = list of `Node{op, edges, init}` (what `Add/Include/Intersect/Complement`
                                  build: `init` is the slice given to `Add`, nil for the other two constructors)
  Compute                      → `compute` = fold of the callback over `Graph.tarjanRun` (the verified mirror of
                                  `graph.Tarjan`: it yields, per strongly connected component, the component and the
                                  `onStack` bit set AS TARJAN PASSES IT; nothing at all below two nodes)
  closure(component, onStack)  → `closureCb` (`simpleClosure` when the component has no intersection node)
  slowClosure                  → `slowLoop` (`for { … if !dirty break }` with fuel `slowFuel`; running out of fuel
                                  sets `timeout` — proved impossible for systems the API can build,
                                  `C25_closure_terminates`; the driver would report it)
  c.err                        → `St.err` (indices of the offending complement nodes, in append order)
  c.intern, c.buf              → identity: values, not storage, are modelled.  The model is the algorithm with
                                  value semantics (what the Go code does for `NewClosure(0)`, where every `append`
                                  into `reuse[:0]` allocates); see the finding [C25-intersect-alias] for what
                                  storage reuse does when the buffer is large enough.
-/
namespace TmVerif.SetClosure
open TmVerif.IntSet TmVerif.Graph

inductive Op where
  | union | inter | compl
deriving DecidableEq, Repr, Inhabited

/-- one `*FutureSet` before `Compute` -/
structure Node where
  op : Op
  edges : List Nat
  init : List Int
deriving Repr, Inhabited

abbrev Sys := List Node

/-- `g = append(g, n.edges)` -/
def graphOf (sys : Sys) : Graph := sys.map (·.edges)

def opOf (sys : Sys) (v : Nat) : Op := (sys[v]?.map (·.op)).getD .union
def edgesOf (sys : Sys) (v : Nat) : List Nat := succs (graphOf sys) v
def initOf (sys : Sys) (v : Nat) : List Int := (sys[v]?.map (·.init)).getD []

/-- What the public API can build and `Add` documents: successors are nodes, `Add` got a sorted slice,
only `Add` nodes carry elements, a complement node has exactly one edge. -/
def wfB (sys : Sys) : Bool :=
  sys.all fun n =>
    n.edges.all (· < sys.length) && sortedB n.init
      && (n.op == .union || n.init.isEmpty) && (n.op != .compl || n.edges.length == 1)

/-- the mutable part of `Closure` during `Compute` -/
structure St where
  sets : List IntSet
  err : List Nat
  timeout : Bool
deriving Repr

/-- `c.nodes[v].IntSet` -/
def St.get (s : St) (v : Nat) : IntSet := s.sets[v]?.getD ⟨false, []⟩

/-! ### `closure`: components without intersection nodes -/

/-- body of `for _, w := range c.nodes[v].edges` -/
def simpleEdgeStep (s : St) (snap : List Nat) (v : Nat) (isC : Bool) (acc : IntSet × List Nat) (w : Nat) :
    IntSet × List Nat :=
  let set := if isC then (s.get w).complement else s.get w
  if isC && snap.contains w then (acc.1, acc.2 ++ [v])       -- `c.err = append(c.err, fs); continue`
  else if !snap.contains w then (acc.1.merge set, acc.2)
  else acc

/-- body of `for _, v := range component` -/
def simpleNodeStep (sys : Sys) (s : St) (snap : List Nat) (acc : IntSet × List Nat) (v : Nat) :
    IntSet × List Nat :=
  (edgesOf sys v).foldl (simpleEdgeStep s snap v (opOf sys v == .compl)) (acc.1.merge (s.get v), acc.2)

/-- `for _, v := range component { c.nodes[v].IntSet = res }` -/
def assignAll (sets : List IntSet) (comp : List Nat) (res : IntSet) : List IntSet :=
  comp.foldl (fun sets v => sets.set v res) sets

def simpleClosure (sys : Sys) (comp snap : List Nat) (s : St) : St :=
  let r := comp.foldl (simpleNodeStep sys s snap) (⟨false, []⟩, s.err)
  if r.2.length != 0 then { s with err := r.2 }               -- `if len(c.err) != 0 { return }`
  else { s with err := r.2, sets := assignAll s.sets comp r.1 }

/-! ### `slowClosure`: components with an intersection node -/

/-- `res = c.intern(res); if !res.Equals(fs.IntSet) { fs.IntSet = res; dirty = true }` -/
def slowUpd (s : St) (dirty : Bool) (v : Nat) (res : IntSet) : St × Bool :=
  if res = s.get v then (s, dirty) else ({ s with sets := s.sets.set v res }, true)

/-- body of `for _, v := range component` in `slowClosure` -/
def slowNode (sys : Sys) (snap : List Nat) (acc : St × Bool) (v : Nat) : St × Bool :=
  let s := acc.1
  match opOf sys v with
  | .inter => slowUpd s acc.2 v ((edgesOf sys v).foldl (fun r w => r.inter (s.get w)) ⟨true, []⟩)
  | .union => slowUpd s acc.2 v ((edgesOf sys v).foldl (fun r w => r.merge (s.get w)) (s.get v))
  | .compl =>
    match edgesOf sys v with
    | [w] =>
      if snap.contains w then ({ s with err := s.err ++ [v] }, acc.2)   -- `continue`
      else slowUpd s acc.2 v (s.get w).complement
    | _ => acc                                                -- `log.Fatal("broken invariant")`: excluded by `wfB`

def slowLoop (sys : Sys) (comp snap : List Nat) : Nat → St → St
  | 0, s => { s with timeout := true }
  | fuel + 1, s =>
    let r := comp.foldl (slowNode sys snap) (s, false)
    if r.2 then slowLoop sys comp snap fuel r.1 else r.1

/-- number of distinct elements mentioned anywhere is at most this -/
def mentioned (sys : Sys) : Nat := (sys.map (·.init.length)).sum

/-- every dirty pass makes at least one of the `|comp|` sets strictly larger inside the `mentioned + 1`
points that can tell two sets of the system apart (the mentioned elements and "everything else") -/
def slowFuel (sys : Sys) (comp : List Nat) : Nat := comp.length * (mentioned sys + 1) + 1

/-! ### `Compute` -/

/-- the callback `c.closure` -/
def closureCb (sys : Sys) (s : St) (c : List Nat × List Nat) : St :=
  if c.1.any (fun q => opOf sys q == .inter) then slowLoop sys c.1 c.2 (slowFuel sys c.1) s
  else simpleClosure sys c.1 c.2 s

/-- `Add` stores `IntSet{Set: set}` -/
def initSt (sys : Sys) : St := ⟨sys.map fun n => ⟨false, n.init⟩, [], false⟩

/-- `run` with the component sequence as an argument -/
def runOn (sys : Sys) (cs : List (List Nat × List Nat)) : St := cs.foldl (closureCb sys) (initSt sys)

/-- `Compute`: error iff `err` is non-empty; the sets are the `IntSet` fields afterwards -/
def compute (sys : Sys) : St := runOn sys (tarjanRun (graphOf sys))

end TmVerif.SetClosure
