/-
C07 soundness validator: `LRSound.certOk` for tables with deep-lookahead entries (LALR(k),
`lalr/trie.go`: an action cell `< -2` whose list entry is again `< -2` points to a nested
`(terminal, action)` list that the runtime walks with further tokens, `resolveDeepLA`).

`certOk` quantifies over `actOf t noDeep`, which is undefined on such cells, so it rejects every
table with a lookahead automaton. `certKOk` checks the same "past" certificate against EVERY
decision a lookahead automaton can produce (`allLeaves`: all leaves reachable from the pointer by
any token string), so that the soundness theorem `C07_lr_sound_k` holds for the runtime's real
decoding (`actOf t (deepLA …)`). On tables without deep entries it coincides with `certOk`.
-/
import TmVerif.Model.LRSound
namespace TmVerif.LRSoundK
open TmVerif.LR TmVerif.CFG TmVerif.LRSound

/-- the pointer handed to the deep lookahead for the cell `(s, a)`, if any -/
def cellPtr (t : Tables) (s a : Int) : Option Int :=
  if t.optimized then none
  else
    match geti t.action s with
    | none => none
    | some action =>
      if action < -2 then
        match lalrLookup t action a with
        | none => none
        | some x => if x < -2 then some x else none
      else none

/-- every decision reachable from `x` by any token string satisfies `P` (and every list on the way
is decodable) -/
def allLeaves (P : Int → Bool) (t : Tables) : Nat → Int → Bool
  | 0, _ => false
  | fuel + 1, x =>
    if x < -2 then
      (List.range t.nTerms).all fun a =>
        match lalrLookup t x a with
        | none => false
        | some y => allLeaves P t fuel y
    else P x

/-- depth bound for the walk over nested lists: they are finitely many -/
def leafFuel (t : Tables) : Nat := t.lalr.size + 2

/-- all actions of cell `(s, a)` are justified -/
def cellOk (g : Grammar) (t : Tables) (c : Cert) (s a : Nat) : Bool :=
  match cellPtr t s a with
  | none => actOk g t c s (some a, actOf t noDeep s a)
  | some x =>
    allLeaves (fun r => actOk g t c s (some a, actOf t (fun _ => some r) s a)) t (leafFuel t) x

def actsOk (g : Grammar) (t : Tables) (c : Cert) (s : Nat) : Bool :=
  match needsTok t s with
  | none => false
  | some false => actOk g t c s (none, actOf t noDeep s 0)
  | some true => (List.range t.nTerms).all fun a => cellOk g t c s a

/-- the shift of cell `(p, a)`, if the cell can shift (for a deep cell: if its lookahead automaton
answers "shift") -/
def shiftOf (t : Tables) (p a : Nat) : Option Act :=
  match cellPtr t p a with
  | none => actOf t noDeep p a
  | some _ => actOf t (fun _ => some (-1)) p a

def termEdges (t : Tables) (p : Nat) : List (Nat × Nat × Int) :=
  if needsTok t p == some true then
    (List.range t.nTerms).filterMap fun a =>
      match shiftOf t p a with
      | some (.shift q) => some (p, a, q)
      | _ => none
  else []

/-- all transitions `(p, X, q)` the runtime can take -/
def edges (t : Tables) : List (Nat × Nat × Int) :=
  (List.range t.nStates).flatMap fun p =>
    termEdges t p ++
    ((List.range (t.nSyms - t.nTerms)).filterMap fun k =>
      match gotoState t p (t.nTerms + k : Nat) with
      | some q => if q ≥ 0 then some (p, t.nTerms + k, q) else none
      | none => none)

def reachOk (t : Tables) (c : Cert) (i : Nat) : Bool :=
  (reachOf c i).contains i &&
  (edges t).all (fun (p, _, q) =>
    !(reachOf c i).contains p || decide (q < 0) || (reachOf c i).contains q.toNat)

def finalOk (g : Grammar) (t : Tables) (c : Cert) (i : Nat) : Bool :=
  match g.inputs[i]?, t.finalStates[i]? with
  | some inp, some f =>
    match gotoState t i inp.sym with
    | some l =>
      decide ((g.inputs.size : Int) ≤ l) && decide ((g.inputs.size : Int) ≤ f) &&
      reachOk t c i &&
      (edges t).all (fun (p, x, q) =>
        !(reachOf c i).contains p || q != l || (p == i && x == inp.sym)) &&
      (if inp.eoi then
        decide (f ≠ l) && (edges t).all (fun (p, x, q) =>
          !(reachOf c i).contains p || q != f || ((p : Int) == l && x == 0))
       else f == l)
    | none => false
  | _, _ => false

def certKOk (g : Grammar) (t : Tables) (c : Cert) : Bool :=
  g.wf && decide (t.nTerms = g.nTerms) && decide (t.nSyms = g.nSyms) &&
  decide (g.inputs.size ≤ t.nStates) && decide (t.finalStates.size = g.inputs.size) &&
  decide (c.past.size = t.nStates) &&
  ((List.range g.inputs.size).all fun i => pastOf c i == []) &&
  ((List.range t.nStates).all fun s =>
    actsOk g t c s &&
    ((termEdges t s).all fun (_, a, q) => edgeOk g.inputs.size t c s a q) &&
    ((List.range (t.nSyms - t.nTerms)).all fun k => gotoOk g.inputs.size t c s (t.nTerms + k))) &&
  ((List.range g.inputs.size).all fun i => finalOk g t c i)

/-! ### computing the certificate (untrusted) -/

def computePastK (g : Grammar) (t : Tables) : Cert :=
  let nIn := g.inputs.size
  let init : Array (Option (List Int)) :=
    (Array.range t.nStates).map fun s => if s < nIn then some [] else none
  let es := edges t
  let res := pastFuel t es nIn (t.nStates * 8 + 16) init
  { past := res.map fun o => o.getD [],
    reach := (Array.range nIn).map fun i => reachFuel es (t.nStates + 2) [i] }

/-- diagnostics: the first failing condition -/
def firstFailureK (g : Grammar) (t : Tables) (c : Cert) : String :=
  if !g.wf then "grammar not well-formed" else
  if t.nTerms ≠ g.nTerms ∨ t.nSyms ≠ g.nSyms then "symbol counts differ" else
  match (List.range t.nStates).find? (fun s => !actsOk g t c s) with
  | some s => s!"state {s}: an action (or a decision of its lookahead automaton) is not justified by the stack suffix {pastOf c s}"
  | none =>
    match (List.range t.nStates).find? (fun s =>
        !((termEdges t s).all fun (_, a, q) => edgeOk g.inputs.size t c s a q) ||
        !((List.range (t.nSyms - t.nTerms)).all fun k => gotoOk g.inputs.size t c s (t.nTerms + k))) with
    | some s => s!"state {s}: a transition is not justified"
    | none =>
      match (List.range g.inputs.size).find? (fun i => !finalOk g t c i) with
      | some i =>
        if !reachOk t c i then s!"input {i}: the reachable-state set of the certificate is not closed under the transitions"
        else s!"input {i}: the final state can be entered from a state other than the one after the start symbol [C01-shared-final-state]"
      | none => "certificate rejected"

end TmVerif.LRSoundK
