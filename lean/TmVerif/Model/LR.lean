/-
F3 — model of the table-driven parser runtime of `gen/templates/go_parser.go.tmpl`
(`parse`, `lalr`, `gotoState`, `fetchNext`, `resolveDeepLA`) for both table encodings of
`lalr.Tables` (`DefaultEnc`, `DisplacementEnc`). Mode M: hand mirror; tied to /repo by running
generated parsers on the same inputs (trace against trace).

Out-of-range slice accesses of the Go code are explicit `panic` outcomes here (every array read
is `Option`-valued).
-/
namespace TmVerif.LR

/-- `arr[i]` for a Go `int` index: `none` is the Go runtime panic. -/
def geti (a : Array Int) (i : Int) : Option Int :=
  if i < 0 then none else a[i.toNat]?

structure Tables where
  nTerms : Nat
  -- DefaultEnc
  action : Array Int
  lalr : Array Int
  goto_ : Array Int
  fromTo : Array Int
  -- common
  ruleLen : Array Int
  ruleSymbol : Array Int
  finalStates : Array Int
  -- DisplacementEnc (present iff `optimized`)
  optimized : Bool := false
  oDefGoto : Array Int := #[]
  oGoto : Array Int := #[]
  oDefAct : Array Int := #[]
  oAction : Array Int := #[]
  oBase : Int := 0
  oTable : Array Int := #[]
  oCheck : Array Int := #[]
deriving Repr, Inhabited

def Tables.nStates (t : Tables) : Nat := t.action.size
def Tables.nSyms (t : Tables) : Nat := t.goto_.size - 1

/-! ### DefaultEnc decoding -/

/-- linear scan of `gotoState`: `for i := min; i < max; i += 2`. -/
def gotoLinear (ft : Array Int) (state : Int) : Nat → Int → Int → Option Int
  | 0, _, _ => some (-1)
  | fuel + 1, i, max =>
    if i < max then
      match geti ft i with
      | none => none
      | some f =>
        if f = state then geti ft (i + 1)
        else gotoLinear ft state fuel (i + 2) max
    else some (-1)

/-- binary search of `gotoState`: `e := (min + max) >> 1 &^ 1`. -/
def gotoBinary (ft : Array Int) (state : Int) : Nat → Int → Int → Option Int
  | 0, _, _ => some (-1)
  | fuel + 1, min, max =>
    if min < max then
      let h := (min + max) / 2
      let e := h - h % 2
      match geti ft e with
      | none => none
      | some f =>
        if f = state then geti ft (e + 1)
        else if f < state then gotoBinary ft state fuel (e + 2) max
        else gotoBinary ft state fuel min e
    else some (-1)

/-- `gotoState(state, symbol)` of the default encoding; `some (-1)` = no transition. -/
def gotoDefault (t : Tables) (state sym : Int) : Option Int := do
  let min ← geti t.goto_ sym
  let max ← geti t.goto_ (sym + 1)
  if max - min < 32 then gotoLinear t.fromTo state t.fromTo.size min max
  else gotoBinary t.fromTo state t.fromTo.size min max

/-- `lalr(action, next)`: scan the `(terminal, action)` list that starts at `-action-3`. -/
def lalrScan (l : Array Int) (next : Int) : Nat → Int → Option Int
  | 0, _ => none
  | fuel + 1, a =>
    match geti l a with
    | none => none
    | some term =>
      if term ≥ 0 ∧ term ≠ next then lalrScan l next fuel (a + 2)
      else geti l (a + 1)

def lalrLookup (t : Tables) (action next : Int) : Option Int :=
  lalrScan t.lalr next (t.lalr.size + 1) (-action - 3)

/-! ### DisplacementEnc decoding -/

def optLookup (t : Tables) (state : Int) (action next : Int) : Option Int := do
  let pos := action + next
  if pos ≥ 0 ∧ pos < t.oTable.size then
    let c ← geti t.oCheck pos
    if c = next then geti t.oTable pos else geti t.oDefAct state
  else geti t.oDefAct state

def gotoOpt (t : Tables) (state sym : Int) : Option Int := do
  let numTokens : Int := t.nTerms
  if sym ≥ numTokens then
    let g ← geti t.oGoto (sym - numTokens)
    let pos := g + state
    if pos ≥ 0 ∧ pos < t.oTable.size then
      let c ← geti t.oCheck pos
      if c = state then geti t.oTable pos else geti t.oDefGoto (sym - numTokens)
    else geti t.oDefGoto (sym - numTokens)
  else
    let action ← geti t.oAction state
    if action = t.oBase then some (-1)
    else
      let a ← optLookup t state action sym
      if a < -1 then some (-2 - a) else some (-1)

def gotoState (t : Tables) (state sym : Int) : Option Int :=
  if t.optimized then gotoOpt t state sym else gotoDefault t state sym

/-! ### The parse loop -/

structure Tok where
  sym : Int
  off : Nat
  endo : Nat
deriving Repr, DecidableEq, Inhabited

structure Entry where
  sym : Int
  off : Nat
  endo : Nat
  state : Int
deriving Repr, DecidableEq, Inhabited

inductive Ev where
  | shift (sym : Int) (off endo : Nat)
  | reduce (rule : Int) (off endo : Nat)
deriving Repr, DecidableEq, Inhabited

inductive Result where
  | accept
  | syntaxError (off endo : Nat)
  | panic
  | fuel
deriving Repr, DecidableEq, Inhabited

/-- Token source: the tokens of the text followed by EOI (symbol 0 at `endOff`) for ever. -/
structure Input where
  toks : Array Tok
  endOff : Nat
deriving Repr, Inhabited

def Input.tok (inp : Input) (pos : Nat) : Tok :=
  match inp.toks[pos]? with
  | some t => t
  | none => ⟨0, inp.endOff, inp.endOff⟩

structure Cfg where
  stack : List Entry        -- top of the stack first; never empty
  state : Int
  pos : Nat                 -- tokens fetched from the lexer so far
  next : Option Tok         -- `p.next` (`none` = `noToken`)
  evs : List Ev             -- most recent first
deriving Repr, Inhabited

/-- `p.fetchNext` when `p.next.symbol == noToken`. -/
def Cfg.fetch (inp : Input) (c : Cfg) : Cfg × Tok :=
  match c.next with
  | some t => (c, t)
  | none =>
    let t := inp.tok c.pos
    ({ c with next := some t, pos := c.pos + 1 }, t)

/-- `resolveDeepLA`: read further tokens from a copy of the lexer while the action is a pointer. -/
def deepLA (t : Tables) (inp : Input) : Nat → Nat → Int → Option Int
  | 0, _, _ => none
  | fuel + 1, pos, action =>
    if action < -2 then
      match lalrLookup t action (inp.tok pos).sym with
      | none => none
      | some a => deepLA t inp fuel (pos + 1) a
    else some action

inductive Step where
  | cont (c : Cfg)
  | done (r : Result) (c : Cfg)

/-- Decoded action in `state`: the rule to reduce (≥ 0), `shiftTo q`, or error.
The default encoding distinguishes "shift" (target found by `gotoState` on the token) and the
optimized one encodes the target; both are normalised here to the target state. -/
inductive Act where
  | reduce (rule : Int)
  | shift (target : Int)
  | error
deriving Repr, DecidableEq, Inhabited

/-- Does the state consult the next token before acting? (`action < -2` or a shift state in the
default encoding; `action > tmActionBase` in the optimized one.) -/
def needsTok (t : Tables) (s : Int) : Option Bool :=
  if t.optimized then (geti t.oAction s).map fun a => decide (a > t.oBase)
  else (geti t.action s).map fun a => decide (a < -2 ∨ a = -1)

/-- normalise a raw table value of the optimized encoding -/
def actOfOptValue (a : Int) : Act :=
  if a ≥ 0 then .reduce a else if a < -1 then .shift (-2 - a) else .error

/-- The action in state `s` when the next token is `a` (`a` is ignored by states that do not
consult the token). `deep` resolves a pointer into a nested lookahead list (LALR(k)). -/
def actOf (t : Tables) (deep : Int → Option Int) (s a : Int) : Option Act :=
  if t.optimized then
    match geti t.oAction s with
    | none => none
    | some action =>
      if action > t.oBase then (optLookup t s action a).map actOfOptValue
      else (geti t.oDefAct s).map actOfOptValue
  else
    match geti t.action s with
    | none => none
    | some action =>
      let r : Option Int :=
        if action < -2 then
          match lalrLookup t action a with
          | none => none
          | some x => if x < -2 then deep x else some x
        else some action
      match r with
      | none => none
      | some x =>
        if x ≥ 0 then some (.reduce x)
        else if x = -1 then
          match gotoDefault t s a with
          | none => none
          | some q => if q ≥ 0 then some (.shift q) else some .error
        else some .error

/-- The action chosen in the state of `c`, fetching the lookahead token when the state needs one
(first half of the loop body). `none` = a Go runtime panic (index out of range). -/
def decode (t : Tables) (inp : Input) (c : Cfg) : Option (Cfg × Act) :=
  match needsTok t c.state with
  | none => none
  | some true =>
    let (c1, tk) := c.fetch inp
    (actOf t (deepLA t inp (inp.toks.size + 2) c1.pos) c.state tk.sym).map fun a => (c1, a)
  | some false =>
    (actOf t (fun _ => none) c.state 0).map fun a => (c, a)

/-- Second half of the loop body: perform the decoded action. -/
def apply (t : Tables) (inp : Input) (c1 : Cfg) : Act → Step
  | .reduce rule =>
    match geti t.ruleLen rule, geti t.ruleSymbol rule with
    | some ln, some lhs =>
      let ln := ln.toNat
      if ln > c1.stack.length then .done .panic c1   -- `stack[len(stack)-ln:]` out of range
      else
        let rhs := c1.stack.take ln             -- top first: rhs.head is the LAST rhs symbol
        let (c2, off, endo) : Cfg × Nat × Nat :=
          if ln = 0 then
            let (c2, tk) := c1.fetch inp
            (c2, tk.off, tk.off)
          else
            (c1, (rhs.getLast?.map (·.off)).getD 0, (rhs.head?.map (·.endo)).getD 0)
        let rest := c2.stack.drop ln
        match rest with
        | [] => .done .panic c2                  -- `stack[len(stack)-1]` on an empty stack
        | top :: _ =>
          match gotoState t top.state lhs with
          | none => .done .panic c2
          | some q =>
            let c3 := { c2 with stack := ⟨lhs, off, endo, q⟩ :: rest, state := q,
                                evs := .reduce rule off endo :: c2.evs }
            if q = -1 then .done (.syntaxError 0 0) c3 else .cont c3
    | _, _ => .done .panic c1
  | .shift q =>
    match c1.next with
    | none => .done .panic c1
    | some tk =>
      let c2 := { c1 with stack := ⟨tk.sym, tk.off, tk.endo, q⟩ :: c1.stack, state := q,
                          evs := .shift tk.sym tk.off tk.endo :: c1.evs,
                          next := if tk.sym ≠ 0 then none else c1.next }
      .cont c2
  | .error => .done (.syntaxError 0 0) c1

/-- One iteration of `for state != end { … }` (the caller checks `state != end`). -/
def step (t : Tables) (inp : Input) (c : Cfg) : Step :=
  match decode t inp c with
  | none => .done .panic c
  | some (c1, a) => apply t inp c1 a

/-- After the loop broke on an error: fetch the next token if needed; its range is the error's. -/
def errorAt (inp : Input) (c : Cfg) : Result × Cfg :=
  let (c1, tk) := c.fetch inp
  (.syntaxError tk.off tk.endo, c1)

/-- `parse(start, end, lexer)`. -/
def runLoop (t : Tables) (inp : Input) (fin : Int) : Nat → Cfg → Result × Cfg
  | 0, c => (.fuel, c)
  | fuel + 1, c =>
    if c.state = fin then (.accept, c)
    else
      match step t inp c with
      | .cont c' => runLoop t inp fin fuel c'
      | .done (.syntaxError _ _) c' => errorAt inp c'
      | .done r c' => (r, c')

def initCfg (inp : Input) (start : Int) : Cfg :=
  -- `p.fetchNext(lexer, stack)` is called before the loop
  { stack := [⟨0, 0, 0, start⟩], state := start, pos := 1, next := some (inp.tok 0), evs := [] }

def run (t : Tables) (inp : Input) (input : Nat) (fuel : Nat) : Result × Cfg :=
  match t.finalStates[input]? with
  | none => (.panic, initCfg inp input)
  | some fin => runLoop t inp fin fuel (initCfg inp input)

end TmVerif.LR
