/-
C01 soundness validator (Jourdan–Pottier–Leroy style "past" certificates, DESIGN.md Appendix A).

`past s` is a known prefix of the stack's symbols (top first) whenever the parser is in state `s`.
It is computed from the tables alone (`computePast`, untrusted) and then CHECKED (`certOk`,
declarative, all quantifiers are finite ranges). `certOk g t cert = true` is the hypothesis of the
soundness theorem `C01_lr_sound` (Props/C01.lean): whatever the runtime model accepts is a sentence.

The conditions quantify over the SAME decoding functions the runtime model uses (`needsTok`,
`actOf`, `gotoState`), so no reasoning about the table layout (binary search, displacement
packing) is needed.
-/
import TmVerif.Model.LR
import TmVerif.Model.CFG
namespace TmVerif.LRSound
open TmVerif.LR TmVerif.CFG

structure Cert where
  past : Array (List Int)
  /-- per input `i`: a set of states containing `i` and closed under `edges` (an
  over-approximation of the states that can occur on the stack of a parse started in `i`) -/
  reach : Array (List Nat)
deriving Repr, Inhabited

def pastOf (c : Cert) (s : Int) : List Int :=
  if s < 0 then [] else c.past.getD s.toNat []

def reachOf (c : Cert) (i : Nat) : List Nat := c.reach.getD i []

def noDeep : Int → Option Int := fun _ => none

/-- every (terminal, action) the state `s` can take; `none` terminal = the state does not consult
the token. -/
def stateActs (t : Tables) (s : Nat) : List (Option Nat × Option Act) :=
  match needsTok t s with
  | none => [(none, none)]
  | some false => [(none, actOf t noDeep s 0)]
  | some true => (List.range t.nTerms).map fun a => (some a, actOf t noDeep s a)

def ruleOk (g : Grammar) (t : Tables) (c : Cert) (s : Nat) (r : Int) : Bool :=
  decide (0 ≤ r) &&
  match g.rules[r.toNat]? with
  | none => false
  | some rule =>
    geti t.ruleLen r == some (rule.rhs.length : Int) &&
    geti t.ruleSymbol r == some (rule.lhs : Int) &&
    (rule.rhs.reverse.map Int.ofNat).isPrefixOf (pastOf c s)

def edgeOk (nIn : Nat) (t : Tables) (c : Cert) (s : Nat) (x : Int) (q : Int) : Bool :=
  decide ((nIn : Int) ≤ q) && decide (q < t.nStates) && (pastOf c q).isPrefixOf (x :: pastOf c s)

def actOk (g : Grammar) (t : Tables) (c : Cert) (s : Nat) : Option Nat × Option Act → Bool
  | (_, none) => false
  | (_, some .error) => true
  | (_, some (.reduce r)) => ruleOk g t c s r
  | (some a, some (.shift q)) => edgeOk g.inputs.size t c s a q
  | (none, some (.shift _)) => false

def gotoOk (nIn : Nat) (t : Tables) (c : Cert) (s x : Nat) : Bool :=
  match gotoState t s x with
  | none => false
  | some q => q == -1 || edgeOk nIn t c s x q

/-- all transitions `(p, X, q)` the runtime can take: terminal shifts and nonterminal gotos -/
def edges (t : Tables) : List (Nat × Nat × Int) :=
  (List.range t.nStates).flatMap fun p =>
    ((stateActs t p).filterMap fun
      | (some a, some (.shift q)) => some (p, a, q)
      | _ => none) ++
    ((List.range (t.nSyms - t.nTerms)).filterMap fun k =>
      match gotoState t p (t.nTerms + k : Nat) with
      | some q => if q ≥ 0 then some (p, t.nTerms + k, q) else none
      | none => none)

/-- `reachOf c i` contains the entry state `i` and is closed under the transitions -/
def reachOk (t : Tables) (c : Cert) (i : Nat) : Bool :=
  (reachOf c i).contains i &&
  (edges t).all (fun (p, _, q) =>
    !(reachOf c i).contains p || decide (q < 0) || (reachOf c i).contains q.toNat)

/-- acceptance: among the states reachable from the entry state `i`, the final state of input `i`
is entered only from the state after the start symbol (on EOI), which is entered only from the
entry state on the start symbol. (Relative to `reachOf c i`: minimized tables merge the dead
final states of several inputs into one state, which then has predecessors that belong to the
other inputs.) -/
def finalOk (g : Grammar) (t : Tables) (c : Cert) (i : Nat) : Bool :=
  match g.inputs[i]?, t.finalStates[i]? with
  | some inp, some f =>
    match gotoState t i inp.sym with
    | some l =>
      decide ((g.inputs.size : Int) ≤ l) && decide ((g.inputs.size : Int) ≤ f) &&
      reachOk t c i &&
      (edges t).all (fun (p, x, q) =>
        !(reachOf c i).contains p || q != l || (p == i && x == inp.sym)) &&
      (if inp.eoi then
        decide (f ≠ l) && (edges t).all (fun (p, x, q) =>
          !(reachOf c i).contains p || q != f || ((p : Int) == l && x == 0))
       else f == l)
    | none => false
  | _, _ => false

def certOk (g : Grammar) (t : Tables) (c : Cert) : Bool :=
  g.wf && decide (t.nTerms = g.nTerms) && decide (t.nSyms = g.nSyms) &&
  decide (g.inputs.size ≤ t.nStates) && decide (t.finalStates.size = g.inputs.size) &&
  decide (c.past.size = t.nStates) &&
  ((List.range g.inputs.size).all fun i => pastOf c i == []) &&
  ((List.range t.nStates).all fun s =>
    ((stateActs t s).all (actOk g t c s)) &&
    ((List.range (t.nSyms - t.nTerms)).all fun k => gotoOk g.inputs.size t c s (t.nTerms + k))) &&
  ((List.range g.inputs.size).all fun i => finalOk g t c i)

/-! ### computing the certificate (untrusted) -/

def commonPrefix : List Int → List Int → List Int
  | a :: as, b :: bs => if a = b then a :: commonPrefix as bs else []
  | _, _ => []

/-- one relaxation round over all edges: `past q := commonPrefix (past q) (x :: past p)` -/
def pastRound (t : Tables) (es : List (Nat × Nat × Int)) (nIn : Nat)
    (past : Array (Option (List Int))) : Array (Option (List Int)) :=
  let _ := t
  es.foldl (fun acc (p, x, q) =>
    match acc.getD p none with
    | none => acc
    | some pp =>
      if q < 0 ∨ q.toNat < nIn then acc else
      let cand := (x : Int) :: pp
      match acc.getD q.toNat none with
      | none => acc.set! q.toNat (some cand)
      | some old => acc.set! q.toNat (some (commonPrefix old cand))) past

def pastFuel (t : Tables) (es : List (Nat × Nat × Int)) (nIn : Nat) :
    Nat → Array (Option (List Int)) → Array (Option (List Int))
  | 0, p => p
  | n + 1, p =>
    let p' := pastRound t es nIn p
    if p' == p then p else pastFuel t es nIn n p'

/-- one BFS round over all edges: add the targets of edges whose source is already in the set -/
def reachRound (es : List (Nat × Nat × Int)) (r : List Nat) : List Nat :=
  es.foldl (fun acc (p, _, q) =>
    if acc.contains p && decide (0 ≤ q) && !acc.contains q.toNat then q.toNat :: acc else acc) r

def reachFuel (es : List (Nat × Nat × Int)) : Nat → List Nat → List Nat
  | 0, r => r
  | n + 1, r =>
    let r' := reachRound es r
    if r'.length == r.length then r else reachFuel es n r'

def computePast (g : Grammar) (t : Tables) : Cert :=
  let nIn := g.inputs.size
  let init : Array (Option (List Int)) := (Array.range t.nStates).map fun s => if s < nIn then some [] else none
  let es := edges t
  let res := pastFuel t es nIn (t.nStates * 8 + 16) init
  { past := res.map fun o => o.getD [],
    reach := (Array.range nIn).map fun i => reachFuel es (t.nStates + 2) [i] }

/-- diagnostics: the first failing condition -/
def firstFailure (g : Grammar) (t : Tables) (c : Cert) : String :=
  if !g.wf then "grammar not well-formed" else
  if t.nTerms ≠ g.nTerms ∨ t.nSyms ≠ g.nSyms then "symbol counts differ" else
  match (List.range t.nStates).findSome? (fun s =>
      match (stateActs t s).find? (fun a => !actOk g t c s a) with
      | some (a, act) => some s!"state {s} terminal {repr a}: action {repr act} is not justified by the stack suffix {pastOf c s}"
      | none =>
        match (List.range (t.nSyms - t.nTerms)).find? (fun k => !gotoOk g.inputs.size t c s (t.nTerms + k)) with
        | some k => some s!"state {s} nonterminal {t.nTerms + k}: goto {repr (gotoState t s (t.nTerms + k : Nat))} not justified"
        | none => none) with
  | some m => m
  | none =>
    match (List.range g.inputs.size).find? (fun i => !finalOk g t c i) with
    | some i =>
      if !reachOk t c i then s!"input {i}: the reachable-state set of the certificate is not closed under the transitions"
      else s!"input {i}: the final state can be entered from a state other than the one after the start symbol [C01-shared-final-state]"
    | none => "certificate rejected"

end TmVerif.LRSound
