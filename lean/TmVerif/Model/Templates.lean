/-
C14 — templated grammars (`syntax.Model` with `Params`, `Args`, `Conditional` predicates), their
denotational semantics, and executable mirrors of

  compiler/syntax.go   resolveRef (argument part), sortArgs          → `resolveRef`, `resolveAll`
  syntax/templates.go  PropagateLookaheads                            → `propagate`
  syntax/templates.go  instance.resolve, check, resolveInstance,
                       doExpr (flat alternatives), Instantiate         → `resolveArg`, `check`, `collect`, `rulesOf`, `instantiate`

Values are the strings of the Go code coded as numbers: 0 = "false", 1 = "true", ≥ 2 = any other
literal a predicate may compare with (`[A == "x"]`).

The grammars are FLAT: a nonterminal is a list of alternatives, each with an optional predicate
and a sequence of symbol references (nested choices, optionals and lists belong to C13).
-/
import TmVerif.Model.CFG
namespace TmVerif.Templates
open TmVerif.CFG

abbrev Val := Nat
abbrev Env := Nat → Val

/-- `syntax.Param`; `name` is an identifier code (inline parameters of different nonterminals may
share a name, which is what argument propagation by name looks at). -/
structure Param where
  name : Nat
  dflt : Option Val := none
  la : Bool := false
deriving Repr, DecidableEq, Inhabited

/-- `syntax.Predicate` (Op = Equals / Not / And / Or). -/
inductive Pred where
  | eq (p : Nat) (v : Val)
  | not (a : Pred)
  | and (l : List Pred)
  | or (l : List Pred)
deriving Repr, Inhabited

inductive ArgV where
  | value (v : Val)
  | takeFrom (p : Nat)
deriving Repr, DecidableEq, Inhabited

/-- `syntax.Arg` -/
structure Arg where
  param : Nat
  v : ArgV
deriving Repr, DecidableEq, Inhabited

inductive Sym where
  | t (a : Nat)
  | n (nt : Nat) (args : List Arg)
deriving Repr, DecidableEq, Inhabited

structure Alt where
  pred : Option Pred
  rhs : List Sym
deriving Repr, Inhabited

structure Nonterm where
  params : List Nat
  alts : List Alt
deriving Repr, Inhabited

structure TGrammar where
  nTerms : Nat
  params : List Param
  nts : List Nonterm
  inputs : List (Nat × Bool)       -- nonterminal, eoi
deriving Repr, Inhabited

/-! ## Specification side -/

mutual
/-- Boolean semantics of predicates under an environment. -/
def Pred.eval (env : Env) : Pred → Bool
  | .eq p v => env p == v
  | .not a => !(a.eval env)
  | .and l => Pred.evalAll env l
  | .or l => Pred.evalAny env l
def Pred.evalAll (env : Env) : List Pred → Bool
  | [] => true
  | a :: l => a.eval env && Pred.evalAll env l
def Pred.evalAny (env : Env) : List Pred → Bool
  | [] => false
  | a :: l => a.eval env || Pred.evalAny env l
end

def Alt.enabled (env : Env) (a : Alt) : Bool :=
  match a.pred with
  | none => true
  | some p => p.eval env

def findArg (args : List Arg) (p : Nat) : Option ArgV :=
  (args.find? (fun a => a.param == p)).map (·.v)

def ArgV.get (env : Env) : ArgV → Val
  | .value v => v
  | .takeFrom q => env q

/-- What a parameter without an argument is bound to: caller, is the reference the first symbol of
its alternative, target, caller's environment, parameter. -/
abbrev Implicit := Nat → Bool → Nat → Env → Nat → Val

/-- The environment a referenced nonterminal is evaluated in. -/
def callEnv (imp : Implicit) (caller : Nat) (first : Bool) (target : Nat) (env : Env) (args : List Arg) : Env :=
  fun p => match findArg args p with
    | some a => a.get env
    | none => imp caller first target env p

mutual
/-- `Der imp g N env w`: template `N` derives the terminal string `w` under the parameter values
`env` — the least family of languages closed under the enabled alternatives. -/
inductive Der (imp : Implicit) (g : TGrammar) : Nat → Env → List Nat → Prop
  | alt (N : Nat) (env : Env) (nt : Nonterm) (a : Alt) (w : List Nat) :
      g.nts[N]? = some nt → a ∈ nt.alts → a.enabled env = true →
      DerSeq imp g N env true a.rhs w → Der imp g N env w
inductive DerSeq (imp : Implicit) (g : TGrammar) : Nat → Env → Bool → List Sym → List Nat → Prop
  | nil (N : Nat) (env : Env) (first : Bool) : DerSeq imp g N env first [] []
  | t (N : Nat) (env : Env) (first : Bool) (a : Nat) (rest : List Sym) (v : List Nat) :
      a < g.nTerms → DerSeq imp g N env false rest v → DerSeq imp g N env first (.t a :: rest) (a :: v)
  | n (N : Nat) (env : Env) (first : Bool) (m : Nat) (args : List Arg) (rest : List Sym) (u v : List Nat) :
      Der imp g m (callEnv imp N first m env args) u → DerSeq imp g N env false rest v →
      DerSeq imp g N env first (.n m args :: rest) (u ++ v)
end

def TGrammar.isLA (g : TGrammar) (p : Nat) : Bool :=
  match g.params[p]? with
  | some q => q.la
  | none => false

def TGrammar.pname (g : TGrammar) (p : Nat) : Option Nat := (g.params[p]?).map (·.name)

def TGrammar.dflt (g : TGrammar) (p : Nat) : Option Val := (g.params[p]?).bind (·.dflt)

def TGrammar.ntParams (g : TGrammar) (n : Nat) : List Nat :=
  match g.nts[n]? with
  | some nt => nt.params
  | none => []

/-- After `PropagateLookaheads` every parameter of a referenced nonterminal has an argument. -/
def noImp : Implicit := fun _ _ _ _ _ => 0

/-- Lookahead flags before propagation: a flag without an argument keeps the caller's value when the
reference starts its alternative and is `false` otherwise. -/
def laImp (g : TGrammar) : Implicit := fun _ first _ env p =>
  if first && g.isLA p then env p else 0

/-- Source level (what the grammar author writes): a declared parameter of the target without an
argument takes the value of the caller's parameter of the same name, otherwise its default;
lookahead flags as in `laImp`. -/
def srcImp (g : TGrammar) : Implicit := fun caller first target env p =>
  if g.isLA p then (if first then env p else 0)
  else if (g.ntParams target).contains p then
    match (g.ntParams caller).find? (fun q => g.pname q == g.pname p) with
    | some q => env q
    | none => (g.dflt p).getD 0
  else 0

/-- All parameters unset / `false`: the environment of an input. -/
def env0 : Env := fun _ => 0

/-! ## compiler/syntax.go: arguments of a reference -/

def insertBy (key : Arg → Nat) (a : Arg) : List Arg → List Arg
  | [] => [a]
  | b :: l => if key a < key b then a :: b :: l else b :: insertBy key a l

/-- keys are distinct where it matters (each parameter has at most one argument) -/
def sortBy (key : Arg → Nat) (l : List Arg) : List Arg := l.foldl (fun acc a => insertBy key a acc) []

/-- `sortArgs`: declared parameters of the target in declaration order, then the others by index. -/
def sortArgs (tparams : List Nat) (args : List Arg) : List Arg :=
  if args.length < 2 then args
  else sortBy (fun a => match tparams.idxOf? a.param with
    | some i => i
    | none => tparams.length + a.param) args

def nodupNat : List Nat → Bool
  | [] => true
  | a :: l => !l.contains a && nodupNat l

/-- `resolveRef`, the part after the symbol is found: validates the explicit arguments, adds the
missing ones (same-named parameter of the caller, else the default, else an error), sorts. -/
def resolveRef (g : TGrammar) (caller target : Nonterm) (explicit : List Arg) : Option (List Arg) :=
  if !(explicit.all fun a => (target.params.contains a.param || g.isLA a.param) &&
        (match a.v with
         | .value _ => true
         | .takeFrom q => caller.params.contains q || g.isLA q)) then none
  else if !nodupNat (explicit.map (·.param)) then none
  else do
    let missing := target.params.filter fun p => !(explicit.any fun a => a.param == p)
    let filled ← missing.mapM fun p =>
      match caller.params.find? (fun q => g.pname q == g.pname p) with
      | some q => some (Arg.mk p (.takeFrom q))
      | none => match g.dflt p with
        | some v => some (Arg.mk p (.value v))
        | none => none
    pure (sortArgs target.params (explicit ++ filled))

mutual
def Pred.params : Pred → List Nat
  | .eq p _ => [p]
  | .not a => a.params
  | .and l => Pred.paramsL l
  | .or l => Pred.paramsL l
def Pred.paramsL : List Pred → List Nat
  | [] => []
  | a :: l => a.params ++ Pred.paramsL l
end

def resolveSym (g : TGrammar) (caller : Nonterm) : Sym → Option Sym
  | .t a => if 0 < a && a < g.nTerms then some (.t a) else none
  | .n m args => do
    let target ← g.nts[m]?
    let args' ← resolveRef g caller target args
    pure (.n m args')

def resolveAlt (g : TGrammar) (caller : Nonterm) (a : Alt) : Option Alt := do
  let okPred := match a.pred with
    | none => true
    | some p => p.params.all fun q => caller.params.contains q || g.isLA q
  if !okPred then none
  let rhs ← a.rhs.mapM (resolveSym g caller)
  pure { a with rhs := rhs }

def resolveNt (g : TGrammar) (nt : Nonterm) : Option Nonterm := do
  if !(nt.params.all fun p => p < g.params.length && !g.isLA p) || !nodupNat nt.params then none
  let alts ← nt.alts.mapM (resolveAlt g nt)
  pure { nt with alts := alts }

/-- The loader (`syntaxLoader.load`) as far as templates go: `none` = a reported error. -/
def resolveAll (g : TGrammar) : Option TGrammar := do
  if g.inputs.isEmpty then none
  if !(g.inputs.all fun i => match g.nts[i.1]? with
      | some nt => nt.params.isEmpty
      | none => false) then none
  let nts ← g.nts.mapM (resolveNt g)
  pure { g with nts := nts }

/-! ## syntax/templates.go: PropagateLookaheads -/

def containsArg (args : List Arg) (p : Nat) : Bool := args.any fun a => a.param == p

/-- the nonterminal reference an alternative starts with (`entryPoints`) -/
def Alt.entry (a : Alt) : Option (Nat × List Arg) :=
  match a.rhs with
  | .n m args :: _ => some (m, args)
  | _ => none

/-- `usedLA` -/
def usedLA (g : TGrammar) (nt : Nonterm) : List Nat :=
  nt.alts.flatMap fun a =>
    ((match a.pred with
      | none => []
      | some p => p.params).filter g.isLA) ++
    a.rhs.flatMap fun s => match s with
      | .t _ => []
      | .n _ args => args.filterMap fun x => match x.v with
        | .takeFrom q => if g.isLA q then some q else none
        | .value _ => none

def unionNat (a b : List Nat) : List Nat := a ++ b.filter fun x => !a.contains x

/-- Two observed defects of `PropagateLookaheads` that the mirror reproduces while they are present in the real
code (the harness probes both on fixed witnesses and passes the result with every case):
`alias` — `requiredFlags` aliases the reuse buffer; `short` — `entryPoints` stops at the first empty alternative. -/
structure Quirks where
  alias : Bool
  short : Bool
deriving Repr, DecidableEq, Inhabited

/-- The alternatives `entryPoints` actually scans: the loop over a `Choice` is `ret = ret && entryPoints(c)`,
so nothing after the first alternative that is not "compatible" (here: an empty one) is visited.
`full = true` scans all of them (used for the witness of the propagation certificate). -/
def Nonterm.scanned (full : Bool) (nt : Nonterm) : List Alt :=
  if full then nt.alts else nt.alts.takeWhile fun a => !a.rhs.isEmpty

/-- one round of the set equations of step 1 -/
def flagsStep (g : TGrammar) (full : Bool) (req : List (List Nat)) (cur : List (List Nat)) : List (List Nat) :=
  (g.nts.zip (req.zip cur)).map fun (nt, r, c) =>
    (nt.scanned full).foldl (fun acc a =>
      match a.entry with
      | none => acc
      | some (m, args) =>
        let sub := (cur[m]?).getD []
        let explicitLA := (args.filter fun x => g.isLA x.param).map (·.param)
        unionNat acc (sub.filter fun p => !explicitLA.contains p)) (unionNat r c)

def flagsIter (g : TGrammar) (full : Bool) (req : List (List Nat)) : Nat → List (List Nat) → List (List Nat)
  | 0, cur => cur
  | fuel + 1, cur =>
    let nxt := flagsStep g full req cur
    if nxt.map List.length == cur.map List.length then cur else flagsIter g full req fuel nxt

/-- the lookahead flags each nonterminal can accept (least solution of the equations of step 1) -/
def laFlags (q : Quirks) (g : TGrammar) : List (List Nat) :=
  let req := g.nts.map (usedLA g)
  flagsIter g (!q.short) req (g.nts.length * g.params.length + 2) req

/-- the same closure over ALL alternatives: where a flag can flow to a user through first symbols; the
witness handed to the propagation certificate -/
def laFlowFlags (g : TGrammar) : List (List Nat) :=
  let req := g.nts.map (usedLA g)
  flagsIter g true req (g.nts.length * g.params.length + 2) req

/-- `BitSet.Slice(reuse)` writes its result over the start of the shared buffer -/
def writeBuf (buf l : List Nat) : List Nat := l ++ buf.drop l.length

def sortNat (l : List Nat) : List Nat :=
  l.foldl (fun acc a =>
    let rec ins : List Nat → List Nat
      | [] => [a]
      | b :: l => if a < b then a :: b :: l else b :: ins l
    ins acc) []

/-- the lookahead flags used by each nonterminal, increasing (`used.Slice`) -/
def requiredFlags (g : TGrammar) : List (List Nat) := g.nts.map fun nt => (sortNat (usedLA g nt)).eraseDups

/-- What step 3 of `PropagateLookaheads` actually reads: every `requiredFlags` slice aliases the same
buffer, so it sees what the LAST writers left there (the later nonterminals' flags and the argument masks
of step 1), cut to its own length. -/
def requiredAliased (q : Quirks) (g : TGrammar) : List (List Nat) :=
  let req := requiredFlags g
  if !q.alias then req else
  let buf := req.foldl writeBuf (List.replicate g.params.length 0)
  let buf := g.nts.foldl (fun buf nt => (nt.scanned (!q.short)).foldl (fun buf a =>
    match a.entry with
    | none => buf
    | some (_, args) =>
      let explicitLA := (args.filter fun x => g.isLA x.param).map (·.param)
      if explicitLA.isEmpty then buf
      else writeBuf buf ((List.range g.params.length).filter fun p => !explicitLA.contains p)) buf) buf
  req.map fun r => buf.take r.length

structure PState where
  nts : List Nonterm
  seen : List (Nat × Nat)
  stack : List (Nat × Nat)      -- head = most recently enqueued
  numLA : List Nat
  err : Bool
deriving Inhabited

def PState.enqueue (s : PState) (t : Nat × Nat) : PState :=
  if s.seen.contains t then s else { s with seen := t :: s.seen, stack := t :: s.stack }

def modifyAt {α} (l : List α) (i : Nat) (f : α → α) : List α :=
  match l, i with
  | [], _ => []
  | a :: l, 0 => f a :: l
  | a :: l, i + 1 => a :: modifyAt l i f

/-- step 2, first pass (`rewriteArgs`): explicit lookahead arguments are the seeds; an argument for
a flag the target cannot accept is an error -/
def seedArgs (g : TGrammar) (flags : List (List Nat)) (s : PState) : PState :=
  g.nts.foldl (fun s nt =>
    nt.alts.foldl (fun s a =>
      a.rhs.foldl (fun s sym =>
        match sym with
        | .t _ => s
        | .n m args => args.foldl (fun s x =>
            if g.isLA x.param then
              if ((flags[m]?).getD []).contains x.param then s.enqueue (m, x.param)
              else { s with err := true }
            else s) s) s) s) s

/-- one iteration of the queue loop of step 2 -/
def propStep (compat : List Bool) (flags : List (List Nat)) (s : PState) (it : Nat × Nat) : PState :=
  let (n, p) := it
  let s := if (compat[n]?).getD true then s else { s with err := true }
  match s.nts[n]? with
  | none => s
  | some nt =>
    -- entry references, in order
    let (alts, s) := nt.alts.foldl (fun (acc : List Alt × PState) a =>
      let (out, s) := acc
      match a.rhs with
      | .n m args :: rest =>
        if !((flags[m]?).getD []).contains p || containsArg args p then (out ++ [a], s)
        else (out ++ [{ a with rhs := .n m (args ++ [⟨p, .takeFrom p⟩]) :: rest }], s.enqueue (m, p))
      | _ => (out ++ [a], s)) ([], s)
    { s with
      nts := modifyAt s.nts n fun _ => { params := nt.params ++ [p], alts := alts }
      numLA := modifyAt s.numLA n (· + 1) }

def propLoop (compat : List Bool) (flags : List (List Nat)) : Nat → PState → PState
  | 0, s => s
  | fuel + 1, s =>
    match s.stack with
    | [] => s
    | it :: rest => propLoop compat flags fuel (propStep compat flags { s with stack := rest } it)

/-- step 4 for the arguments of one reference to nonterminal `m` -/
def fixArgs (g : TGrammar) (nts : List Nonterm) (numLA : List Nat) (m : Nat) (args : List Arg) : List Arg :=
  let params := match nts[m]? with
    | some nt => nt.params
    | none => []
  let args := if args.length < params.length then
      params.foldl (fun args p => if g.isLA p && !containsArg args p then args ++ [⟨p, .value 0⟩] else args) args
    else args
  let k := (numLA[m]?).getD 0
  if k ≥ 2 then
    let head := args.take (args.length - k)
    let tail := args.drop (args.length - k)
    head ++ sortBy (·.param) tail
  else args

/-- `syntax.Check` after the propagation: inputs have no parameters, the arguments of every
reference are exactly the parameters of the target, in order. -/
def checkModel (g : TGrammar) : Bool :=
  (g.inputs.all fun i => match g.nts[i.1]? with
    | some nt => nt.params.isEmpty
    | none => false) &&
  g.nts.all fun nt => nt.alts.all fun a => a.rhs.all fun s => match s with
    | .t _ => true
    | .n m args => match g.nts[m]? with
      | some t => args.map (·.param) == t.params
      | none => false

def Sym.mapArgs (f : Nat → List Arg → List Arg) : Sym → Sym
  | .t a => .t a
  | .n m args => .n m (f m args)

def Alt.mapArgs (f : Nat → List Arg → List Arg) (a : Alt) : Alt := { a with rhs := a.rhs.map (Sym.mapArgs f) }

def Nonterm.mapArgs (f : Nat → List Arg → List Arg) (nt : Nonterm) : Nonterm :=
  { nt with alts := nt.alts.map (Alt.mapArgs f) }

/-- `syntax.Check` on the input model: lookahead arguments are skipped. -/
def checkModelLA (g : TGrammar) : Bool :=
  checkModel { g with nts := g.nts.map (Nonterm.mapArgs fun _ args => args.filter fun x => !g.isLA x.param) }

inductive Status where
  | ok | err | fatal
deriving Repr, DecidableEq, Inhabited

/-- `PropagateLookaheads`: `.err` = a reported error, `.fatal` = `checkOrDie` fails. -/
def propagate (q : Quirks) (g : TGrammar) : Status × TGrammar :=
  let flags := laFlags q g
  let compat := g.nts.map fun nt => nt.alts.all fun a => !a.rhs.isEmpty
  let s0 : PState := { nts := g.nts, seen := [], stack := [], numLA := g.nts.map fun _ => 0, err := false }
  let s := seedArgs g flags s0
  let s := propLoop compat flags (g.nts.length * g.params.length + 1) s
  -- step 3: every flag a nonterminal looks at must have been provided. `requiredFlags` of all nonterminals
  -- are slices of ONE reuse buffer (`used.Slice(reuse)`), which later calls overwrite: mirrored as is.
  let req := requiredAliased q g
  let missing := (req.zip s.nts).any fun (r, nt) => r.any fun p => !nt.params.contains p && (usedLA g nt).contains p
  -- step 4
  let nts1 := (s.nts.zip s.numLA).map fun (nt, k) =>
    if k ≥ 2 then { nt with params := nt.params.take (nt.params.length - k) ++ sortNat (nt.params.drop (nt.params.length - k)) } else nt
  let nts2 := nts1.map (Nonterm.mapArgs (fixArgs g nts1 s.numLA))
  -- step 5
  let g' := { g with nts := nts2, params := g.params.map fun p => { p with la := false } }
  if !checkModelLA g then (.fatal, g)
  else if s.err || missing then (.err, g')
  else if !checkModel g' then (.fatal, g')
  else (.ok, g')

/-! ## syntax/templates.go: Instantiate -/

abbrev Bound := List (Nat × Val)

structure Inst where
  nt : Nat
  args : Bound
deriving Repr, DecidableEq, Inhabited

def lookupB (b : Bound) (p : Nat) : Option Val := (b.find? (fun x => x.1 == p)).map (·.2)

def envOf (b : Bound) : Env := fun p => (lookupB b p).getD 0

/-- `instance.resolve`; `none` = `log.Fatal("grammar inconsistency on TakeFrom")` -/
def resolveArg (ctx : Bound) (a : Arg) : Option (Nat × Val) :=
  match a.v with
  | .value v => some (a.param, v)
  | .takeFrom q => (lookupB ctx q).map fun v => (a.param, v)

mutual
/-- `instantiator.check` with its early returns; `none` = fatal. -/
def check (ctx : Bound) : Pred → Option Bool
  | .eq p v => (lookupB ctx p).map (· == v)
  | .not a => (check ctx a).map (!·)
  | .and l => checkAnd ctx l
  | .or l => checkOr ctx l
def checkAnd (ctx : Bound) : List Pred → Option Bool
  | [] => some true
  | a :: l => match check ctx a with
    | none => none
    | some false => some false
    | some true => checkAnd ctx l
def checkOr (ctx : Bound) : List Pred → Option Bool
  | [] => some false
  | a :: l => match check ctx a with
    | none => none
    | some true => some true
    | some false => checkOr ctx l
end

def checkAlt (ctx : Bound) (a : Alt) : Option Bool :=
  match a.pred with
  | none => some true
  | some p => check ctx p

/-- the enabled alternatives of a nonterminal in a context -/
def enabledAlts (ctx : Bound) : List Alt → Option (List Alt)
  | [] => some []
  | a :: l => match checkAlt ctx a with
    | none => none
    | some true => (enabledAlts ctx l).map (a :: ·)
    | some false => enabledAlts ctx l

def resolveArgs (ctx : Bound) : List Arg → Option Bound
  | [] => some []
  | a :: l => match resolveArg ctx a, resolveArgs ctx l with
    | some x, some xs => some (x :: xs)
    | _, _ => none

def instKey (ctx : Bound) (m : Nat) (args : List Arg) : Option Inst :=
  (resolveArgs ctx args).map fun b => ⟨m, b⟩

def indexOf (k : Inst) : List Inst → Option Nat
  | [] => none
  | x :: l => if x = k then some 0 else (indexOf k l).map (· + 1)

/-- `resolveInstance`: look the instance up, allocate it when new. -/
def resolveInstance (insts : List Inst) (ctx : Bound) (m : Nat) (args : List Arg) : Option (List Inst) :=
  (instKey ctx m args).map fun k => if (indexOf k insts).isSome then insts else insts ++ [k]

/-- the instances `doExpr` asks for while converting the value of instance `it` -/
def visit (g : TGrammar) (insts : List Inst) (it : Inst) : Option (List Inst) := do
  let nt ← g.nts[it.nt]?
  let alts ← enabledAlts it.args nt.alts
  alts.foldlM (fun insts a =>
    a.rhs.foldlM (fun insts s => match s with
      | .t _ => some insts
      | .n m args => resolveInstance insts it.args m args) insts) insts

/-- the main loop of `Instantiate` -/
def collect (g : TGrammar) : Nat → Nat → List Inst → Option (List Inst)
  | 0, _, _ => none
  | fuel + 1, i, insts =>
    match insts[i]? with
    | none => some insts
    | some it => match visit g insts it with
      | none => none
      | some insts' => collect g fuel (i + 1) insts'

def symOf (g : TGrammar) (insts : List Inst) (ctx : Bound) : Sym → Option Nat
  | .t a => if a < g.nTerms then some a else none
  | .n m args => match instKey ctx m args with
    | none => none
    | some k => (indexOf k insts).map (g.nTerms + ·)

def symsOf (g : TGrammar) (insts : List Inst) (ctx : Bound) : List Sym → Option (List Nat)
  | [] => some []
  | s :: l => match symOf g insts ctx s, symsOf g insts ctx l with
    | some x, some xs => some (x :: xs)
    | _, _ => none

def altRules (g : TGrammar) (insts : List Inst) (i : Nat) (ctx : Bound) : List Alt → Option (List Rule)
  | [] => some []
  | a :: l => match symsOf g insts ctx a.rhs, altRules g insts i ctx l with
    | some rhs, some rs => some ({ lhs := g.nTerms + i, rhs := rhs } :: rs)
    | _, _ => none

/-- the rules of one instance; an instance without an enabled alternative becomes `Empty`, i.e.
gets ONE EMPTY RULE (`doExpr`: `ret.Kind = Empty`) -/
def instRules (g : TGrammar) (insts : List Inst) (i : Nat) (it : Inst) : Option (List Rule) :=
  match g.nts[it.nt]? with
  | none => none
  | some nt => match enabledAlts it.args nt.alts with
    | none => none
    | some [] => some [{ lhs := g.nTerms + i, rhs := [] }]
    | some (a :: alts) => altRules g insts i it.args (a :: alts)

def rulesFrom (g : TGrammar) (insts : List Inst) : Nat → List Inst → Option (List Rule)
  | _, [] => some []
  | i, it :: rest => match instRules g insts i it, rulesFrom g insts (i + 1) rest with
    | some a, some b => some (a ++ b)
    | _, _ => none

def rulesOf (g : TGrammar) (insts : List Inst) : Option (List Rule) := rulesFrom g insts 0 insts

def dedupInst : List Inst → List Inst → List Inst
  | acc, [] => acc
  | acc, k :: l => if (indexOf k acc).isSome then dedupInst acc l else dedupInst (acc ++ [k]) l

def inputInsts (g : TGrammar) : List Inst := dedupInst [] (g.inputs.map fun i => ⟨i.1, []⟩)

def plainInputs (g : TGrammar) (insts : List Inst) : List (Nat × Bool) → Option (List GInput)
  | [] => some []
  | i :: l => match indexOf ⟨i.1, []⟩ insts, plainInputs g insts l with
    | some j, some r => some ({ sym := g.nTerms + j, eoi := i.2 } :: r)
    | _, _ => none

def plain (g : TGrammar) (insts : List Inst) (rs : List Rule) (ins : List GInput) : Grammar :=
  { nTerms := g.nTerms, nSyms := g.nTerms + insts.length, rules := rs.toArray, inputs := ins.toArray }

/-- `Instantiate`: the instances in allocation order and the plain grammar (nonterminal
`nTerms + i` is instance `i`; the renaming `Rearrange` applies afterwards is not modelled). -/
def instantiate (g : TGrammar) (fuel : Nat) : Option (List Inst × Grammar) :=
  match collect g fuel 0 (inputInsts g) with
  | none => none
  | some insts => match rulesOf g insts, plainInputs g insts g.inputs with
    | some rs, some ins => some (insts, plain g insts rs ins)
    | _, _ => none

/-- An instance all of whose alternatives are disabled. -/
def deadInst (g : TGrammar) (it : Inst) : Bool :=
  match g.nts[it.nt]? with
  | none => false
  | some nt => match enabledAlts it.args nt.alts with
    | some [] => true
    | _ => false

/-! ## A certificate for `PropagateLookaheads` (decidable; evaluated on every case by the driver)

`propCertB g F g'`: `g'` is `g` with more parameters and more arguments such that the meaning is kept
when lookahead flags stop being implicit. `F` (the `flags` sets of step 1) is only a witness: it has to
contain the flags a nonterminal looks at and be closed under "the first symbol can accept the flag". -/

mutual
def Pred.beq : Pred → Pred → Bool
  | .eq p v, .eq p' v' => p == p' && v == v'
  | .not a, .not b => a.beq b
  | .and l, .and l' => Pred.beqL l l'
  | .or l, .or l' => Pred.beqL l l'
  | _, _ => false
def Pred.beqL : List Pred → List Pred → Bool
  | [], [] => true
  | a :: l, b :: l' => a.beq b && Pred.beqL l l'
  | _, _ => false
end

def optPredBeq : Option Pred → Option Pred → Bool
  | none, none => true
  | some a, some b => a.beq b
  | _, _ => false

/-- a parameter whose value matters inside a nonterminal with declared parameters `ntp` and flags `FN` -/
def relevantB (g : TGrammar) (ntp FN : List Nat) (q : Nat) : Bool := ntp.contains q || (g.isLA q && FN.contains q)

def refCertB (g : TGrammar) (FN FT ntp ntp' tp' : List Nat) (first : Bool) (args args' : List Arg) : Bool :=
  (args'.map (·.param) == tp') &&
  ((args.map (·.param) ++ args'.map (·.param)).all fun p =>
    match findArg args p, findArg args' p with
    | some x, some y => x == y && (match x with
        | .takeFrom q => relevantB g ntp FN q
        | .value _ => true)
    | none, some y => g.isLA p && ((first && y == .takeFrom p) || (y == .value 0 && (!first || !ntp'.contains p)))
    | some _, none => false
    | none, none => true) &&
  (!first || FT.all fun p => !g.isLA p || (args.map (·.param)).contains p ||
    (FN.contains p && (!ntp'.contains p || tp'.contains p)))

def Fof (F : List (List Nat)) (n : Nat) : List Nat := (F[n]?).getD []

def seqCertB (g : TGrammar) (F : List (List Nat)) (g' : TGrammar) (FN ntp ntp' : List Nat) :
    Bool → List Sym → List Sym → Bool
  | _, [], [] => true
  | _, .t a :: r, .t b :: r' => a == b && seqCertB g F g' FN ntp ntp' false r r'
  | first, .n k args :: r, .n k' args' :: r' =>
    k == k' && refCertB g FN (Fof F k) ntp ntp' (g'.ntParams k) first args args' &&
    seqCertB g F g' FN ntp ntp' false r r'
  | _, _, _ => false

def altCertB (g : TGrammar) (F : List (List Nat)) (g' : TGrammar) (FN ntp ntp' : List Nat) (a a' : Alt) : Bool :=
  optPredBeq a.pred a'.pred &&
  (match a.pred with
   | none => true
   | some p => p.params.all (relevantB g ntp FN)) &&
  seqCertB g F g' FN ntp ntp' true a.rhs a'.rhs

def altsCertB (g : TGrammar) (F : List (List Nat)) (g' : TGrammar) (FN ntp ntp' : List Nat) : List Alt → List Alt → Bool
  | [], [] => true
  | a :: l, a' :: l' => altCertB g F g' FN ntp ntp' a a' && altsCertB g F g' FN ntp ntp' l l'
  | _, _ => false

def paramsCertB (g : TGrammar) (FN : List Nat) (nt nt' : Nonterm) : Bool :=
  (nt.params.all fun p => !g.isLA p && nt'.params.contains p) &&
  (nt'.params.all fun p => nt.params.contains p || (g.isLA p && FN.contains p))

def ntCertB (g : TGrammar) (F : List (List Nat)) (g' : TGrammar) (N : Nat) (nt nt' : Nonterm) : Bool :=
  paramsCertB g (Fof F N) nt nt' && altsCertB g F g' (Fof F N) nt.params nt'.params nt.alts nt'.alts

def ntsCertB (g : TGrammar) (F : List (List Nat)) (g' : TGrammar) : Nat → List Nonterm → List Nonterm → Bool
  | _, [], [] => true
  | N, nt :: l, nt' :: l' => ntCertB g F g' N nt nt' && ntsCertB g F g' (N + 1) l l'
  | _, _, _ => false

def propCertB (g : TGrammar) (F : List (List Nat)) (g' : TGrammar) : Bool :=
  g'.nTerms == g.nTerms && ntsCertB g F g' 0 g.nts g'.nts

/-- the whole template pipeline of `compileParser`; the last component says whether the propagation
certificate holds (always expected for status `ok`) -/
def compile (q : Quirks) (src : TGrammar) (fuel : Nat) : Status × Option (List Inst × Grammar) × Bool :=
  match resolveAll src with
  | none => (.err, none, false)
  | some m =>
    match propagate q m with
    | (.ok, m') =>
      (match instantiate m' fuel with
       | some r => (.ok, some r, propCertB m (laFlowFlags m) m')
       | none => (.fatal, none, false))
    | (st, _) => (st, none, false)

end TmVerif.Templates
