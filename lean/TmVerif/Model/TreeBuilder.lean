/-
C20 — the stack-based tree builder fed by listener events.

Mirror of `builder.addNode` / `builder.build` of `gen/templates/go_ast_parse.go.tmpl`
(instantiated as `parsers/tm/ast/parse.go`, `parsers/js/ast/parse.go`):

```go
func (b *builder) addNode(t NodeType, offset, endoffset int) {
	start := len(b.stack)
	end := start
	for start > 0 && b.stack[start-1].offset >= offset {
		start--
		if b.stack[start].offset >= endoffset { end-- }
	}
	out := &Node{t, offset, endoffset}
	if start < end { out.firstChild = b.stack[start]; … link b.stack[start:end] as siblings … }
	// three slice-surgery cases, all of which leave  stack[:start] ++ [out] ++ stack[end:]
}
```

The stack is kept TOP FIRST here. A `Tree` is a Go `*Node` together with everything reachable through
`firstChild`/`next`; `id` is the number of the `addNode` call that created the node (the identity of
the Go pointer), it is not used by the algorithm.

Also here: the stack-free specification the builder is proved against (`WellNested`, `contains`,
`parentOf`), see Props/C20.lean.
-/
namespace TmVerif.TreeBuilder

/-- one listener call `listener(t, offset, endoffset)` -/
structure Ev where
  ty : Int
  off : Nat
  endo : Nat
deriving Repr, DecidableEq, Inhabited

inductive Tree where
  | node (id : Nat) (ev : Ev) (kids : List Tree)
deriving Repr, Inhabited

def Tree.id : Tree → Nat
  | .node id _ _ => id
def Tree.ev : Tree → Ev
  | .node _ ev _ => ev
def Tree.kids : Tree → List Tree
  | .node _ _ kids => kids
def Tree.off (t : Tree) : Nat := t.ev.off
def Tree.endo (t : Tree) : Nat := t.ev.endo

/-- `addNode`: `stack` is top first; `id` = number of nodes created before. -/
def addNode (id : Nat) (stack : List Tree) (ev : Ev) : List Tree :=
  -- `for start > 0 && stack[start-1].offset >= offset { start-- … }`
  let scanned := stack.takeWhile (fun t => decide (t.off ≥ ev.off))      -- stack[start:], top first
  let rest := stack.dropWhile (fun t => decide (t.off ≥ ev.off))         -- stack[:start], top first
  -- `if stack[start].offset >= endoffset { end-- }`: `end = len - cnt`
  let cnt := scanned.countP (fun t => decide (t.off ≥ ev.endo))
  let sb := scanned.reverse                                              -- stack[start:] in Go order
  let kids := sb.take (sb.length - cnt)                                  -- stack[start:end]
  let after := sb.drop (sb.length - cnt)                                 -- stack[end:]
  -- all three cases of the Go code: stack[:start] ++ [out] ++ stack[end:]
  after.reverse ++ (Tree.node id ev kids :: rest)

/-- the stack (top first) after feeding `evs` to `addNode`, ids starting at `id` -/
def buildFrom : Nat → List Tree → List Ev → List Tree
  | _, stack, [] => stack
  | id, stack, ev :: rest => buildFrom (id + 1) (addNode id stack ev) rest

/-- the builder's stack in Go order (`b.stack[0]` first) after all events -/
def build (evs : List Ev) : List Tree := (buildFrom 0 [] evs).reverse

/-- `builder.build()` with the `fileNode` option: `addNode(File, 0, len(content))`, root = `stack[0]` -/
def buildFile (fileTy : Int) (n : Nat) (evs : List Ev) : Option Tree :=
  (build (evs ++ [⟨fileTy, 0, n⟩])).head?

/-- `builder.build()` with the `fileNode` option AFTER the repair /verif/fixes/C20-end-offset-node.diff:
the `File` node adopts every root (also empty nodes reported at the very end of the content). The
harness probes the real builder at start-up and compares against this variant once it is repaired. -/
def buildFileAll (fileTy : Int) (n : Nat) (evs : List Ev) : Tree :=
  .node evs.length ⟨fileTy, 0, n⟩ (build evs)

/-- `builder.build()` without `fileNode`: exactly one root is expected -/
def buildSingle (evs : List Ev) : Option Tree :=
  match build evs with
  | [t] => some t
  | _ => none

/-! ### traversals -/

mutual
/-- ids of all nodes, pre-order -/
def Tree.ids : Tree → List Nat
  | .node id _ kids => id :: idsList kids
def idsList : List Tree → List Nat
  | [] => []
  | t :: ts => t.ids ++ idsList ts
end

mutual
/-- all nodes (as subtrees), pre-order -/
def Tree.subtrees : Tree → List Tree
  | .node id ev kids => .node id ev kids :: subtreesList kids
def subtreesList : List Tree → List Tree
  | [] => []
  | t :: ts => t.subtrees ++ subtreesList ts
end

mutual
/-- canonical text: `(type off end child…)` -/
def Tree.show : Tree → String
  | .node _ ev kids => s!"({ev.ty} {ev.off} {ev.endo}{showList kids})"
def showList : List Tree → String
  | [] => ""
  | t :: ts => " " ++ t.show ++ showList ts
end

/-! ### the specification side (no stack) -/

/-- "disjoint or nested, containers after their contents" for an EARLIER event `p` and a LATER event
`f` (closed-interval trichotomy): `p` ends before `f` starts, or starts after `f` ends, or lies
within `f`. A later event may never lie strictly inside an earlier one, nor overlap it. -/
def Compat (p f : Ev) : Prop :=
  p.endo ≤ f.off ∨ f.endo ≤ p.off ∨ (f.off ≤ p.off ∧ p.endo ≤ f.endo)

instance (p f : Ev) : Decidable (Compat p f) := by unfold Compat; infer_instance

/-- every event is a range inside `[0, n]` -/
def InBounds (n : Nat) (evs : List Ev) : Prop := ∀ e ∈ evs, e.off ≤ e.endo ∧ e.endo ≤ n

instance (n : Nat) (evs : List Ev) : Decidable (InBounds n evs) := by unfold InBounds; infer_instance

/-- The event-stream contract: within bounds, any two events disjoint or nested, and a container is
listed after its contents. -/
def WellNested (n : Nat) (evs : List Ev) : Prop := InBounds n evs ∧ evs.Pairwise Compat

instance (n : Nat) (evs : List Ev) : Decidable (WellNested n evs) := by unfold WellNested; infer_instance

/-- `c` (reported LATER) contains `p` (reported earlier): the start of `p` lies in the half-open
range of `c`. For well-nested streams and a non-empty `p` this is range inclusion; an EMPTY node is
contained in a later node iff it lies at its start or strictly inside (an empty node sitting at the
END offset of a later node is its following sibling, not its child), and two empty nodes at the
same offset never contain one another. Equal NON-EMPTY ranges: the later contains the earlier. -/
def contains (c p : Ev) : Prop := c.off ≤ p.off ∧ p.off < c.endo

instance (c p : Ev) : Decidable (contains c p) := by unfold contains; infer_instance

/-- The smallest container of event `i`: the FIRST later event that contains it (in a well-nested
stream every later container contains the earlier containers). -/
def parentOf (evs : List Ev) (i : Nat) : Option Nat :=
  (List.range evs.length).find? fun j =>
    decide (i < j) && (match evs[j]?, evs[i]? with
      | some c, some p => decide (contains c p)
      | _, _ => false)

/-- sibling order = source order: `a` ends before `b` starts; ties (an empty `a` at the start
offset of `b`) are listed latest-reported first -/
def SibOrder (a b : Tree) : Prop := a.endo ≤ b.off ∧ (a.off = b.off → b.id < a.id)

instance (a b : Tree) : Decidable (SibOrder a b) := by unfold SibOrder; infer_instance

/-- what must hold at one node `t` of the result for the stream `evs` -/
def NodeOK (evs : List Ev) (t : Tree) : Prop :=
  evs[t.id]? = some t.ev ∧
  (∀ k ∈ t.kids, parentOf evs k.id = some t.id ∧ t.off ≤ k.off ∧ k.endo ≤ t.endo) ∧
  t.kids.Pairwise SibOrder

end TmVerif.TreeBuilder
