import TmVerif.Model.Proto
import TmVerif.Model.AstTypes
/-!
Line protocol of C21 (harness/cmd/tmh/c21.go):

* `validate <nTerms> <rules> <tokTypes> <nTypes> <types>` → `ok` / `reject: <first failing condition>`
  (`checkTypes`, the hypothesis of `C21_checkTypes_sound`).
  rule = `lhs:rhs:type:reports`, rhs `1,2,3` / `-`, reports `t/s/e+t/s/e` / `-`; rules joined by `;` (`_` none);
  tokTypes `sym:type,…` / `-`; types: one entry per node type joined by `;`, entry `_` or fields joined by `,`,
  field = `sel+sel/required/list/fetchAfter` (selector after category expansion, `-` empty).
* `fields …` (same arguments) → `checkFields` only (hypothesis of `C21_checkFields_sound`; used for the shipped
  grammars, which contain possibly-empty nodes).
* `access <fields> <child types>` → per field the indices `access` returns (`-` nil node, `.` empty list).
* `seqs <nTerms> <rules> <tokTypes> <T:kids;T:kids…>` → `ok` when every observed child sequence of a `T` node
  is in `L(approx g T)`, else `notin T:kids`.
* `judge <go answer…> :: access …` → does the implementation's answer violate the property at this node?
-/
namespace TmVerif.DriverC21
open TmVerif.Proto TmVerif.AstTypes

def parseReport (s : String) : Option Report :=
  match s.splitOn "/" with
  | [t, a, b] => do
    let t ← parseNat? t
    let a ← parseNat? a
    let b ← parseNat? b
    pure { type := t, start := a, stop := b }
  | _ => none

def parseReports (s : String) : Option (List Report) :=
  if s == "-" then some [] else (s.splitOn "+").mapM parseReport

def parseRule (s : String) : Option (ARule × List Nat) :=
  match s.splitOn ":" with
  | [lhs, rhs, ty, reps] => do
    let lhs ← parseNat? lhs
    let rhs ← parseNats rhs
    let ty ← parseNat? ty
    let reps ← parseReports reps
    pure ({ lhs := lhs, body := layout rhs reps, ruleType := ty }, lhs :: rhs)
  | _ => none

def parsePair (s : String) : Option (Nat × Nat) :=
  match s.splitOn ":" with
  | [a, b] => do
    let a ← parseNat? a
    let b ← parseNat? b
    pure (a, b)
  | _ => none

/-- grammar and the number of symbols -/
def parseGrammar (nt rules toks : String) : Option (AGrammar × Nat) := do
  let nt ← parseNat? nt
  let rs ← if rules == "_" then some [] else (rules.splitOn ";").mapM parseRule
  let tt ← if toks == "-" then some [] else (toks.splitOn ",").mapM parsePair
  let maxSym := (rs.flatMap (·.2)).foldl max 0
  pure ({ nTerms := nt, rules := rs.map (·.1), tokTypes := tt }, max nt (maxSym + 1))

def parseSel (s : String) : Option (List Nat) :=
  if s == "-" then some [] else (s.splitOn "+").mapM parseNat?

def parseField (s : String) : Option Field :=
  match s.splitOn "/" with
  | [sel, req, lst, fa] => do
    let sel ← parseSel sel
    let req ← parseBool? req
    let lst ← parseBool? lst
    let fa ← parseInt? fa
    pure { sel := sel, required := req, isList := lst, fetchAfter := fa }
  | _ => none

def parseFields (s : String) : Option (List Field) :=
  if s == "_" then some [] else (s.splitOn ",").mapM parseField

def parseTypes (s : String) : Option Types := (s.splitOn ";").mapM parseFields

def showRes (isList : Bool) (l : List Nat) : String :=
  if l.isEmpty then (if isList then "." else "-") else ",".intercalate (l.map toString)

def accessAnswer (fields : List Field) (w : List Nat) : String :=
  " ".intercalate ((List.range fields.length).map fun i =>
    match mkAcc fields i with
    | none => "?"
    | some acc => showRes acc.isList (access acc w))

def parseRes (s : String) : Option (List Nat) :=
  if s == "-" || s == "." then some [] else (s.splitOn ",").mapM parseNat?

/-- Property at one node, evaluated on the implementation's answer. -/
def judgeAccess (fields : List Field) (w : List Nat) (ans : List String) : String :=
  if ans.length != fields.length then "holds (answer not comparable)" else
  let rs := ans.map parseRes
  if ans.any (· == "!") then "violates: an accessor panicked" else
  if rs.any (·.isNone) then "holds (answer not comparable)" else
  let rs := rs.map (·.getD [])
  let bad := (fields.zip rs).find? (fun (f, r) =>
    (f.required && !f.isList && r.isEmpty) || r.any (fun p => match w[p]? with | some a => !f.sel.contains a | none => true))
  match bad with
  | some (f, r) => s!"violates: accessor with selector {f.sel} returned {r}"
  | none =>
    match (List.range w.length).find? (fun p => !rs.any (·.contains p)) with
    | some p => s!"violates: child {p} is returned by no accessor"
    | none => "holds"

def parseObs (s : String) : Option (Nat × List Nat) :=
  match s.splitOn ":" with
  | [t, ks] => do
    let t ← parseNat? t
    let ks ← parseNats ks
    pure (t, ks)
  | _ => none

def handle (args : List String) : Option String :=
  match args with
  | ["validate", nt, rules, toks, _n, types] => do
    let (g, nSyms) ← parseGrammar nt rules toks
    let types ← parseTypes types
    let alph := computeAlph g nSyms
    let nul := computeNullable g nSyms
    if checkTypes g alph nul types then some "ok"
    else some s!"reject: {explain g alph nul types}"
  | ["fields", nt, rules, toks, _n, types] => do
    let (g, nSyms) ← parseGrammar nt rules toks
    let types ← parseTypes types
    let alph := computeAlph g nSyms
    if checkFields g alph types then some "ok"
    else some s!"reject: {explainFields g alph types}"
  | ["access", fields, kids] => do
    let fields ← parseFields fields
    let w ← parseNats kids
    some (accessAnswer fields w)
  | ["seqs", nt, rules, toks, obs] => do
    let (g, nSyms) ← parseGrammar nt rules toks
    let obs ← (obs.splitOn ";").mapM parseObs
    let alph := computeAlph g nSyms
    match obs.find? (fun (t, ks) => !(approx g alph (fuelOf g) t).accepts ks) with
    | none => some "ok"
    | some (t, ks) => some s!"notin {t}:{showNats ks}"
  | "judge" :: rest =>
    match rest.span (· != "::") with
    | (ans, "::" :: "access" :: [fields, kids]) => do
      let fields ← parseFields fields
      let w ← parseNats kids
      some (judgeAccess fields w ans)
    | (_, "::" :: "fields" :: _) => some "unknown: the validator does not accept this output (no input known)"
    | (_, "::" :: "validate" :: _) => some "unknown: the validator does not accept this output (no input known)"
    | (_, "::" :: "seqs" :: _) => some "unknown: an observed child sequence is outside the model's approximation"
    | _ => none
  | _ => none

end TmVerif.DriverC21
