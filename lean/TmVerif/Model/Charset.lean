/-
Model of /repo/lex/charset.go (Mode M: hand mirror), shared by C10 (regular expressions), and meant
to be reused by C09/C11 (lexer) and C24 (shift DFA).

Go's `charset` is a `[]rune` of flattened pairs `lo0,hi0,lo1,hi1,…`; here it is a list of pairs
`(lo, hi)` (closed intervals).  `rune` is `int32`; the model uses `Int` (the functions only compare
and add/subtract 1; callers keep values inside `[-2^31+1, 2^31-2]`, so no wrap-around happens).

Mirrored: `newCharset` (sort by `rangeOrder`, then the in-place compaction loop), `appendRange`,
`invert`, `subtract`, `intersect`, `oneRune`, `maxRune`, `appendNamedSet` (parameterised by the
Unicode tables it looks up) and `fold` (parameterised by the table of `unicode.SimpleFold` orbits).
Core Lean only (linked into the `tmv` driver).
-/
namespace TmVerif.Charset

abbrev Range := Int × Int
abbrev Charset := List Range

/-- `CharsetOptions.maxRune`. -/
def maxRune (bytes : Bool) : Int := if bytes then 255 else 0x10FFFF

/-- The set a range list denotes. -/
def Mem (r : Int) (c : Charset) : Prop := ∃ p ∈ c, p.1 ≤ r ∧ r ≤ p.2

def memB (r : Int) (c : Charset) : Bool := c.any fun p => decide (p.1 ≤ r) && decide (r ≤ p.2)

/-- `rangeOrder.Less` made reflexive: by `lo` ascending, for equal `lo` by `hi` descending. -/
def rangeLe (a b : Range) : Bool := decide (a.1 < b.1) || (decide (a.1 = b.1) && decide (b.2 ≤ a.2))

/-- The compaction loop of `newCharset` over the sorted list; `(lo, hi)` is the range being grown
(`r[l-2], r[l-1]` in Go). -/
def compact (lo hi : Int) : Charset → Charset
  | [] => [(lo, hi)]
  | (l, h) :: rest =>
    if l ≤ hi + 1 then compact lo (if hi + 1 ≤ h then h else hi) rest
    else (lo, hi) :: compact l h rest

/-- `newCharset`: sort, then merge overlapping and adjacent ranges. -/
def newCharset (r : Charset) : Charset :=
  match r.mergeSort rangeLe with
  | [] => []
  | (lo, hi) :: rest => compact lo hi rest

/-- `appendRange`: append a range, merging it into the last one when they overlap or touch. -/
def appendRange (r : Charset) (lo hi : Int) : Charset :=
  match r.getLast? with
  | none => [(lo, hi)]
  | some (s, e) =>
    if lo ≤ e + 1 ∧ s ≤ hi + 1 then
      r.dropLast ++ [(if lo < s then lo else s, if hi > e then hi else e)]
    else r ++ [(lo, hi)]

/-- The loop of `charset.invert`; `next` is Go's `next`. -/
def invertFrom (max : Int) : Int → Charset → Charset
  | next, [] => if next ≤ max then [(next, max)] else []
  | next, (lo, hi) :: rest =>
    (if next ≤ lo - 1 then [(next, lo - 1)] else []) ++ invertFrom max (hi + 1) rest

/-- `charset.invert` for `opts.maxRune() = max`. -/
def invert (max : Int) (c : Charset) : Charset := invertFrom max 0 c

/-- `charset.oneRune`. -/
def oneRune (c : Charset) : Bool :=
  match c with
  | [(lo, hi)] => lo == hi
  | _ => false

/-- The inner loop of `charset.subtract` for one range `lo..hi` of the minuend: returns the emitted
ranges and what is left of `oth`. -/
def subtractOne (lo hi : Int) : Charset → Charset × Charset
  | [] => ([(lo, hi)], [])
  | (a, b) :: oth =>
    if a ≤ hi then
      if b < lo then subtractOne lo hi oth
      else
        let pre : Charset := if lo < a then [(lo, a - 1)] else []
        if b + 1 > hi then (pre, (a, b) :: oth)      -- `continue mainLoop` (oth[0] is kept)
        else
          let res := subtractOne (b + 1) hi oth
          (pre ++ res.1, res.2)
    else ([(lo, hi)], (a, b) :: oth)

/-- `charset.subtract`. -/
def subtract : Charset → Charset → Charset
  | [], _ => []
  | (lo, hi) :: c, oth =>
    let res := subtractOne lo hi oth
    res.1 ++ subtract c res.2

/-- `intersect`. -/
def intersect : Charset → Charset → Charset
  | [], _ => []
  | _ :: _, [] => []
  | (alo, ahi) :: a, (blo, bhi) :: b =>
    if ahi < blo then intersect a ((blo, bhi) :: b)
    else if bhi < alo then intersect ((alo, ahi) :: a) b
    else
      let lo := if blo > alo then blo else alo
      if bhi < ahi then
        (if lo ≤ bhi then [(lo, bhi)] else []) ++ intersect ((alo, ahi) :: a) b
      else
        (if lo ≤ ahi then [(lo, ahi)] else []) ++ intersect a ((blo, bhi) :: b)
termination_by a b => a.length + b.length

/-- `charset.fold(ascii)`, extensionally: `orbits` lists the orbits of `unicode.SimpleFold` that
have more than one element (data of the Go standard library).  Go walks every rune `c` of the set
and appends every other member `f` of its orbit (skipping `f ≥ 0x80` when `ascii`), then calls
`newCharset`; the result is the normal form of the same set. -/
def fold (orbits : List (List Int)) (ascii : Bool) (c : Charset) : Charset :=
  newCharset (c ++ (orbits.filter fun o => o.any (memB · c)).flatMap fun o =>
    (o.filter fun f => !ascii || decide (f < 0x80)).map fun f => (f, f))

/-- `foldable(r, opts)`. -/
def foldable (orbits : List (List Int)) (bytes : Bool) (r : Int) : Bool :=
  (orbits.any fun o => o.contains r) && (!bytes || decide (r < 0x80))

/-- Representation invariant kept by `newCharset`, `invert`, `subtract`, `intersect`, `fold`:
non-empty ranges, sorted, disjoint and not adjacent. -/
def Normalized : Charset → Prop
  | [] => True
  | [(lo, hi)] => lo ≤ hi
  | (lo, hi) :: (lo2, hi2) :: rest => lo ≤ hi ∧ hi + 1 < lo2 ∧ Normalized ((lo2, hi2) :: rest)

def normalizedB : Charset → Bool
  | [] => true
  | [(lo, hi)] => decide (lo ≤ hi)
  | (lo, hi) :: (lo2, hi2) :: rest => decide (lo ≤ hi) && decide (hi + 1 < lo2) && normalizedB ((lo2, hi2) :: rest)

/-- All elements are inside `[lo, hi]`. -/
def Within (lo hi : Int) (c : Charset) : Prop := ∀ p ∈ c, lo ≤ p.1 ∧ p.2 ≤ hi

def withinB (lo hi : Int) (c : Charset) : Bool := c.all fun p => decide (lo ≤ p.1) && decide (p.2 ≤ hi)

/-- Every range is non-empty (`lo ≤ hi`): what the regexp parser guarantees for `newCharset`'s input. -/
def Valid (c : Charset) : Prop := ∀ p ∈ c, p.1 ≤ p.2

/-! ### Named sets (`appendNamedSet`) -/

inductive NamedKind where
  | category | script | property
deriving DecidableEq, Repr

/-- One row of `unicode.Categories/Scripts/Properties` with its `FoldCategory/FoldScript` companion
(empty when there is none), expanded to ranges. Data of the Go standard library, supplied by the harness. -/
structure NamedTable where
  name : String
  kind : NamedKind
  table : Charset
  foldTable : Charset
deriving Repr

/-- `appendNamedSet(nil, name, opts)`; `none` is `errUnknownUnicodeClass`.
`scriptFoldAlways = true` mirrors the pinned tree, which adds `unicode.FoldScript[name]` whether or
not case folding is on; `false` is the repaired behaviour (only under `opts.Fold`). -/
def namedSet (tabs : List NamedTable) (scriptFoldAlways : Bool) (name : String) (fold bytes : Bool) :
    Option Charset :=
  if name == "Any" then some [(0, maxRune bytes)]
  else if name == "Ascii" then some [(0, 0x7f)]
  else if bytes then none
  else
    match tabs.find? (fun t => t.name == name && t.kind == .category) with
    | some t => some (t.table ++ (if fold then t.foldTable else []))
    | none =>
      match tabs.find? (fun t => t.name == name && t.kind == .script) with
      | some t => some (t.table ++ (if fold || scriptFoldAlways then t.foldTable else []))
      | none =>
        match tabs.find? (fun t => t.name == name && t.kind == .property) with
        | some t => some t.table
        | none => none

end TmVerif.Charset
