/-
Model of /repo/util/graph (Mode M hand mirrors + one Mode V validator), core Lean only.

  transpose.go  Transpose      → `transpose`
  matrix.go     Matrix, AddEdge, HasEdge, Closure (Warshall, in place), Graph → `Matrix.*`
  path.go       LongestPath    → `longestPath` (the recursive closure `dfs` gets fuel)
  tarjan.go     Tarjan         → `tarjan` (`strongConnect` gets fuel; `size < 2` → no callback)
  validator                    → `checkScc g comps`

Fuel: `len+1` is proved sufficient for both recursive closures (Proofs/GraphPath.lean `dfs_spec`,
Proofs/GraphTarjan.lean `sc_spec`: strictly more fuel than unvisited vertices), so the fuel-exhausted
branches are dead code on well-formed graphs.

A graph is `[][]int`: `g[v]` lists the successors of `v` (duplicates and self loops allowed).
Vertices are `Nat`; the Go code indexes slices with the successors, so it panics on a successor
`≥ len(g)`; `wfB` is the precondition under which it does not (the driver answers `panic` otherwise).
-/
namespace TmVerif.Graph

abbrev Graph := List (List Nat)

/-- `g[v]` (empty when out of range; the Go code never indexes out of range on well-formed graphs). -/
def succs (g : Graph) (v : Nat) : List Nat := g[v]?.getD []

/-- all successors are vertices -/
def wfB (g : Graph) : Bool := g.all fun es => es.all (· < g.length)

/-- `for x := 0; x < k; x++ { s = f x s }` -/
def forUpTo {σ : Type} (k : Nat) (f : Nat → σ → σ) (s : σ) : σ :=
  match k with
  | 0 => s
  | k + 1 => f k (forUpTo k f s)

/-! ### transpose.go -/

/-- inner loop of the second pass: `for _, to := range edges { ret[to] = append(ret[to], from) }` -/
def addEdges (ret : Graph) (src : Nat) : List Nat → Graph
  | [] => ret
  | to :: es => addEdges (ret.modify to (· ++ [src])) src es

/-- outer loop of the second pass: `for from, edges := range g` (the first pass only sizes the pool) -/
def transposeFrom (ret : Graph) (src : Nat) : Graph → Graph
  | [] => ret
  | es :: rest => transposeFrom (addEdges ret src es) (src + 1) rest

def transpose (g : Graph) : Graph := transposeFrom (List.replicate g.length []) 0 g

/-! ### matrix.go -/

/-- `Matrix{n, set}`; the bit set is an array of `n*n` booleans addressed `i*n+e`. -/
structure Matrix where
  n : Nat
  set : Array Bool

namespace Matrix

def new (n : Nat) : Matrix := ⟨n, Array.replicate (n * n) false⟩

def addEdge (m : Matrix) (i e : Nat) : Matrix := { m with set := m.set.setIfInBounds (i * m.n + e) true }

def hasEdge (m : Matrix) (i e : Nat) : Bool := m.set[i * m.n + e]?.getD false

/-- `Closure`: three nested loops, in place. -/
def closureE (n i j : Nat) (m : Matrix) : Matrix :=
  forUpTo n (fun e m => if m.hasEdge i e then m.addEdge j e else m) m

def closureJ (n i : Nat) (m : Matrix) : Matrix :=
  forUpTo n (fun j m => if !m.hasEdge j i then m else closureE n i j m) m

def closure (m : Matrix) : Matrix := forUpTo m.n (fun i s => closureJ m.n i s) m

/-- `Graph(reuse)`: adjacency lists, each row increasing. -/
def graph (m : Matrix) : Graph :=
  (List.range m.n).map fun i => (List.range m.n).filter fun e => m.hasEdge i e

/-- what the harness does: `NewMatrix(len(g))` then `AddEdge(i, e)` for every edge in order -/
def ofGraphFrom (m : Matrix) (src : Nat) : Graph → Matrix
  | [] => m
  | es :: rest => ofGraphFrom (es.foldl (fun m e => m.addEdge src e) m) (src + 1) rest

def ofGraph (g : Graph) : Matrix := ofGraphFrom (new g.length) 0 g

end Matrix

/-! ### path.go -/

/-- `data []node` with `node{height, link}` (link `-1` ↔ `none`; the link of a node whose height is
`0` or `-1` is never read) and the captured variable `cycle`. -/
structure LP where
  data : List (Int × Option Nat)
  cycle : Bool

def LP.height (s : LP) (i : Nat) : Int := (s.data[i]?.getD (0, none)).1
def LP.link (s : LP) (i : Nat) : Option Nat := (s.data[i]?.getD (0, none)).2

/-- loop body of `for _, next := range graph[i]` given the recursive call `rec = dfs` -/
def dfsStep (rec : Nat → LP → LP) (acc : LP × (Int × Option Nat)) (next : Nat) : LP × (Int × Option Nat) :=
  let s := rec next acc.1
  let h := s.height next
  if h ≥ acc.2.1 then (s, (h + 1, some next)) else (s, acc.2)

/-- the closure `dfs`; `fuel` bounds the recursion depth (`len(graph)+1` suffices, see
`Proofs/GraphPath.lean`). -/
def dfs (g : Graph) : Nat → Nat → LP → LP
  | 0, _, s => s
  | fuel + 1, i, s =>
    let h := s.height i
    if h ≠ 0 then (if h = -1 then { s with cycle := true } else s)
    else
      let s1 : LP := { s with data := s.data.set i (-1, s.link i) }
      let r := (succs g i).foldl (dfsStep (dfs g fuel)) (s1, (1, none))
      { r.1 with data := r.1.data.set i r.2 }

/-- body of the loop `for i := 0; i < len(graph); i++` (second component: `first`, `-1` ↔ `none`) -/
def lpStep (g : Graph) (i : Nat) (acc : LP × Option Nat) : LP × Option Nat :=
  let s := dfs g (g.length + 1) i acc.1
  match acc.2 with
  | none => (s, some i)
  | some first => if s.height first < s.height i then (s, some i) else (s, some first)

/-- `for i := first; i != -1; i = data[i].link { ret = append(ret, i) }`; the fuel is the height of
the start vertex, which is the exact number of iterations on an acyclic graph. -/
def follow (s : LP) : Nat → Option Nat → List Nat
  | 0, _ => []
  | _, none => []
  | fuel + 1, some i => i :: follow s fuel (s.link i)

def lpInit (g : Graph) : LP × Option Nat := (⟨List.replicate g.length (0, none), false⟩, none)

/-- `LongestPath`: `none` is the `nil` returned for cyclic graphs. (Go returns a nil slice for the
empty graph as well: `some []` and `none` are both rendered `nil` by the driver.) -/
def longestPath (g : Graph) : Option (List Nat) :=
  let r := forUpTo g.length (lpStep g) (lpInit g)
  if r.1.cycle then none
  else match r.2 with
    | none => some []
    | some first => some (follow r.1 (r.1.height first).toNat (some first))

/-- What a Go caller of `LongestPath` observes: a slice, which is nil (= empty) both when the graph
has a cycle and when the graph has no vertices. -/
def longestPathGo (g : Graph) : List Nat := (longestPath g).getD []

/-! ### tarjan.go -/

/-- fields of `type tarjan struct` that change, plus the sequence of callback invocations
(`out`, most recent first; each entry is `(vertices, onStack as sorted list)`).
`stack` has its top at the head (Go appends at the end). -/
structure TS where
  stack : List Nat
  index : List Int
  lowLink : List Int
  onStack : List Bool
  curr : Int
  out : List (List Nat × List Nat)

def TS.idx (s : TS) (v : Nat) : Int := s.index[v]?.getD 0
def TS.low (s : TS) (v : Nat) : Int := s.lowLink[v]?.getD 0
def TS.on (s : TS) (v : Nat) : Bool := s.onStack[v]?.getD false

/-- `t.lowLink[v] = x` -/
def TS.setLow (s : TS) (v : Nat) (x : Int) : TS := { s with lowLink := s.lowLink.set v x }

/-- the first five statements of `strongConnect` -/
def TS.push (s : TS) (v : Nat) : TS :=
  { s with index := s.index.set v s.curr, lowLink := s.lowLink.set v s.curr,
           curr := s.curr + 1, stack := v :: s.stack, onStack := s.onStack.set v true }

/-- loop body of `for _, w := range t.graph[v]` given the recursive call -/
def scStep (rec : Nat → TS → TS) (v : Nat) (s : TS) (w : Nat) : TS :=
  if s.idx w = -1 then
    let s := rec w s
    if s.low w < s.low v then s.setLow v (s.low w) else s
  else if s.on w && s.idx w < s.low v then s.setLow v (s.idx w)
  else s

def clearAll (on : List Bool) : List Nat → List Bool
  | [] => on
  | v :: vs => clearAll (on.set v false) vs

/-- the tail of `strongConnect`: report and pop the component when `v` is a root
(`t.stack[base:]` is the top `len(stack) - base` entries, in push order) -/
def scPop (base v : Nat) (s : TS) : TS :=
  if s.low v = s.idx v then
    let k := s.stack.length - base
    let comp := (s.stack.take k).reverse
    let snap := (List.range s.onStack.length).filter s.on
    { s with out := (comp, snap) :: s.out, onStack := clearAll s.onStack comp, stack := s.stack.drop k }
  else s

def strongConnect (g : Graph) : Nat → Nat → TS → TS
  | 0, _, s => s
  | fuel + 1, v, s =>
    let s2 := (succs g v).foldl (scStep (strongConnect g fuel) v) (s.push v)
    scPop s.stack.length v s2

def tarjanInit (n : Nat) : TS :=
  ⟨[], List.replicate n (-1), List.replicate n 0, List.replicate n false, 0, []⟩

/-- `run`: nothing at all for fewer than two vertices. Result: callback invocations in order. -/
def tarjanRun (g : Graph) : List (List Nat × List Nat) :=
  if g.length < 2 then []
  else
    (forUpTo g.length (fun i s => if s.idx i = -1 then strongConnect g (g.length + 1) i s else s)
      (tarjanInit g.length)).out.reverse

def tarjan (g : Graph) : List (List Nat) := (tarjanRun g).map (·.1)

/-! ### validator for strongly connected components -/

/-- index of the (first) component containing `v` -/
def compOf (comps : List (List Nat)) (v : Nat) : Option Nat := comps.findIdx? (·.contains v)

def nodupB : List Nat → Bool
  | [] => true
  | a :: l => !l.contains a && nodupB l

/-- every edge `v → w` goes to the same or an earlier reported component -/
def edgesBackB (g : Graph) (comps : List (List Nat)) : Bool :=
  (List.range g.length).all fun v => (succs g v).all fun w =>
    match compOf comps w, compOf comps v with
    | some j, some i => j ≤ i
    | _, _ => false

/-- `checkScc g comps`: (1) the graph is well formed; (2) `comps` lists every vertex exactly once and
nothing else, no component is empty; (3) every edge goes to the same or an earlier component;
(4) inside a component every vertex reaches every other one (by the verified Warshall closure). -/
def checkScc (g : Graph) (comps : List (List Nat)) : Bool :=
  let r := (Matrix.ofGraph g).closure
  wfB g
  && nodupB comps.flatten
  && comps.flatten.all (· < g.length)
  && (List.range g.length).all (comps.flatten.contains ·)
  && comps.all (!·.isEmpty)
  && edgesBackB g comps
  && comps.all fun c => c.all fun u => c.all fun v => u == v || r.hasEdge u v

end TmVerif.Graph
