import TmVerif.Model.Proto
import TmVerif.Model.GuardPairs
import TmVerif.Model.TableWidth
namespace TmVerif.DriverC17
open TmVerif.Proto TmVerif.Guards TmVerif.Facts TmVerif.TableWidth

/-- Digest of the use sites this driver was compiled with. -/
def compiledDigest : String :=
  ((c17Hashes.find? (fun h => h.what == "digest of the use sites")).map (·.hash)).getD "?"

def tablesOk : Bool :=
  idsAreOrdinals && atomTextsFacts == atomTextsExpected && axiomTextsWritten == axiomTextsHinted &&
    knownTextsWritten == knownTextsHinted && notPropTextsWritten == notPropTextsHinted &&
    c17DefSigs == c17ExpectedDefSigs && c17Hashes == c17ExpectedHashes && c17Problems.isEmpty

def b01 (b : Bool) : String := if b then "1" else "0"

/-- Evaluates one case; `none` = malformed. The Lean side of C17 is the obligation of Props/C17.lean; the driver
only re-evaluates it (compiled) so that the harness can tie its run to it:
* `known <token>` → `listed` when the expectation table has a known-inconsistent entry with this token;
* `guards` → `inconsistent=<n> duplicates=<n> wellformed=<0|1> tables=<0|1>`: uses that are neither consistent nor
  listed, identifiers with two declaration sites that can be generated together, grouping and table checks;
* `facts <digest> <defs> <atoms> <names>` (tools/factgen run by the harness on the tree under test) → `match` when
  these are the facts this driver was compiled with;
* `width <ints>` / `bits <int>` → the mirror of gen.bitsPerElement / gen.bits (Model/TableWidth.lean);
* `build <kind> <name> <files> <result>` (one generated package of the sweep) → the result token: there is no
  model of `go build` (DESIGN.md §5), failures are reported by the harness with the grammar. -/
def eval : List String → Option String
  | ["known", tok] => some (if c17KnownInconsistent.any (fun k => k.token == tok) then "listed" else "unlisted")
  | ["guards"] =>
    let (_, _, _, _, bad) := counts
    let dups := (c17Groups.filter (fun g => !noDupGo (g.defs.map defSiteGuardRaw))).length
    some s!"inconsistent={bad} duplicates={dups} unusedlabels={b01 (!labelsUsed)} wellformed={b01 groupsWellFormed} tables={b01 tablesOk}"
  | ["facts", digest, defs, atoms, names] => do
    let d ← parseNat? defs
    let a ← parseNat? atoms
    let n ← parseNat? names
    if digest == compiledDigest && d == c17DefSigs.length && a == c17Atoms.length && n == c17Names.length then
      some "match"
    else
      some s!"differ: compiled with digest={compiledDigest} defs={c17DefSigs.length} atoms={c17Atoms.length} names={c17Names.length}"
  | ["build", _, _, _, res] => some res
  | ["width", arr] => do
    let a ← parseInts arr
    some (toString (bitsPerElement a))
  | ["bits", i] => do
    let a ← parseInts i
    match a with
    | [x] => some (toString (bits x))
    | _ => none
  | _ => none

/-- `judge <go answer> :: <case>`: a guard inconsistency that is not listed is a failing input of the fragment
(the use sites are named); everything else is bookkeeping. -/
def handle (args : List String) : Option String :=
  match args with
  | "judge" :: rest =>
    match rest.dropWhile (· != "::") with
    | _ :: ["guards"] =>
      let dups := (c17Groups.filter (fun g => !noDupGo (g.defs.map defSiteGuardRaw))).map
        (fun g => let (p, n) := nameText g.name; s!"{p}.{n}")
      if !openUses.isEmpty then
        some ("violates: uses of template-declared identifiers whose guards do not imply the guards of the declaration: "
          ++ " ".intercalate openUses)
      else if !labelsUsed then
        some "violates: a label is generated under a guard under which no goto to it is (Go rejects unused labels)"
      else if !dups.isEmpty then
        some ("violates: identifiers with two declaration sites that can be generated together: " ++ " ".intercalate dups)
      else some "holds"
    | _ :: ["width", arr] =>
      -- the implementation's width must hold every element (all of them int32 values)
      match parseInts arr, rest.head? with
      | some a, some w =>
        if !allInt32 a then some "holds"
        else if widthOk (w.toNat?.getD 0) a then some "holds"
        else some s!"violates: int{w} does not hold every element of the table (the generated array literal overflows)"
      | _, _ => none
    | _ :: ["bits", i] =>
      match parseInts i, rest.head? with
      | some [x], some w =>
        if !fitsSigned 32 x || fitsSigned (w.toNat?.getD 0) x then some "holds"
        else some s!"violates: {x} is not a value of int{w}"
      | _, _ => none
    | _ :: c => (eval c).map (fun _ => "holds")
    | [] => none
  | _ => eval args

end TmVerif.DriverC17
