import TmVerif.Model.Proto
import TmVerif.Model.Charset
import TmVerif.Model.Regex
import TmVerif.Model.UnicodeFold
/-!
Line-protocol handler for C10.

Range lists travel flattened as in Go (`lo0,hi0,lo1,hi1,…`, `-` = empty).  Leaf cases:
  hexval <lax> <lo> <hi>            → `r:v,…` for every rune in [lo,hi] with `hexval r ≠ -1`
  octval <lo> <hi>
  newcs <ranges> | append <ranges> <lo> <hi> | invert <bytes> <ranges> | subtract <a> <b>
  intersect <a> <b> | fold <ascii> <ranges>   → ranges
  foldtable                          → the embedded `unicode.SimpleFold` orbit table
  named <scriptFold> <fold> <bytes> <name> <tabs>       → `ok <ranges>` | `err`
  esc <variant> <fold> <bytes> <standalone> <hex> <tabs> → `ok <consumed> <ranges>` | `err`
Parser cases:
  parse <variant> <fold> <bytes> <hex pattern> <tabs> <go result>   → `ok` | `err` | `differs …`
where `<variant>` is four 0/1 digits (laxHex wrap32 scriptFold bytesFoldAny: the deviations the
harness observed in the real code), `<tabs>` the Unicode tables the pattern mentions
(`name:kind:ranges:foldranges|…`, `_` = none) and `<go result>` is `err:<lo>:<hi>` or `ok:<AST>` with the
Go AST in prefix form (`lit,<hex>` `blit,<hex>` `cc,<k>,<k ints>` `rep,<min>,<max>,<sub>` `cat,<n>,<subs>`
`alt,<n>,<subs>` `ext,<hex>`).  The answer is `ok`/`err` when the model (under the observed variant) agrees
with Go on accept/reject, Go's error range lies inside the pattern and the two ASTs have the same
canonical form; anything else is spelled out.
`judge <go answer…> :: <case…>` re-decides against the property itself: set semantics on witness
points for the leaf cases, the reference parser (`Variant.strict`) for `parse`/`esc`/`named`/`hexval`.
-/
namespace TmVerif.DriverC10
open TmVerif.Proto TmVerif.Charset TmVerif.Regex

def toPairs : List Int → Option Charset
  | [] => some []
  | [_] => none
  | a :: b :: rest => (toPairs rest).map ((a, b) :: ·)

def flat (c : Charset) : List Int := c.flatMap fun p => [p.1, p.2]

def parseCs (s : String) : Option Charset := do toPairs (← parseInts s)

def showCs (c : Charset) : String := showInts (flat c)

def parseVariant (s : String) : Option Variant :=
  match s.toList with
  | [a, b, c, d] => some ⟨a == '1', b == '1', c == '1', d == '1'⟩
  | _ => none

def parseKind (s : String) : Option NamedKind :=
  if s == "c" then some .category else if s == "s" then some .script else if s == "p" then some .property else none

def parseTabs (s : String) : Option (List NamedTable) :=
  if s == "_" then some []
  else (s.splitOn "|").mapM fun row =>
    match row.splitOn ":" with
    | [name, kind, t, f] => do
      let k ← parseKind kind
      let t ← parseCs t
      let f ← parseCs f
      pure ⟨name, k, t, f⟩
    | _ => none

def env (tabs : List NamedTable) : Env := ⟨UnicodeFold.orbits, tabs⟩

def rangeList (lo hi : Int) : List Int := (List.range (hi - lo + 1).toNat).map fun i => lo + Int.ofNat i

def showTable (f : Int → Int) (lo hi : Int) : String :=
  let rows := (rangeList lo hi).filterMap fun r => let v := f r; if v == -1 then none else some s!"{r}:{v}"
  if rows.isEmpty then "-" else ",".intercalate rows

/-! AST transport -/

def readTree : Nat → List String → Option (Regex × List String)
  | 0, _ => none
  | fuel + 1, toks =>
    let rec readMany (fuel : Nat) : Nat → List String → Option (List Regex × List String)
      | 0, toks => some ([], toks)
      | n + 1, toks => do
        let (r, toks) ← readTree fuel toks
        let (rs, toks) ← readMany fuel n toks
        pure (r :: rs, toks)
    match toks with
    | "lit" :: h :: rest => do
      let b ← parseHex h
      pure (litSyms (decodeAll b.length b), rest)
    | "blit" :: h :: rest => do
      let b ← parseHex h
      pure (litSyms (b.map Int.ofNat), rest)
    | "ext" :: h :: rest => do
      let b ← parseHex h
      pure (.ext b, rest)
    | "cc" :: k :: rest => do
      let k ← parseNat? k
      let vals ← (rest.take k).mapM parseInt?
      if vals.length != k then none
      let c ← toPairs vals
      pure (.cc c, rest.drop k)
    | "rep" :: mn :: mx :: rest => do
      let mn ← parseNat? mn
      let mx ← parseInt? mx
      let (r, rest) ← readTree fuel rest
      pure (.rep r mn (if mx < 0 then none else some mx.toNat), rest)
    | "cat" :: n :: rest => do
      let n ← parseNat? n
      let (rs, rest) ← readMany fuel n rest
      pure (mkCat rs, rest)
    | "alt" :: n :: rest => do
      let n ← parseNat? n
      let (rs, rest) ← readMany fuel n rest
      pure (mkAlt rs, rest)
    | _ => none

def showRe : Regex → String
  | .eps => "e"
  | .cc c => "[" ++ showCs c ++ "]"
  | .cat a b => "(" ++ showRe a ++ "." ++ showRe b ++ ")"
  | .alt a b => "(" ++ showRe a ++ "|" ++ showRe b ++ ")"
  | .rep r mn mx => showRe r ++ "{" ++ toString mn ++ "," ++ (match mx with | none => "" | some m => toString m) ++ "}"
  | .ext n => "<" ++ showHex n ++ ">"

inductive GoRes where
  | err (lo hi : Int)
  | ok (r : Regex)

def parseGoRes (s : String) : Option GoRes :=
  match s.splitOn ":" with
  | ["err", lo, hi] => do pure (.err (← parseInt? lo) (← parseInt? hi))
  | ["ok", t] =>
    let toks := t.splitOn ","
    match readTree (toks.length + 1) toks with
    | some (r, []) => some (.ok r)
    | _ => none
  | _ => none

/-- Compare what Go returned with the model under variant `v`. -/
def verdict (v : Variant) (fold bytes : Bool) (pat : List Nat) (tabs : List NamedTable) (go : GoRes) : String :=
  match parse (env tabs) v fold bytes pat, go with
  | .error .., .err lo hi =>
    if 0 ≤ lo ∧ lo ≤ hi ∧ hi ≤ pat.length then "err"
    else s!"differs: Go rejects with the error range [{lo},{hi}] outside the pattern (length {pat.length})"
  | .error msg lo _, .ok r => s!"differs: the reading rejects the pattern ({msg} at byte {lo}), Go accepts it as {showRe (canon r)}"
  | .ok r, .err lo hi => s!"differs: the reading accepts the pattern as {showRe (canon r)}, Go rejects it at [{lo},{hi}]"
  | .ok r, .ok g =>
    if canon r == canon g then "ok"
    else s!"differs: the pattern denotes {showRe (canon r)}, Go parsed it as {showRe (canon g)}"

/-! judging leaf answers by set semantics -/

def witnesses (cs : List Charset) (extra : List Int) : List Int :=
  ((cs.flatMap flat) ++ extra).flatMap fun x => [x - 1, x, x + 1]

def judgeSet (name : String) (expect : Int → Bool) (pts : List Int) (needNorm : Bool) (ans : Charset) : String :=
  match pts.find? fun x => memB x ans != expect x with
  | some x => s!"violates: code point {x} has the wrong membership in the result of {name}"
  | none =>
    if needNorm && !normalizedB ans then s!"violates: the result of {name} is not normalised (sorted, disjoint, non-adjacent)"
    else "holds"

def escAnswer (v : Variant) (fold bytes standalone : Bool) (src : List Nat) (tabs : List NamedTable) : String :=
  match src with
  | 0x5C :: rest =>
    match parseEscape (env tabs) v fold bytes standalone rest with
    | .error _ => "err"
    | .ok (cs, rest') => s!"ok {src.length - rest'.length} {showCs cs}"
  | _ => "bad-input"

def namedAnswer (sf fold bytes : Bool) (name : String) (tabs : List NamedTable) : String :=
  match namedSet tabs sf name fold bytes with
  | none => "err"
  | some l => "ok " ++ showCs (newCharset l)

def handle (args : List String) : Option String :=
  match args with
  | ["hexval", lax, lo, hi] => do
    let lax ← parseBool? lax; let lo ← parseInt? lo; let hi ← parseInt? hi
    pure (showTable (hexval lax) lo hi)
  | ["octval", lo, hi] => do
    let lo ← parseInt? lo; let hi ← parseInt? hi
    pure (showTable octval lo hi)
  | ["newcs", r] => do pure (showCs (newCharset (← parseCs r)))
  | ["append", r, lo, hi] => do
    pure (showCs (appendRange (← parseCs r) (← parseInt? lo) (← parseInt? hi)))
  | ["invert", b, r] => do pure (showCs (invert (maxRune (← parseBool? b)) (← parseCs r)))
  | ["subtract", a, b] => do pure (showCs (subtract (← parseCs a) (← parseCs b)))
  | ["intersect", a, b] => do pure (showCs (intersect (← parseCs a) (← parseCs b)))
  | ["fold", a, r] => do pure (showCs (Charset.fold UnicodeFold.orbits (← parseBool? a) (← parseCs r)))
  | ["foldtable"] => some (showIntss UnicodeFold.orbits)
  | ["named", sf, fold, bytes, name, tabs] => do
    pure (namedAnswer (← parseBool? sf) (← parseBool? fold) (← parseBool? bytes) name (← parseTabs tabs))
  | ["esc", v, fold, bytes, sa, src, tabs] => do
    pure (escAnswer (← parseVariant v) (← parseBool? fold) (← parseBool? bytes) (← parseBool? sa)
      (← parseHex src) (← parseTabs tabs))
  | ["parse", v, fold, bytes, pat, tabs, go] => do
    pure (verdict (← parseVariant v) (← parseBool? fold) (← parseBool? bytes) (← parseHex pat)
      (← parseTabs tabs) (← parseGoRes go))
  | "judge" :: rest =>
    let (ans, cas) := rest.span (· != "::")
    let cas := cas.drop 1
    match cas with
    | ["hexval", _, lo, hi] => do
      let lo ← parseInt? lo; let hi ← parseInt? hi
      let want := showTable (hexval false) lo hi
      pure (if ans == [want] then "holds" else s!"violates: hexval must be -1 outside [0-9a-fA-F] and the digit value inside; expected {want}")
    | ["octval", lo, hi] => do
      let lo ← parseInt? lo; let hi ← parseInt? hi
      let want := showTable octval lo hi
      pure (if ans == [want] then "holds" else s!"violates: octval; expected {want}")
    | ["newcs", r] => do
      let r ← parseCs r; let a ← parseCs (ans.headD "")
      pure (judgeSet "newCharset" (memB · r) (witnesses [r, a] []) (r.all fun p => p.1 ≤ p.2) a)
    | ["append", r, lo, hi] => do
      let r ← parseCs r; let lo ← parseInt? lo; let hi ← parseInt? hi; let a ← parseCs (ans.headD "")
      pure (judgeSet "appendRange" (fun x => memB x r || (lo ≤ x && x ≤ hi)) (witnesses [r, a] [lo, hi]) false a)
    | ["invert", b, r] => do
      let mx := maxRune (← parseBool? b); let r ← parseCs r; let a ← parseCs (ans.headD "")
      pure (judgeSet "invert" (fun x => 0 ≤ x && x ≤ mx && !memB x r) (witnesses [r, a] [0, mx]) true a)
    | ["subtract", x, y] => do
      let x ← parseCs x; let y ← parseCs y; let a ← parseCs (ans.headD "")
      pure (judgeSet "subtract" (fun r => memB r x && !memB r y) (witnesses [x, y, a] []) true a)
    | ["intersect", x, y] => do
      let x ← parseCs x; let y ← parseCs y; let a ← parseCs (ans.headD "")
      pure (judgeSet "intersect" (fun r => memB r x && memB r y) (witnesses [x, y, a] []) true a)
    | ["fold", asc, r] => do
      let asc ← parseBool? asc; let r ← parseCs r; let a ← parseCs (ans.headD "")
      let want := Charset.fold UnicodeFold.orbits asc r
      pure (judgeSet "fold" (memB · want) (witnesses [want, a] []) true a)
    | ["foldtable"] =>
      some "violates: the embedded SimpleFold table differs from the toolchain's unicode package (regenerate Model/UnicodeFold.lean with tools/genfold)"
    | ["named", _, fold, bytes, name, tabs] => do
      let want := namedAnswer false (← parseBool? fold) (← parseBool? bytes) name (← parseTabs tabs)
      pure (if " ".intercalate ans == want then "holds" else s!"violates: the named set {name} must be {want}")
    | ["esc", _, fold, bytes, sa, src, tabs] => do
      let want := escAnswer Variant.strict (← parseBool? fold) (← parseBool? bytes) (← parseBool? sa)
        (← parseHex src) (← parseTabs tabs)
      pure (if " ".intercalate ans == want then "holds" else s!"violates: the escape must decode to `{want}`")
    | ["parse", _, fold, bytes, pat, tabs, go] => do
      let want := verdict Variant.strict (← parseBool? fold) (← parseBool? bytes) (← parseHex pat)
        (← parseTabs tabs) (← parseGoRes go)
      pure (if want == "ok" || want == "err" then "holds" else "violates: " ++ want)
    | _ => none
  | _ => none

end TmVerif.DriverC10
