/-
C03, exactness from above: the lookahead sets of `LRRef.laFix` are not only closed under the LALR(1)
propagation rules (`laClosed`) but also no larger than any closed assignment.

(This continues `Model/LRRef.lean`, in the same namespace; it is a separate file only so that the many
modules depending on `LRRef` do not rebuild.)

* `Nullable`, `First`: the grammar's nullable symbols and FIRST sets, defined INDUCTIVELY (the
  specification side: least by definition).
* `LASolution g t dom L`: `L : state → item → terminal mask` satisfies the LALR(1) propagation
  equations on the automaton of `t` with item sets `dom`, stated with `Nullable`/`First`.
* `Just`: a justification certificate. For every (state `s`, item `it`, terminal `a`) with bit `a`
  of `laGet la s it` set it records a RANK and a REASON (`init`, `first src`, `closure src`,
  `goto s' src`); a reason that relies on another bit names one of strictly smaller rank.
  `laJustify` (untrusted) recomputes the propagation with book-keeping; `justOk` (declarative, all
  quantifiers finite ranges) checks the certificate. `C03_la_least` (Props/C03.lean): `justOk`
  implies `la ≤ L` for every `LASolution` `L`, by induction on the rank.
* `nfClosed`, `laInitOk`: the remaining decidable premises of `C03_la_exact` (computed
  nullable/FIRST are closed under the rules, hence contain the inductive ones; the start items of
  no-eoi inputs carry all terminals).
-/
import TmVerif.Model.LRRef
namespace TmVerif.LRRef
open TmVerif.CFG TmVerif.LR

/-! ### specification: nullable and FIRST, inductively -/

/-- `X ⇒* ε` -/
inductive Nullable (g : Grammar) : Nat → Prop
  | rule (r : Rule) : r ∈ g.rules.toList → (∀ s ∈ r.rhs, Nullable g s) → Nullable g r.lhs

/-- every symbol of `α` is nullable -/
def NullableSeq (g : Grammar) (α : List Nat) : Prop := ∀ s ∈ α, Nullable g s

/-- `First g α a`: terminal `a ∈ FIRST(α)` (`FIRST(X)` is `First g [X]`). -/
inductive First (g : Grammar) : List Nat → Nat → Prop
  | term (a : Nat) (α : List Nat) : a < g.nTerms → First g (a :: α) a
  | rule (r : Rule) (α : List Nat) (a : Nat) : r ∈ g.rules.toList → First g r.rhs a →
      First g (r.lhs :: α) a
  | skip (X : Nat) (α : List Nat) (a : Nat) : Nullable g X → First g α a → First g (X :: α) a

/-- the items of state `s` in an assignment -/
def laDom (la : LA) (s : Nat) : List Item := (la.getD s []).map (·.1)

/-- The LALR(1) propagation equations (as inclusions) on the automaton of `t` whose state `s` has
the items `dom s`; sets of terminals are bit masks.
* `init`: the start item of a no-eoi input may be followed by any terminal;
* `goto`: moving the dot over `x` along the transition `s -x-> q` keeps the set;
* `first`/`null`: `[A → α . x β, M]` with `x` a nonterminal gives every `x → . γ` of the same state
  the set `FIRST(β) ∪ (M if β ⇒* ε)`. -/
structure LASolution (g : Grammar) (t : Tables) (dom : Nat → List Item) (L : Nat → Item → Nat) :
    Prop where
  init : ∀ i inp, g.inputs[i]? = some inp → inp.eoi = false → ∀ a, a < g.nTerms →
    (L i (g.rules.size + i, 0)).testBit a = true
  goto : ∀ s it x (q : Nat), it ∈ dom s → (rhsOf g it.1)[it.2]? = some x →
    gotoState t s x = some (q : Int) →
    ∀ a, (L s it).testBit a = true → (L q (it.1, it.2 + 1)).testBit a = true
  first : ∀ s it x r rule, it ∈ dom s → (rhsOf g it.1)[it.2]? = some x → g.nTerms ≤ x →
    g.rules[r]? = some rule → rule.lhs = x →
    ∀ a, First g ((rhsOf g it.1).drop (it.2 + 1)) a → (L s (r, 0)).testBit a = true
  null : ∀ s it x r rule, it ∈ dom s → (rhsOf g it.1)[it.2]? = some x → g.nTerms ≤ x →
    g.rules[r]? = some rule → rule.lhs = x →
    NullableSeq g ((rhsOf g it.1).drop (it.2 + 1)) →
    ∀ a, (L s it).testBit a = true → (L s (r, 0)).testBit a = true

/-! ### justification certificate -/

inductive Reason where
  /-- start item of a no-eoi input in its entry state: all terminals -/
  | init
  /-- closure step from `src` (same state), `a ∈ FIRST(β)` -/
  | first (src : Item)
  /-- closure step from `src` (same state), `β` nullable and `a` in the set of `src` -/
  | closure (src : Item)
  /-- `src` of state `s'` with the dot advanced along the transition into this state -/
  | goto (s' : Nat) (src : Item)
deriving Repr, DecidableEq, Inhabited

structure JEntry where
  rank : Nat := 0
  reason : Reason := .init
deriving Repr, DecidableEq, Inhabited

/-- per state, per item, per terminal -/
abbrev Just := Array (List (Item × Array JEntry))

def jGet (j : Just) (s : Nat) (it : Item) (a : Nat) : JEntry :=
  match (j.getD s []).find? (fun p => p.1 == it) with
  | some p => p.2.getD a {}
  | none => {}

/-- `it` is an initial item of the nonterminal after the dot of `src`; returns what follows it -/
def closureStep (g : Grammar) (src it : Item) : Option (List Nat) :=
  match (rhsOf g src.1)[src.2]? with
  | some x =>
    if g.nTerms ≤ x && it.2 == 0 && (rulesOf g x).contains it.1 then
      some ((rhsOf g src.1).drop (src.2 + 1))
    else none
  | none => none

/-- is `e` a valid justification of "bit `a` of `laGet la s it`"? -/
def entryOk (g : Grammar) (t : Tables) (nl : List Nat) (first : Array Nat) (la : LA) (just : Just)
    (s : Nat) (it : Item) (a : Nat) (e : JEntry) : Bool :=
  match e.reason with
  | .init =>
    it.2 == 0 && decide (g.rules.size ≤ it.1) && s == it.1 - g.rules.size && decide (a < g.nTerms) &&
    (match g.inputs[s]? with
     | some inp => !inp.eoi
     | none => false)
  | .first src =>
    (laDom la s).contains src &&
    (match closureStep g src it with
     | some beta => (firstOfSeq g nl first beta).testBit a
     | none => false)
  | .closure src =>
    (match closureStep g src it with
     | some beta => seqNullable nl beta && (laGet la s src).testBit a &&
        decide ((jGet just s src a).rank < e.rank)
     | none => false)
  | .goto s' src =>
    it == (src.1, src.2 + 1) &&
    (match (rhsOf g src.1)[src.2]? with
     | some x => gotoState t s' x == some (s : Int) && (laGet la s' src).testBit a &&
        decide ((jGet just s' src a).rank < e.rank)
     | none => false)

/-- every set bit of every lookahead set is justified, and no set has bits beyond the terminals -/
def justOk (g : Grammar) (t : Tables) (la : LA) (just : Just) : Bool :=
  let nl := nullable g
  let first := firstSets g nl
  (List.range la.size).all fun s => (la.getD s []).all fun p =>
    let m := laGet la s p.1
    decide (m < 2 ^ g.nTerms) &&
    (List.range g.nTerms).all fun a =>
      !m.testBit a || entryOk g t nl first la just s p.1 a (jGet just s p.1 a)

/-! ### the other premises of exactness -/

/-- the computed nullable list and FIRST sets are closed under the rules -/
def nfClosed (g : Grammar) : Bool :=
  let nl := nullable g
  let first := firstSets g nl
  g.rules.toList.all fun r =>
    (!seqNullable nl r.rhs || nl.contains r.lhs) &&
    subMask (firstOfSeq g nl first r.rhs) (first.getD r.lhs 0)

/-- the start item of every no-eoi input carries all terminals in its entry state -/
def laInitOk (g : Grammar) (la : LA) : Bool :=
  (List.range g.inputs.size).all fun i =>
    match g.inputs[i]? with
    | some inp => inp.eoi || subMask (allTerms g) (laGet la i (g.rules.size + i, 0))
    | none => true

/-! ### computing the certificate (untrusted): the propagation of `laRound` with book-keeping -/

structure JState where
  la : LA
  just : Just
  tick : Nat
  changed : Bool

/-- `a &&& ¬b` -/
def maskDiff (a b : Nat) : Nat := a ^^^ (a &&& b)

def jRecord (just : Just) (nT : Nat) (q : Nat) (tgt : Item) (bits : Nat) (e : JEntry) : Just :=
  if bits == 0 then just else
  just.modify q fun l => l.map fun p =>
    if p.1 == tgt then
      (p.1, (List.range nT).foldl (fun arr a => if bits.testBit a then arr.setIfInBounds a e else arr) p.2)
    else p

/-- add `mF` (reason `rF`) and `mP` (reason `rP`) to the set of `tgt` in state `q`; only bits that
are new are recorded, with the current tick as rank -/
def jPush (g : Grammar) (st : JState) (q : Nat) (tgt : Item) (mF : Nat) (rF : Reason) (mP : Nat)
    (rP : Reason) : JState :=
  let cur := laGet st.la q tgt
  let newF := maskDiff mF cur
  let newP := maskDiff (maskDiff mP cur) newF
  if newF == 0 && newP == 0 then st else
  let just := jRecord st.just g.nTerms q tgt newF { rank := st.tick, reason := rF }
  let just := jRecord just g.nTerms q tgt newP { rank := st.tick, reason := rP }
  { st with la := laAdd st.la q tgt (newF ||| newP), just := just, changed := true }

def jRound (g : Grammar) (t : Tables) (nl : List Nat) (first : Array Nat) (st : JState) : JState := Id.run do
  let mut st := { st with changed := false }
  for s in List.range st.la.size do
    for (it, _) in st.la.getD s [] do
      -- everything set before this point has a rank below the new tick
      st := { st with tick := st.tick + 1 }
      let m := laGet st.la s it
      let rhs := rhsOf g it.1
      match rhs[it.2]? with
      | none => pure ()
      | some x =>
        match gotoState t s x with
        | some q => if q ≥ 0 then st := jPush g st q.toNat (it.1, it.2 + 1) 0 .init m (.goto s it)
        | none => pure ()
        if x ≥ g.nTerms then
          let beta := rhs.drop (it.2 + 1)
          let f := firstOfSeq g nl first beta
          let p := if seqNullable nl beta then m else 0
          for r in rulesOf g x do
            st := jPush g st s (r, 0) f (.first it) p (.closure it)
  return st

def jFuel (g : Grammar) (t : Tables) (nl : List Nat) (first : Array Nat) : Nat → JState → JState
  | 0, st => st
  | k + 1, st =>
    let st' := jRound g t nl first st
    if st'.changed then jFuel g t nl first k st' else st'

/-- Re-run the propagation from `laInit` recording when and why every bit appeared; `none` when
the result is not `la`. (Untrusted: `justOk` checks the answer.) -/
def laJustify (g : Grammar) (t : Tables) (phi : Phi) (la : LA) : Option Just :=
  let nl := nullable g
  let first := firstSets g nl
  let la0 := laInit g phi
  let j0 : Just := la0.map fun l => l.map fun p => (p.1, Array.replicate g.nTerms {})
  let st := jFuel g t nl first (phi.kernel.size * (g.nTerms + 2) * 4 + 16)
    { la := la0, just := j0, tick := 0, changed := false }
  if st.la == la then some st.just else none

end TmVerif.LRRef
