import TmVerif.Model.DriverC03
/- C04 uses the same comparison as C03 (`lalr1 …`): the reference's `resolvePrec` / `cellAddRule`
are the documented precedence rules (theorems in Props/C04.lean). -/
namespace TmVerif.DriverC04
def handle (args : List String) : Option String := TmVerif.DriverC03.handle args
end TmVerif.DriverC04
