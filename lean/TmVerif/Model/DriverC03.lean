import TmVerif.Model.LRProto
import TmVerif.Model.LRRef
import TmVerif.Model.LRJust
import TmVerif.Model.LR1Merge
namespace TmVerif.DriverC03
open TmVerif.Proto TmVerif.LR TmVerif.LRRef TmVerif.CFG

def showCell : Cell → String
  | .shift => "shift"
  | .reduce r => s!"reduce{r}"
  | .errExplicit => "error(nonassoc)"
  | .err => "error"

/-- bound on the number of canonical LR(1) states for the definitional cross-check -/
def lr1Limit : Nat := 400

/-- Compare the real tables with the reference LALR(1) construction; `ok sr rr` or the first
difference. -/
def compare (g : Grammar) (t : Tables) : Except String (Nat × Nat) := do
  if !g.wf then throw "grammar not well-formed"
  let phi ← phiWalk g t
  let la := laFix g t phi
  if !laClosed g t la then throw "lookahead fixpoint not reached"
  -- exactness from above (C03_la_exact): nullable/FIRST closed, start sets present, and every bit of
  -- every set justified by a ranked derivation
  if !nfClosed g then throw "nullable/FIRST fixpoint not reached"
  if !laInitOk g la then throw "lookahead justification: a no-eoi start item lacks the full terminal set"
  match laJustify g t phi la with
  | none => throw "lookahead justification could not be computed (instrumented propagation differs from laFix)"
  | some just => if !justOk g t la just then throw "lookahead justification rejected: a terminal of a computed lookahead set has no ranked derivation (the sets are not certified least)"
  -- specification cross-check: canonical LR(1) merged by core (small collections only)
  match LR1Merge.crossCheck g phi la lr1Limit with
  | .differ m => throw m
  | _ => pure ()
  let mut sr := 0
  let mut rr := 0
  for s in List.range t.nStates do
    let e := expectedState g t la s
    let some action := geti t.action s | throw s!"no action for state {s}"
    if e.lr0 && (e.reduces.isEmpty || action ≥ -2) then
      -- lookahead-free state: a single reduction, or shift/error decided by the goto table.
      -- (A table that consults the lookahead in a single-reduction state is compared cell by cell
      -- below: it is still the canonical LALR(1) action table, it merely reports an error before
      -- instead of after the reduction, at the same token.)
      match e.reduces with
      | r :: _ =>
        if action ≠ r then throw s!"state {s}: lookahead-free state must reduce rule {r}, tables have action {action}"
      | [] =>
        if action ≠ -1 ∧ action ≠ -2 then throw s!"state {s}: state without reductions has action {action}"
        if action = -2 ∧ (List.range g.nTerms).any (fun a => e.cells.getD a .err == .shift) then
          throw s!"state {s}: error action in a state with terminal transitions"
    else
      if action ≥ -2 then throw s!"state {s}: needs lookahead ({e.reduces.length} reductions) but tables have action {action}"
      sr := sr + e.sr
      rr := rr + e.rr
      for a in List.range g.nTerms do
        let want := e.cells.getD a .err
        match decodeCell t s a with
        | none => throw s!"state {s} terminal {a}: cell cannot be decoded"
        | some got =>
          if got ≠ want then
            throw s!"state {s} terminal {a}: canonical LALR(1) action is {showCell want}, tables have {showCell got}"
  return (sr, rr)

def verdict (g : Grammar) (t : Tables) (sr rr : Nat) (haserr : Bool) (esr err : Nat) : String :=
  match compare g t with
  | .error e => s!"mismatch {e}"
  | .ok (sr', rr') =>
    if sr' ≠ sr ∨ rr' ≠ rr then s!"mismatch conflict counts: canonical {sr'} shift/reduce {rr'} reduce/reduce, reported {sr}/{rr}"
    else if haserr ≠ (sr' ≠ esr || rr' ≠ err) then s!"mismatch conflict error raised={haserr} but counts {sr'}/{rr'} vs expected {esr}/{err}"
    else "ok"

/-- `lalr1 <grammar 6> <tables 9> sr rr haserr expectSR expectRR` → `ok` when tables, conflict counts
and the error verdict all coincide with the reference. -/
def handle (args : List String) : Option String :=
  match args with
  | "lalr1" :: rest => do
    let (g, t, rest) ← parseGrammarTables rest
    match rest with
    | [sr, rr, haserr, esr, err] =>
      let sr ← parseNat? sr; let rr ← parseNat? rr; let haserr ← parseBool? haserr
      let esr ← parseNat? esr; let err ← parseNat? err
      some (verdict g t sr rr haserr esr err)
    | _ => none
  | "lr1merge" :: rest => do
    -- diagnostic (not used by the harness): outcome of the LR(1)-merge cross-check on a `lalr1` case
    let (g, t, _) ← parseGrammarTables rest
    match phiWalk g t with
    | .error _ => some "nophi"
    | .ok phi =>
      match LR1Merge.crossCheck g phi (laFix g t phi) lr1Limit with
      | .agree n => some s!"agree {n} {t.nStates}"
      | .skipped => some s!"skipped {t.nStates}"
      | .degenerate => some s!"degenerate {t.nStates}"
      | .differ m => some s!"differ {m}"
  | "judge" :: _ :: "::" :: "lalr1" :: rest => do
    -- the reference is the specification: a mismatch is a violation on this grammar
    let (g, t, rest) ← parseGrammarTables rest
    match rest with
    | [sr, rr, haserr, esr, err] =>
      let sr ← parseNat? sr; let rr ← parseNat? rr; let haserr ← parseBool? haserr
      let esr ← parseNat? esr; let err ← parseNat? err
      let v := verdict g t sr rr haserr esr err
      some (if v == "ok" then "holds" else s!"violates: {v}")
    | _ => none
  | _ => none

end TmVerif.DriverC03
