/-
Shared "sentences" check: run the runtime model (`Model/LR.lean`) on real tables for token strings
whose membership (and first error position) was computed by the harness' brute-force recogniser.
This is the SEARCH for a concrete failing input used by C01/C07 — not a proof.
-/
import TmVerif.Model.LRProto
namespace TmVerif.LRAccept
open TmVerif.Proto TmVerif.LR

def mkInput (toks : List Nat) : Input :=
  { toks := (toks.zipIdx.map fun (s, i) => (⟨s, i, i + 1⟩ : Tok)).toArray, endOff := toks.length }

/-- `toks:exp` where exp = `A` (accepted, all tokens consumed), `P<n>` (no-eoi input: accepted after
consuming exactly n tokens is fine for any n with that prefix a sentence — the harness passes the
set of acceptable n as `P<n1>/<n2>…`), `E<k>` (syntax error located at token index k). -/
def checkOne (t : Tables) (input : Nat) (spec : String) : Option String :=
  match spec.splitOn ":" with
  | [ts, exp] => do
    let toks ← parseNats ts
    let inp := mkInput toks
    let (res, c) := run t inp input (20 * (toks.length + 2) * (t.nStates + 2) + 100)
    let shifted := (c.evs.filter fun e => match e with | .shift s _ _ => s ≠ 0 | _ => false).length
    let got : String := match res with
      | .accept => s!"A{shifted}"
      | .syntaxError off _ => s!"E{off}"
      | .panic => "panic"
      | .fuel => "loop"
    let ok : Bool :=
      if exp.startsWith "A" then got == s!"A{toks.length}"
      else if exp.startsWith "P" then
        ((exp.drop 1).toString.splitOn "/").any fun n => got == s!"A{n}"
      else if exp == "E*" then got.startsWith "E"
      else got == exp
    if ok then none else some s!"tokens {ts}: expected {exp}, parser model gives {got}"
  | _ => some s!"bad spec {spec}"

def checkAll (t : Tables) (input : Nat) (specs : List String) : Option String :=
  specs.findSome? (checkOne t input)

end TmVerif.LRAccept
