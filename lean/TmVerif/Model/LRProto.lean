/- Protocol parsing of `lalr.Tables` (shared by the LR drivers). -/
import TmVerif.Model.LR
import TmVerif.Model.CFG
namespace TmVerif.LR
open TmVerif.Proto

def parseArr (s : String) : Option (Array Int) := (parseInts s).map (·.toArray)

/-- 8 tokens: `nTerms action lalr goto fromTo ruleLen ruleSymbol finalStates`, then either `noopt`
or `opt defGoto goto defAct action base table check` (8 more). Returns the rest of the tokens. -/
def parseTables (toks : List String) : Option (Tables × List String) :=
  match toks with
  | nt :: a :: l :: g :: ft :: rl :: rs :: fs :: rest => do
    let nt ← parseNat? nt
    let t : Tables := {
      nTerms := nt, action := ← parseArr a, lalr := ← parseArr l, goto_ := ← parseArr g,
      fromTo := ← parseArr ft, ruleLen := ← parseArr rl, ruleSymbol := ← parseArr rs,
      finalStates := ← parseArr fs }
    match rest with
    | "noopt" :: rest => pure (t, rest)
    | "opt" :: dg :: og :: da :: oa :: base :: tb :: ck :: rest =>
      let t := { t with
        oDefGoto := ← parseArr dg, oGoto := ← parseArr og, oDefAct := ← parseArr da,
        oAction := ← parseArr oa, oBase := ← parseInt? base, oTable := ← parseArr tb,
        oCheck := ← parseArr ck }
      pure (t, rest)
    | _ => none
  | _ => none

def parseGrammarTables (toks : List String) : Option (CFG.Grammar × Tables × List String) := do
  let g ← CFG.parseGrammar (toks.take 6)
  let (t, rest) ← parseTables (toks.drop 6)
  pure (g, t, rest)

end TmVerif.LR
