/-
C03, cross-check of the SPECIFICATION: LALR(1) by the textbook definition "canonical LR(1) collection,
states with equal LR(0) cores merged", computed independently of the propagation in `LRRef.laFix`.

* LR(1) items are triples `(rule, dot, terminal)`; a set of them is stored grouped by core:
  `(item, mask)` stands for the items `(item, a)`, `a ∈ mask`. (An entry with an EMPTY mask stands for
  no LR(1) item at all; it is kept only to recognise the degenerate grammars described at
  `degenerate`, and contributes nothing to closures.)
* `closure1`: `[A → α . X β, a]` adds `[X → . γ, b]` for every rule `X → γ` and `b ∈ FIRST(β a)`.
* `goto1`: the kernel reached over a symbol (lookaheads unchanged); states are identified by kernel
  INCLUDING lookaheads, so this is the canonical LR(1) collection, not LALR.
* start items: `[S'_i → . S_i, a]` for every terminal `a` (no-eoi input), and for an eoi input
  `[S'_i → . S_i $, #]` where the end marker is part of the augmented rule (as in `LRRef.rhsOf`) and
  `#` (bit `g.nTerms`, not a terminal) stands for "nothing relevant follows"; `#` is stripped
  before comparing.
* `mergeCheck`: for every table state `s`, the union of the LR(1) states whose core is the kernel
  `phiWalk` assigned to `s` must equal `laFix`'s sets, item by item; every LR(1) state must have the
  kernel of exactly one table state.

This ties the propagation DEFINITION of LALR(1) used by C01/C03/C04 to the textbook "LR(1) merged by
core" definition by per-grammar comparison only (on every sampled grammar whose LR(1) collection is
small enough); the equivalence of the two definitions is not a theorem here. Shared with the
reference: `rhsOf`, `rulesOf`, `nullable`, `firstSets` (the latter two are exact: `C03_nullable_exact`,
`C03_first_exact`).
-/
import TmVerif.Model.LRRef
namespace TmVerif.LR1Merge
open TmVerif.CFG TmVerif.LR TmVerif.LRRef

abbrev LItem := Item × Nat
/-- a set of LR(1) items, sorted by core, one entry per core -/
abbrev LSet := List LItem

def addMask (x : Item) (m : Nat) : LSet → LSet
  | [] => [(x, m)]
  | y :: ys =>
    if x == y.1 then (y.1, y.2 ||| m) :: ys
    else if itemLt x y.1 then (x, m) :: y :: ys
    else y :: addMask x m ys

def getMask (l : LSet) (x : Item) : Nat :=
  match l.find? (fun p => p.1 == x) with
  | some p => p.2
  | none => 0

def union (a b : LSet) : LSet := b.foldl (fun acc p => addMask p.1 p.2 acc) a

/-- `FIRST(β a)` for a lookahead `a` (a terminal or the pseudo-terminal `#`) -/
def firstBetaA (g : Grammar) (nl : List Nat) (first : Array Nat) (beta : List Nat) (a : Nat) : Nat :=
  firstOfSeq g nl first beta ||| (if seqNullable nl beta then 1 <<< a else 0)

/-- one pass of the closure rule over all items present -/
def closureRound1 (g : Grammar) (nl : List Nat) (first : Array Nat) (items : LSet) : LSet :=
  items.foldl (fun acc p =>
    let it := p.1
    match symAfterDot g it with
    | some x =>
      if x ≥ g.nTerms then
        let beta := (rhsOf g it.1).drop (it.2 + 1)
        let m := getMask acc it
        -- ⋃ over the lookaheads `a` of the item (terminals and `#`)
        let c := (List.range (g.nTerms + 1)).foldl
          (fun c a => if m.testBit a then c ||| firstBetaA g nl first beta a else c) 0
        (rulesOf g x).foldl (fun acc r => addMask (r, 0) c acc) acc
      else acc
    | none => acc) items

def closureFuel1 (g : Grammar) (nl : List Nat) (first : Array Nat) : Nat → LSet → LSet
  | 0, items => items
  | n + 1, items =>
    let items' := closureRound1 g nl first items
    if items' == items then items else closureFuel1 g nl first n items'

def closure1 (g : Grammar) (nl : List Nat) (first : Array Nat) (k : LSet) : LSet :=
  closureFuel1 g nl first ((g.nSyms + 1) * (g.nTerms + 2) + 4) (union [] k)

def goto1 (g : Grammar) (items : LSet) (x : Nat) : LSet :=
  (items.filter fun p => symAfterDot g p.1 == some x).map fun p => ((p.1.1, p.1.2 + 1), p.2)

structure LR1State where
  kernel : LSet
  items : LSet
deriving Repr, Inhabited

/-- the canonical LR(1) collection, or `none` when it has more than `limit` states -/
def build (g : Grammar) (limit : Nat) : Option (Array LR1State) := Id.run do
  let nl := nullable g
  let first := firstSets g nl
  let mk (k : LSet) : LR1State := { kernel := k, items := closure1 g nl first k }
  let mut states : Array LR1State := #[]
  for i in List.range g.inputs.size do
    match g.inputs[i]? with
    | some inp =>
      states := states.push (mk [((g.rules.size + i, 0), if inp.eoi then 1 <<< g.nTerms else allTerms g)])
    | none => pure ()
  let mut i := 0
  for _ in List.range (limit + 1) do
    if i < states.size then
      let st := states.getD i default
      for x in List.range g.nSyms do
        let k := goto1 g st.items x
        if !k.isEmpty && !(states.any fun q => q.kernel == k) then
          states := states.push (mk k)
      if states.size > limit then return none
      i := i + 1
  if i < states.size then none else some states

def sortItems (k : List Item) : List Item := k.foldl (fun a it => insertItem it a) []

/-- Does some LR(1) state hold an item with an EMPTY lookahead set? Only with symbols that derive no
terminal string (`FIRST(β a) = ∅`): the textbook closure then does not add the item at all, whereas
every LR(0)-based definition (the propagation of `laFix`, DeRemer–Pennello, `lalr.Compile`) keeps it
and lets it contribute `FIRST` of what follows its dot. On such grammars the two definitions differ
(on unreachable configurations only) and just `merged ⊆ propagated` is compared. -/
def degenerate (states : Array LR1State) : Bool :=
  states.any fun q => q.items.any fun p => p.2 == 0

/-- `none` = agreement; `some msg` = first difference. `strict = false`: inclusion only. -/
def mergeCheck (g : Grammar) (phi : Phi) (la : LA) (states : Array LR1State) (strict : Bool) :
    Option String := Id.run do
  let strip (m : Nat) : Nat := m &&& allTerms g
  let mut matched := 0
  for s in List.range la.size do
    let k := sortItems ((phi.kernel.getD s none).getD [])
    let same := states.toList.filter fun q => q.kernel.map (·.1) == k
    matched := matched + same.length
    if same.isEmpty then return some s!"LR(1)-merge has no state with the kernel of state {s}"
    let merged := same.foldl (fun acc q => union acc q.items) []
    let mine := la.getD s []
    for p in mine do
      if (strict && strip (getMask merged p.1) ≠ p.2) || !subMask (strip (getMask merged p.1)) p.2 then
        return some s!"LR(1)-merge disagrees with propagation at state {s} item ({p.1.1},{p.1.2}): merged {strip (getMask merged p.1)}, propagated {p.2}"
    for p in merged do
      if !(mine.any fun p' => p'.1 == p.1) then
        return some s!"LR(1)-merge disagrees with propagation at state {s} item ({p.1.1},{p.1.2}): not an item of the LR(0) state"
  if matched ≠ states.size then
    return some s!"LR(1)-merge has {states.size} states but only {matched} have the kernel of a table state"
  return none

inductive Outcome where
  | agree (lr1States : Nat)
  | skipped
  | degenerate
  | differ (msg : String)
deriving Repr, Inhabited

def crossCheck (g : Grammar) (phi : Phi) (la : LA) (limit : Nat) : Outcome :=
  match build g limit with
  | none => .skipped
  | some states =>
    let strict := !degenerate states
    match mergeCheck g phi la states strict with
    | none => if strict then .agree states.size else .degenerate
    | some m => .differ m

end TmVerif.LR1Merge
