/-
C22 — position arithmetic of diagnostics (Mode M). Core Lean only.

Hand mirror of

* `parsers/tm/ast/tree.go`: `lineOffsets` (offsets of the line starts of a text) and `Node.LineColumn`
  (1-based line and 1-based BYTE column of a byte offset), which `Node.SourceRange`
  (`parsers/tm/ast/tree_ext.go`) puts into every `status.SourceRange` taken from a syntax node;
* `compiler/lexer.go: parsePattern`: the translation of a `lex.ParseError` (offsets relative to the
  pattern text between the slashes) into a range of the grammar file (`mapRegexError`).

A text is a `List Nat` of bytes (as in `Model/Proto.parseHex`), offsets are `Nat`; the range arithmetic
of `parsePattern` is over `Int` because Go's `int` subtraction is not truncated.
-/
namespace TmVerif.SourcePos

/-- Offsets just after every `'\n'` of `bs`, the first byte of `bs` having offset `base`.
Go: the loop of `lineOffsets` (`i := strings.IndexByte(str[off:], '\n'); off += i + 1; append`). -/
def lineOffsetsFrom : List Nat → Nat → List Nat
  | [], _ => []
  | b :: rest, base =>
    if b = 10 then (base + 1) :: lineOffsetsFrom rest (base + 1) else lineOffsetsFrom rest (base + 1)

/-- `lineOffsets(str)`: `lines[0] = 0`, then one entry per newline. -/
def lineOffsets (bs : List Nat) : List Nat := 0 :: lineOffsetsFrom bs 0

/-- `sort.Search(len(lines), func(i) bool { return lines[i] > offset })`: the least index whose entry
exceeds `offset`, `len(lines)` when there is none (what the binary search returns for a sorted slice;
`lineOffsets` is strictly increasing, see `Proofs/SourcePos.lineOffsets_sorted`). -/
def searchGT (lines : List Nat) (offset : Nat) : Nat := lines.findIdx (fun x => decide (x > offset))

/-- `Node.LineColumn` given `tree.lines` and `n.offset`:
`line := sort.Search(...) - 1; return line + 1, offset - lines[line] + 1`. -/
def lineColOf (lines : List Nat) (offset : Nat) : Nat × Nat :=
  let line := searchGT lines offset - 1
  (line + 1, offset - lines.getD line 0 + 1)

/-- (line, column) reported for byte offset `offset` of the text `bs`. -/
def lineCol (bs : List Nat) (offset : Nat) : Nat × Nat := lineColOf (lineOffsets bs) offset

/-- Start offset of the 1-based line `line` (`tree.lines[line-1]`). -/
def lineStart (bs : List Nat) (line : Nat) : Nat := (lineOffsets bs).getD (line - 1) 0

/-- `status.SourceRange` without the file name. -/
structure SrcRange where
  offset : Int
  endOffset : Int
  line : Int
  column : Int
  deriving DecidableEq, Repr, Inhabited

/-- `parsePattern`'s error branch. `rng` is `p.SourceRange()` of the pattern literal `/text/`,
`textLen = len(text)` (the literal without its two slashes), `errOff`/`errEnd` the offsets of the
`lex.ParseError` inside `text`:

    if err.Offset <= err.EndOffset && err.EndOffset <= len(text) && err.Offset < len(text) {
        if err.Offset < err.EndOffset { rng.EndOffset = rng.Offset + err.EndOffset + 1 } else { rng.EndOffset-- }
        rng.Offset += err.Offset + 1
        rng.Column += err.Offset + 1
    }
-/
def mapRegexError (rng : SrcRange) (textLen errOff errEnd : Int) : SrcRange :=
  if errOff ≤ errEnd ∧ errEnd ≤ textLen ∧ errOff < textLen then
    { offset := rng.offset + (errOff + 1)
      endOffset := if errOff < errEnd then rng.offset + errEnd + 1 else rng.endOffset - 1
      line := rng.line
      column := rng.column + (errOff + 1) }
  else rng

/-- Independent recomputation used by the driver's `judge`: line = 1 + number of newlines among the first
`offset` bytes, column = 1 + number of bytes after the last of them. -/
def lineColSpec (bs : List Nat) (offset : Nat) : Nat × Nat :=
  let pre := bs.take offset
  (1 + pre.count 10, 1 + (pre.reverse.takeWhile (fun b => b != 10)).length)

/-! ## Mirrored guards of crash sites (C22 Mode F, sites classified `discharged`) -/

/-- Outcome of the part of `lalr/optimize.go: pack` that precedes the table allocation. -/
inductive PackPrefix
  | indexPanic      -- `l.pairs[0]` on an empty line: run-time panic (index out of range) in the first loop
  | fatalEmptyLine  -- `log.Fatal("internal invariant violated: empty line")`
  | proceeds
  deriving DecidableEq, Repr

/-- The first loop of `pack` evaluates `l.pairs[0].pos` for every input line. -/
def packFirstLoopPanics (lineLens : List Nat) : Bool := lineLens.any (· == 0)

/-- `pack` up to the guarded `log.Fatal`: `lineLens` are the lengths of the `pairs` of the input lines,
`order` the order in which `sort.SliceStable` leaves them (any list with the same members). -/
def packPrefix (lineLens order : List Nat) : PackPrefix :=
  if packFirstLoopPanics lineLens then .indexPanic
  else if order.any (· == 0) then .fatalEmptyLine
  else .proceeds

/-- `compiler/lexer.go: addDefaultAction` as a state machine over the keys of `c.codeRule` that have
`code == ""`, `space == false` (the only keys it reads or writes): returns `true` when the
`log.Fatal("internal error")` fires during the given calls. -/
def addDefaultActionFires : List Nat → List Nat → Bool
  | _, [] => false
  | keys, sym :: rest =>
    if keys.contains sym then true
    else addDefaultActionFires (if sym = 0 then sym :: keys else keys) rest

/-- `resolver.addToken` restricted to what matters here: index of `name`, appended when new. -/
def addToken (names : List String) (name : String) : List String × Nat :=
  match names.idxOf? name with
  | some i => (names, i)
  | none => (names ++ [name], names.length)

/-- The two calls of `lexerCompiler.compile` on the fresh resolver of `compiler.Compile`:
`eoi := addToken("eoi")`, `InvalidToken = addToken("invalid_token")`, then
`addDefaultAction(InvalidToken); addDefaultAction(eoi)`. -/
def compileDefaultActionSyms : List Nat :=
  let (n1, eoi) := addToken [] "eoi"
  let (_, inv) := addToken n1 "invalid_token"
  [inv, eoi]

end TmVerif.SourcePos
