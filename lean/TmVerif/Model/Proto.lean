/-
Line protocol helpers shared by all drivers (core only).
A case is one line: `op arg arg ...`; list arguments are comma separated integers, `-` is the
empty list; `;` separates rows of a list of lists (`-` rows empty), `_` is the empty list of lists.
-/
namespace TmVerif.Proto

def parseInt? (s : String) : Option Int := s.toInt?

def parseNat? (s : String) : Option Nat := s.toNat?

def parseInts (s : String) : Option (List Int) :=
  if s == "-" then some [] else (s.splitOn ",").mapM parseInt?

def parseNats (s : String) : Option (List Nat) :=
  if s == "-" then some [] else (s.splitOn ",").mapM parseNat?

def parseIntss (s : String) : Option (List (List Int)) :=
  if s == "_" then some [] else (s.splitOn ";").mapM parseInts

def parseNatss (s : String) : Option (List (List Nat)) :=
  if s == "_" then some [] else (s.splitOn ";").mapM parseNats

def parseBool? (s : String) : Option Bool :=
  if s == "1" || s == "true" then some true
  else if s == "0" || s == "false" then some false else none

def showInts (l : List Int) : String :=
  if l.isEmpty then "-" else ",".intercalate (l.map toString)

def showNats (l : List Nat) : String :=
  if l.isEmpty then "-" else ",".intercalate (l.map toString)

def showIntss (l : List (List Int)) : String :=
  if l.isEmpty then "_" else ";".intercalate (l.map showInts)

def showNatss (l : List (List Nat)) : String :=
  if l.isEmpty then "_" else ";".intercalate (l.map showNats)

def showBool (b : Bool) : String := if b then "1" else "0"

/-- hex string → bytes -/
def hexDigit? (c : Char) : Option Nat :=
  if '0' ≤ c ∧ c ≤ '9' then some (c.toNat - '0'.toNat)
  else if 'a' ≤ c ∧ c ≤ 'f' then some (c.toNat - 'a'.toNat + 10)
  else if 'A' ≤ c ∧ c ≤ 'F' then some (c.toNat - 'A'.toNat + 10)
  else none

def parseHexAux : List Char → Option (List Nat)
  | [] => some []
  | [_] => none
  | a :: b :: rest => do
    let x ← hexDigit? a
    let y ← hexDigit? b
    let r ← parseHexAux rest
    pure ((x * 16 + y) :: r)

def parseHex (s : String) : Option (List Nat) :=
  if s == "-" then some [] else parseHexAux s.toList

def hexChar (n : Nat) : Char := if n < 10 then Char.ofNat (48 + n) else Char.ofNat (87 + n)

def showHex (l : List Nat) : String :=
  if l.isEmpty then "-" else String.ofList (l.flatMap fun b => [hexChar (b / 16 % 16), hexChar (b % 16)])

end TmVerif.Proto
