import TmVerif.Model.LexTables
/-
Model of /repo/shiftdfa/shiftdfa.go: `Pack` and `Scanner.Scan` (Mode M: hand mirror).

`uint64` values are `Nat`s; the only operation of `Pack` that can exceed 64 bits is
`uint64(target) << uint(state*6)`, which is therefore taken `% 2^64`; `>>`, `&`, `|` never grow.
`uint8(x)` is `x % 256`. Errors of `Pack` are the constructors of `PackErr`, a Go run-time panic
(division by zero, index out of range, `make` with a negative length) is `PackErr.panic`.
Loops: `for i := uint8(0); i < 128; i++` is a fold over `List.range 128`; the nested
`for state … for sym …` is a fold over the cells `(state, sym)` in the same (lexicographic) order.
-/
namespace TmVerif.ShiftDfa
open TmVerif.LexTables

/-- `shiftdfa.Scanner`: `table [256]uint64`, `onEoi [11]uint8`. -/
structure Scanner where
  table : Array Nat
  onEoi : Array Nat
deriving Repr, DecidableEq, Inhabited

/-- `new(Scanner)`. -/
def Scanner.empty : Scanner := ⟨Array.replicate 256 0, Array.replicate 11 0⟩

/-- The loop of `Scanner.Scan`:
`for ; i < len(input) && (state&1) == 0; i++ { row := d.table[input[i]]; state = row >> (state & 63) }`;
returns the final `(i, state)`. -/
def Scanner.scanLoop (d : Scanner) : List UInt8 → Nat → Nat → Nat × Nat
  | [], i, state => (i, state)
  | b :: rest, i, state =>
    if state &&& 1 = 0 then
      d.scanLoop rest (i + 1) (d.table.getD b.toNat 0 >>> (state &&& 63))
    else (i, state)

/-- `Scanner.Scan(input)`: `(size, token)`. (`i-1` is computed only after at least one byte was
consumed; `uint8(state&63)` does not truncate.) -/
def Scanner.scan (d : Scanner) (input : List UInt8) : Nat × Nat :=
  let r := d.scanLoop input 0 0
  if r.2 &&& 1 = 0 then (input.length, d.onEoi.getD ((r.2 &&& 63) / 6) 0)
  else (r.1 - 1, (r.2 &&& 63) % 256 / 2)

inductive PackErr where
  | tooManyStates | backtracking | startStates | notAscii | tooManyActions
  | eoiTransition (state : Nat)
  | panic
deriving Repr, DecidableEq, Inhabited

/-- The constant of the guard `t.SymbolMap[len(t.SymbolMap)-1].Start > 0x80` in `Pack`
(a fact about /repo; it was `0xff` before fixes/C24-pack-guard.diff). -/
def asciiGuard : Int := 0x80

/-- `if e+1 < len(t.SymbolMap) && t.SymbolMap[e+1].Start == rune(i) { e++ }`: the new `e`. -/
def walkStep (t : Tables) (e i : Nat) : Nat :=
  match t.symbolMap[e + 1]? with
  | some en => if en.start = (i : Int) then e + 1 else e
  | none => e

/-- One iteration of `for i := uint8(0); i < 128; i++ { … }` in `Pack`; state `(e, symBytes)`:
`target := t.SymbolMap[e].Target; symBytes[target] = append(symBytes[target], i)`. -/
def symBytesStep (t : Tables) (st : Nat × Array (List Nat)) (i : Nat) :
    Option (Nat × Array (List Nat)) :=
  let e := walkStep t st.1 i
  match t.symbolMap[e]? with
  | none => none
  | some en =>
    if 0 ≤ en.target ∧ en.target.toNat < st.2.size then
      some (e, st.2.modify en.target.toNat (· ++ [i]))
    else none

/-- `symBytes` after the loop (`ns = t.NumSymbols ≥ 0`); `none` = index out of range. -/
def symBytes (t : Tables) (ns : Nat) : Option (Array (List Nat)) :=
  ((List.range 128).foldlM (symBytesStep t) (0, Array.replicate ns [])).map (·.2)

/-- `target` after the `if target < 0 { … } else { target *= 6 }` block. -/
def encodeTarget (x : Int) : Except PackErr Nat :=
  if x < 0 then
    if -1 - x ≥ 32 then .error .tooManyActions else .ok ((-1 - x) * 2 + 1).toNat
  else .ok (x * 6).toNat

/-- `for _, b := range bytes { table[b] |= v }`. -/
def orBytes (tb : Array Nat) (bytes : List Nat) (v : Nat) : Array Nat :=
  bytes.foldl (fun tb b => tb.modify b (· ||| v)) tb

/-- The body of the inner loop of `Pack` for the cell `(state, sym)`. -/
def packCell (t : Tables) (ns : Nat) (sb : Array (List Nat)) (uniSym : Int) (ret : Scanner)
    (c : Nat × Nat) : Except PackErr Scanner :=
  match t.dfa[c.1 * ns + c.2]? with
  | none => .error .panic
  | some x =>
    match encodeTarget x with
    | .error e => .error e
    | .ok target =>
      let v := (target <<< (c.1 * 6)) % 2 ^ 64
      let tb := orBytes ret.table (sb.getD c.2 []) v
      if c.2 = 0 ∧ target % 2 = 0 then .error (.eoiTransition c.1)
      else
        let eoi := if c.2 = 0 then ret.onEoi.setIfInBounds c.1 (target % 256 / 2) else ret.onEoi
        if (c.2 : Int) ≠ uniSym then .ok ⟨tb, eoi⟩
        else .ok ⟨orBytes tb (List.range' 128 128) v, eoi⟩

/-- The cells in the order of `for state := 0; state < states; state++ { for sym := 0; sym < ns; sym++`. -/
def cells (states ns : Nat) : List (Nat × Nat) :=
  (List.range states).flatMap fun q => (List.range ns).map fun s => (q, s)

/-- `Pack(t)` with the guard constant as a parameter. -/
def packWith (guard : Int) (t : Tables) : Except PackErr Scanner :=
  if t.numSymbols = 0 then .error .panic               -- len(t.Dfa) / t.NumSymbols
  else
    let states : Int := Int.tdiv t.dfa.size t.numSymbols
    if states > 10 then .error .tooManyStates
    else if t.backtrack.size ≠ 0 then .error .backtracking
    else if t.stateMap.size ≠ 1 ∨ t.stateMap[0]? ≠ some 0 then .error .startStates
    else
      match t.symbolMap.back? with
      | none => .error .panic                          -- t.SymbolMap[len(t.SymbolMap)-1]
      | some last =>
        if last.start > guard then .error .notAscii
        else if t.numSymbols < 0 then .error .panic    -- make([][]uint8, t.NumSymbols)
        else
          match symBytes t t.numSymbols.toNat with
          | none => .error .panic
          | some sb =>
            (cells states.toNat t.numSymbols.toNat).foldlM
              (packCell t t.numSymbols.toNat sb last.target) Scanner.empty

/-- `shiftdfa.Pack`. -/
def pack (t : Tables) : Except PackErr Scanner := packWith asciiGuard t

end TmVerif.ShiftDfa
