/-
Record types of the facts that `tools/factgen` regenerates from the Go sources of /repo on every
run of a check (Mode F, DESIGN.md §1.2). Data only; core Lean only (the driver `tmv` links these).
`Facts/Generated.lean` contains nothing but lists of these records.
-/
namespace TmVerif.Facts

/-- One `for … range X` statement whose `X` has a map type.
`file` is relative to the repository root, `func` the enclosing top-level function (methods as
`Recv.name`; function literals belong to the declaration that contains them; `-` outside any),
`hash` the sha256 (first 16 hex digits) of the loop statement printed by go/printer without comments and
with white space collapsed, `ctx` the same hash of the whole enclosing declaration (for loops whose
order independence depends on code after the loop, e.g. the sort of collect-then-sort).
`kind` is left empty by the extractor. -/
structure MapRangeSite where
  file : String
  func : String
  hash : String
  kind : String
  ctx : String
  deriving DecidableEq, Repr, Inhabited

/-- A `go` statement or a `select` statement (`what` = "go" / "select"). -/
structure GoStmtSite where
  file : String
  func : String
  what : String
  hash : String
  deriving DecidableEq, Repr, Inhabited

/-- An assignment (`=`, `op=`, `++`, `--`) whose left-hand side is rooted at a package-level
variable, outside `init` and outside variable initialisers. `target` is the printed left-hand side
and `gvar` the package-level variable it is rooted at. -/
structure GlobalWriteSite where
  file : String
  func : String
  gvar : String
  target : String
  deriving DecidableEq, Repr, Inhabited

/-- A call of an environment-dependent function (`time.Now`, `time.Since`, `math/rand.*`,
`os.Getenv`, `os.Getpid`, …). `callee` is `importpath.Name`. -/
structure CallSite where
  file : String
  func : String
  callee : String
  deriving DecidableEq, Repr, Inhabited

/-- An explicit crash site (C22): a call of `log.Fatal*`, `log.Panic*`, the builtin `panic`, `os.Exit`,
`syscall.Exit` or `runtime.Goexit`. `idx` is the 0-based ordinal among the crash sites of the same
top-level declaration, `hash` the hash of the site's guard (innermost enclosing `if` statement or
`case` clause inside the innermost loop / function literal / declaration, otherwise the statement that
contains the call), `msg` the first string literal among the arguments ("" when none), `ctx` the hash
of the whole enclosing declaration. -/
structure FatalSite where
  file : String
  func : String
  callee : String
  idx : Nat
  hash : String
  msg : String
  ctx : String
  deriving DecidableEq, Repr, Inhabited

/-- A crash site (same `file`/`func`/`idx` as its `FatalSite`) that sits in the `default:` clause of an
expression switch whose tag has the defined type `type`: `covered` = declared constants of the type
named in the `case` lists of the switch, `declared` = all package-level constants of the type,
`leaks` = every other way a value of the type comes into being in the pipeline packages (explicit
conversion of a non-constant, constant with an undeclared value, non-constant arithmetic, undeclared
zero value). -/
structure SwitchFact where
  file : String
  func : String
  idx : Nat
  type : String
  covered : List String
  declared : List String
  leaks : List String
  deriving DecidableEq, Repr, Inhabited

/-- Guard formula over numbered atoms (C17): the conjunction of the `{{if}}` / `{{else}}` / `{{with}}` / `{{range}}`
guards around a piece of template text, or the condition under which `language.templates` selects a file.
Atom `n` is the pipeline `TmplAtom.text` with `TmplAtom.id = n`. -/
inductive GF where
  | tt
  | atom (n : Nat)
  | not (f : GF)
  | and (f g : GF)
  | or (f g : GF)
  deriving DecidableEq, Repr, Inhabited

/-- A distinct guard pipeline of the Go templates (canonical text). Texts starting with `[local] ` / `[local-def] `
depend on a range element or a template variable and are not single Booleans of the grammar: they are kept
distinct for uses and definitions so that no consequence can be drawn from them. -/
structure TmplAtom where
  id : Nat
  text : String
  deriving DecidableEq, Repr, Inhabited

/-- One Go file of `languages["go"]` (gen/templates.go): output name, template, Go package of the generated
module (`main` = the package named by the `package` option) and the condition under which
`language.templates` selects it. -/
structure TmplFile where
  id : Nat
  file : String
  tmpl : String
  pkg : String
  cond : GF
  deriving DecidableEq, Repr, Inhabited

/-- A Go identifier declared at top level by template text: `pkg`, and `name` (`Recv.Name` for methods and
struct fields; a `*` stands for a part produced by a template action). -/
structure TmplName where
  id : Nat
  pkg : String
  name : String
  deriving DecidableEq, Repr, Inhabited

/-- One definition site: `name` = `TmplName.id`, `file` = `TmplFile.id`, `tmpl` the `define` block that contains
the text (position in `c17Tmpls`; `main` = top level of the file template; blocks of go_shared count as part of
their caller), `kind` = func | method | type | var | const | field,
`guard` the guards between the top of the file template and the text (through `{{template}}` calls). -/
structure TmplDef where
  name : Nat
  file : Nat
  tmpl : Nat
  kind : String
  guard : GF
  deriving DecidableEq, Repr, Inhabited

/-- One use site (de-duplicated): an occurrence of a template-defined identifier of the same generated package
outside its own declaration header. -/
structure TmplUse where
  name : Nat
  file : Nat
  tmpl : Nat
  guard : GF
  deriving DecidableEq, Repr, Inhabited

/-- All declaration sites and all use sites of one identifier (`name` = `TmplName.id`). -/
structure TmplGroup where
  name : Nat
  defs : List TmplDef
  uses : List TmplUse
  deriving DecidableEq, Repr, Inhabited

/-- Hash of a Go declaration the hand-written C17 expectations depend on. -/
structure TmplHash where
  what : String
  hash : String
  deriving DecidableEq, Repr, Inhabited

/-- A package-level variable of reference type (`kind` = map / slice / pointer / chan / interface / sync /
untyped) in a pipeline package outside parsers/: state that could outlive one generation. -/
structure PackageVarSite where
  file : String
  name : String
  kind : String
  deriving DecidableEq, Repr, Inhabited

end TmVerif.Facts
