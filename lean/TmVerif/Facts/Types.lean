/-
Record types of the facts that `tools/factgen` regenerates from the Go sources of /repo on every
run of a check (Mode F, DESIGN.md §1.2). Data only; core Lean only (the driver `tmv` links these).
`Facts/Generated.lean` contains nothing but lists of these records.
-/
namespace TmVerif.Facts

/-- One `for … range X` statement whose `X` has a map type.
`file` is relative to the repository root, `func` the enclosing top-level function (methods as
`Recv.name`; function literals belong to the declaration that contains them; `-` outside any),
`hash` the sha256 (first 16 hex digits) of the loop statement printed by go/printer without comments and
with white space collapsed, `ctx` the same hash of the whole enclosing declaration (for loops whose
order independence depends on code after the loop, e.g. the sort of collect-then-sort).
`kind` is left empty by the extractor. -/
structure MapRangeSite where
  file : String
  func : String
  hash : String
  kind : String
  ctx : String
  deriving DecidableEq, Repr, Inhabited

/-- A `go` statement or a `select` statement (`what` = "go" / "select"). -/
structure GoStmtSite where
  file : String
  func : String
  what : String
  hash : String
  deriving DecidableEq, Repr, Inhabited

/-- An assignment (`=`, `op=`, `++`, `--`) whose left-hand side is rooted at a package-level
variable, outside `init` and outside variable initialisers. `target` is the printed left-hand side
and `gvar` the package-level variable it is rooted at. -/
structure GlobalWriteSite where
  file : String
  func : String
  gvar : String
  target : String
  deriving DecidableEq, Repr, Inhabited

/-- A call of an environment-dependent function (`time.Now`, `time.Since`, `math/rand.*`,
`os.Getenv`, `os.Getpid`, …). `callee` is `importpath.Name`. -/
structure CallSite where
  file : String
  func : String
  callee : String
  deriving DecidableEq, Repr, Inhabited

end TmVerif.Facts
