import TmVerif.Proofs.LexSound
import TmVerif.Proofs.LexDecl
/-!
C09 — Lexer tables implement longest match with rule priority (property theorems only).

Model: `Model/LexSpec.lean` (`scanSpec` = the property as a definition, the derivative matcher, the validator
`checkClasses`/`checkDfa`), `Model/LexTables.lean` (mirror of `lex.Tables.Scan`, shared with C24),
`Model/Regex.lean` (`Lang`, the denotation of C10).  Mode V: the outer quantifier (rule sets) is sampled — the real
`lex.Compile` output is validated case by case —, the inner one (all texts, all code points, all start conditions)
is closed by `C09_checkDfa_sound_partial`.

The pinned `Tables.Scan` looks the end-of-input column up once and never follows a transition found there, so
with a rule that can consume `{eoi}` it returns a meaningless negative action (`C09_checkDfa_sound_full_refuted`);
the full statement is therefore proved under the decidable hypothesis `noEoiShift` (no transition on end of
input in the tables) — exactly what the proof needs at the end of the text.
-/
namespace TmVerif.C09
open TmVerif.Charset TmVerif.Regex TmVerif.LexTables TmVerif.LexSpec

/-! ## The derivative matcher -/

/-- One derivative step: `deriv s r` denotes the words `w` with `s·w` in the language of `r`. -/
theorem C09_deriv_step (s : Int) (r : Regex) (w : List Int) :
    Lang noExt (deriv s r) w ↔ Lang noExt r (s :: w) := deriv_correct s r w

/-- The executable matcher decides the language of C10's denotation (all expressions, all words; named
references denote nothing: the harness resolves them before the rules reach the model). -/
theorem C09_derivative_correct (r : Regex) (w : List Int) :
    Lang noExt r w ↔ nullable (derivs r w) = true := (matchesB_iff r w).symm

/-- The head normal form applied after every derivative step (by `scanSpec` and by the validator, to keep
the derivative paired with a DFA state unique) does not change the language. -/
theorem C09_norm_correct (r : Regex) (w : List Int) : Lang noExt (norm r) w ↔ Lang noExt r w := L_norm r w

/-- `emptyB` decides emptiness of the language exactly; with derivatives: a prefix `u` can be extended to a
word of `r` iff `emptyB (derivs r u) = false`. -/
theorem C09_emptiness_correct (r : Regex) (u : List Int) :
    emptyB (derivs r u) = false ↔ ∃ v, Lang noExt r (u ++ v) := by
  rw [emptyB_false_iff]
  constructor
  · rintro ⟨v, h⟩; exact ⟨v, (derivs_correct r u v).1 h⟩
  · rintro ⟨v, h⟩; exact ⟨v, (derivs_correct r u v).2 h⟩

/-! ## The specification -/

/-- The executable specification computes the property as stated with languages only (`ScanResult`: longest
non-empty prefix of `text·eoi` in the language of a rule active in `sc`, the matching rule of greatest
`Precedence` and, among those, first in rule order; otherwise action 0 and the longest prefix that is still a
prefix of a word of an active rule) — for all rule sets, start conditions and texts. -/
theorem C09_scanSpec_meets (rules : List Rule) (sc : Int) (chars : List (Int × Nat)) :
    ScanResult rules sc chars (scanSpec rules sc chars) := scanSpec_meets rules sc chars

/-- … and the relation has exactly one solution, so `ScanResult … res ↔ res = scanSpec …`. -/
theorem C09_scanResult_unique (rules : List Rule) (sc : Int) (chars : List (Int × Nat)) (res : Nat × Int) :
    ScanResult rules sc chars res ↔ res = scanSpec rules sc chars := by
  constructor
  · intro h
    exact resultOf_unique rules sc _ _ _ ((scanResult_iff ..).1 h) ((scanResult_iff ..).1 (scanSpec_meets rules sc chars))
  · rintro rfl; exact scanSpec_meets rules sc chars

/-! ## Examples used for non-vacuity -/

/-- Example rule set: `aaaa` → 1, `a` → 2 (needs a backtracking checkpoint), with the tables `lex.Compile` returns. -/
def exRules : List Rule :=
  [⟨litSyms [97, 97, 97, 97], 0, 1, [0]⟩, ⟨litSyms [97], 0, 2, [0]⟩]

def exTables : Tables where
  scanBytes := false
  symbolMap := #[⟨0, 1⟩, ⟨97, 2⟩, ⟨98, 1⟩]
  numSymbols := 3
  stateMap := #[0]
  dfa := #[-2, -2, 1, -4, -4, -1, -2, -2, 3, -2, -2, 4, -3, -3, -3]
  backtrack := #[⟨2, 2⟩]

/-- Example with `{eoi}`: `a` → 2, `{eoi}` → 1, with the tables `lex.Compile` returns. -/
def eoiRules : List Rule :=
  [⟨litSyms [97], 0, 2, [0]⟩, ⟨.cc [(eoiSym, eoiSym)], 0, 1, [0]⟩]

def eoiTables : Tables where
  scanBytes := false
  symbolMap := #[⟨0, 1⟩, ⟨97, 2⟩, ⟨98, 1⟩]
  numSymbols := 3
  stateMap := #[0]
  dfa := #[2, -1, 1, -3, -3, -3, -2, -2, -2]
  backtrack := #[]

/-! ## Symbol classes -/

/-- If `checkClasses` passes, every code point `r` of the scanned alphabet is mapped by `Scan`'s lookup to a
class `c < NumSymbols` that has a representative `s`, and `r` and `s` belong to exactly the same range lists
of the rules — over all 0x110000 code points (256 bytes), decided by a check linear in the symbol map. -/
theorem C09_checkClasses_sound (rules : List Rule) (t : Tables) (hwf : t.wf = true)
    (hc : checkClasses rules t = true) (r : Int) (h0 : 0 ≤ r) (h1 : r ≤ maxRune t.scanBytes) :
    ∃ c s, symOf t r = some c ∧ 0 ≤ c ∧ c < t.numSymbols ∧ repOf t c = some s ∧
      ∀ cs ∈ ruleSets rules, memB r cs = memB s cs :=
  checkClasses_sound rules t hwf hc r h0 h1

example : exTables.wf = true ∧ checkClasses exRules exTables = true ∧ (0 : Int) ≤ 97 ∧
    (97 : Int) ≤ maxRune exTables.scanBytes ∧ symOf exTables 97 = some 2 ∧ repOf exTables 2 = some 97 := by
  decide +kernel

/-- … and therefore has the same derivatives as its representative, for every expression built from the
range lists of the rules (in particular every derivative of a rule, `csSub_deriv`). -/
theorem C09_class_representative (rules : List Rule) (t : Tables) (hwf : t.wf = true)
    (hc : checkClasses rules t = true) (r : Int) (h0 : 0 ≤ r) (h1 : r ≤ maxRune t.scanBytes) :
    ∃ c s, symOf t r = some c ∧ repOf t c = some s ∧
      ∀ d, CsSub d (ruleSets rules) → deriv r d = deriv s d ∧ CsSub (deriv r d) (ruleSets rules) := by
  obtain ⟨c, s, h1, _, _, h4, h5⟩ := checkClasses_sound rules t hwf hc r h0 h1
  exact ⟨c, s, h1, h4, fun d hd => ⟨deriv_congr _ r s h5 d hd, csSub_deriv r d _ hd⟩⟩

/-! ## The tables -/

/-- The full statement of the validator's soundness: for tables that pass `checkClasses` and `checkDfa`, the
mirror of `Tables.Scan` returns `scanSpec` for every start condition and every text. -/
def C09_checkDfa_sound_full : Prop :=
  ∀ (rules : List Rule) (t : Tables), checkClasses rules t = true → checkDfa rules t = true →
    ∀ (sc : Nat), sc < t.stateMap.size → ∀ (chars : List (Int × Nat)), CharsOk t chars →
      lexScanChars t (sc : Int) chars = some (scanSpec rules (sc : Int) chars)

/-- Proved part: the same under the hypothesis that the tables have no transition on end of input
(`noEoiShift`, decidable, evaluated by the harness' defect-class filter: it holds for every rule set in which no
`{eoi}` is reachable).  All start conditions, all texts (`CharsOk`: code points of the scanned alphabet with
positive widths, which is what a byte string decodes to, `C09_scan_text_partial`), with backtracking. -/
theorem C09_checkDfa_sound_partial (rules : List Rule) (t : Tables) (hc : checkClasses rules t = true)
    (hd : checkDfa rules t = true) (he : noEoiShift t = true) (sc : Nat) (hsc : sc < t.stateMap.size)
    (chars : List (Int × Nat)) (hok : CharsOk t chars) :
    lexScanChars t (sc : Int) chars = some (scanSpec rules (sc : Int) chars) :=
  scan_eq_spec rules t hc hd he sc hsc chars hok

example : checkClasses exRules exTables = true ∧ checkDfa exRules exTables = true ∧
    noEoiShift exTables = true ∧ 0 < exTables.stateMap.size ∧
    CharsOk exTables [(97, 1), (97, 1), (98, 1)] ∧
    lexScanChars exTables 0 [(97, 1), (97, 1), (98, 1)] = some (1, 2) := by
  refine ⟨by decide +kernel, by decide +kernel, by decide +kernel, by decide, ?_, by decide +kernel⟩
  intro c hc
  simp at hc
  rcases hc with rfl | rfl <;> decide

/-- The full statement for byte strings (refuted by the same witness as `C09_checkDfa_sound_full`). -/
def C09_scan_text_full : Prop :=
  ∀ (rules : List Rule) (t : Tables), checkClasses rules t = true → checkDfa rules t = true →
    ∀ (sc : Nat), sc < t.stateMap.size → ∀ (text : List Nat), (∀ b ∈ text, b < 256) →
      lexScanChars t (sc : Int) (charsOf t.scanBytes text) =
        some (scanSpec rules (sc : Int) (charsOf t.scanBytes text))

/-- The statement for byte strings: in byte mode every byte is a character of width 1, in rune mode the text is
decoded as `utf8.DecodeRuneInString` does (invalid bytes are `U+FFFD` of width 1). -/
theorem C09_scan_text_partial (rules : List Rule) (t : Tables) (hc : checkClasses rules t = true)
    (hd : checkDfa rules t = true) (he : noEoiShift t = true) (sc : Nat) (hsc : sc < t.stateMap.size)
    (text : List Nat) (hb : ∀ b ∈ text, b < 256) :
    lexScanChars t (sc : Int) (charsOf t.scanBytes text) =
      some (scanSpec rules (sc : Int) (charsOf t.scanBytes text)) :=
  scan_eq_spec rules t hc hd he sc hsc _ (charsOk_charsOf t text hb)

/-- Full form of the next theorem (without `noEoiShift`). -/
def C09_scan_meets_property_full : Prop :=
  ∀ (rules : List Rule) (t : Tables), checkClasses rules t = true → checkDfa rules t = true →
    ∀ (sc : Nat), sc < t.stateMap.size → ∀ (chars : List (Int × Nat)), CharsOk t chars →
      ∃ res, lexScanChars t (sc : Int) chars = some res ∧ ScanResult rules (sc : Int) chars res

/-- The property itself for validated tables: what `Scan` returns is the `ScanResult` of the rules. -/
theorem C09_scan_meets_property_partial (rules : List Rule) (t : Tables) (hc : checkClasses rules t = true)
    (hd : checkDfa rules t = true) (he : noEoiShift t = true) (sc : Nat) (hsc : sc < t.stateMap.size)
    (chars : List (Int × Nat)) (hok : CharsOk t chars) :
    ∃ res, lexScanChars t (sc : Int) chars = some res ∧ ScanResult rules (sc : Int) chars res :=
  ⟨_, scan_eq_spec rules t hc hd he sc hsc chars hok, scanSpec_meets rules _ chars⟩

example : charsOf false [0x61, 0xC3, 0xA9, 0xFF] = [(0x61, 1), (0xE9, 2), (0xFFFD, 1)] := by decide +kernel

/-- The full statement does not hold for `Tables.Scan` as it is: for the rules `a` → 2, `{eoi}` → 1 and the
tables the real `lex.Compile` returns (they pass the validator), `Scan(0, "")` is `(0, -3)`; the property
demands `(0, 1)`. -/
theorem C09_checkDfa_sound_full_refuted : ¬ C09_checkDfa_sound_full := by
  intro h
  have := h eoiRules eoiTables (by decide +kernel) (by decide +kernel) 0 (by decide) [] (by intro c hc; cases hc)
  revert this
  decide +kernel

example : lexScanChars eoiTables 0 [] = some (0, -3) ∧ scanSpec eoiRules 0 [] = (0, 1) ∧
    noEoiShift eoiTables = false := by decide +kernel

end TmVerif.C09
