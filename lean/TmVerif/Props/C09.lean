import TmVerif.Model.LexSpec
namespace TmVerif.C09
open TmVerif.LexSpec

theorem C09_tmp_nullable_eps : nullable .eps = true := rfl

end TmVerif.C09
