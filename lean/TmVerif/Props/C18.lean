/-
C18 — generation is deterministic (Mode F + M, DESIGN.md §4).

Part 1 (generic lemmas): the three lemma shapes — folds of commuting updates, sorting after collecting,
searching a unique element — are invariant under permutation of the enumeration of a Go map.
Part 2 (loops): `C18_<loop>` proves `Loop.OrderIndependent` for every loop model of
Model/Determinism.lean; `C18_classified_loops_order_independent` ties the expectation table to them.
Part 3 (obligations over the facts regenerated from /repo on every run): every map-range site of the
current tree is classified, nothing else in the inventory changed (`decide` over Facts/Generated.lean).
A new, moved or edited loop breaks `C18_all_sites_covered`, and with it the check.
Part 4: record of the fixed finding C18-opt-alias-collision (the old loop model is order dependent).
-/
import TmVerif.Facts.Generated
import TmVerif.Facts.ExpectC18
import TmVerif.Proofs.Determinism
namespace TmVerif.C18
open TmVerif.Determinism TmVerif.Facts

/-! ## Part 1: generic lemmas -/

/-- Shape (a): a fold whose steps commute on the members of the list does not depend on their order. -/
theorem C18_fold_comm_perm {α σ : Type} (f : σ → α → σ) {xs ys : List α} (h : xs.Perm ys)
    (comm : ∀ a ∈ xs, ∀ b ∈ xs, ∀ s, f (f s a) b = f (f s b) a) (s : σ) :
    xs.foldl f s = ys.foldl f s :=
  List.Perm.foldl_eq' h comm s

example : [1, 2, 3].foldl (· + ·) 0 = [3, 1, 2].foldl (· + ·) 0 := by decide

/-- Shape (a), maps: point updates at pairwise distinct keys commute, whatever each update does with the
old value of its own key. -/
theorem C18_point_updates_perm {α κ ν : Type} [DecidableEq κ] (key : α → κ) (upd : α → Option ν → Option ν)
    (m : GoMap κ ν) {xs ys : List α} (hd : DistinctBy key xs) (h : xs.Perm ys) :
    pointUpdates key upd m xs = pointUpdates key upd m ys := by
  unfold pointUpdates
  apply C18_fold_comm_perm _ h
  intro a ha b hb s
  by_cases hk : key a = key b
  · rw [nodup_key_inj hd a ha b hb hk]
  · funext k
    simp only [GoMap.alter]
    by_cases h1 : k = key a <;> by_cases h2 : k = key b <;> simp_all

example : DistinctBy Prod.fst [(1, "a"), (2, "b")] := by decide

/-- Shape (a), sets: conditional inserts commute and are idempotent; no hypothesis. -/
theorem C18_cond_adds_perm {α κ : Type} [DecidableEq κ] (key : α → κ) (cond : α → Bool) (s : GoSet κ)
    {xs ys : List α} (h : xs.Perm ys) : condAdds key cond s xs = condAdds key cond s ys := by
  unfold condAdds
  apply C18_fold_comm_perm _ h
  intro a _ b _ s
  funext k
  by_cases ca : cond a <;> by_cases cb : cond b <;> simp [ca, cb, GoSet.add]
  by_cases h1 : k = key a <;> by_cases h2 : k = key b <;> simp_all

/-- Shape (b), core: two ordered lists with the same elements are equal when the order is antisymmetric
on these elements. (No reflexivity, transitivity or totality is needed.) -/
theorem C18_sorted_perm_unique {α : Type} (le : α → α → Prop) :
    ∀ (l₁ l₂ : List α), (∀ a ∈ l₁, ∀ b ∈ l₁, le a b → le b a → a = b) →
      l₁.Perm l₂ → l₁.Pairwise le → l₂.Pairwise le → l₁ = l₂
  | [], l₂, _, h, _, _ => (List.Perm.nil_eq h)
  | a :: t, [], _, h, _, _ => absurd h.length_eq (by simp)
  | a :: t, b :: u, anti, h, s₁, s₂ => by
    have hab : a = b := by
      have ha : a ∈ b :: u := h.mem_iff.mp (List.mem_cons_self ..)
      have hb : b ∈ a :: t := h.mem_iff.mpr (List.mem_cons_self ..)
      rcases List.mem_cons.mp ha with e | ha'
      · exact e
      rcases List.mem_cons.mp hb with e | hb'
      · exact e.symm
      exact anti a (List.mem_cons_self ..) b hb ((List.pairwise_cons.mp s₁).1 b hb')
        ((List.pairwise_cons.mp s₂).1 a ha')
    subst hab
    have ht : t.Perm u := h.cons_inv
    rw [C18_sorted_perm_unique le t u
      (fun x hx y hy => anti x (List.mem_cons_of_mem _ hx) y (List.mem_cons_of_mem _ hy))
      ht (List.pairwise_cons.mp s₁).2 (List.pairwise_cons.mp s₂).2]

example : ([1, 2, 3] : List Nat).Pairwise (· ≤ ·) := by decide

/-- Shape (b): ANY correct sort (stable or not) applied to the items collected from a map returns the same
slice for every enumeration order, when the order is antisymmetric on the collected items. -/
theorem C18_collect_sort_perm {α β : Type} (le : β → β → Prop) (srt : List β → List β)
    (items : α → List β) {xs ys : List α} (hs : SortSpec srt le)
    (anti : ∀ a ∈ xs.flatMap items, ∀ b ∈ xs.flatMap items, le a b → le b a → a = b)
    (h : xs.Perm ys) : collectSort srt items xs = collectSort srt items ys := by
  unfold collectSort
  have hp : (xs.flatMap items).Perm (ys.flatMap items) := h.flatMap_right items
  have h1 := hs (xs.flatMap items)
  have h2 := hs (ys.flatMap items)
  apply C18_sorted_perm_unique le _ _ _ (h1.1.trans (hp.trans h2.1.symm)) h1.2 h2.2
  intro a ha b hb
  exact anti a (h1.1.mem_iff.mp ha) b (h1.1.mem_iff.mp hb)

/-- Shape (c): the first match does not depend on the order when at most one member matches. -/
theorem C18_find_unique_perm {α : Type} (p : α → Bool) {xs ys : List α} (h : xs.Perm ys)
    (uniq : ∀ a ∈ xs, ∀ b ∈ xs, p a = true → p b = true → a = b) : xs.find? p = ys.find? p := by
  cases hx : xs.find? p with
  | none =>
    symm
    rw [List.find?_eq_none] at hx ⊢
    intro x hxy
    exact hx x (h.mem_iff.mpr hxy)
  | some a =>
    have ha := List.mem_of_find?_eq_some hx
    have hpa := List.find?_some hx
    cases hy : ys.find? p with
    | none =>
      rw [List.find?_eq_none] at hy
      exact absurd hpa (hy a (h.mem_iff.mp ha))
    | some b =>
      have hb := h.mem_iff.mpr (List.mem_of_find?_eq_some hy)
      rw [uniq a ha b hb hpa (List.find?_some hy)]

example : [(1, 5), (2, 7)].find? (fun e => e.2 == 7) = [(2, 7), (1, 5)].find? (fun e => e.2 == 7) := by decide

/-! ## Part 2: the loops of /repo -/

theorem C18_lalrMarkerBits : Loop.lalrMarkerBits.OrderIndependent := by
  intro i bits xs ys h
  exact C18_cond_adds_perm _ _ _ h

theorem C18_lalrTrieRules : Loop.lalrTrieRules.OrderIndependent := by
  intro ι srt info xs ys hs hd h
  exact C18_collect_sort_perm _ srt _ hs
    (anti_of_distinct_keys (fun e : Nat × List Nat => (e.1, info e.1 e.2)) (fun r : Nat × ι => r.1) hd) h

theorem C18_lalrTrieTerms : Loop.lalrTrieTerms.OrderIndependent := by
  intro srt xs ys hs hd h
  exact C18_collect_sort_perm _ srt _ hs (anti_of_distinct_keys (fun e : Nat × List Nat => e) (fun r : Nat × List Nat => r.1) hd) h

theorem C18_expandUpdateArgRefs : Loop.expandUpdateArgRefs.OrderIndependent := by
  intro refs xs ys hd h
  exact C18_point_updates_perm _ _ _ hd h

theorem C18_syntaxRearrangeArgRefs : Loop.syntaxRearrangeArgRefs.OrderIndependent := by
  intro terms perm refs xs ys hd h
  exact C18_point_updates_perm _ _ _ hd h

theorem C18_grammarActionVarsString : Loop.grammarActionVarsString.OrderIndependent := by
  intro σ le srt fmt1 fmt2 remap ns ns' rs rs' anti hs hn hr
  unfold Determinism.grammarActionVarsString
  have hp := (hn.flatMap_right (fun e => e.2.map fun pos => fmt1 e.1 ((remap pos).getD (-1)))).append
    (hr.flatMap_right (fun e => [fmt2 e.1 e.2]))
  have h1 := hs (ns.flatMap (fun e => e.2.map fun pos => fmt1 e.1 ((remap pos).getD (-1)))
    ++ rs.flatMap (fun e => [fmt2 e.1 e.2]))
  have h2 := hs (ns'.flatMap (fun e => e.2.map fun pos => fmt1 e.1 ((remap pos).getD (-1)))
    ++ rs'.flatMap (fun e => [fmt2 e.1 e.2]))
  exact C18_sorted_perm_unique le _ _ (fun a _ b _ => anti a b) (h1.1.trans (hp.trans h2.1.symm)) h1.2 h2.2

theorem C18_compilerMayBeMissing : Loop.compilerMayBeMissing.OrderIndependent := by
  intro actualPos mbm xs ys h
  exact C18_cond_adds_perm _ _ _ h

theorem C18_compilerAddTypes : Loop.compilerAddTypes.OrderIndependent := by
  intro τ typeOf xs ys hd h
  exact C18_point_updates_perm _ _ _ hd h

theorem C18_compilerPopRuleNames : Loop.compilerPopRuleNames.OrderIndependent := by
  intro parent xs ys hd h
  exact C18_point_updates_perm _ _ _ hd h

theorem C18_lexerInlineCustom : Loop.lexerInlineCustom.OrderIndependent := by
  intro ruleToken custom xs ys hd h
  exact C18_point_updates_perm _ _ _ hd h

theorem C18_lexerTokenComments : Loop.lexerTokenComments.OrderIndependent := by
  intro syms xs ys hd h
  exact C18_point_updates_perm _ _ _ hd h

theorem C18_sortedKeys : Loop.sortedKeys.OrderIndependent := by
  intro σ ν le srt xs ys anti hs h
  exact C18_collect_sort_perm le srt _ hs (fun a _ b _ => anti a b) h

/-- non-vacuity: the hypotheses of `sortedKeys` are satisfiable (merge sort on `Nat` keys) and the conclusion is
the expected one on a concrete map with two enumeration orders -/
example : sortedKeys (fun l : List Nat => l.mergeSort (· ≤ ·)) [(3, "c"), (1, "a"), (2, "b")]
    = sortedKeys (fun l : List Nat => l.mergeSort (· ≤ ·)) [(2, "b"), (3, "c"), (1, "a")] :=
  C18_sortedKeys Nat String (· ≤ ·) _ _ _ (fun _ _ => Nat.le_antisymm) sortSpec_mergeSort (by decide)

theorem C18_genReverseLookup : Loop.genReverseLookup.OrderIndependent := by
  intro i xs ys hd h
  unfold Determinism.genReverseLookup searchFirst
  rw [C18_find_unique_perm _ h]
  intro a ha b hb pa pb
  have ea : a.2 = i := by simpa using pa
  have eb : b.2 = i := by simpa using pb
  exact nodup_key_inj hd a ha b hb (ea.trans eb.symm)

example : genReverseLookup 7 [(1, 5), (2, 7)] = genReverseLookup 7 [(2, 7), (1, 5)] :=
  C18_genReverseLookup 7 _ _ (by decide) (List.Perm.swap ..)

theorem C18_genGoImports : Loop.genGoImports.OrderIndependent := by
  intro π isStd lt srt xs ys tri hs hpath hd h
  refine C18_collect_sort_perm _ srt _ hs ?_ h
  intro a ha b hb h1 h2
  simp only [List.mem_flatMap, List.mem_singleton] at ha hb
  obtain ⟨x, hx, rfl⟩ := ha
  obtain ⟨y, hy, rfl⟩ := hb
  have hxy : x.2.path = y.2.path := by
    simp only [goImpLess] at h1 h2
    by_cases hstd : isStd x.2.path = isStd y.2.path
    · simp [hstd] at h1 h2
      exact tri _ _ h2 h1
    · have hne : (isStd y.2.path != isStd x.2.path) = true := by
        simp; exact fun e => hstd e.symm
      have hne' : (isStd x.2.path != isStd y.2.path) = true := by simp; exact hstd
      simp [hne] at h1
      simp [hne'] at h2
      exact absurd (h2.trans h1.symm) hstd
  have : x = y := nodup_key_inj hd x hx y hy (by rw [← hpath x hx, ← hpath y hy, hxy])
  rw [this]

theorem C18_shiftdfaPatterns : Loop.shiftdfaPatterns.OrderIndependent := by
  intro ρ ψ parse mk xs ys hd h
  unfold Determinism.shiftdfaPatterns
  apply C18_fold_comm_perm _ h
  intro a ha b hb s
  by_cases hk : a.1 = b.1
  · rw [nodup_key_inj hd a ha b hb hk]
  · cases s with
    | none => rfl
    | some m =>
      cases pa : parse a.2 <;> cases pb : parse b.2 <;> simp
      funext k
      simp only [GoMap.set]
      by_cases h1 : k = a.1 <;> by_cases h2 : k = b.1 <;> simp_all

theorem C18_templatesRemapArgRefs : Loop.templatesRemapArgRefs.OrderIndependent := by
  intro syms xs ys hd h
  exact C18_point_updates_perm _ _ _ hd h

example : templatesRemapArgRefs (fun k => if k = 1 then some 9 else none) [(1, ⟨1, 4, 0⟩), (2, ⟨2, 5, 0⟩)] 1
    = some ⟨1, 9, 0⟩ := by decide

/-- The claim attached to a classification. -/
def claim : SiteClass → Prop
  | .orderIndependent _ loop _ => loop.OrderIndependent
  | .outsideProperty _ => True

/-- Every loop model is order independent (under the hypotheses spelled out in `Loop.OrderIndependent`). -/
theorem C18_every_loop_order_independent : ∀ l : Loop, l.OrderIndependent
  | .lalrMarkerBits => C18_lalrMarkerBits
  | .lalrTrieRules => C18_lalrTrieRules
  | .lalrTrieTerms => C18_lalrTrieTerms
  | .expandUpdateArgRefs => C18_expandUpdateArgRefs
  | .syntaxRearrangeArgRefs => C18_syntaxRearrangeArgRefs
  | .grammarActionVarsString => C18_grammarActionVarsString
  | .compilerMayBeMissing => C18_compilerMayBeMissing
  | .compilerAddTypes => C18_compilerAddTypes
  | .compilerPopRuleNames => C18_compilerPopRuleNames
  | .lexerInlineCustom => C18_lexerInlineCustom
  | .lexerTokenComments => C18_lexerTokenComments
  | .sortedKeys => C18_sortedKeys
  | .genReverseLookup => C18_genReverseLookup
  | .genGoImports => C18_genGoImports
  | .shiftdfaPatterns => C18_shiftdfaPatterns
  | .templatesRemapArgRefs => C18_templatesRemapArgRefs

/-- Every classified site's loop model is order independent (under the hypotheses spelled out in
`Loop.OrderIndependent`; sites classified `outsideProperty` claim nothing). -/
theorem C18_classified_loops_order_independent : ∀ e ∈ siteExpectations, claim e.cls := by
  intro e _
  cases h : e.cls with
  | orderIndependent _ l _ => exact C18_every_loop_order_independent l
  | outsideProperty _ => trivial

/-! ## Part 3: obligations over the regenerated facts -/

/-- Every `for … range <map>` of the pipeline at the CURRENT tree (file, function, loop hash, and for the
shapes that depend on code after the loop the hash of the whole function) is classified. -/
theorem C18_all_sites_covered :
    ∀ s ∈ mapRangeSites, (lookupSite s.file s.func s.hash s.ctx).isSome = true := by decide

/-- … and the table contains nothing else (no stale entries). -/
theorem C18_expectations_current :
    ∀ e ∈ siteExpectations, (mapRangeSites.any fun s => e.isFor s) = true := by decide

/-- Every range operand could be typed, every file parsed. -/
theorem C18_inventory_complete : unresolvedRangeSites = [] ∧ loadProblems = [] := by decide

/-- No goroutine is started anywhere in the pipeline packages: the schedule / GOMAXPROCS quantifier is
vacuous for the modelled pipeline. -/
theorem C18_no_goroutines : ∀ s ∈ goStmtSites, s.what ≠ "go" := by decide

/-- The `go`/`select` inventory is exactly the expected list (one non-blocking cancellation poll). -/
theorem C18_go_select_sites_expected : goStmtSites = goStmtExpectations.map Prod.fst := by decide

/-- No write to package-level state outside `init` other than the expected ones: a generation cannot see
an earlier generation of the same process through a global (best-effort inventory: assignments only). -/
theorem C18_global_writes_expected :
    ∀ w ∈ globalWriteSites, w ∈ globalWriteExpectations.map Prod.fst := by decide

/-- Clock / randomness / environment / unordered-iterator references are confined to the expected
statistics code. -/
theorem C18_time_sites_expected : ∀ c ∈ timeSites, c ∈ timeExpectations.map Prod.fst := by decide

/-- No map iteration hidden behind `maps.Keys/Values/All`, reflection or `sync.Map.Range` other than the
expected debug printer: every enumeration of a map in the pipeline is a `range` statement of the inventory. -/
theorem C18_hidden_map_iteration_expected :
    ∀ c ∈ hiddenMapIterSites, c ∈ hiddenMapIterExpectations.map Prod.fst := by decide

/-- No package-level state of reference type (caches, registries) other than the expected read-only tables:
together with `C18_global_writes_expected`, nothing survives from one generation to the next. -/
theorem C18_package_state_expected :
    ∀ v ∈ packageVarSites, v ∈ packageVarExpectations.map Prod.fst := by decide

/-! ## Part 4: the fixed finding C18-opt-alias-collision (record)

Until /repo commit af67537 compiler/syntax.go `convertPart` copied `rhs.names` into `args.Names` inside the
map-range loop, trimming the opt suffix of the key. With `aliasIncludesOptSuffix = false` a rule naming both
`a` and `aopt` wrote both to `a`, and the generated action code for `$a` depended on the map order
(parser.go differed between runs of the witness grammar, now part of the harness's pool). The loop now only
collects the keys, which are sorted before use (`sortedKeys`). -/

/-- Order independence of the OLD loop for every enumeration of a map (distinct keys before renaming). False. -/
def C18_compilerCopyNames_old_loop_full : Prop :=
  ∀ (rename : String → String) (xs ys : List (String × List Nat)), DistinctBy Prod.fst xs →
    xs.Perm ys → compilerCopyNamesOld rename xs = compilerCopyNamesOld rename ys

/-- Witness (rule `S: a aopt 'z' { … $a … }`): names `a ↦ [1]`, `aopt ↦ [2]`, suffix `opt` trimmed; the two
enumeration orders give `a ↦ [2]` resp. `a ↦ [1]`. -/
theorem C18_compilerCopyNames_old_loop_order_dependent : ¬ C18_compilerCopyNames_old_loop_full := by
  intro h
  have := h (fun k => if k == "aopt" then "a" else k) [("a", [1]), ("aopt", [2])] [("aopt", [2]), ("a", [1])]
    (by decide) (List.Perm.swap ..)
  have := congrFun this "a"
  revert this
  decide

end TmVerif.C18
