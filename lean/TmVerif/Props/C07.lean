import TmVerif.Model.LRK
/-!
C07 — LALR(k) resolution.
* Soundness (nothing outside the language is accepted, for every k) is `C01_lr_sound`
  (Props/C01.lean): it does not depend on how a reduction is chosen.
* The theorems here tie the validator's walk over a lookahead automaton (`trieWalk`, used by
  `checkTries` on every LALR(k) lookahead string of every conflicting rule) to what the generated
  parser does at run time (`deepLA` = `resolveDeepLA`): the validator inspects exactly the decision
  the runtime takes, for every table, token source and position.
-/
namespace TmVerif.LRK
open TmVerif.LR

/-- If the validator's walk over the nested lists decides `r` on the token string `x`, then the
runtime, reading those tokens from a copy of the lexer, decides `r` too (for any sufficient
fuel — the runtime's fuel is the input length + 2). -/
theorem C07_trieWalk_deepLA (t : Tables) (inp : Input) :
    ∀ (fuel : Nat) (action : Int) (pos : Nat) (x : Str) (r : Int),
      trieWalk t fuel action x = some r →
      (∀ i (h : i < x.length), (inp.tok (pos + i)).sym = (x[i] : Nat)) →
      deepLA t inp fuel pos action = some r := by
  intro fuel
  induction fuel with
  | zero => intro action pos x r h; simp [trieWalk] at h
  | succ n ih =>
    intro action pos x r h hx
    unfold trieWalk at h
    unfold deepLA
    by_cases ha : action < -2
    · simp only [ha, ↓reduceIte] at h ⊢
      cases x with
      | nil => simp at h
      | cons a rest =>
        have h0 := hx 0 (by simp)
        simp only [Nat.add_zero, List.getElem_cons_zero] at h0
        rw [h0]
        cases hl : lalrLookup t action (a : Nat) with
        | none => simp [hl] at h
        | some act =>
          simp only [hl] at h ⊢
          apply ih act (pos + 1) rest r h
          intro i hi
          have := hx (i + 1) (by simp; omega)
          simpa [Nat.add_assoc, Nat.add_comm 1 i] using this
    · simp only [ha, ↓reduceIte] at h ⊢
      exact h

/-- More fuel never changes a decision of the runtime's deep lookahead. -/
theorem C07_deepLA_fuel_mono (t : Tables) (inp : Input) :
    ∀ (fuel : Nat) (pos : Nat) (action r : Int),
      deepLA t inp fuel pos action = some r → deepLA t inp (fuel + 1) pos action = some r := by
  intro fuel
  induction fuel with
  | zero => intro pos action r h; simp [deepLA] at h
  | succ n ih =>
    intro pos action r h
    unfold deepLA at h ⊢
    by_cases ha : action < -2
    · simp only [ha, ↓reduceIte] at h ⊢
      cases hl : lalrLookup t action (inp.tok pos).sym with
      | none => simp [hl] at h
      | some a =>
        simp only [hl] at h ⊢
        exact ih (pos + 1) a r h
    · simp only [ha, ↓reduceIte] at h ⊢
      exact h

/-- A decision is never a pointer: the runtime loop `for action < -2` ends with a real action. -/
theorem C07_deepLA_result_not_pointer (t : Tables) (inp : Input) :
    ∀ (fuel : Nat) (pos : Nat) (action r : Int),
      deepLA t inp fuel pos action = some r → ¬ r < -2 := by
  intro fuel
  induction fuel with
  | zero => intro pos action r h; simp [deepLA] at h
  | succ n ih =>
    intro pos action r h
    unfold deepLA at h
    by_cases ha : action < -2
    · simp only [ha, ↓reduceIte] at h
      cases hl : lalrLookup t action (inp.tok pos).sym with
      | none => simp [hl] at h
      | some a => simp only [hl] at h; exact ih (pos + 1) a r h
    · simp only [ha, ↓reduceIte] at h
      cases h; exact ha

end TmVerif.LRK
