import TmVerif.Model.LRK
import TmVerif.Proofs.LRCompleteKMain
import TmVerif.Proofs.LRSoundKAccept
/-!
C07 — LALR(k) resolution.
* `C01_lr_sound` does NOT apply to tables with lookahead automata: its certificate `certOk`
  quantifies over `actOf t noDeep`, which is undefined on a deep-lookahead cell, so `certOk` is
  false for every such table. `C07_lr_sound_k` is the same theorem for the certificate `certKOk`
  (Model/LRSoundK.lean), which checks every decision a lookahead automaton can produce.
* `C07_lr_complete_k`: for tables passing the LR(k)-item certificate `complKOk`
  (Model/LRCompleteK.lean) every sentence is accepted by the runtime's real deep-lookahead decoding;
  `C07_lr_exact_k`: with both certificates, acceptance ⇔ sentence.
* The theorems here tie the validator's walk over a lookahead automaton (`trieWalk`, used by
  `checkTries` on every LALR(k) lookahead string of every conflicting rule) to what the generated
  parser does at run time (`deepLA` = `resolveDeepLA`): the validator inspects exactly the decision
  the runtime takes, for every table, token source and position.
-/
namespace TmVerif.LRK
open TmVerif.LR

/-- If the validator's walk over the nested lists decides `r` on the token string `x`, then the
runtime, reading those tokens from a copy of the lexer, decides `r` too (for any sufficient
fuel — the runtime's fuel is the input length + 2). -/
theorem C07_trieWalk_deepLA (t : Tables) (inp : Input) :
    ∀ (fuel : Nat) (action : Int) (pos : Nat) (x : Str) (r : Int),
      trieWalk t fuel action x = some r →
      (∀ i (h : i < x.length), (inp.tok (pos + i)).sym = (x[i] : Nat)) →
      deepLA t inp fuel pos action = some r := by
  intro fuel
  induction fuel with
  | zero => intro action pos x r h; simp [trieWalk] at h
  | succ n ih =>
    intro action pos x r h hx
    unfold trieWalk at h
    unfold deepLA
    by_cases ha : action < -2
    · simp only [ha, ↓reduceIte] at h ⊢
      cases x with
      | nil => simp at h
      | cons a rest =>
        have h0 := hx 0 (by simp)
        simp only [Nat.add_zero, List.getElem_cons_zero] at h0
        rw [h0]
        cases hl : lalrLookup t action (a : Nat) with
        | none => simp [hl] at h
        | some act =>
          simp only [hl] at h ⊢
          apply ih act (pos + 1) rest r h
          intro i hi
          have := hx (i + 1) (by simp; omega)
          simpa [Nat.add_assoc, Nat.add_comm 1 i] using this
    · simp only [ha, ↓reduceIte] at h ⊢
      exact h

/-- More fuel never changes a decision of the runtime's deep lookahead. -/
theorem C07_deepLA_fuel_mono (t : Tables) (inp : Input) :
    ∀ (fuel : Nat) (pos : Nat) (action r : Int),
      deepLA t inp fuel pos action = some r → deepLA t inp (fuel + 1) pos action = some r := by
  intro fuel
  induction fuel with
  | zero => intro pos action r h; simp [deepLA] at h
  | succ n ih =>
    intro pos action r h
    unfold deepLA at h ⊢
    by_cases ha : action < -2
    · simp only [ha, ↓reduceIte] at h ⊢
      cases hl : lalrLookup t action (inp.tok pos).sym with
      | none => simp [hl] at h
      | some a =>
        simp only [hl] at h ⊢
        exact ih (pos + 1) a r h
    · simp only [ha, ↓reduceIte] at h ⊢
      exact h

/-- A decision is never a pointer: the runtime loop `for action < -2` ends with a real action. -/
theorem C07_deepLA_result_not_pointer (t : Tables) (inp : Input) :
    ∀ (fuel : Nat) (pos : Nat) (action r : Int),
      deepLA t inp fuel pos action = some r → ¬ r < -2 := by
  intro fuel
  induction fuel with
  | zero => intro pos action r h; simp [deepLA] at h
  | succ n ih =>
    intro pos action r h
    unfold deepLA at h
    by_cases ha : action < -2
    · simp only [ha, ↓reduceIte] at h
      cases hl : lalrLookup t action (inp.tok pos).sym with
      | none => simp [hl] at h
      | some a => simp only [hl] at h; exact ih (pos + 1) a r h
    · simp only [ha, ↓reduceIte] at h
      cases h; exact ha

/-! ## Soundness, completeness and exactness for tables with deep lookahead -/
section exact
open TmVerif.CFG TmVerif.LRSound TmVerif.LRSoundK TmVerif.LRCompleteK

/-- Soundness for tables with lookahead automata: whenever `certKOk g t cert = true`, every run of
the runtime model (deep lookahead decoded by `deepLA` = `resolveDeepLA`) that ends in `accept` has
consumed a prefix of the token string that is a sentence of input `i`, the whole string for an
input with the end-of-input requirement. -/
theorem C07_lr_sound_k (g : Grammar) (t : Tables) (cert : Cert) (inp : Input) (i fuel : Nat)
    (c : Cfg) (hc : certKOk g t cert = true)
    (htok : ∀ tk ∈ inp.toks.toList, 0 < tk.sym ∧ tk.sym < (t.nTerms : Int))
    (hi : i < g.inputs.size)
    (hrun : run t inp i fuel = (Result.accept, c)) :
    ∃ n, n ≤ inp.toks.size ∧
      Sentence g i ((inp.toks.toList.take n).map (fun tk => tk.sym.toNat)) ∧
      ((∃ gi, g.inputs[i]? = some gi ∧ gi.eoi = true) → n = inp.toks.size) := by
  have hcf := certFactsK hc
  unfold run at hrun
  cases hfin : t.finalStates[i]? with
  | none => rw [hfin] at hrun; cases hrun
  | some fin =>
    rw [hfin] at hrun
    simp only at hrun
    obtain ⟨⟨s, syms, hstk, hst, _⟩, hfs⟩ :=
      runLoop_acceptK hcf htok hi fin fuel _ c (inv_initK g t i inp) hrun
    obtain ⟨gi, u, hgi, hD, hcase⟩ := final_yieldK hcf hi hstk fin hfin (by rw [← hst, hfs])
    have hwf := wfFacts hcf.wf
    have hgim : gi ∈ g.inputs.toList := by
      rw [Array.mem_toList_iff]; exact Array.mem_of_getElem? hgi
    have hu0 : 0 ∉ u :=
      derives_no_zero hwf hD (by have := (hwf.inputs gi hgim).1; have := hwf.nTermsPos; omega)
    rcases hcase with ⟨he, hw⟩ | ⟨he, hw⟩
    · refine ⟨inp.toks.size, Nat.le_refl _, ⟨gi, hgi, ?_⟩, fun _ => rfl⟩
      rw [← consumed_eoi htok _ u hw hu0]; exact hD
    · have hm := consumed_no_zero (nshift c.evs) (by rw [hw]; exact hu0)
      refine ⟨nshift c.evs, hm, ⟨gi, hgi, ?_⟩, ?_⟩
      · rw [← consumed_le inp _ hm, hw]; exact hD
      · rintro ⟨gi', hgi', he'⟩
        rw [hgi] at hgi'
        injection hgi' with e
        subst e
        rw [he] at he'
        cases he'

/-- Completeness for LALR(k) tables: whenever `complKOk g t k cc = true`, for every token string
that is a sentence of input `i` the runtime model accepts (with enough fuel) — each reduction that
needs more than one token of lookahead being chosen by the walk of `resolveDeepLA` over the nested
lists of the real tables. For an input without the end-of-input requirement the run may stop after
a shorter prefix (a sentence too, by `C07_lr_sound_k`). -/
theorem C07_lr_complete_k (g : Grammar) (t : Tables) (k : Nat) (cc : KCert) (inp : Input) (i : Nat)
    (hc : complKOk g t k cc = true)
    (htok : ∀ tk ∈ inp.toks.toList, 0 < tk.sym ∧ tk.sym < (t.nTerms : Int))
    (hsent : Sentence g i (inp.toks.toList.map (fun tk => tk.sym.toNat))) :
    ∃ fuel c, run t inp i fuel = (Result.accept, c) := by
  have hf := kFacts hc
  obtain ⟨gi, hgi, hD⟩ := hsent
  have hr := LRComplete.reads_take inp inp.toks.size
  rw [List.take_of_length_le (by simp)] at hr
  cases heoi : gi.eoi with
  | true => exact LRCompleteK.accept_eoi hf htok hgi heoi hD hr (by simp)
  | false => exact LRCompleteK.accept_noeoi hf htok hgi heoi hD hr

/-- Completeness for inputs without the end-of-input requirement: if SOME prefix of the token
string is a sentence, the runtime model accepts. -/
theorem C07_lr_complete_k_prefix (g : Grammar) (t : Tables) (k : Nat) (cc : KCert) (inp : Input)
    (i n : Nat) (gi : GInput) (hc : complKOk g t k cc = true)
    (htok : ∀ tk ∈ inp.toks.toList, 0 < tk.sym ∧ tk.sym < (t.nTerms : Int))
    (hgi : g.inputs[i]? = some gi) (heoi : gi.eoi = false)
    (hsent : Sentence g i ((inp.toks.toList.take n).map (fun tk => tk.sym.toNat))) :
    ∃ fuel c, run t inp i fuel = (Result.accept, c) := by
  have hf := kFacts hc
  obtain ⟨gi', hgi', hD⟩ := hsent
  rw [hgi] at hgi'
  injection hgi' with e
  subst e
  exact LRCompleteK.accept_noeoi hf htok hgi heoi hD (LRComplete.reads_take inp n)

/-- Exactly the language, for LALR(k) tables: with both certificates the runtime model accepts
(for some fuel) iff the token string is a sentence (input with end-of-input) resp. has a prefix
that is a sentence (input without). -/
theorem C07_lr_exact_k (g : Grammar) (t : Tables) (k : Nat) (cert : Cert) (cc : KCert)
    (inp : Input) (i : Nat) (gi : GInput)
    (hs : certKOk g t cert = true) (hc : complKOk g t k cc = true)
    (htok : ∀ tk ∈ inp.toks.toList, 0 < tk.sym ∧ tk.sym < (t.nTerms : Int))
    (hgi : g.inputs[i]? = some gi) :
    (∃ fuel c, run t inp i fuel = (Result.accept, c)) ↔
      if gi.eoi then Sentence g i (inp.toks.toList.map (fun tk => tk.sym.toNat))
      else ∃ n, n ≤ inp.toks.size ∧
        Sentence g i ((inp.toks.toList.take n).map (fun tk => tk.sym.toNat)) := by
  have hi : i < g.inputs.size := by
    rcases Nat.lt_or_ge i g.inputs.size with h | h
    · exact h
    · rw [Array.getElem?_eq_none h] at hgi; cases hgi
  constructor
  · rintro ⟨fuel, c, hrun⟩
    obtain ⟨n, hn, hsent, hall⟩ := C07_lr_sound_k g t cert inp i fuel c hs htok hi hrun
    cases heoi : gi.eoi with
    | true =>
      have := hall ⟨gi, hgi, heoi⟩
      subst this
      rw [List.take_of_length_le (by simp)] at hsent
      simp only [↓reduceIte]
      exact hsent
    | false =>
      simp only [Bool.false_eq_true, ↓reduceIte]
      exact ⟨n, hn, hsent⟩
  · intro h
    cases heoi : gi.eoi with
    | true =>
      rw [heoi] at h
      simp only [↓reduceIte] at h
      exact C07_lr_complete_k g t k cc inp i hc htok h
    | false =>
      rw [heoi] at h
      simp only [Bool.false_eq_true, ↓reduceIte] at h
      obtain ⟨n, _, hsent⟩ := h
      exact C07_lr_complete_k_prefix g t k cc inp i n gi hc htok hgi heoi hsent

/-! Non-vacuity: the real tables of `lalr.Compile` with `Lookahead: 2` for
`S: A a c | B T d ; T: a ; A: e ; B: e ;` (terminals 1 `a`, 2 `c`, 3 `d`, 4 `e`; nonterminals 5 `S`,
6 `A`, 7 `B`, 8 `T`). After `e` the state has the two reductions `A: e` and `B: e`, both followed
by `a`: its cell on `a` points to a nested list that decides on the second token (`c` → `A: e`,
`d` → `B: e`; `UsedLADepth = 2`). Both certificates (computed by `mkKCert` / `computePastK`) hold;
`certOk` of C01 does not; `e a d` and `e a c` are accepted because they are sentences. -/
private def kG : Grammar :=
  { nTerms := 5, nSyms := 9,
    rules := #[⟨5, [6, 1, 2], 0⟩, ⟨5, [7, 8, 3], 0⟩, ⟨8, [1], 0⟩, ⟨6, [4], 0⟩, ⟨7, [4], 0⟩],
    inputs := #[⟨5, true⟩] }
private def kT : Tables :=
  { nTerms := 5, action := #[-1,-3,-1,-1,-1,2,-1,0,1,-1,-2], lalr := #[1,-7,-1,-2,2,3,3,4,-1,-2],
    goto_ := #[0,2,6,8,10,12,14,16,18,20], fromTo := #[9,10,2,4,3,5,4,7,6,8,0,1,0,9,0,2,0,3,3,6],
    ruleLen := #[3,3,1,1,1], ruleSymbol := #[5,5,8,6,7], finalStates := #[10] }
private def kCC : KCert :=
  { items := #[[⟨0, 0, [[0, 0]]⟩, ⟨1, 0, [[0, 0]]⟩, ⟨3, 0, [[1, 2]]⟩, ⟨4, 0, [[1, 3]]⟩,
                ⟨5, 0, [[0, 0]]⟩],
               [⟨3, 1, [[1, 2]]⟩, ⟨4, 1, [[1, 3]]⟩], [⟨0, 1, [[0, 0]]⟩],
               [⟨1, 1, [[0, 0]]⟩, ⟨2, 0, [[3, 0]]⟩], [⟨0, 2, [[0, 0]]⟩], [⟨2, 1, [[3, 0]]⟩],
               [⟨1, 2, [[0, 0]]⟩], [⟨0, 3, [[0, 0]]⟩], [⟨1, 3, [[0, 0]]⟩], [⟨5, 1, [[0, 0]]⟩],
               [⟨5, 2, [[0, 0]]⟩]],
    first := #[[], [], [], [], [], [[4, 1]], [[4]], [[4]], [[1]]] }
private def kCert : Cert :=
  { past := #[[], [4], [6], [7], [1, 6], [1, 7], [8, 7], [2, 1, 6], [3, 8, 7], [5], [0, 5]],
    reach := #[[10, 8, 7, 6, 5, 4, 3, 2, 9, 1, 0]] }
private def kInp : Input := { toks := #[⟨4, 0, 1⟩, ⟨1, 1, 2⟩, ⟨3, 2, 3⟩], endOff := 3 }

example : complKOk kG kT 2 kCC = true ∧ (mkKCert kG kT 2).toOption = some kCC ∧
    certKOk kG kT kCert = true ∧ certOk kG kT kCert = false ∧
    cellPtr kT 1 1 = some (-7) := by
  refine ⟨by decide +kernel, by decide +kernel, by decide +kernel, by decide +kernel,
    by decide +kernel⟩

private theorem kSent : Sentence kG 0 (kInp.toks.toList.map (fun tk => tk.sym.toNat)) :=
  ⟨⟨5, true⟩, rfl, Derives.rule ⟨5, [7, 8, 3], 0⟩ [4, 1, 3] (by decide)
    (.cons 7 _ [4] _ (Derives.rule ⟨7, [4], 0⟩ [4] (by decide)
        (.cons 4 _ [4] _ (.term 4 (by decide)) .nil))
      (.cons 8 _ [1] _ (Derives.rule ⟨8, [1], 0⟩ [1] (by decide)
          (.cons 1 _ [1] _ (.term 1 (by decide)) .nil))
        (.cons 3 _ [3] _ (.term 3 (by decide)) .nil)))⟩

example : ∃ fuel c, run kT kInp 0 fuel = (Result.accept, c) :=
  C07_lr_complete_k kG kT 2 kCC kInp 0 (by decide +kernel) (by decide +kernel) kSent

/-- the runtime really takes the deep decision: on `e a d` the reduction after `e` is `B: e`
(rule 4), on `e a c` it is `A: e` (rule 3) -/
example : (run kT kInp 0 40).1 = Result.accept ∧
    (run kT kInp 0 40).2.evs.reverse.head? = some (Ev.shift 4 0 1) ∧
    (run kT kInp 0 40).2.evs.reverse[1]? = some (Ev.reduce 4 0 1) ∧
    (run kT { kInp with toks := #[⟨4, 0, 1⟩, ⟨1, 1, 2⟩, ⟨2, 2, 3⟩] } 0 40).2.evs.reverse[1]?
      = some (Ev.reduce 3 0 1) := by
  refine ⟨by decide +kernel, by decide +kernel, by decide +kernel, by decide +kernel⟩

example : (∃ fuel c, run kT kInp 0 fuel = (Result.accept, c)) ↔
    Sentence kG 0 (kInp.toks.toList.map (fun tk => tk.sym.toNat)) := by
  have := C07_lr_exact_k kG kT 2 kCert kCC kInp 0 ⟨5, true⟩ (by decide +kernel)
    (by decide +kernel) (by decide +kernel) rfl
  simpa using this

/-- a wrong lookahead automaton is rejected by both certificates' checks where it matters: with the
two decisions of the nested list swapped (`c` → `B: e`, `d` → `A: e`) condition (R) fails. -/
example : complKOk kG { kT with lalr := #[1,-7,-1,-2,2,4,3,3,-1,-2] } 2 kCC = false := by
  decide +kernel

end exact

end TmVerif.LRK
