import TmVerif.Proofs.ShiftDfa
/-!
C24 — Shift-DFA scanners agree with the lexer tables they pack (property theorems only).

`pack` mirrors `shiftdfa.Pack`, `Scanner.scan` mirrors `shiftdfa.Scanner.Scan`, `lexScan` mirrors
`lex.Tables.Scan` (`Model/ShiftDfa.lean`, `Model/LexTables.lean`). The theorems are about ALL tables
and ALL byte strings; `WFBytes` is the decidable well-formedness of byte-mode lexer tables that every
output of `lex.Compile(…, scanBytes = true, …)` satisfies (the driver evaluates it on every real table).

History: before fixes/C24-pack-guard.diff the guard of `Pack` was `LastMapEntry.Start > 0xff`, which does
not imply what the packing needs (all bytes `≥ 0x80` belong to the last symbol-map entry, i.e.
`Start ≤ 0x80`); `C24_old_guard_insufficient` keeps the witness, `C24_pack_rejects_old_witness` shows
that the fixed `Pack` rejects it.
-/
namespace TmVerif.ShiftDfa
open TmVerif.LexTables

/-- Well-formed byte-mode lexer tables. -/
def WFBytes (t : Tables) : Bool := t.scanBytes && t.wf

/-- `(size, token)` of the packed scanner is what `Tables.Scan(0, input)` returns (which does not panic). -/
def Agree (t : Tables) (s : Scanner) (input : List UInt8) : Prop :=
  ∀ decode, lexScan decode t 0 input = some ((s.scan input).1, ((s.scan input).2 : Int))

theorem agree_of (guard : Int) (t : Tables) (s : Scanner)
    (hg : guard ≤ 0x80 ∨ ∀ e, t.symbolMap.back? = some e → e.start ≤ 0x80)
    (hw : WFBytes t = true) (h : packWith guard t = .ok s) (input : List UInt8) : Agree t s input := by
  intro decode
  simp only [WFBytes, Bool.and_eq_true] at hw
  unfold lexScan
  rw [if_pos hw.1]
  exact packWith_agrees guard t s hg hw.2 h input

/-- `Pack` (guard `> 0x80`): for ALL well-formed byte-mode tables it accepts and ALL byte strings the
packed scanner returns what `Tables.Scan(0, ·)` returns. -/
theorem C24_pack_agrees (t : Tables) (s : Scanner) (hp : pack t = .ok s) (hw : WFBytes t = true)
    (input : List UInt8) : Agree t s input :=
  agree_of asciiGuard t s (Or.inl (by decide)) hw hp input

/-- `Pack` with any guard constant `≤ 0x80` (the fixed code has `0x80`): full agreement, the guard
is part of `packWith … = ok`. -/
theorem C24_pack_agrees_for_guard_le_0x80 (guard : Int) (hg : guard ≤ 0x80) (t : Tables) (s : Scanner)
    (hp : packWith guard t = .ok s) (hw : WFBytes t = true) (input : List UInt8) : Agree t s input :=
  agree_of guard t s (Or.inl hg) hw hp input

/-- Real tables of the rules `[a-z]+`, `[0-9]+`, `[^a-z0-9]` (byte mode). -/
def sampleTables : Tables where
  scanBytes := true
  symbolMap := #[⟨0, 1⟩, ⟨48, 2⟩, ⟨58, 1⟩, ⟨97, 3⟩, ⟨123, 1⟩]
  numSymbols := 4
  stateMap := #[0]
  dfa := #[-1, 3, 2, 1, -2, -2, -2, 1, -3, -3, 2, -3, -4, -4, -4, -4]
  backtrack := #[]

/-- Real tables of the rules `a`, `[\x90-\x9f]+`, `b+` (byte mode), accepted by `Pack`. -/
def witnessTables : Tables where
  scanBytes := true
  symbolMap := #[⟨0, 1⟩, ⟨97, 2⟩, ⟨98, 3⟩, ⟨99, 1⟩, ⟨144, 4⟩, ⟨160, 1⟩]
  numSymbols := 5
  stateMap := #[0]
  dfa := #[-1, -1, 3, 2, 1, -3, -3, -3, -3, 1, -4, -4, -4, 2, -4, -2, -2, -2, -2, -2]
  backtrack := #[]

def witnessInput : List UInt8 := [0x95, 0x95, 0x61]

/-- the scanner `Pack` returns for a table (default when it fails) -/
def packed (t : Tables) : Scanner := match pack t with | .ok s => s | .error _ => default

def packOk (t : Tables) : Bool := match pack t with | .ok _ => true | .error _ => false

theorem pack_eq_packed (t : Tables) (h : packOk t = true) : pack t = .ok (packed t) := by
  unfold packOk at h
  unfold packed
  cases hp : pack t with
  | ok s => rfl
  | error e => rw [hp] at h; exact nomatch h

-- non-vacuity of `C24_pack_agrees` / `…_for_guard_le_0x80`: a real table satisfies all hypotheses
set_option maxRecDepth 100000 in
example : pack sampleTables = .ok (packed sampleTables) ∧ WFBytes sampleTables = true :=
  ⟨pack_eq_packed _ (by decide +kernel), by decide +kernel⟩

set_option maxRecDepth 100000 in
example : ∃ s, packWith 0x80 sampleTables = .ok s :=
  match h : packWith 0x80 sampleTables with
  | .ok s => ⟨s, rfl⟩
  | .error _ => by
    have : (match packWith 0x80 sampleTables with | .ok _ => true | .error _ => false) = true := by
      decide +kernel
    rw [h] at this
    exact nomatch this

def packedOld (t : Tables) : Scanner := match packWith 0xff t with | .ok s => s | .error _ => default

set_option maxRecDepth 100000 in
/-- The old guard `> 0xff` was insufficient: the tables of `a`, `[\x90-\x9f]+`, `b+` are well-formed
and were accepted; the packed scanner returns `(0, 0)` on `"\x95\x95a"`, the lexer tables `(2, 2)`. -/
theorem C24_old_guard_insufficient :
    ¬ ∀ (t : Tables) (s : Scanner), packWith 0xff t = .ok s → WFBytes t = true → ∀ input, Agree t s input := by
  intro h
  have hok : (match packWith 0xff witnessTables with | .ok _ => true | .error _ => false) = true := by
    decide +kernel
  have hp : packWith 0xff witnessTables = .ok (packedOld witnessTables) := by
    unfold packedOld
    cases hq : packWith 0xff witnessTables with
    | ok s => rfl
    | error e => rw [hq] at hok; exact nomatch hok
  have hw : WFBytes witnessTables = true := by decide +kernel
  have h1 := h witnessTables (packedOld witnessTables) hp hw witnessInput (fun _ => [])
  have h2 : lexScan (fun _ => []) witnessTables 0 witnessInput = some (2, 2) := by decide +kernel
  have ps := packWith_spec 0xff witnessTables (packedOld witnessTables)
    (wf_of_wf _ (by decide +kernel)) hp
  have hf := ps.fld 0x95 0 (by decide) (by decide +kernel)
  have hv : cellVal witnessTables witnessTables.numSymbols.toNat 0 (packCls witnessTables 0x95) = 1 := by
    decide +kernel
  rw [hv] at hf
  have h3 : (packedOld witnessTables).scan witnessInput = (0, 0) :=
    scan_first_odd (packedOld witnessTables) 0x95 [0x95, 0x61] 1 hf (by decide)
  rw [h2, h3] at h1
  exact absurd h1 (by decide)

/-- The fixed `Pack` rejects the witness tables ("only ASCII automatons are supported"). -/
theorem C24_pack_rejects_old_witness : pack witnessTables = .error .notAscii := by
  have hk : (match pack witnessTables with | .error e => decide (e = .notAscii) | .ok _ => false) = true := by
    decide +kernel
  cases h : pack witnessTables with
  | ok s => rw [h] at hk; exact nomatch hk
  | error e =>
    rw [h] at hk
    simp only [decide_eq_true_eq] at hk
    rw [hk]

end TmVerif.ShiftDfa
