import TmVerif.Proofs.ShiftDfa
/-!
C24 — Shift-DFA scanners agree with the lexer tables they pack (property theorems only).

`pack` mirrors `shiftdfa.Pack`, `Scanner.scan` mirrors `shiftdfa.Scanner.Scan`, `lexScan` mirrors
`lex.Tables.Scan` (`Model/ShiftDfa.lean`, `Model/LexTables.lean`). The theorems are about ALL tables
and ALL byte strings; `WFBytes` is the decidable well-formedness of byte-mode lexer tables that every
output of `lex.Compile(…, scanBytes = true, …)` satisfies (the driver evaluates it on every real table).

Finding: the guard of `Pack` (`LastMapEntry.Start > 0xff`) does not imply what the packing needs
(all bytes `≥ 0x80` belong to the last symbol-map entry, i.e. `Start ≤ 0x80`). With the real guard the
statement `C24_pack_agrees_full` is FALSE (`C24_pack_guard_insufficient`); it holds under the extra
hypothesis (`C24_pack_agrees_partial`) and for every guard constant `≤ 0x80`
(`C24_pack_agrees_for_guard_le_0x80`, i.e. for `Pack` after fixes/C24-pack-guard.diff).
-/
namespace TmVerif.ShiftDfa
open TmVerif.LexTables

/-- Well-formed byte-mode lexer tables. -/
def WFBytes (t : Tables) : Bool := t.scanBytes && t.wf

/-- `(size, token)` of the packed scanner is what `Tables.Scan(0, input)` returns (which does not panic). -/
def Agree (t : Tables) (s : Scanner) (input : List UInt8) : Prop :=
  ∀ decode, lexScan decode t 0 input = some ((s.scan input).1, ((s.scan input).2 : Int))

theorem agree_of (guard : Int) (t : Tables) (s : Scanner)
    (hg : guard ≤ 0x80 ∨ ∀ e, t.symbolMap.back? = some e → e.start ≤ 0x80)
    (hw : WFBytes t = true) (h : packWith guard t = .ok s) (input : List UInt8) : Agree t s input := by
  intro decode
  simp only [WFBytes, Bool.and_eq_true] at hw
  unfold lexScan
  rw [if_pos hw.1]
  exact packWith_agrees guard t s hg hw.2 h input

/-- The full statement for the code as it is (guard `> 0xff`): false, see below. -/
def C24_pack_agrees_full : Prop :=
  ∀ (t : Tables) (s : Scanner), pack t = .ok s → WFBytes t = true → ∀ input, Agree t s input

/-- `Pack` as it is: agreement on every byte string for accepted well-formed byte-mode tables whose
last symbol-map entry starts at or below 0x80 (so that every byte `≥ 0x80` is in its class). -/
theorem C24_pack_agrees_partial (t : Tables) (s : Scanner) (hp : pack t = .ok s)
    (hw : WFBytes t = true) (hlast : ∀ e, t.symbolMap.back? = some e → e.start ≤ 0x80)
    (input : List UInt8) : Agree t s input :=
  agree_of asciiGuard t s (Or.inr hlast) hw hp input

/-- `Pack` with any guard constant `≤ 0x80` (the fixed code has `0x80`): full agreement, the guard
is part of `packWith … = ok`. -/
theorem C24_pack_agrees_for_guard_le_0x80 (guard : Int) (hg : guard ≤ 0x80) (t : Tables) (s : Scanner)
    (hp : packWith guard t = .ok s) (hw : WFBytes t = true) (input : List UInt8) : Agree t s input :=
  agree_of guard t s (Or.inl hg) hw hp input

/-- Real tables of the rules `[a-z]+`, `[0-9]+`, `[^a-z0-9]` (byte mode). -/
def sampleTables : Tables where
  scanBytes := true
  symbolMap := #[⟨0, 1⟩, ⟨48, 2⟩, ⟨58, 1⟩, ⟨97, 3⟩, ⟨123, 1⟩]
  numSymbols := 4
  stateMap := #[0]
  dfa := #[-1, 3, 2, 1, -2, -2, -2, 1, -3, -3, 2, -3, -4, -4, -4, -4]
  backtrack := #[]

/-- Real tables of the rules `a`, `[\x90-\x9f]+`, `b+` (byte mode), accepted by `Pack`. -/
def witnessTables : Tables where
  scanBytes := true
  symbolMap := #[⟨0, 1⟩, ⟨97, 2⟩, ⟨98, 3⟩, ⟨99, 1⟩, ⟨144, 4⟩, ⟨160, 1⟩]
  numSymbols := 5
  stateMap := #[0]
  dfa := #[-1, -1, 3, 2, 1, -3, -3, -3, -3, 1, -4, -4, -4, 2, -4, -2, -2, -2, -2, -2]
  backtrack := #[]

def witnessInput : List UInt8 := [0x95, 0x95, 0x61]

/-- the scanner `Pack` returns for a table (default when it fails) -/
def packed (t : Tables) : Scanner := match pack t with | .ok s => s | .error _ => default

def packOk (t : Tables) : Bool := match pack t with | .ok _ => true | .error _ => false

theorem pack_eq_packed (t : Tables) (h : packOk t = true) : pack t = .ok (packed t) := by
  unfold packOk at h
  unfold packed
  cases hp : pack t with
  | ok s => rfl
  | error e => rw [hp] at h; exact nomatch h

-- non-vacuity of `C24_pack_agrees_partial` / `…_for_guard_le_0x80`: a real table satisfies all hypotheses
set_option maxRecDepth 100000 in
example : pack sampleTables = .ok (packed sampleTables) ∧ WFBytes sampleTables = true ∧
    (∀ e, sampleTables.symbolMap.back? = some e → e.start ≤ 0x80) := by
  refine ⟨pack_eq_packed _ (by decide +kernel), by decide +kernel, ?_⟩
  intro e he
  have : sampleTables.symbolMap.back? = some ⟨123, 1⟩ := by decide +kernel
  rw [this] at he
  cases he
  decide

set_option maxRecDepth 100000 in
example : ∃ s, packWith 0x80 sampleTables = .ok s :=
  match h : packWith 0x80 sampleTables with
  | .ok s => ⟨s, rfl⟩
  | .error _ => by
    have : (match packWith 0x80 sampleTables with | .ok _ => true | .error _ => false) = true := by
      decide +kernel
    rw [h] at this
    exact nomatch this

set_option maxRecDepth 100000 in
/-- The guard `> 0xff` is insufficient: the tables of `a`, `[\x90-\x9f]+`, `b+` are well-formed and
accepted; row `0x95` of the packed table carries in field 0 the code of cell `(0, last class)`, which
is the "invalid token" action, so the packed scanner returns `(0, 0)` on `"\x95\x95a"`, whereas the
lexer tables return `(2, 2)`. -/
theorem C24_pack_guard_insufficient : ¬ C24_pack_agrees_full := by
  intro h
  have hp : pack witnessTables = .ok (packed witnessTables) := pack_eq_packed _ (by decide +kernel)
  have hw : WFBytes witnessTables = true := by decide +kernel
  have h1 := h witnessTables (packed witnessTables) hp hw witnessInput (fun _ => [])
  have h2 : lexScan (fun _ => []) witnessTables 0 witnessInput = some (2, 2) := by decide +kernel
  have ps := packWith_spec asciiGuard witnessTables (packed witnessTables)
    (wf_of_wf _ (by decide +kernel)) hp
  have hf := ps.fld 0x95 0 (by decide) (by decide +kernel)
  have hv : cellVal witnessTables witnessTables.numSymbols.toNat 0 (packCls witnessTables 0x95) = 1 := by
    decide +kernel
  rw [hv] at hf
  have h3 : (packed witnessTables).scan witnessInput = (0, 0) :=
    scan_first_odd (packed witnessTables) 0x95 [0x95, 0x61] 1 hf (by decide)
  rw [h2, h3] at h1
  exact absurd h1 (by decide)

end TmVerif.ShiftDfa
