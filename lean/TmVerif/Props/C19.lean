import TmVerif.Proofs.LRXRecover
import TmVerif.Proofs.LRXSafeMain
import TmVerif.Proofs.LRXHalt
/-!
C19 — error recovery is safe and transparent (property theorems only; what the runtime model
`Model/LRX.lean` carries: transparency on runs without reported errors, monotone error offsets
inside the input, the `recovering` counter, panic-freedom and the sufficiency of the internal
fuels of recovery for certified tables — `C19_no_panic`, `C19_recovery_terminates`).
Events are stored most-recent-first.
-/
namespace TmVerif.LRX
open TmVerif.LR TmVerif.CFG TmVerif.LRSound

/-- One loop iteration of a recovering parser from a configuration satisfying `RecInv` (a non-zero
`recovering` counter implies an earlier handler call; true initially and preserved) either is the
iteration of ANY parser `x'` with the same tables, rule actions and options — whatever its recovery
parameters (`recovering`, `errSym`, `afterErr`) and `stopOnError` flag — or reports an error. -/
theorem C19_recovery_transparent_step (x x' : XTables) (ht : x'.t = x.t) (hr : x'.rules = x.rules)
    (hf : x'.fixWhitespace = x.fixWhitespace) (hc : x'.cancellable = x.cancellable)
    (hrec : x.recovering = true) (inp : Input) (fin : Int) (stop stop' : Bool) (k : Nat) (c : XCfg)
    (hinv : RecInv c) :
    xstep x' inp fin stop' k c = xstep x inp fin stop k c ∨
      ∃ o e, XEv.error o e ∈ (xstep x inp fin stop k c).cfg.evs := by
  rcases xstep_transparent ht hr hf hc hrec inp fin stop stop' k c hinv with h | h
  · exact .inl h
  · exact .inr ((hasErr_iff _).1 h)

/-- the general form: any parser `x'` sharing the tables, and any `stopOnError'` -/
theorem C19_recovery_transparent_run_any (x x' : XTables) (ht : x'.t = x.t) (hr : x'.rules = x.rules)
    (hf : x'.fixWhitespace = x.fixWhitespace) (hc : x'.cancellable = x.cancellable)
    (hrec : x.recovering = true) (inp : Input) (input : Nat) (stop stop' : Bool)
    (k fuel : Nat) (r : XResult) (c : XCfg)
    (h : xrun x inp input stop k fuel = (r, c)) (hne : ∀ o e, XEv.error o e ∉ c.evs) :
    xrun x' inp input stop' k fuel = (r, c) := by
  unfold xrun at h ⊢
  rw [ht]
  split at h
  · exact h
  · next fin hfin =>
    refine xrunLoop_transparent ht hr hf hc hrec inp fin stop stop' k fuel _
      (recInv_xinit inp input) r c h ?_
    intro he
    obtain ⟨o, e, hm⟩ := (hasErr_iff _).1 he
    exact hne o e hm

/-- If a run (any result: accept, cancelled, panic, out of fuel …) has called the error handler
never, the parser generated from the same grammar without recovery makes exactly the same run: same
result, same events, same final configuration. -/
theorem C19_recovery_transparent_run (x : XTables) (inp : Input) (input : Nat) (stop : Bool)
    (k fuel : Nat) (r : XResult) (c : XCfg)
    (h : xrun x inp input stop k fuel = (r, c)) (hne : ∀ o e, XEv.error o e ∉ c.evs) :
    xrun { x with recovering := false } inp input stop k fuel = (r, c) := by
  cases hrec : x.recovering
  · have : { x with recovering := false } = x := by
      cases x; simp only at hrec; subst hrec; rfl
    rw [this]; exact h
  · exact C19_recovery_transparent_run_any x { x with recovering := false } rfl rfl rfl rfl hrec inp input
      stop stop k fuel r c h hne

/-- Reported error offsets are non-decreasing in time (`l2` holds the events before `error o2 e2`). -/
theorem C19_errors_monotone (x : XTables) (inp : Input) (input : Nat) (stop : Bool) (k fuel : Nat)
    (r : XResult) (c : XCfg) (hm : ∀ i j, i ≤ j → (inp.tok i).off ≤ (inp.tok j).off)
    (h : xrun x inp input stop k fuel = (r, c))
    (l1 l2 : List XEv) (o1 e1 o2 e2 : Nat) (hs : c.evs = l1 ++ XEv.error o2 e2 :: l2)
    (h1 : XEv.error o1 e1 ∈ l2) : o1 ≤ o2 := by
  have hinv : ErrInv inp c := xrun_errInv hm h
  exact errOffs_sorted_elim hinv.sorted hs h1

/-- the same as sortedness of the list of reported offsets (most recent first) -/
theorem C19_errors_sorted (x : XTables) (inp : Input) (input : Nat) (stop : Bool) (k fuel : Nat)
    (r : XResult) (c : XCfg) (hm : ∀ i j, i ≤ j → (inp.tok i).off ≤ (inp.tok j).off)
    (h : xrun x inp input stop k fuel = (r, c)) : (errOffs c.evs).Pairwise (· ≥ ·) :=
  (xrun_errInv hm h).sorted

/-- Every reported error offset is the offset of a token of the input (possibly EOI), hence lies
inside the input (monotone offsets include the EOI token at `endOff`). -/
theorem C19_errors_in_bounds (x : XTables) (inp : Input) (input : Nat) (stop : Bool) (k fuel : Nat)
    (r : XResult) (c : XCfg) (hm : ∀ i j, i ≤ j → (inp.tok i).off ≤ (inp.tok j).off)
    (h : xrun x inp input stop k fuel = (r, c)) (o e : Nat) (he : XEv.error o e ∈ c.evs) :
    o ≤ inp.endOff := by
  have hinv : ErrInv inp c := xrun_errInv hm h
  exact Nat.le_trans (hinv.bound o (mem_errOffs.2 ⟨e, he⟩)) (tok_off_le_endOff hm _)

/-- The `recovering` counter. `XIter x … c c' m` is a segment of the loop (`xrunLoop`) from `c` to `c'`
in which `m` iterations decode a shift action; `errCount` counts handler calls. With
Φ(c) = 4·errCount c − c.recovering: only a shift iteration increases Φ, by at most one (the handler
is called only when `recovering = 0` and then `recovering := 4`; only shifts decrement it). -/
theorem C19_recovering_counter (x : XTables) (inp : Input) (fin : Int) (stop : Bool) (k : Nat)
    (c c' : XCfg) (m : Nat) (h : XIter x inp fin stop k c c' m) (h4 : c.recovering ≤ 4) :
    c'.recovering ≤ 4 ∧ 4 * errCount c' + c.recovering ≤ 4 * errCount c + c'.recovering + m :=
  h.potential h4

/-- Between two handler calls at least four tokens are shifted: a segment of the loop that contains
two handler calls contains at least four shift iterations. -/
theorem C19_shifts_between_handler_calls (x : XTables) (inp : Input) (fin : Int) (stop : Bool) (k : Nat)
    (c c' : XCfg) (m : Nat) (h : XIter x inp fin stop k c c' m) (h4 : c.recovering ≤ 4)
    (h2 : errCount c + 2 ≤ errCount c') : 4 ≤ m := by
  have := h.potential h4
  omega

/-- `XIter` segments are exactly what `xrunLoop` runs through: a run is a segment followed by the
loop's exit (out of fuel, final state, or a last iteration returning a result ≠ accept). -/
theorem C19_run_is_iter (x : XTables) (inp : Input) (fin : Int) (stop : Bool) (k fuel : Nat) (c : XCfg) :
    ∃ c' m, XIter x inp fin stop k c c' m ∧
      (xrunLoop x inp fin stop k fuel c = (.fuel, c') ∨
       (c'.state = fin ∧ xrunLoop x inp fin stop k fuel c = (.accept, c')) ∨
       ∃ r cf, c'.state ≠ fin ∧ xstep x inp fin stop k c' = .done r cf ∧
         xrunLoop x inp fin stop k fuel c = (r, cf)) :=
  xrunLoop_iter ..

/-- an accepting run is one `XIter` segment from the start to the accepting configuration, so the two
theorems above speak about complete accepted runs -/
theorem C19_accepting_run_is_iter (x : XTables) (inp : Input) (fin : Int) (stop : Bool) (k fuel : Nat)
    (c cf : XCfg) (h : xrunLoop x inp fin stop k fuel c = (.accept, cf)) :
    ∃ m, XIter x inp fin stop k c cf m ∧ cf.state = fin :=
  xrunLoop_accept_iter h

/-! ### panic-freedom and termination of recovery

Hypotheses (both decidable, evaluated by the driver on the real tables of every sampled grammar,
`C19 xvalidate`): `certOk g x.t cert` (the C01 soundness certificate of the core tables) and
`xwf g x cert xc` (Model/LRXSafe.lean: report ranges inside the right-hand sides, gotos on the error
symbol respect `past`, every goto after a reduction is a state, and the rank certificate `xc`
bounding chains of reductions under a fixed lookahead). -/

/-- For certified tables the extended runtime with error recovery never panics: on every token
string (symbols are terminals other than EOI), for every input `i`, `stopOnError` flag, cancellation
point `k` and fuel, no index or slice expression of the generated parser is out of range — in the
main loop (`tmAction[state]`, `stack[len-ln:]`, `applyRule`'s report ranges and `fixTrailingWS`,
`gotoState`), in `recoverFromError` / `skipBrokenCode` (stack positions, gotos on the error symbol,
states taken from the stack) and in `reduceAll`'s simulated reductions on the copied stack — and
none of the internal loops of recovery runs out of the model's fuel (which the model reports as
`panic` too). -/
theorem C19_no_panic (g : Grammar) (x : XTables) (cert : Cert) (xc : XCert) (inp : Input)
    (i : Nat) (stop : Bool) (k fuel : Nat)
    (hc : certOk g x.t cert = true) (hx : xwf g x cert xc = true)
    (htok : ∀ tk ∈ inp.toks.toList, 0 < tk.sym ∧ tk.sym < (x.t.nTerms : Int))
    (hi : i < g.inputs.size) :
    (xrun x inp i stop k fuel).1 ≠ XResult.panic := by
  have hcf := certFacts hc
  have hxf := xFacts hx
  unfold xrun
  cases hfin : x.t.finalStates[i]? with
  | none =>
    have := hcf.fin
    have hlt : i < x.t.finalStates.size := by omega
    rw [Array.getElem?_eq_getElem hlt] at hfin
    cases hfin
  | some fin =>
    have hfi : fin = finOf x i := by unfold finOf; rw [hfin]; rfl
    exact xrunLoop_no_panic hcf hxf htok fin hfi stop k fuel _ (xinv_xinit (hxf.closed hcf) inp hi)

/-- Every configuration the loop reaches from the initial one satisfies the invariant `XInv`
(Proofs/LRXSafeStep.lean): the states on the stack form a path of transitions of the tables that
respects the `past` certificate, and `next` is the token before `pos`. -/
theorem C19_invariant_reachable (g : Grammar) (x : XTables) (cert : Cert) (xc : XCert) (inp : Input)
    (i : Nat) (fin : Int) (stop : Bool) (k : Nat) (c : XCfg) (m : Nat)
    (hc : certOk g x.t cert = true) (hx : xwf g x cert xc = true)
    (htok : ∀ tk ∈ inp.toks.toList, 0 < tk.sym ∧ tk.sym < (x.t.nTerms : Int))
    (hi : i < g.inputs.size) (hfin : x.t.finalStates[i]? = some fin)
    (h : XIter x inp fin stop k (xinit inp i) c m) :
    XInv g x cert i inp c :=
  h.inv (certFacts hc) (xFacts hx) htok (by unfold finOf; rw [hfin]; rfl)
    (xinv_xinit ((xFacts hx).closed (certFacts hc)) inp hi)

/-- Recovery's own loops terminate within the fuel the model gives them — their out-of-fuel
branches are unreachable: from any configuration `c` satisfying the invariant (all reachable ones
do, `C19_invariant_reachable`; so do the configurations recovery itself passes on),
* `skipBroken` returns the same result with any surplus fuel (each iteration consumes a token);
* `recoverLoop`, for any list `rp` of recovery positions as `recoverFromError` computes them,
  returns a result (`some …`, not the out-of-fuel/panic `none`) which does not depend on surplus
  fuel (every round but the first consumes a token);
* `reduceAllLoop` on any certified state stack — the calls recovery makes have this form — returns
  a result that does not depend on surplus fuel (the potential `height + rank` of the certificate
  decreases with every simulated reduction).
What remains open is only the main loop's own fuel (chains of real reductions). -/
theorem C19_recovery_terminates (g : Grammar) (x : XTables) (cert : Cert) (xc : XCert) (inp : Input)
    (i : Nat) (fin : Int) (c : XCfg)
    (hc : certOk g x.t cert = true) (hx : xwf g x cert xc = true)
    (htok : ∀ tk ∈ inp.toks.toList, 0 < tk.sym ∧ tk.sym < (x.t.nTerms : Int))
    (hrec : x.recovering = true) (hfin : x.t.finalStates[i]? = some fin)
    (hinv : XInv g x cert i inp c) :
    (∀ can e extra, skipBroken inp can (inp.toks.size + 2 + extra) c e =
        skipBroken inp can (inp.toks.size + 2) c e) ∧
    (∀ rp, RPOk x c.stack rp → ∀ syms s e, ∃ res, ∀ extra,
        recoverLoop x inp fin rp (inp.toks.size + 3 + extra) c syms s e = some res) ∧
    (∀ (q : Nat) (sts : List Nat) (syms : List Int) (a : Nat), StOk g x cert i (q :: sts) syms →
        a < x.t.nTerms → ∃ b, ∀ extra,
        reduceAllLoop x a fin (4 * ((sts.map Int.ofNat).length + x.t.nStates + 4) + extra)
          (sts.map Int.ofNat) [(q : Int)] q = some b) := by
  have hcf := certFacts hc
  have hxf := xFacts hx
  have hfi : fin = finOf x i := by unfold finOf; rw [hfin]; rfl
  refine ⟨?_, ?_, ?_⟩
  · intro can e extra
    obtain ⟨_, _, _, _, _, _, hn⟩ := hinv
    exact (skipBroken_spec inp can (inp.toks.size + 2) c e hn (by omega) (by omega)).2.2.2.2.2.2 extra
  · intro rp hrp syms s e
    obtain ⟨res, _, hres⟩ := recoverLoop_total hcf hxf hrec htok fin hfi rp (inp.toks.size + 3) c syms s e
      hinv hrp (by omega) (by omega) (Or.inr (by omega))
    exact ⟨res, hres⟩
  · intro q sts syms a hst ha
    obtain ⟨b, _, hb, _⟩ := reduceAll_total hcf hxf ha fin hfi hst
    exact ⟨b, hb⟩

/-- Halting, recovery included: for certified tables (`certOk`, `xwf`, and `xhaltOk`: from a
reachable state other than the final one EOI is shifted into the final state only) the extended
loop needs at most `(2·|w| + 2) · (4 · nStates + 12 + weight)` iterations on a token string `w`:
with more fuel than that the model never answers `fuel` — by `C19_no_panic` every run ends with
accept, a syntax error, or cancellation. The potential
`W · (2 · (tokens left) + [not committed]) + weight · (stack height) + rank i (next token) (top state)`
decreases with every iteration: a reduction lowers `weight · height + rank`; a shift consumes a
token (a shift of EOI enters the final state); an error iteration calls recovery, which never
gives tokens back, leaves a stack no higher than before plus one entry, and hands back a
COMMITTED configuration — `reduceAll` has simulated the reductions under the next token down to a
shift, the real loop then performs exactly these reductions, so the next error needs a token to be
consumed first. -/
theorem C19_halts (g : Grammar) (x : XTables) (cert : Cert) (xc : XCert) (inp : Input)
    (i : Nat) (stop : Bool) (k fuel : Nat)
    (hc : certOk g x.t cert = true) (hx : xwf g x cert xc = true) (hh : xhaltOk g x cert = true)
    (htok : ∀ tk ∈ inp.toks.toList, 0 < tk.sym ∧ tk.sym < (x.t.nTerms : Int))
    (hi : i < g.inputs.size)
    (hfuel : (2 * inp.toks.size + 2) * (4 * x.t.nStates + 12 + xc.weight) < fuel) :
    (xrun x inp i stop k fuel).1 ≠ XResult.fuel := by
  have hcf := certFacts hc
  have hxf := xFacts hx
  unfold xrun
  cases hfin : x.t.finalStates[i]? with
  | none => exact fun h => nomatch h
  | some fin =>
    have hfi : fin = finOf x i := by unfold finOf; rw [hfin]; rfl
    have hinv := xinv_xinit (g := g) (hxf.closed hcf) inp hi
    refine xrunLoop_halts hcf hxf (haltFacts hh) htok fin hfi stop k fuel _ false hinv
      (fun h => nomatch h) ?_
    have hr := hinv.rank_le hcf hxf htok
    have hx0 : xidx (xinit inp (i : Nat)) = 0 := rfl
    unfold xpsi
    rw [hx0] at hr ⊢
    simp only [Bool.false_eq_true, if_false, Nat.sub_zero]
    have hl : (xinit inp (i : Nat)).stack.length = 1 := rfl
    rw [hl, Nat.mul_one]
    unfold xW
    have : (2 * inp.toks.size + 2) * (4 * x.t.nStates + 12 + xc.weight) =
        (4 * x.t.nStates + 12 + xc.weight) * (2 * inp.toks.size + 1) +
          (4 * x.t.nStates + 12 + xc.weight) := by
      rw [Nat.mul_comm, show 2 * inp.toks.size + 2 = (2 * inp.toks.size + 1) + 1 by omega,
        Nat.mul_add, Nat.mul_one]
    omega

/-! ### non-vacuity

Tables of a parser generated by the real toolchain for a random grammar with recovery rules (taken
from a case of `./check C19`: 9 terminals, `error` = 8, recovery tokens {2, 6}, default encoding);
the model's output on both inputs below equals the real parser's (that is what `./check C19` compares). -/

private def rT : Tables :=
  { nTerms := 9,
    action := #[-1,-1,8,4,-1,1,-3,6,-1,-1,-1,-1,7,0,2,5,-2],
    lalr := #[3,-1,4,-1,0,3,2,3,6,3,-1,-2],
    goto_ := #[0,2,2,6,8,10,20,22,32,40,44,52,60,70],
    fromTo := #[4,16,4,9,8,9,6,10,6,11,0,1,1,1,9,1,10,1,11,1,8,12,0,2,1,2,9,2,10,2,11,2,0,3,1,3,9,3,10,
      3,0,4,1,8,0,5,1,5,9,13,10,14,0,6,1,6,9,6,10,6,0,7,1,7,9,7,10,7,11,15],
    ruleLen := #[3,1,3,1,1,3,1,3,1], ruleSymbol := #[9,9,10,10,10,11,11,12,12], finalStates := #[16] }
private def rX : XTables :=
  { t := rT, rules := #[{ruleType := 1}, {ruleType := 2}, {ruleType := 3}, {ruleType := 4}, {ruleType := 9},
      {ruleType := 5}, {ruleType := 6}, {ruleType := 7}, {ruleType := 8}],
    recovering := true, errSym := 8, afterErr := [2, 6] }
/-- a sentence of the grammar -/
private def goodInp : Input := { toks := #[⟨7,0,1⟩,⟨2,1,2⟩,⟨7,2,3⟩,⟨2,3,4⟩,⟨7,4,5⟩], endOff := 5 }
/-- a broken input on which the parser recovers twice and accepts -/
private def badInp : Input :=
  { toks := #[⟨5,0,1⟩,⟨6,1,2⟩,⟨4,2,3⟩,⟨5,3,4⟩,⟨5,4,5⟩,⟨3,5,6⟩,⟨4,6,7⟩], endOff := 7 }

/-- the hypotheses of `C19_recovery_transparent_run` hold for a recovering parser on a sentence
(12 listener calls, no handler call, accepted) … -/
example : rX.recovering = true ∧ (xrun rX goodInp 0 false 0 100).1 = .accept ∧
    (xrun rX goodInp 0 false 0 100).2.evs.length = 12 ∧
    (∀ e ∈ (xrun rX goodInp 0 false 0 100).2.evs, e.isError = false) := by
  decide +kernel

/-- … so the theorem applies: the non-recovering parser makes the same run -/
example : xrun { rX with recovering := false } goodInp 0 false 0 100 = xrun rX goodInp 0 false 0 100 := by
  refine C19_recovery_transparent_run rX goodInp 0 false 0 100 _ _ rfl ?_
  intro o e hm
  have h : ∀ e ∈ (xrun rX goodInp 0 false 0 100).2.evs, e.isError = false := by decide +kernel
  exact absurd (h _ hm) (by simp [XEv.isError])

/-- the conclusion of transparency fails as soon as the handler is called: on the broken input the
recovering parser accepts and the non-recovering one stops at the first error -/
example : (xrun rX badInp 0 false 0 100).1 = .accept ∧
    (xrun { rX with recovering := false } badInp 0 false 0 100).1 = .syntaxError 1 2 := by
  decide +kernel

/-- the hypothesis of the monotonicity theorems holds for the broken input, two errors are reported
(offsets 1 then 5, most recent first), inside the input of length 7 -/
example : monoToksB badInp = true ∧ errOffs (xrun rX badInp 0 false 0 100).2.evs = [5, 1] := by
  decide +kernel

example : ∀ o e, XEv.error o e ∈ (xrun rX badInp 0 false 0 100).2.evs → o ≤ 7 :=
  fun o e h => C19_errors_in_bounds rX badInp 0 false 0 100 _ _
    (monoToks_of_check (by decide +kernel)) rfl o e h

/-- `C19_shifts_between_handler_calls` applies to that run: it is a segment from `xinit` with two
handler calls, hence with at least four shift iterations -/
example : ∃ c' m, XIter rX badInp 16 false 0 (xinit badInp 0) c' m ∧ errCount c' = 2 ∧ 4 ≤ m := by
  have hacc : (xrunLoop rX badInp 16 false 0 100 (xinit badInp 0)).1 = .accept := by decide +kernel
  have hcnt : errCount (xrunLoop rX badInp 16 false 0 100 (xinit badInp 0)).2 = 2 := by decide +kernel
  obtain ⟨m, hi, _⟩ := xrunLoop_accept_iter (x := rX) (inp := badInp) (fin := 16) (stop := false) (k := 0)
    (fuel := 100) (c := xinit badInp 0) (cf := (xrunLoop rX badInp 16 false 0 100 (xinit badInp 0)).2)
    (by rw [← hacc])
  exact ⟨_, m, hi, hcnt,
    C19_shifts_between_handler_calls rX badInp 16 false 0 _ _ m hi (by decide) (by rw [hcnt]; decide)⟩

/-! Non-vacuity of `C19_no_panic` / `C19_recovery_terminates`: real tables of the toolchain for
`S : 't2' S | %empty | error 't4'` (6 terminals, `error` = 5, recovery token {4}, optimized
encoding; a `C19 xvalidate` case). Both certificates check, the broken input `t2 t3 t3 t4` makes
the handler fire and recovery skip two tokens, and the theorem applies. -/
private def sG : Grammar :=
  { nTerms := 6, nSyms := 7, rules := #[⟨6, [2, 6], 0⟩, ⟨6, [], 0⟩, ⟨6, [5, 4], 0⟩], inputs := #[⟨6, true⟩] }
private def sT : Tables :=
  { nTerms := 6, action := #[-3,-11,-1,0,2,-1,-2], lalr := #[2,-1,5,-1,0,1,-1,-2,2,-1,5,-1,0,1,-1,-2], goto_ := #[0,2,2,6,6,8,12,16], fromTo := #[5,6,0,1,1,1,2,4,0,2,1,2,0,5,1,3], ruleLen := #[2,0,2], ruleSymbol := #[6,6,6], finalStates := #[6], optimized := true, oDefGoto := #[-1], oGoto := #[3], oDefAct := #[-1,-1,-1,0,2,-1,-1], oAction := #[0,0,-3,-6,-6,6,-6], oBase := -6, oTable := #[1,-6,-3,5,3,-4,-8], oCheck := #[0,4,2,0,1,5,0] }
private def sX : XTables :=
  { t := sT, rules := #[{ruleType := 1}, {ruleType := 2}, {ruleType := 3}], recovering := true, errSym := 5, afterErr := [4] }
private def sCert : Cert :=
  { past := #[[], [2], [5], [6, 2], [4, 5], [6], [0, 6]], reach := #[[6, 4, 3, 5, 2, 1, 0]] }
private def sXC : XCert :=
  { weight := 1, rank := #[#[#[4, 4, 0, 2, 2, 2, 0], #[0, 0, 0, 0, 0, 0, 0], #[0, 0, 0, 0, 0, 0, 0], #[0, 0, 0, 0, 0, 0, 0], #[0, 0, 0, 0, 0, 0, 0], #[0, 0, 0, 0, 0, 0, 0]]] }
private def sBad : Input := { toks := #[⟨2,0,1⟩, ⟨3,1,2⟩, ⟨3,2,3⟩, ⟨4,3,4⟩], endOff := 4 }

example : certOk sG sT sCert = true ∧ xwf sG sX sCert sXC = true ∧ sX.recovering = true ∧
    (∀ tk ∈ sBad.toks.toList, 0 < tk.sym ∧ tk.sym < (sX.t.nTerms : Int)) ∧
    (xrun sX sBad 0 false 0 100).1 = .accept ∧ errOffs (xrun sX sBad 0 false 0 100).2.evs = [1] := by
  decide +kernel

example : (xrun sX sBad 0 false 0 100).1 ≠ XResult.panic :=
  C19_no_panic sG sX sCert sXC sBad 0 false 0 100 (by decide +kernel) (by decide +kernel)
    (by decide +kernel) (by decide +kernel)

/-- `C19_recovery_terminates` at the initial configuration of that run -/
example : ∀ extra, skipBroken sBad (fun _ => false) (sBad.toks.size + 2 + extra) (xinit sBad 0) 0 =
    skipBroken sBad (fun _ => false) (sBad.toks.size + 2) (xinit sBad 0) 0 :=
  fun extra => (C19_recovery_terminates sG sX sCert sXC sBad 0 6 (xinit sBad 0) (by decide +kernel)
    (by decide +kernel) (by decide +kernel) rfl (by decide +kernel)
    (C19_invariant_reachable sG sX sCert sXC sBad 0 6 false 0 _ 0 (by decide +kernel)
      (by decide +kernel) (by decide +kernel) (by decide +kernel) (by decide +kernel)
      (.refl _))).1 _ 0 extra

/-- `C19_halts` on the broken input above: 10 · 41 = 410 iterations suffice -/
example : (xrun sX sBad 0 false 0 411).1 ≠ XResult.fuel :=
  C19_halts sG sX sCert sXC sBad 0 false 0 411 (by decide +kernel) (by decide +kernel)
    (by decide +kernel) (by decide +kernel) (by decide +kernel) (by decide +kernel)

end TmVerif.LRX
