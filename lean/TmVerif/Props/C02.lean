import TmVerif.Proofs.EventsAccept
/-!
C02 — the listener events of the generated parser reproduce the derivation.

Runtime side: `LRX.xrun` (model of `gen/templates/go_parser.go.tmpl` with `applyRule`,
`fixTrailingWS`, `reportRange`; tied to the real generated parsers by the differential harness)
emits listener events computed from the offsets stored in stack entries.
Specification side: `Events.eventsOf` rebuilds the derivation tree from the shift/reduce trace of
the core runtime `LR.run` and assigns events WITHOUT a stack (`Events.layout`: range = first to last
token of the annotated part, empty parts positioned at the following token, reports in order, then
the rule's own node, children before parents).

`C02_events_eq_eventsOf`: for every table set, token source, input symbol and fuel, an accepted run
of the extended runtime emits exactly `eventsOf`.  Hypotheses (all decidable, evaluated by the
driver on every accepted case of the real tables):
* `x.recovering = false` — error recovery rewrites the stack, the accepted input is then not a
  sentence and has no derivation tree;
* `reportsWF x` — every report range has `start ≤ stop` (for `start > stop` the generated code reads
  `rhs[start].offset, rhs[stop-1].endoffset` while the specification has no such part);
* `symsWF x inp`, `acceptShape x c` — at acceptance the stack is `[EOI…, S, terminals…, bottom]`
  (for generated tables `[EOI?, S, bottom]`): `eventsOf` is defined as the events of THE tree of the
  input symbol. The runtime accepts whenever the final state is reached, at any stack depth; the
  shape-free statement is `C02_events_eq_forest_layout` (events of all trees on the stack).
No hypothesis on token offsets is needed (ordering, `off ≤ endo`, … are irrelevant).
-/
namespace TmVerif.Events
open TmVerif.LR TmVerif.LRX

/-- **(c) Simulation and forest.** No assumption on the shape of the accepting stack: if the
extended runtime accepts, the core runtime accepts with the same fuel, its shift/reduce trace is a
derivation forest, and laying that forest out stack-free gives (1) exactly the `(offset, endoffset)`
ranges stored in the stack entries above the bottom entry and (2) exactly the listener events
emitted, in order. -/
theorem C02_events_eq_forest_layout (x : XTables) (inp : Input) (input fuel : Nat) (c : XCfg)
    (hx : x.recovering = false) (hwf : reportsWF x = true)
    (hrun : xrun x inp input false 0 fuel = (XResult.accept, c)) :
    ∃ (cl : Cfg) (F : List PTree),
      run x.t inp input fuel = (Result.accept, cl) ∧
      buildForest x.t.ruleLen cl.evs.reverse [] = some F ∧
      forestLayout x F (inp.tok (consumed cl.evs)).off =
        some (c.stack.dropLast.map (fun e => (e.off, e.endo)), c.evs.reverse) := by
  obtain ⟨cl, F, h1, h2, h3⟩ := xrun_accept_inv hx hwf hrun
  exact ⟨cl, F, h1, h2, forestLayout_of_laid h3⟩

/-- **Main theorem.** For every table set, token source and accepted input, the listener events
the runtime emits from its stack offsets are exactly the events the stack-free specification assigns
to the derivation tree of the reduce sequence. -/
theorem C02_events_eq_eventsOf (x : XTables) (inp : Input) (input fuel : Nat) (c : XCfg)
    (hx : x.recovering = false) (hwf : reportsWF x = true) (hsym : symsWF x inp = true)
    (hrun : xrun x inp input false 0 fuel = (XResult.accept, c))
    (hshape : acceptShape x c = true) :
    eventsOf x inp input fuel = some c.evs.reverse := by
  obtain ⟨cl, F, h1, h2, h3⟩ := xrun_accept_inv hx hwf hrun
  obtain ⟨tree, l, h4, h5, h6⟩ := shape_events (symFacts hsym) h3 rfl hshape
  rw [eventsOf_eq h1 h2, h4]
  simp only [h5, Option.map_some, h6]

/-- **(a) One reduction.** When the popped stack entries carry the ranges `layoutList` assigns to
the children (left to right) of the new node, the listener calls of `applyRule` are exactly the
report events followed by the rule's own node as computed by `layout`, and `(off, endo')` — the
range stored in the new stack entry (after `fixTrailingWS`) — is the node's range. -/
theorem C02_applyRule_matches_layout (x : XTables) (rule : Int) (stack : List Entry) (ln : Nat)
    (kids : List PTree) (after : Nat) (ll : LaidList) (off endo endo' : Nat) (evs : List XEv)
    (hrule : 0 ≤ rule) (hln : ln ≤ stack.length) (hwf : reportsWF x = true)
    (hll : layoutList x kids after = some ll)
    (hitems : ll.items = (stack.take ln).reverse.map (fun e => (e.off, e.endo)))
    (hoff : off = if ln = 0 then after else ((stack.take ln).getLast?.map (·.off)).getD 0)
    (hendo : endo = if ln = 0 then after else ((stack.take ln).head?.map (·.endo)).getD 0)
    (h : applyRuleEvents x rule ln off endo stack = some (evs, endo')) :
    layout x (.node rule.toNat kids) after = some ⟨off, endo', ll.evs ++ evs⟩ := by
  have htl : (stack.take ln).length = ln := by simp; omega
  refine applyRule_layout x rule hrule stack ln hln kids after ll hll hitems hwf off endo endo' evs
    ?_ ?_ h
  · rw [hoff, hitems]
    unfold headOff
    generalize stack.take ln = T at htl
    by_cases h0 : ln = 0
    · subst h0; rw [List.length_eq_zero_iff] at htl; subst htl; simp
    · rw [if_neg h0, List.head?_map, List.head?_reverse]
      cases hT : T.getLast? with
      | none => rw [List.getLast?_eq_none_iff] at hT; subst hT; simp at htl; omega
      | some a => simp
  · rw [hendo, hitems]
    unfold lastEnd
    generalize stack.take ln = T at htl
    by_cases h0 : ln = 0
    · subst h0; rw [List.length_eq_zero_iff] at htl; subst htl; simp
    · rw [if_neg h0, List.getLast?_map, List.getLast?_reverse]
      cases hT : T.head? with
      | none => rw [List.head?_eq_none_iff] at hT; subst hT; simp at htl; omega
      | some a => simp

/-- **(b) Post-order.** The events of a node are: the events of its children, left to right, then
its reports in declared order (each computed from the children's ranges only), then its own node. -/
theorem C02_layout_postorder (x : XTables) (rule : Nat) (kids : List PTree) (after : Nat) (l : Laid)
    (h : layout x (.node rule kids) after = some l) :
    ∃ (ll : LaidList) (reps : List XEv),
      layoutList x kids after = some ll ∧
      ((x.rules[rule]?).getD {}).reports.mapM (reportEvent x.fixWhitespace ll.items after) = some reps ∧
      l.evs = ll.evs ++ reps ++
        (if ((x.rules[rule]?).getD {}).ruleType ≠ 0 then
          [XEv.node ((x.rules[rule]?).getD {}).ruleType l.off l.endo] else []) := by
  cases hll : layoutList x kids after with
  | none => rw [layout_node_none x rule kids after hll] at h; cases h
  | some ll =>
    rw [layout_node x rule kids after ll hll] at h
    cases hm : ((x.rules[rule]?).getD {}).reports.mapM (reportEvent x.fixWhitespace ll.items after) with
    | none => rw [hm] at h; cases h
    | some reps =>
      rw [hm] at h
      simp only [Option.map_some, Option.some.injEq] at h
      subst h
      exact ⟨ll, reps, rfl, hm, rfl⟩

/-- … and the events of a child list are the concatenation of the children's events, each child
laid out in front of its right neighbour (the last one in front of `after`). -/
theorem C02_layoutList_events (x : XTables) (c : PTree) (rest : List PTree) (after : Nat) (ll : LaidList)
    (h : layoutList x (c :: rest) after = some ll) :
    ∃ (lr : LaidList) (lc : Laid),
      layoutList x rest after = some lr ∧
      layout x c (match lr.items.head? with | some (o, _) => o | none => after) = some lc ∧
      ll.items = (lc.off, lc.endo) :: lr.items ∧ ll.evs = lc.evs ++ lr.evs := by
  rw [layoutList_cons] at h
  cases hr : layoutList x rest after with
  | none => rw [hr] at h; cases h
  | some lr =>
    rw [hr] at h
    simp only at h
    cases hc : layout x c (headOff lr.items after) with
    | none => rw [hc] at h; cases h
    | some lc =>
      rw [hc] at h
      injection h with h
      subst h
      exact ⟨lr, lc, rfl, hc, rfl, rfl⟩

/-! ### Non-vacuity

Grammar `S: (a -> T5) -> R7 ;` with end of input: terminals `0 = EOI`, `1 = a`, nonterminal `2 = S`;
states `0 -a-> 1` (reduce rule 0), `0 -S-> 2 -EOI-> 3` (final). Input `a` at `[0,1)`. -/
private def exT : Tables :=
  { nTerms := 2, action := #[-1, 0, -1, -2], lalr := #[], goto_ := #[0, 2, 4, 6],
    fromTo := #[2, 3, 0, 1, 0, 2], ruleLen := #[1], ruleSymbol := #[2], finalStates := #[3] }
private def exX : XTables :=
  { t := exT, rules := #[{ ruleType := 7, reports := [⟨5, 0, 1⟩], fixWS := true }], fixWhitespace := true }
private def exInp : Input := { toks := #[⟨1, 0, 1⟩], endOff := 2 }

example : ∃ c, xrun exX exInp 0 false 0 20 = (XResult.accept, c) ∧
    c.evs.reverse = [XEv.node 5 0 1, XEv.node 7 0 1] ∧
    eventsOf exX exInp 0 20 = some [XEv.node 5 0 1, XEv.node 7 0 1] := by
  have h1 : (xrun exX exInp 0 false 0 20).1 = XResult.accept := by decide +kernel
  have hrun : xrun exX exInp 0 false 0 20 = (XResult.accept, (xrun exX exInp 0 false 0 20).2) :=
    Prod.ext h1 rfl
  refine ⟨_, hrun, by decide +kernel, ?_⟩
  rw [C02_events_eq_eventsOf exX exInp 0 20 _ rfl (by decide +kernel) (by decide +kernel) hrun
    (by decide +kernel)]
  exact congrArg some (by decide +kernel)

/-! ### The hypotheses cannot be dropped (for the specification `eventsOf` as defined)

`acceptShape`: tables whose final state is entered by shifting `a` (no reduction at all): the runtime
accepts with no events, `eventsOf` finds no tree. -/
private def exT2 : Tables :=
  { nTerms := 2, action := #[-1, -2], lalr := #[], goto_ := #[0, 0, 2, 2],
    fromTo := #[0, 1], ruleLen := #[], ruleSymbol := #[], finalStates := #[1] }

example : (xrun { t := exT2, rules := #[] } exInp 0 false 0 20).1 = XResult.accept ∧
    (xrun { t := exT2, rules := #[] } exInp 0 false 0 20).2.evs = [] ∧
    acceptShape { t := exT2, rules := #[] } (xrun { t := exT2, rules := #[] } exInp 0 false 0 20).2 = false ∧
    eventsOf { t := exT2, rules := #[] } exInp 0 20 = none := by
  decide +kernel

/-! `reportsWF`: `S: a a` with a report whose range is reversed (`start = 1 > stop = 0`): the runtime
reads `rhs[1].offset, rhs[stop-1 = 0].endoffset`; the specification has no such part. -/
private def exT3 : Tables :=
  { nTerms := 2, action := #[-1, -1, 0, -1, -2], lalr := #[], goto_ := #[0, 2, 6, 8],
    fromTo := #[3, 4, 0, 1, 1, 2, 0, 3], ruleLen := #[2], ruleSymbol := #[2], finalStates := #[4] }
private def exX3 : XTables := { t := exT3, rules := #[{ ruleType := 7, reports := [⟨5, 1, 0⟩] }] }
private def exInp3 : Input := { toks := #[⟨1, 0, 1⟩, ⟨1, 1, 2⟩], endOff := 2 }

example : (xrun exX3 exInp3 0 false 0 20).1 = XResult.accept ∧
    (xrun exX3 exInp3 0 false 0 20).2.evs.reverse = [XEv.node 5 1 1, XEv.node 7 0 2] ∧
    reportsWF exX3 = false ∧ acceptShape exX3 (xrun exX3 exInp3 0 false 0 20).2 = true ∧
    eventsOf exX3 exInp3 0 20 = none := by
  decide +kernel

end TmVerif.Events
