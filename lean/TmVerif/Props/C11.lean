import TmVerif.Proofs.LexRunRefine
/-!
C11 — Generated Go lexers tokenize exactly as the lexer rules specify (property theorems only).

Model: `Model/LexRun.lean` — `next` mirrors the `Lexer.Next` that go_lexer.go.tmpl generates (rune/byte
reading, `tmRuneClass`/`mapRune`, DFA stepping with `backupToken/backupOffset`, keyword hash switch,
space restart, invalid-token forced progress, EOI, line/lineOffset/column, `rewind`, `State`);
`specNext`/`specOnce` is the documented tokenization in terms of `lex.Tables.Scan` (`scanG`).
The tie of the model to the real templates is the differential run of `./check C11`.

Deviations of the current tree are explicit `Variant` flags of the model; the theorems below state
the documented behaviour for the fixed variant and carry the counterexample for the current one:
* `colFix` — `Column()`: `C11_positions_spec` / `C11_positions_spec_partial` /
  `C11_column_current_tree_counterexample`;
* `hashFix` — keywords of byte-mode lexers: `C11_hash_switch_correct` /
  `C11_bytes_hash_current_tree_counterexample`.
-/
namespace TmVerif.LexRun
open TmVerif.LexTables

/-! ### keyword switch -/

/-- **Keyword switch.** Mirror of `asStringSwitch`/`stringHash` and of the generated
`switch hash & mask { case V: if hash == H && "kw" == text … }`: looking up the matched text with the
hash accumulated at run time returns `m[text]` — the keyword's action iff the text is a keyword — for
any keyword map (collisions in a bucket included), in rune mode, or in byte mode when the generator
hashes bytes (fixes/C11-bytes-hash.diff) or the text is ASCII. -/
theorem C11_hash_switch_correct (sb hashFix : Bool) (m : List (List UInt8 × Int)) (text : List UInt8)
    (h : sb = false ∨ hashFix = true ∨ IsAscii text) :
    (asStringSwitch (stringHash (hashFix && sb)) m).lookup (runtimeHash sb text) text = mapLookup m text := by
  rw [runtime_hash_eq sb hashFix text h]
  exact lookup_correct _ m text

/-- Whatever the hash, a hit of the switch is the entry of the text (a wrong keyword is never returned). -/
theorem C11_hash_switch_sound (hashf : List UInt8 → Nat) (m : List (List UInt8 × Int)) (hash : Nat)
    (text : List UInt8) (x : Int) (h : (asStringSwitch hashf m).lookup hash text = some x) :
    mapLookup m text = some x := lookup_sound hashf m hash text x h

/-- The statement without the side condition (the current tree: `stringHash` over runes for every lexer). -/
def C11_hash_switch_correct_full : Prop :=
  ∀ (sb : Bool) (m : List (List UInt8 × Int)) (text : List UInt8),
    (asStringSwitch (stringHash false) m).lookup (runtimeHash sb text) text = mapLookup m text

/-- Current tree, byte mode: the keyword `é` (bytes C3 A9) is in the map but the lookup with the
byte-wise run-time hash misses it — the generated lexer returns the class token instead. -/
theorem C11_bytes_hash_current_tree_counterexample : ¬ C11_hash_switch_correct_full := by
  intro h
  have := h true [([0xC3, 0xA9], 5)] [0xC3, 0xA9]
  revert this
  decide

-- non-vacuity: a rune-mode lookup with a colliding bucket
example : (asStringSwitch (stringHash false) [([97], 3), ([121], 7), ([0xC3, 0xA9], 5)]).lookup
    (runtimeHash false [121]) [121] = some 7 := by decide

/-! ### positions -/

/-- Tables of the grammar `tokenColumn = true; ws: /[ \n]+/ (space); id: /[a-z]+/` as compiled by
the real generator (token ids: invalid_token 1, ws 2, id 3). -/
def probeSpec (v : Variant) : Spec where
  t := { scanBytes := false,
         symbolMap := #[⟨0, 1⟩, ⟨10, 2⟩, ⟨11, 1⟩, ⟨32, 2⟩, ⟨33, 1⟩, ⟨97, 3⟩, ⟨123, 1⟩],
         numSymbols := 4, stateMap := #[0],
         dfa := #[-2, -2, 2, 1, -4, -4, -4, 1, -3, -3, 2, -3], backtrack := #[] }
  cm := ⟨((List.range 123).map fun i => if i = 10 ∨ i = 32 then (2 : Int) else if 97 ≤ i then 3 else 1).toArray,
         false, #[], 1⟩
  opts := ⟨true, false, true, false, true⟩
  v := v
  multiState := false
  ruleToken := none
  invalidToken := 1
  spaceActions := [2]
  classActions := []

/-- **Positions** (template after fixes/C11-column.diff). The token returned by `Next` lies at or
after the previous position inside the input; `Line()` is `1 +` the number of newlines before its
first byte; `Column()` is the number of bytes since the last newline before it (or the start of the
input) `+ 1`. -/
theorem C11_positions_spec (sp : Spec) (hw : tablesWF sp [] = true) (hfix : sp.v.colFix = true)
    (l : Lexer) (hp : PInv sp.opts sp.v l) (hv : ValidState sp l) (tok : Int) (l' : Lexer)
    (h : next sp l = some (tok, l')) :
    l.offset ≤ l'.tokenOffset ∧ l'.tokenOffset ≤ l'.offset ∧ l'.offset ≤ l.source.length ∧
    (sp.opts.tokenLine = true → l'.tokenLine = 1 + (countNL (l.source.take l'.tokenOffset) : Int)) ∧
    (sp.opts.tokenColumn = true → ∃ ls : Nat, ls ≤ l'.tokenOffset ∧
      l'.tokenColumn = (l'.tokenOffset : Int) - ls + 1 ∧
      (ls = 0 ∨ l.source[ls - 1]? = some 10) ∧ ∀ i : Nat, ls ≤ i → i < l'.tokenOffset → l.source[i]? ≠ some 10) := by
  obtain ⟨tok', l'', h1, h2⟩ := nextLoop_spec sp (wfacts_of sp hw) _ l hp hv (Nat.le_refl _)
  have : next sp l = some (tok', l'') := h1
  rw [this] at h
  simp only [Option.some.injEq, Prod.mk.injEq] at h
  rw [h.1, h.2] at h2
  have hsrc := h2.source
  have hlen : l'.tokenOffset ≤ l.source.length := by
    have := h2.pinv.le; rw [hsrc] at this; have := h2.le; omega
  refine ⟨h2.after, h2.le, by rw [← hsrc]; exact h2.pinv.le, fun ht => by rw [← hsrc]; exact h2.line ht, ?_⟩
  intro hc
  have hcol := h2.col hc (Or.inr hfix)
  simp only [hfix, if_true] at hcol
  rw [hsrc] at hcol
  obtain ⟨s1, s2, s3⟩ := lineStart_spec l.source l'.tokenOffset hlen
  exact ⟨_, s1, hcol, s2, s3⟩

/-- The same statement for EVERY variant of the template, the current tree included. -/
def C11_positions_spec_full : Prop :=
  ∀ (sp : Spec), tablesWF sp [] = true → ∀ (l : Lexer), PInv sp.opts sp.v l → ValidState sp l →
    ∀ (tok : Int) (l' : Lexer), next sp l = some (tok, l') → sp.opts.tokenColumn = true →
      l'.tokenColumn = (l'.tokenOffset : Int) - (lineStart l.source l'.tokenOffset : Int) + 1

/-- What holds for every variant (the current tree included): offsets and `Line()` as documented;
`Column()` (with `tokenLine`) is the documented value or one more. -/
theorem C11_positions_spec_partial (sp : Spec) (hw : tablesWF sp [] = true)
    (l : Lexer) (hp : PInv sp.opts sp.v l) (hv : ValidState sp l) (tok : Int) (l' : Lexer)
    (h : next sp l = some (tok, l')) :
    l.offset ≤ l'.tokenOffset ∧ l'.tokenOffset ≤ l'.offset ∧ l'.offset ≤ l.source.length ∧
    (sp.opts.tokenLine = true → l'.tokenLine = 1 + (countNL (l.source.take l'.tokenOffset) : Int)) ∧
    (sp.opts.tokenColumn = true → sp.opts.tokenLine = true →
      l'.tokenColumn = (l'.tokenOffset : Int) - (lineStart l.source l'.tokenOffset : Int) + 1 ∨
      l'.tokenColumn = (l'.tokenOffset : Int) - (lineStart l.source l'.tokenOffset : Int) + 2) := by
  obtain ⟨tok', l'', h1, h2⟩ := nextLoop_spec sp (wfacts_of sp hw) _ l hp hv (Nat.le_refl _)
  have : next sp l = some (tok', l'') := h1
  rw [this] at h
  simp only [Option.some.injEq, Prod.mk.injEq] at h
  rw [h.1, h.2] at h2
  have hsrc := h2.source
  refine ⟨h2.after, h2.le, by rw [← hsrc]; exact h2.pinv.le, fun ht => by rw [← hsrc]; exact h2.line ht, ?_⟩
  intro hc ht
  have hcol := h2.col hc (Or.inl ht)
  rw [hsrc] at hcol
  split at hcol
  · exact Or.inl hcol
  · exact hcol

set_option maxRecDepth 100000 in
/-- Current tree: on `"a\nb"` the lexer of `probeSpec` reports column 2 for `b` (the template stores
the offset of the newline itself in `lineOffset`); the documented column is 1. -/
theorem C11_column_current_tree_counterexample : ¬ C11_positions_spec_full := by
  intro h
  -- the lexer after the first token `a`
  have hw : tablesWF (probeSpec Variant.current) [] = true := by decide +kernel
  have hi := init_pinv (probeSpec Variant.current).opts Variant.current [97, 10, 98]
  have hv0 : ValidState (probeSpec Variant.current) (init (probeSpec Variant.current).opts Variant.current [97, 10, 98]) := by
    intro hm; exact nomatch hm
  obtain ⟨tok1, l1, n1, p1, v1, s1, _⟩ := nextLoop_spec (probeSpec Variant.current) (wfacts_of _ hw) _ _ hi.1 hv0 (Nat.le_refl _)
  have n1' : next (probeSpec Variant.current) (init (probeSpec Variant.current).opts Variant.current [97, 10, 98]) = some (tok1, l1) := n1
  have e1 : next (probeSpec Variant.current) (init (probeSpec Variant.current).opts Variant.current [97, 10, 98]) =
      some (3, ⟨[97, 10, 98], 10, 1, 2, 0, 1, 1, 0, 1, 0⟩) := by decide +kernel
  rw [e1] at n1'
  simp only [Option.some.injEq, Prod.mk.injEq] at n1'
  obtain ⟨_, rfl⟩ := n1'
  have hv1 : ValidState (probeSpec Variant.current) ⟨[97, 10, 98], 10, 1, 2, 0, 1, 1, 0, 1, 0⟩ := by
    intro hm; exact nomatch hm
  have e2 : next (probeSpec Variant.current) ⟨[97, 10, 98], 10, 1, 2, 0, 1, 1, 0, 1, 0⟩ =
      some (3, ⟨[97, 10, 98], -1, 3, 3, 2, 2, 2, 1, 2, 0⟩) := by decide +kernel
  have := h (probeSpec Variant.current) hw _ p1 hv1 _ _ e2 rfl
  revert this
  decide +kernel

-- non-vacuity of `C11_positions_spec`: the fixed variant of the probe tables is well-formed and reports column 1
set_option maxRecDepth 100000 in
example : tablesWF (probeSpec Variant.fixed) [] = true ∧
    (tokenize (probeSpec Variant.fixed) 3 (init (probeSpec Variant.fixed).opts Variant.fixed [97, 10, 98])).map
      (fun ts => ts.map fun t => (t.tok, t.start, t.stop, t.line, t.col)) =
    some [(3, 0, 1, 1, 1), (3, 2, 3, 2, 1), (0, 3, 3, 2, 2)] := by
  constructor <;> decide +kernel

/-! ### the generated loop is `Tables.Scan` -/

/-- `scanLoopG` with "no match" = action 0 IS the body of `lex.Tables.Scan` (`LexTables.scanLoop`);
for tables whose rule ids were replaced by token ids "no match" is the `invalid_token` id. -/
theorem C11_scanG_zero_is_scan (t : Tables) : ∀ (cs : List (Int × Nat)) (index : Nat) (state : Int) (size : Nat)
    (action : Int), scanLoopG t 0 cs index state size action = scanLoop t cs index state size action := by
  intro cs
  induction cs with
  | nil =>
    intro index state size action
    simp only [scanLoopG, scanLoop, Int.sub_zero]
    cases getI t.dfa (state * t.numSymbols) <;> rfl
  | cons c rest ih =>
    intro index state size action
    obtain ⟨r, w⟩ := c
    simp only [scanLoopG, scanLoop, Int.sub_zero]
    cases symOf t r with
    | none => rfl
    | some ch =>
      simp only
      cases getI t.dfa (state * t.numSymbols + ch) with
      | none => rfl
      | some st =>
        simp only
        by_cases h1 : st < 0
        · simp only [h1, if_true]
          by_cases h2 : st > actionStart t
          · simp only [h2, if_true]
            cases getI t.backtrack (-1 - st) with
            | none => rfl
            | some bt => exact ih _ _ _ _
          · simp only [h2, if_false]
        · simp only [h1, if_false]; exact ih _ _ _ _

/-- **Refinement.** For well-formed tables whose generated class lookup agrees with the symbol map
(`ClassOk`, enumerated by the driver over all runes), without `{eoi}` transitions (`eoiFinal`) and
with matching keyword hashes (`HashOk`: rune mode, or fixes/C11-bytes-hash.diff, or ASCII keywords),
the inlined loop of `Next` with its `backupToken/backupOffset/backupHash` bookkeeping, the hash switch
and `rewind` returns exactly the token the specification defines: iterate `Tables.Scan` from the
current offset in the current start condition, skip matches of space rules, replace a class-rule
match by the keyword with the same TEXT, "no match" → `invalid_token` over the scanned prefix (one
character when it is empty), EOI at the end of the input. -/
theorem C11_next_refines_scan (sp : Spec) (hw : tablesWF sp [] = true)
    (hc : classMapOkUpTo sp (charBound sp.opts.scanBytes) = true) (he : eoiFinal sp.t = true)
    (hk : HashOk sp) (l : Lexer) (hp : PInv sp.opts sp.v l) (hv : ValidState sp l) :
    ∃ tok l', next sp l = some (tok, l') ∧
      specNext sp l.source l.state l.offset = some (tok, l'.tokenOffset, l'.offset) ∧
      PInv sp.opts sp.v l' ∧ ValidState sp l' ∧ l'.source = l.source ∧ l'.state = l.state := by
  have w := wfacts_of sp hw
  obtain ⟨tok, l', h1, h2⟩ := nextLoop_spec sp w _ l hp hv (Nat.le_refl _)
  refine ⟨tok, l', h1, nextLoop_refines sp w (classOk_of sp hc) he hk _ l hp hv tok l' h1, h2.pinv, ?_, h2.source, h2.state⟩
  intro hm; rw [h2.state]; exact hv hm

/-- One pass of `Next` (from `restart:` to `goto restart` / `return`) is one step of the specification. -/
theorem C11_pass_refines_scan (sp : Spec) (hw : tablesWF sp [] = true)
    (hc : classMapOkUpTo sp (charBound sp.opts.scanBytes) = true) (he : eoiFinal sp.t = true)
    (hk : HashOk sp) (l : Lexer) (hp : PInv sp.opts sp.v l) (hv : ValidState sp l) (out : Outcome)
    (h : nextOnce sp l = some out) : specOnce sp l.source l.state l.offset = some (absOut out) :=
  nextOnce_refines sp (wfacts_of sp hw) (classOk_of sp hc) he hk l hp hv out h

/-- The statement without the hash side condition (current tree: byte-mode lexers with non-ASCII
keywords included). -/
def C11_next_refines_scan_full : Prop :=
  ∀ (sp : Spec), tablesWF sp [] = true → classMapOkUpTo sp (charBound sp.opts.scanBytes) = true →
    eoiFinal sp.t = true → ∀ (l : Lexer), PInv sp.opts sp.v l → ValidState sp l →
    ∀ tok l', next sp l = some (tok, l') → specNext sp l.source l.state l.offset = some (tok, l'.tokenOffset, l'.offset)

/-- Tables of `scanBytes = true; ws: /[ \n]+/ (space); id: /[a-z\x80-\xff]+/ (class); 'if'; 'été'`
as compiled by the real generator (tokens: invalid_token 1, ws 2, id 3, if 4, été 5). -/
def bytesSpec (v : Variant) : Spec where
  t := { scanBytes := true,
         symbolMap := #[⟨0, 1⟩, ⟨10, 2⟩, ⟨11, 1⟩, ⟨32, 2⟩, ⟨33, 1⟩, ⟨97, 3⟩, ⟨123, 1⟩, ⟨128, 3⟩],
         numSymbols := 4, stateMap := #[0],
         dfa := #[-2, -2, 2, 1, -4, -4, -4, 1, -3, -3, 2, -3], backtrack := #[] }
  cm := ⟨((List.range 128).map fun i => if i = 10 ∨ i = 32 then (2 : Int) else if 97 ≤ i ∧ i < 123 then 3 else 1).toArray,
         false, #[], 3⟩
  opts := ⟨true, false, false, true, true⟩
  v := v
  multiState := false
  ruleToken := none
  invalidToken := 1
  spaceActions := [2]
  classActions := [(3, [([0x69, 0x66], 4), ([0xC3, 0xA9, 0x74, 0xC3, 0xA9], 5)])]

set_option maxRecDepth 100000 in
/-- Current tree: the byte-mode lexer of `bytesSpec` returns the class token `id` (3) for the text
`été`, the rules specify the keyword (5). -/
theorem C11_bytes_keyword_current_tree_counterexample : ¬ C11_next_refines_scan_full := by
  intro h
  have hw : tablesWF (bytesSpec Variant.current) [] = true := by decide +kernel
  have hc : classMapOkUpTo (bytesSpec Variant.current) (charBound (bytesSpec Variant.current).opts.scanBytes) = true := by
    decide +kernel
  have he : eoiFinal (bytesSpec Variant.current).t = true := by decide +kernel
  have hi := init_pinv (bytesSpec Variant.current).opts Variant.current [0xC3, 0xA9, 0x74, 0xC3, 0xA9]
  have hv : ValidState (bytesSpec Variant.current) (init (bytesSpec Variant.current).opts Variant.current [0xC3, 0xA9, 0x74, 0xC3, 0xA9]) := by
    intro hm; exact nomatch hm
  have e : next (bytesSpec Variant.current) (init (bytesSpec Variant.current).opts Variant.current [0xC3, 0xA9, 0x74, 0xC3, 0xA9]) =
      some (3, ⟨[0xC3, 0xA9, 0x74, 0xC3, 0xA9], -1, 5, 5, 0, 1, 1, 0, 1, 0⟩) := by decide +kernel
  have := h _ hw hc he _ hi.1 hv _ _ e
  revert this
  decide +kernel

set_option maxRecDepth 100000 in
-- non-vacuity of `C11_next_refines_scan`: the hypotheses hold for the fixed variant of `bytesSpec`, where `été` IS the keyword
example : tablesWF (bytesSpec Variant.fixed) [] = true ∧
    classMapOkUpTo (bytesSpec Variant.fixed) (charBound (bytesSpec Variant.fixed).opts.scanBytes) = true ∧
    eoiFinal (bytesSpec Variant.fixed).t = true ∧
    (next (bytesSpec Variant.fixed) (init (bytesSpec Variant.fixed).opts Variant.fixed [0xC3, 0xA9, 0x74, 0xC3, 0xA9])).map (·.1) = some 5 := by
  refine ⟨by decide +kernel, by decide +kernel, by decide +kernel, by decide +kernel⟩

example : HashOk (bytesSpec Variant.fixed) := Or.inr (Or.inl rfl)

end TmVerif.LexRun
