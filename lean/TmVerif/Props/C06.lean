import TmVerif.Model.LRCheck
/-!
C06 — state minimisation preserves behaviour from every entry point.
`simCheck` is the certificate check run on the real unminimized/minimized tables of every sampled
grammar. The theorems state what an accepted certificate guarantees, for all tables.
-/
namespace TmVerif.LRCheck
open TmVerif.LR

/-- Entry points: the parser for input `i` starts in state `i` in both tables, and these are
related (a renumbering that moved an entry state is rejected). -/
theorem C06_entries_related (t t' : Tables) (acts : Array Int) (n : Nat) (rel : Array (Option Nat))
    (rs : List (List Nat)) (h : simCheck t t' acts n rel rs = true) (i : Nat) (hi : i < n) :
    relAt rel i = some i := by
  unfold simCheck at h
  simp only [Bool.and_eq_true, List.all_eq_true, List.mem_range] at h
  simpa using h.1.1.1 i hi

/-- Related states move together: on every symbol either both have no transition or both have one
and the targets are related again. -/
theorem C06_transitions_related (t t' : Tables) (acts : Array Int) (n : Nat)
    (rel : Array (Option Nat)) (rs : List (List Nat)) (h : simCheck t t' acts n rel rs = true)
    (s s' : Nat) (hs : s < t.nStates) (hr : relAt rel s = some s') (x : Nat) (hx : x < t.nSyms) :
    gotoSim t t' rel s s' x = true := by
  unfold simCheck at h
  simp only [Bool.and_eq_true, List.all_eq_true, List.mem_range] at h
  have := h.1.1.2 s hs
  rw [hr] at this
  simp only [Bool.and_eq_true, List.all_eq_true, List.mem_range] at this
  exact this.1 x hx

/-- Related states act alike on every terminal: same shift (to related states), reduction of a rule
of the same class (same left-hand side, length and action), or error. -/
theorem C06_actions_related (t t' : Tables) (acts : Array Int) (n : Nat)
    (rel : Array (Option Nat)) (rs : List (List Nat)) (h : simCheck t t' acts n rel rs = true)
    (s s' : Nat) (hs : s < t.nStates) (hr : relAt rel s = some s') (a : Nat) (ha : a < t.nTerms) :
    obsSim t t' acts rel (obsDefault t s a) (obsDefault t' s' a) = true := by
  unfold simCheck at h
  simp only [Bool.and_eq_true, List.all_eq_true, List.mem_range] at h
  have := h.1.1.2 s hs
  rw [hr] at this
  simp only [Bool.and_eq_true, List.all_eq_true, List.mem_range] at this
  exact this.2 a ha

/-- Acceptance coincides on everything a run from input `i` can reach: the set `rs[i]` contains the
entry state, is closed under transitions, and on it "is the final state of input `i`" is preserved
by the relation. -/
theorem C06_acceptance_related (t t' : Tables) (acts : Array Int) (n : Nat)
    (rel : Array (Option Nat)) (rs : List (List Nat)) (h : simCheck t t' acts n rel rs = true)
    (i : Nat) (hi : i < n) :
    (rs.getD i []).contains i = true ∧ reachClosed t (rs.getD i []) = true ∧
    ∃ f f', t.finalStates[i]? = some f ∧ t'.finalStates[i]? = some f' ∧
      ∀ s ∈ rs.getD i [], ∃ s', relAt rel s = some s' ∧ ((f == (s : Int)) = (f' == (s' : Int))) := by
  unfold simCheck at h
  simp only [Bool.and_eq_true, List.all_eq_true, List.mem_range] at h
  have := h.2 i hi
  refine ⟨this.1.1, this.1.2, ?_⟩
  have h3 := this.2
  cases hf : t.finalStates[i]? with
  | none => simp [hf] at h3
  | some f =>
    cases hf' : t'.finalStates[i]? with
    | none => simp [hf, hf'] at h3
    | some f' =>
      refine ⟨f, f', rfl, rfl, ?_⟩
      simp only [hf, hf', List.all_eq_true, Bool.and_eq_true, decide_eq_true_eq] at h3
      intro s hsm
      have := (h3 s hsm).2
      cases hr : relAt rel s with
      | none => simp [hr] at this
      | some s' =>
        refine ⟨s', rfl, ?_⟩
        simpa [hr] using this

end TmVerif.LRCheck
