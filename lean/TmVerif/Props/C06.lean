import TmVerif.Proofs.LRCheckMin
/-!
C06 — state minimisation preserves behaviour from every entry point.
`simCheck` is the certificate check run on the real unminimized/minimized tables of every sampled
grammar. The theorems state what an accepted certificate guarantees, for all tables — per related
pair of states, and (`C06_runs_equal`) for whole runs of the runtime model `Model/LR.lean` on every
input.
-/
namespace TmVerif.LRCheck
open TmVerif.LR

/-- Entry points: the parser for input `i` starts in state `i` in both tables, and these are
related (a renumbering that moved an entry state is rejected). -/
theorem C06_entries_related (t t' : Tables) (acts : Array Int) (n : Nat) (rel : Array (Option Nat))
    (rs : List (List Nat)) (h : simCheck t t' acts n rel rs = true) (i : Nat) (hi : i < n) :
    relAt rel i = some i := by
  unfold simCheck at h
  simp only [Bool.and_eq_true, List.all_eq_true, List.mem_range] at h
  simpa using h.1.1.1 i hi

/-- Related states move together: on every symbol either both have no transition or both have one
and the targets are related again. -/
theorem C06_transitions_related (t t' : Tables) (acts : Array Int) (n : Nat)
    (rel : Array (Option Nat)) (rs : List (List Nat)) (h : simCheck t t' acts n rel rs = true)
    (s s' : Nat) (hs : s < t.nStates) (hr : relAt rel s = some s') (x : Nat) (hx : x < t.nSyms) :
    gotoSim t t' rel s s' x = true := by
  unfold simCheck at h
  simp only [Bool.and_eq_true, List.all_eq_true, List.mem_range] at h
  have := h.1.1.2 s hs
  rw [hr] at this
  simp only [Bool.and_eq_true, List.all_eq_true, List.mem_range] at this
  exact this.1 x hx

/-- Related states act alike on every terminal: same shift (to related states), reduction of a rule
of the same class (same left-hand side, length and action), or error. -/
theorem C06_actions_related (t t' : Tables) (acts : Array Int) (n : Nat)
    (rel : Array (Option Nat)) (rs : List (List Nat)) (h : simCheck t t' acts n rel rs = true)
    (s s' : Nat) (hs : s < t.nStates) (hr : relAt rel s = some s') (a : Nat) (ha : a < t.nTerms) :
    obsSim t t' acts rel (obsDefault t s a) (obsDefault t' s' a) = true := by
  unfold simCheck at h
  simp only [Bool.and_eq_true, List.all_eq_true, List.mem_range] at h
  have := h.1.1.2 s hs
  rw [hr] at this
  simp only [Bool.and_eq_true, List.all_eq_true, List.mem_range] at this
  exact this.2 a ha

/-- Acceptance coincides on everything a run from input `i` can reach: the set `rs[i]` contains the
entry state, is closed under transitions, and on it "is the final state of input `i`" is preserved
by the relation. -/
theorem C06_acceptance_related (t t' : Tables) (acts : Array Int) (n : Nat)
    (rel : Array (Option Nat)) (rs : List (List Nat)) (h : simCheck t t' acts n rel rs = true)
    (i : Nat) (hi : i < n) :
    (rs.getD i []).contains i = true ∧ reachClosed t (rs.getD i []) = true ∧
    ∃ f f', t.finalStates[i]? = some f ∧ t'.finalStates[i]? = some f' ∧
      ∀ s ∈ rs.getD i [], ∃ s', relAt rel s = some s' ∧ ((f == (s : Int)) = (f' == (s' : Int))) := by
  unfold simCheck at h
  simp only [Bool.and_eq_true, List.all_eq_true, List.mem_range] at h
  have := h.2 i hi
  refine ⟨this.1.1, this.1.2, ?_⟩
  have h3 := this.2
  cases hf : t.finalStates[i]? with
  | none => simp [hf] at h3
  | some f =>
    cases hf' : t'.finalStates[i]? with
    | none => simp [hf, hf'] at h3
    | some f' =>
      refine ⟨f, f', rfl, rfl, ?_⟩
      simp only [hf, hf', List.all_eq_true, Bool.and_eq_true, decide_eq_true_eq] at h3
      intro s hsm
      have := (h3 s hsm).2
      cases hr : relAt rel s with
      | none => simp [hr] at this
      | some s' =>
        refine ⟨s', rfl, ?_⟩
        simpa [hr] using this

/-! ### whole runs

`run { t with optimized := false } inp i fuel` is the parse loop of the generated parser (default
encoding) started at input `i`. Side conditions, decidable and evaluated by the driver on every
real pair of tables (answer `hypothesis-fails …` otherwise): `tablesWf` of both table sets,
`sameRules t t'` (the minimiser leaves `RuleLen`/`RuleSymbol`/the number of terminals alone),
`inputOk` (token symbols are terminals). -/

/-- meaning of `traceSim`: the traces have the same length and correspond event by event —
the same token shifted, or two rules of one class (same left-hand side, length, action id)
reduced over the same range -/
theorem C06_traceSim_spec (t : Tables) (acts : Array Int) : ∀ (evs evs' : List Ev),
    traceSim t acts evs evs' = true ↔
      evs.length = evs'.length ∧
      ∀ (k : Nat) (e e' : Ev), evs[k]? = some e → evs'[k]? = some e' →
        (∃ s o en, e = Ev.shift s o en ∧ e' = Ev.shift s o en) ∨
        (∃ r r' o en, e = Ev.reduce r o en ∧ e' = Ev.reduce r' o en ∧
          ruleClassEq t acts r r' = true)
  | [], [] => by simp [traceSim]
  | [], _ :: _ => by simp [traceSim]
  | _ :: _, [] => by simp [traceSim]
  | e0 :: es, e0' :: es' => by
    rw [traceSim, Bool.and_eq_true, C06_traceSim_spec t acts es es']
    constructor
    · rintro ⟨h0, hl, hk⟩
      refine ⟨by simp [hl], ?_⟩
      intro k e e' he he'
      cases k with
      | zero =>
        simp only [List.getElem?_cons_zero, Option.some.injEq] at he he'
        subst he he'
        cases e0 <;> cases e0' <;> simp only [evSim, Bool.and_eq_true, beq_iff_eq] at h0
        · obtain ⟨⟨h1, h2⟩, h3⟩ := h0
          subst h1 h2 h3
          exact Or.inl ⟨_, _, _, rfl, rfl⟩
        · cases h0
        · cases h0
        · obtain ⟨⟨h1, h2⟩, h3⟩ := h0
          subst h2 h3
          exact Or.inr ⟨_, _, _, _, rfl, rfl, h1⟩
      | succ k =>
        simp only [List.getElem?_cons_succ] at he he'
        exact hk k e e' he he'
    · rintro ⟨hl, hk⟩
      refine ⟨?_, by simpa using hl, fun k e e' he he' => hk (k + 1) e e' (by simpa using he) (by simpa using he')⟩
      rcases hk 0 e0 e0' rfl rfl with ⟨s, o, en, h1, h2⟩ | ⟨r, r', o, en, h1, h2, h3⟩
      · subst h1 h2; simp [evSim]
      · subst h1 h2; simp [evSim, h3]

/-- An accepted certificate lifts to whole runs: started at any input `i < n`, on every token
sequence and with every fuel, the unminimized and the minimized tables produce the same result
(accept, syntax error at the same token, panic, out of fuel) and corresponding traces. -/
theorem C06_runs_equal (t t' : Tables) (acts : Array Int) (n : Nat) (rel : Array (Option Nat))
    (rs : List (List Nat)) (h : simCheck t t' acts n rel rs = true)
    (hwf : tablesWf t = true) (hwf' : tablesWf t' = true) (hsr : sameRules t t' = true)
    (inp : Input) (hin : inputOk t inp = true) (i : Nat) (hi : i < n) (fuel : Nat) :
    (run { t with optimized := false } inp i fuel).1 = (run { t' with optimized := false } inp i fuel).1 ∧
    traceSim t acts (run { t with optimized := false } inp i fuel).2.evs
      (run { t' with optimized := false } inp i fuel).2.evs = true :=
  run_rel h hwf hwf' hsr hin hi fuel

/-- in particular both tables accept the same token sequences from every entry point -/
theorem C06_same_language (t t' : Tables) (acts : Array Int) (n : Nat) (rel : Array (Option Nat))
    (rs : List (List Nat)) (h : simCheck t t' acts n rel rs = true)
    (hwf : tablesWf t = true) (hwf' : tablesWf t' = true) (hsr : sameRules t t' = true)
    (inp : Input) (hin : inputOk t inp = true) (i : Nat) (hi : i < n) (fuel : Nat) :
    (run { t with optimized := false } inp i fuel).1 = .accept ↔
    (run { t' with optimized := false } inp i fuel).1 = .accept := by
  rw [(C06_runs_equal t t' acts n rel rs h hwf hwf' hsr inp hin i hi fuel).1]

/-! ### non-vacuity: real tables of `S : a S | a b ;` before and after `MinimizeDFA`
(a case of a quick run; the minimiser merges the two reduce states 2 and 3, the rules 0 and 1 have
the same left-hand side, length and action id) -/

def exT : Tables :=
  { nTerms := 3, action := #[-1, -1, 1, 0, -1, -2], lalr := #[], goto_ := #[0, 2, 6, 8, 12, 12],
    fromTo := #[4, 5, 0, 1, 1, 1, 1, 2, 0, 4, 1, 3], ruleLen := #[2, 2, 2],
    ruleSymbol := #[3, 3, 4], finalStates := #[5] }

def exT' : Tables :=
  { nTerms := 3, action := #[-1, -1, 0, -1, -2], lalr := #[], goto_ := #[0, 2, 6, 8, 12, 12],
    fromTo := #[3, 4, 0, 1, 1, 1, 1, 2, 0, 3, 1, 2], ruleLen := #[2, 2, 2],
    ruleSymbol := #[3, 3, 4], finalStates := #[4] }

def exRel : Array (Option Nat) := #[some 0, some 1, some 2, some 2, some 3, some 4]

/-- `a a b` -/
def exInp : Input := ⟨#[⟨1, 0, 1⟩, ⟨1, 1, 2⟩, ⟨2, 2, 3⟩], 3⟩

example : simCheck exT exT' #[0, 0, 0] 1 exRel [[0, 1, 2, 3, 4, 5]] = true ∧
    tablesWf exT = true ∧ tablesWf exT' = true ∧ sameRules exT exT' = true ∧
    inputOk exT exInp = true := by
  decide +kernel

/-- both accept `a a b`; the traces differ (rule 1 then rule 0 against rule 0 twice) but
correspond up to rule classes -/
example : (run { exT with optimized := false } exInp 0 20).1 = .accept ∧
    (run { exT' with optimized := false } exInp 0 20).1 = .accept ∧
    (run { exT with optimized := false } exInp 0 20).2.evs =
      [.shift 0 3 3, .reduce 0 0 3, .reduce 1 1 3, .shift 2 2 3, .shift 1 1 2, .shift 1 0 1] ∧
    (run { exT' with optimized := false } exInp 0 20).2.evs =
      [.shift 0 3 3, .reduce 0 0 3, .reduce 0 1 3, .shift 2 2 3, .shift 1 1 2, .shift 1 0 1] := by
  decide +kernel

end TmVerif.LRCheck
