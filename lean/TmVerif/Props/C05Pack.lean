import TmVerif.Model.Pack
/-!
C05, packer level (see `Model/Pack.lean`).
-/
namespace TmVerif.Pack

/-- If the decode check holds on the output of the packer, then for EVERY line and EVERY position
(below the width of the widest line) the generated parser's table lookup returns the cell of that
line when the line has one at this position, and "absent" (fall back to the default action) when it
has none: no cell of another line can be read by mistake. -/
theorem C05_pack_decodes (ls : List Line) (idx : List Int) (table check : Array Int)
    (h : packOk ls idx table check = true) (i : Nat) (l : Line) (b : Int)
    (hl : ls[i]? = some l) (hb : idx[i]? = some b) (p : Nat) (hp : p < width ls) :
    lookup table check b p = lineVal l p := by
  unfold packOk at h
  simp only [Bool.and_eq_true, List.all_eq_true] at h
  have hmem : (l, b) ∈ ls.zip idx := by
    rw [List.mem_iff_getElem?]
    exact ⟨i, by rw [List.getElem?_zip_eq_some]; exact ⟨hl, hb⟩⟩
  have := h.2 (l, b) hmem
  unfold lineOk at this
  simp only [List.all_eq_true, List.mem_range, beq_iff_eq] at this
  exact this p hp

/-- non-vacuity: two lines that share positions, placed at different bases -/
example : packOk [[(0, 5), (2, 7)], [(0, 6), (1, 8)]] [0, 3] #[5, 0, 7, 6, 8] #[0, -1, 2, 0, 1] = true := by
  decide

/-- a packing that gives two different lines the same base is rejected -/
example : packOk [[(0, 5), (2, 7)], [(0, 5), (1, 8)]] [0, 0] #[5, 8, 7] #[0, 1, 2] = false := by
  decide

end TmVerif.Pack
