import TmVerif.Proofs.LSRange
import TmVerif.Proofs.LSDocs
import TmVerif.Proofs.LSChain
/-!
C23 — The language server stays consistent under any message history (property theorems only).

Model: `Model/LS.lean` (hand mirror of `/repo/ls/server.go` and of the handler chain installed by
`/repo/cmd/textmapper/ls.go`). The compiler and the parser are parameters (`Env.problems`, `Env.idents`):
the theorems hold for EVERY function from contents to problems / identifiers.
`Mode` selects the variant of the code: `Mode.current` is the pinned tree, the flags switch on the
repairs of fixes/C23-*.diff (the driver is told by a probe of the real server which variant is running).

Findings (all three reproduced over the wire against the real `textmapper ls`):
 * outgoing positions are BYTE columns, the protocol (and `resolvePosition`, for incoming positions) uses
   UTF-16 code units: `C23_outgoing_is_utf16_full` is FALSE for the code as it is
   (`C23_outgoing_not_utf16`), it holds for ASCII lines (`C23_outgoing_is_utf16_partial`) and for the
   repaired code (`C23_outgoing_is_utf16_fixed`, `C23_location_is_utf16_fixed`);
 * `DidChange` with an empty change list kills the server (`C23_empty_change_crashes`);
 * a syntax error is published at line 4294967295, character 4294967295
   (`C23_syntax_error_outside_document`); in range after the repair (`C23_syntax_error_in_document_fixed`).
-/
namespace TmVerif.LS

/-! ### the document state machine refines the abstract map -/

/-- For every history in which no request kills the server, the answers are exactly those the abstract
map prescribes: a publish carries the URI and the version of ITS open/change request and the diagnostics
of ITS text; a definition request is answered from the LATEST content of the file (the text of the last
open/change of that file name not followed by a close), "not opened" when there is none. -/
theorem C23_refines_map (e : Env) (ops : List Op) (h : ∀ op ∈ ops, ¬ Crashes e op) :
    run e [] ops = (specRun e [] ops, true) :=
  run_spec e ops [] [] agrees_nil h

-- non-vacuity: a history with open / change of another spelling of the same file / definition / close
example : ∀ op ∈ [Op.openDoc ⟨0, 0⟩ 1 [97], .change ⟨0, 1⟩ 2 [[98]], .definition ⟨0, 0⟩ 0 0, .close ⟨0, 0⟩,
    .definition ⟨0, 0⟩ 0 0], ¬ Crashes ⟨Mode.current, fun _ => [], fun _ => []⟩ op := by
  intro op hop
  simp only [List.mem_cons, List.not_mem_nil, or_false] at hop
  rcases hop with rfl | rfl | rfl | rfl | rfl <;> simp [Crashes, typecheck, mapM?]

/-- The server survives a history iff no request of it `Crashes`: an empty change list (unrepaired code)
or a problem whose origin is not a valid slice of the text. -/
theorem C23_crash_iff (e : Env) (ops : List Op) :
    (run e [] ops).2 = true ↔ ∀ op ∈ ops, ¬ Crashes e op :=
  run_alive_iff e ops []

/-- The code as it is: a change notification without content changes terminates the server, whatever
happened before. -/
theorem C23_empty_change_crashes (e : Env) (h : e.mode.emptyIgnored = false) (before after : List Op)
    (u : Uri) (v : Int) : (run e [] (before ++ Op.change u v [] :: after)).2 = false := by
  cases hr : (run e [] (before ++ Op.change u v [] :: after)).2 with
  | false => rfl
  | true =>
    have := (C23_crash_iff e _).1 hr (Op.change u v []) (by simp)
    exact absurd h this

/-- With the empty-change repair, and a compiler whose problems are slices of the text, NO history kills
the server. -/
theorem C23_never_crashes_fixed (e : Env) (hm : e.mode.emptyIgnored = true)
    (hp : ∀ text, ∀ p ∈ e.problems text, p.SliceOk text) (ops : List Op) : (run e [] ops).2 = true := by
  rw [C23_crash_iff]
  have ht : ∀ text, typecheck e.mode text (e.problems text) ≠ none := by
    intro text
    apply mapM?_isSome
    intro p hpm
    have := hp text p hpm
    cases p with
    | status o => exact diagRange_isSome _ _ _ this
    | «syntax» off stop =>
      apply diagRange_isSome
      simp only [originOf]
      split
      · rename_i hc; exact hc.2
      · simp
  intro op _
  cases op with
  | openDoc u v text => exact ht text
  | change u v changes =>
    cases changes with
    | nil => simp [Crashes, hm]
    | cons text rest => exact ht text
  | close u => exact id
  | definition u line ch => exact id

/-- "answers go-to-definition … with locations of identifiers bearing the same name": every identifier
the reply is built from is one of the document's identifiers, of the kind and with the text of the one
under the cursor. -/
theorem C23_definition_same_name (c : Bytes) (ids : List Ident) (cursor : Nat) (i : Ident)
    (hi : i ∈ defTargets c ids cursor) :
    ∃ cur, ids.find? (fun i => decide (i.off ≤ cursor ∧ cursor ≤ i.stop)) = some cur ∧
      i ∈ ids ∧ i.kind = cur.kind ∧ i.text c = cur.text c := by
  unfold defTargets at hi
  cases hf : ids.find? (fun i => decide (i.off ≤ cursor ∧ cursor ≤ i.stop)) with
  | none => rw [hf] at hi; simp at hi
  | some cur =>
    rw [hf] at hi
    refine ⟨cur, rfl, ?_⟩
    simp only at hi
    split at hi
    · simp at hi
    · split at hi
      · simp only [List.mem_append, List.mem_filter, decide_eq_true_eq] at hi
        rcases hi with ⟨⟨h1, h2, h3⟩, _⟩ | ⟨⟨h1, h2, h3⟩, _⟩ <;> exact ⟨h1, h2, h3⟩
      · simp only [List.mem_filter, decide_eq_true_eq] at hi
        exact ⟨hi.1.1, hi.1.2.1, hi.1.2.2⟩

/-! ### the handler chain: every schedule executes the server methods in request order -/

/-- For EVERY schedule of `CancelHandler(AsyncHandler(ReplyHandler(server)))` (every state reachable by
scheduler steps): the server methods have been executed in request order without gaps (`log = [0..n)`),
the server state is the one sequential execution of the first `n` requests produces, the notifications
on the wire (publishDiagnostics) are those of sequential execution in request order, and every reply on
the wire is the sequential answer to its request. (Replies themselves may be written late: `AsyncHandler`
releases the next request before the reply is written; they are matched by request number.) -/
theorem C23_publish_in_request_order {σ ρ ω : Type} (exec : σ → ρ → σ × ω) (reqs : List ρ) (s0 : σ)
    (s : Sys σ ω) (h : Reach exec reqs s0 s) :
    s.log = List.range s.log.length ∧ s.log.length ≤ reqs.length ∧
    s.st = seqState exec s0 (reqs.take s.log.length) ∧
    notesOf s.wire = (List.range s.log.length).filterMap
      (fun i => (seqOut exec s0 reqs i).map (Prod.mk i)) ∧
    ∀ i o, Wire.reply i o ∈ s.wire → seqOut exec s0 reqs i = some o := by
  obtain ⟨k, hk⟩ := inv_reach h
  have hlen := hk.log_length
  have hlog : s.log = List.range s.log.length := by
    rw [hlen, hk.hlog]
    split <;> simp [List.range_succ]
  refine ⟨hlog, ?_, hk.hst, ?_, hk.hrep⟩
  · rw [hlen]
    split
    · rename_i hex
      have : k < s.delivered := by
        rcases Nat.lt_or_ge k s.delivered with h1 | h1
        · exact h1
        · have := hk.hund k h1; rw [hex] at this; exact nomatch this
      have := hk.hdel
      omega
    · have := hk.hk; have := hk.hdel; omega
  · have := hk.hnotes
    rw [hlog] at this
    simpa using this

/-- No schedule deadlocks: while a request is unanswered, some step is enabled. -/
theorem C23_chain_no_deadlock {σ ρ ω : Type} (exec : σ → ρ → σ × ω) (reqs : List ρ) (s0 : σ)
    (s : Sys σ ω) (h : Reach exec reqs s0 s) (hopen : ∃ i, i < reqs.length ∧ s.phase i ≠ .done) :
    ∃ s', Step exec reqs s s' := by
  obtain ⟨k, hk⟩ := inv_reach h
  exact inv_progress hk hopen

/-- When every request has been answered, all of them have been executed, in order, and the server is in
the state of the sequential run. -/
theorem C23_chain_complete {σ ρ ω : Type} (exec : σ → ρ → σ × ω) (reqs : List ρ) (s0 : σ)
    (s : Sys σ ω) (h : Reach exec reqs s0 s) (hdone : ∀ i, i < reqs.length → s.phase i = .done) :
    s.log = List.range reqs.length ∧ s.st = seqState exec s0 reqs := by
  obtain ⟨k, hk⟩ := inv_reach h
  have hkl : k = reqs.length := by
    rcases Nat.lt_or_ge k reqs.length with h1 | h1
    · have := hdone k h1
      have hc := hk.hcur
      rw [this] at hc
      exact nomatch hc
    · have := hk.hk; have := hk.hdel; omega
  have hw : s.phase k = .waiting := hk.hund k (by have := hk.hdel; omega)
  have hlog : s.log = List.range k := by
    have := hk.hlog; rw [hw] at this; simpa using this
  refine ⟨by rw [hlog, hkl], ?_⟩
  rw [hk.hst, hlog]
  simp [hkl]

-- non-vacuity: the states of a real schedule (deliver, start, execute request 0) are reachable
example : ∃ s : Sys Nat Nat, Reach (fun s (r : Nat) => (s + r, s)) [5, 7] 0 s ∧ s.log = [0] ∧ s.st = 5 := by
  refine ⟨_, .step (.step (.step .init (.deliver _ (by decide))) (.start _ 0 (by decide) rfl (Or.inl rfl)))
    (.exec _ 0 5 (by simp [setAt]) rfl), ?_, ?_⟩ <;> simp [Sys.init]

/-! ### incoming positions: `resolvePosition` -/

/-- `resolvePosition` inverts the specification of outgoing positions on every rune boundary. -/
theorem C23_resolvePosition_roundtrip (c : Bytes) (off : Nat) (h : RuneBoundary c off) :
    resolvePosition c (utf16Pos c off).1 (utf16Pos c off).2 = .ok off := by
  obtain ⟨pre, seg, post, u, hc, ho, hp, hb⟩ := h
  subst hc; subst ho
  rw [utf16Pos_decomp pre seg post hp (Bnd_seg_noNL hb)]
  simp only [resolvePosition]
  rw [List.append_assoc, lineWalk_pre pre (seg ++ post) 0 hp]
  simp only
  rw [Bnd_seg_units hb, walkCols_of_Bnd hb]
  simp

-- non-vacuity: "é😀" + newline + "a": the boundary behind the emoji on line 0 and the one on line 1
example : RuneBoundary [0xC3, 0xA9, 0xF0, 0x9F, 0x98, 0x80, 10, 97] 6 :=
  ⟨[], [0xC3, 0xA9, 0xF0, 0x9F, 0x98, 0x80], [10, 97], 3, rfl, rfl, Or.inl rfl,
    .step _ 4 2 (by simp) (by decide) (.step _ 0 0 (by simp [decodeRune, lead, contBytes]) (by decide) (.zero _))⟩

/-- Exactness: `resolvePosition` answers `off` iff `off` is a rune boundary whose (line, UTF-16 column) is
the requested position. So it fails exactly when no rune boundary has that position: the line does not
exist, the column is beyond the end of the line, or it lies between the two code units of a pair. -/
theorem C23_resolvePosition_exact (c : Bytes) (line ch off : Nat) :
    resolvePosition c line ch = .ok off ↔ RuneBoundary c off ∧ utf16Pos c off = (line, ch) := by
  constructor
  · intro h
    simp only [resolvePosition] at h
    cases hl : lineWalk line c 0 with
    | none => rw [hl] at h; exact nomatch h
    | some p =>
      obtain ⟨ret, rest⟩ := p
      rw [hl] at h
      simp only at h
      obtain ⟨pre, hc, hret, hn, hp⟩ := lineWalk_inv c line 0 ret rest hl
      obtain ⟨k, hk, hb⟩ := Bnd_of_walkCols ch rest ret off h
      have hkl := Bnd_le_length hb
      have hlen : (rest.take k).length = k := by simp [List.length_take]; omega
      have hb' : Bnd (rest.take k ++ rest.drop k) (rest.take k).length ch := by
        rw [List.take_append_drop, hlen]; exact hb
      have hcc : c = pre ++ rest.take k ++ rest.drop k := by
        rw [List.append_assoc, List.take_append_drop]; exact hc
      have hoff : off = pre.length + (rest.take k).length := by rw [hlen]; omega
      refine ⟨⟨pre, rest.take k, rest.drop k, ch, hcc, hoff, hp, hb'⟩, ?_⟩
      rw [hcc, hoff, utf16Pos_decomp pre _ _ hp (Bnd_seg_noNL hb'), Bnd_seg_units hb', hn]
  · intro ⟨hb, hp⟩
    have := C23_resolvePosition_roundtrip c off hb
    rw [hp] at this
    exact this

/-- "line %v does not exist" exactly when the content has fewer newlines than the requested line number
(a content with `n` newlines has the lines `0..n`; the last one may be empty). -/
theorem C23_resolvePosition_noLine (c : Bytes) (line ch : Nat) :
    resolvePosition c line ch = .error .noLine ↔ nlCount c < line := by
  simp only [resolvePosition]
  cases hl : lineWalk line c 0 with
  | none => simp [← lineWalk_none_iff c line 0, hl]
  | some p =>
    obtain ⟨ret, rest⟩ := p
    simp only
    constructor
    · intro h; exact absurd h (walkCols_ne_noLine ch rest ret)
    · intro h
      have := (lineWalk_none_iff c line 0).2 h
      rw [hl] at this
      exact nomatch this

/-- Inside a surrogate pair: one column beyond a rune boundary that is followed by a rune above 0xffff
is rejected with "between the utf-16 code units". -/
theorem C23_resolvePosition_midpair (c : Bytes) (off : Nat) (h : RuneBoundary c off)
    (hr : (decodeRune (c.drop off)).1 > 0xffff) :
    resolvePosition c (utf16Pos c off).1 ((utf16Pos c off).2 + 1) = .error .midPair := by
  obtain ⟨pre, seg, post, u, hc, ho, hp, hb⟩ := h
  subst hc; subst ho
  rw [utf16Pos_decomp pre seg post hp (Bnd_seg_noNL hb)]
  simp only [resolvePosition]
  rw [List.append_assoc, lineWalk_pre pre (seg ++ post) 0 hp]
  simp only
  rw [Bnd_seg_units hb, walkCols_Bnd_add hb 1, walkCols_succ]
  have e : (pre ++ (seg ++ post)).drop (pre.length + seg.length) = post := by
    rw [← List.append_assoc]
    have : pre.length + seg.length = (pre ++ seg).length := by simp
    rw [this, List.drop_left]
  rw [List.append_assoc, e] at hr
  rw [List.drop_left]
  have h10 : (decodeRune post).1 ≠ 10 := by omega
  have hw : (decodeRune post).2 ≠ 0 := by
    intro h0
    have := (decodeRune_width_zero post).1 h0
    subst this
    simp [decodeRune, runeError] at hr
  simp [h10, hw, hr]

/-- Beyond the end of the line: any column past a rune boundary that is followed by a newline or by the
end of the content is rejected with "invalid column". -/
theorem C23_resolvePosition_past_line_end (c : Bytes) (off m : Nat) (h : RuneBoundary c off)
    (hend : c.drop off = [] ∨ (c.drop off).head? = some 10) :
    resolvePosition c (utf16Pos c off).1 ((utf16Pos c off).2 + (m + 1)) = .error .badCol := by
  obtain ⟨pre, seg, post, u, hc, ho, hp, hb⟩ := h
  subst hc; subst ho
  rw [utf16Pos_decomp pre seg post hp (Bnd_seg_noNL hb)]
  simp only [resolvePosition]
  rw [List.append_assoc, lineWalk_pre pre (seg ++ post) 0 hp]
  simp only
  rw [Bnd_seg_units hb, walkCols_Bnd_add hb (m + 1), walkCols_succ]
  have e : (pre ++ (seg ++ post)).drop (pre.length + seg.length) = post := by
    rw [← List.append_assoc]
    have : pre.length + seg.length = (pre ++ seg).length := by simp
    rw [this, List.drop_left]
  rw [List.append_assoc, e] at hend
  rw [List.drop_left]
  have : (decodeRune post).1 = 10 ∨ (decodeRune post).2 = 0 := by
    rcases hend with h0 | h0
    · right; rw [h0]; simp [decodeRune]
    · left
      cases post with
      | nil => simp at h0
      | cons b t =>
        simp at h0
        subst h0
        simp [decodeRune, lead]
  simp [this]

/-! ### outgoing positions -/

/-- RANGES IN THE DOCUMENT, the code as it is (byte columns). For every problem whose origin comes from a
node of the parse tree of the text (`inDoc`, evaluated by the driver on every real origin), the published
range is `(line, byte column)` of the start offset and of an end offset that lies inside the text, at or
behind the start, ON THE SAME LINE. -/
theorem C23_ranges_in_document (m : Mode) (c : Bytes) (o : Origin) (hm : m.diagUtf16 = false)
    (hlen : c.length < 4294967296) (h : o.inDoc c = true) :
    diagRange m c o = some ⟨mkPos (lineCol c o.off.toNat), mkPos (lineCol c (o.off.toNat + rngLen c o))⟩ ∧
    o.off.toNat + rngLen c o ≤ c.length ∧
    (lineCol c (o.off.toNat + rngLen c o)).1 = (lineCol c o.off.toNat).1 ∧
    (lineCol c o.off.toNat).1 ≤ nlCount c := by
  obtain ⟨hr1, hr2, hr3⟩ := rng_facts c o h
  obtain ⟨hl1, hl2, hl3, _⟩ := line_facts c o.off.toNat (rngLen c o) hr1 hr3
  simp only [Origin.inDoc, decide_eq_true_eq] at h
  obtain ⟨h0, h1, h2, h3, h4⟩ := h
  refine ⟨?_, hr1, by rw [hl1], ?_⟩
  · unfold diagRange
    rw [if_pos ⟨h0, h1, h2⟩]
    have hline : ¬ (m.synFixed = true ∧ o.line ≤ 0) := by omega
    simp only [hline, if_false, hm, Bool.false_eq_true]
    have e1 : o.line - 1 = (((lineCol c o.off.toNat).1 : Nat) : Int) := by omega
    have e2 : o.col - 1 = (((lineCol c o.off.toNat).2 : Nat) : Int) := by omega
    have e3 : o.col - 1 + ((cutNL (slice c o.off.toNat o.stop.toNat)).length : Int) =
        ((((lineCol c o.off.toNat).2 + rngLen c o : Nat)) : Int) := by
      unfold rngLen; omega
    rw [e3, e1, e2, toU32_cast _ (by omega), toU32_cast _ (by omega), toU32_cast _ (by omega), hl1]
    rfl
  · -- the line number of an offset is at most the number of newlines
    obtain ⟨pre, seg, post, hc, ho, hp, hs⟩ := decomp_exists c o.off.toNat (by omega)
    have := lineCol_decomp pre seg post hp hs
    rw [← hc, ← ho] at this
    rw [this, hc]
    simp only
    have hmono : ∀ (a b : Bytes), nlCount a ≤ nlCount (a ++ b) := by
      intro a b
      induction a with
      | nil => simp [nlCount]
      | cons x a ih => simp only [List.cons_append, nlCount]; omega
    rw [List.append_assoc]
    exact hmono pre _

-- non-vacuity: "S: a /* ééé */ nosuch ;" — the origin of `nosuch` (offset 18..24, line 1, column 19)
example : Origin.inDoc [83, 58, 32, 97, 32, 47, 42, 32, 0xC3, 0xA9, 0xC3, 0xA9, 0xC3, 0xA9, 32, 42, 47, 32,
    110, 111, 115, 117, 99, 104, 32, 59] ⟨18, 24, 1, 19⟩ = true := by decide

/-- Same for `id.Location`, the code as it is: an identifier of the parse tree of the text (inside the
text, without newline) is located at `(line, byte column)` of its start and of its end offset. -/
theorem C23_locations_in_document (m : Mode) (c : Bytes) (i : Ident) (hm : m.locUtf16 = false)
    (hlen : c.length < 4294967296) (h : i.inDoc c = true) :
    location m c i = ⟨mkPos (lineCol c i.off), mkPos (lineCol c i.stop)⟩ ∧
    (lineCol c i.stop).1 = (lineCol c i.off).1 := by
  simp only [Ident.inDoc, decide_eq_true_eq] at h
  obtain ⟨h1, h2, h3, h4, h5⟩ := h
  have hst : i.stop = i.off + (i.stop - i.off) := by omega
  have hnl : NoNL (slice c i.off (i.off + (i.stop - i.off))) := by rw [← hst]; exact h3
  obtain ⟨hl1, hl2, hl3, _⟩ := line_facts c i.off (i.stop - i.off) (by omega) hnl
  rw [← hst] at hl1
  refine ⟨?_, by rw [hl1]⟩
  unfold location
  simp only [hm, Bool.false_eq_true, if_false]
  have e1 : i.line - 1 = (((lineCol c i.off).1 : Nat) : Int) := by omega
  have e2 : i.col - 1 = (((lineCol c i.off).2 : Nat) : Int) := by omega
  have htl : (i.text c).length = i.stop - i.off := by
    unfold Ident.text slice
    simp only [List.length_take, List.length_drop]
    omega
  have e3 : i.col - 1 + ((i.text c).length : Int) = ((((lineCol c i.off).2 + (i.stop - i.off) : Nat)) : Int) := by
    rw [htl]; omega
  rw [e3, e1, e2, toU32_cast _ (by omega), toU32_cast _ (by omega), toU32_cast _ (by omega), hl1]
  rfl

/-- THE DOCUMENTED BEHAVIOUR ("line and UTF-16 code unit offsets") for the code AS IT IS: the published
range of a problem that starts on a rune boundary is the UTF-16 position of its start and of its end. -/
def C23_outgoing_is_utf16_full : Prop :=
  ∀ (c : Bytes) (o : Origin), c.length < 4294967296 → o.inDoc c = true → RuneBoundary c o.off.toNat →
    diagRange Mode.current c o =
      some ⟨mkPos (utf16Pos c o.off.toNat), mkPos (utf16Pos c (o.off.toNat + rngLen c o))⟩

/-- What holds for the code as it is: the statement above for problems whose line is ASCII up to the end
of the range (then byte columns and UTF-16 columns coincide). -/
theorem C23_outgoing_is_utf16_partial (c : Bytes) (o : Origin) (hlen : c.length < 4294967296)
    (h : o.inDoc c = true)
    (hascii : ∀ x ∈ slice c (o.off.toNat - (lineCol c o.off.toNat).2) (o.off.toNat + rngLen c o), x < 0x80) :
    diagRange Mode.current c o =
      some ⟨mkPos (utf16Pos c o.off.toNat), mkPos (utf16Pos c (o.off.toNat + rngLen c o))⟩ := by
  obtain ⟨hd, _, _, _⟩ := C23_ranges_in_document Mode.current c o rfl hlen h
  obtain ⟨hr1, hr2, hr3⟩ := rng_facts c o h
  obtain ⟨hl1, hl2, hl3, _⟩ := line_facts c o.off.toNat (rngLen c o) hr1 hr3
  rw [hd]
  -- ASCII: the UTF-16 length of a prefix of the line is its byte length
  have hpre : ∀ k, k ≤ rngLen c o →
      utf16Len (slice c (o.off.toNat - (lineCol c o.off.toNat).2) (o.off.toNat + k)) =
        (lineCol c o.off.toNat).2 + k := by
    intro k hk
    have hsub : ∀ x ∈ slice c (o.off.toNat - (lineCol c o.off.toNat).2) (o.off.toNat + k), x < 0x80 := by
      intro x hx
      apply hascii x
      unfold slice at hx ⊢
      have : o.off.toNat + k - (o.off.toNat - (lineCol c o.off.toNat).2) ≤
          o.off.toNat + rngLen c o - (o.off.toNat - (lineCol c o.off.toNat).2) := by omega
      exact List.mem_of_mem_take (by
        rw [List.take_take, Nat.min_eq_left this]; exact hx)
    rw [utf16Len_ascii _ hsub]
    unfold slice
    simp only [List.length_take, List.length_drop]
    omega
  have hs := hpre 0 (by omega)
  have he := hpre (rngLen c o) (Nat.le_refl _)
  simp only [Nat.add_zero] at hs
  unfold utf16Pos
  rw [hl1]
  simp only
  have e : o.off.toNat + rngLen c o - ((lineCol c o.off.toNat).2 + rngLen c o) =
      o.off.toNat - (lineCol c o.off.toNat).2 := by omega
  rw [e, hs, he]

-- non-vacuity of the ASCII case: "S: x" with a problem at `x`
example : Origin.inDoc [83, 58, 32, 120] ⟨3, 4, 1, 4⟩ = true ∧
    ∀ x ∈ slice [83, 58, 32, 120] (3 - (lineCol [83, 58, 32, 120] 3).2) (3 + rngLen [83, 58, 32, 120] ⟨3, 4, 1, 4⟩),
      x < 0x80 := by decide

/-- The code as it is does NOT have the documented behaviour: in the text "éa" the problem at `a` starts
at byte column 2; its UTF-16 column is 1. (Over the wire: `S: a /* ééé */ nosuch ;` is reported at
character 18, UTF-16 column 15.) -/
theorem C23_outgoing_not_utf16 : ¬ C23_outgoing_is_utf16_full := by
  intro h
  have hb : RuneBoundary [0xC3, 0xA9, 97] 2 :=
    ⟨[], [0xC3, 0xA9], [97], 1, rfl, rfl, Or.inl rfl,
      .step _ 0 0 (by simp) (by decide) (.zero _)⟩
  have := h [0xC3, 0xA9, 97] ⟨2, 3, 1, 3⟩ (by decide) (by decide) hb
  have hd : diagRange Mode.current [0xC3, 0xA9, 97] ⟨2, 3, 1, 3⟩ = some ⟨⟨0, 2⟩, ⟨0, 3⟩⟩ := by decide
  rw [hd] at this
  have hu : (utf16Pos [0xC3, 0xA9, 97] 2).2 = 1 := by
    simp [utf16Pos, lineCol, lineColFrom, slice, utf16Len_cons, utf16Len_nil, decodeRune, lead, contBytes, units]
  simp only [Option.some.injEq, Range.mk.injEq] at this
  have h2 := congrArg Pos.char this.1
  change 2 = (utf16Pos [0xC3, 0xA9, 97] 2).2 at h2
  rw [hu] at h2
  exact absurd h2 (by decide)

/-- THE REPAIRED `typecheck` (fixes/C23-utf16-columns.diff) has the documented behaviour: start and end
of the published range are the UTF-16 positions of the start and end offsets. -/
theorem C23_outgoing_is_utf16_fixed (m : Mode) (hm : m.diagUtf16 = true) (c : Bytes) (o : Origin)
    (hlen : c.length < 4294967296) (h : o.inDoc c = true) (hb : RuneBoundary c o.off.toNat) :
    diagRange m c o =
      some ⟨mkPos (utf16Pos c o.off.toNat), mkPos (utf16Pos c (o.off.toNat + rngLen c o))⟩ := by
  obtain ⟨hr1, hr2, hr3⟩ := rng_facts c o h
  obtain ⟨hl1, hl2, hl3, hl4⟩ := line_facts c o.off.toNat (rngLen c o) hr1 hr3
  have hu := utf16_facts c o.off.toNat (rngLen c o) hb hr1 hr3
  simp only [Origin.inDoc, decide_eq_true_eq] at h
  obtain ⟨h0, h1, h2, h3, h4⟩ := h
  unfold diagRange
  rw [if_pos ⟨h0, h1, h2⟩]
  have hline : ¬ (m.synFixed = true ∧ o.line ≤ 0) := by omega
  simp only [hline, if_false, hm, if_true]
  have e1 : o.line - 1 = (((lineCol c o.off.toNat).1 : Nat) : Int) := by omega
  have e2 : o.col - 1 = (((lineCol c o.off.toNat).2 : Nat) : Int) := by omega
  rw [e1, e2, utf16Col_eq_int c o.off h0 hl2 (by omega)]
  have hle := utf16Len_le_length (slice c (o.off.toNat - (lineCol c o.off.toNat).2) o.off.toNat)
  have hsl : (slice c (o.off.toNat - (lineCol c o.off.toNat).2) o.off.toNat).length ≤ o.off.toNat := by
    unfold slice
    simp only [List.length_take, List.length_drop]
    omega
  have hle2 := utf16Len_le_length (cutNL (slice c o.off.toNat o.stop.toNat))
  have hcl : (cutNL (slice c o.off.toNat o.stop.toNat)).length = rngLen c o := rfl
  have hp2 : (utf16Pos c o.off.toNat).2 =
      utf16Len (slice c (o.off.toNat - (lineCol c o.off.toNat).2) o.off.toNat) := rfl
  have hp1 : (utf16Pos c o.off.toNat).1 = (lineCol c o.off.toNat).1 := rfl
  have e3 : (((utf16Pos c o.off.toNat).2 : Nat) : Int) +
      ((utf16Len (cutNL (slice c o.off.toNat o.stop.toNat)) : Nat) : Int) =
      ((((utf16Pos c o.off.toNat).2 + utf16Len (cutNL (slice c o.off.toNat o.stop.toNat)) : Nat)) : Int) := by
    omega
  rw [e3, toU32_cast _ (by omega), toU32_cast _ (by omega), toU32_cast _ (by omega), hu, hr2, hp1]
  rfl

-- non-vacuity: "éa", the problem at `a`, the repaired code answers UTF-16 column 1
example : diagRange Mode.fixed [0xC3, 0xA9, 97] ⟨2, 3, 1, 3⟩ = some ⟨⟨0, 1⟩, ⟨0, 2⟩⟩ := by
  simp [diagRange, Mode.fixed, utf16Col, slice, cutNL, utf16Len_cons, utf16Len_nil, decodeRune, lead,
    contBytes, units, toU32]

/-- THE REPAIRED `id.Location`: start and end are the UTF-16 positions of the identifier's offsets. -/
theorem C23_location_is_utf16_fixed (m : Mode) (hm : m.locUtf16 = true) (c : Bytes) (i : Ident)
    (hlen : c.length < 4294967296) (h : i.inDoc c = true) (hb : RuneBoundary c i.off) :
    location m c i = ⟨mkPos (utf16Pos c i.off), mkPos (utf16Pos c i.stop)⟩ := by
  simp only [Ident.inDoc, decide_eq_true_eq] at h
  obtain ⟨h1, h2, h3, h4, h5⟩ := h
  have hst : i.stop = i.off + (i.stop - i.off) := by omega
  have hnl : NoNL (slice c i.off (i.off + (i.stop - i.off))) := by rw [← hst]; exact h3
  obtain ⟨hl1, hl2, hl3, _⟩ := line_facts c i.off (i.stop - i.off) (by omega) hnl
  have hu := utf16_facts c i.off (i.stop - i.off) hb (by omega) hnl
  rw [← hst] at hu
  unfold location
  simp only [hm, if_true]
  have e1 : i.line - 1 = (((lineCol c i.off).1 : Nat) : Int) := by omega
  have e2 : i.col - 1 = (((lineCol c i.off).2 : Nat) : Int) := by omega
  rw [e1, e2, utf16Col_eq c i.off hl2 (by omega)]
  have hle := utf16Len_le_length (slice c (i.off - (lineCol c i.off).2) i.off)
  have hsl : (slice c (i.off - (lineCol c i.off).2) i.off).length ≤ i.off := by
    unfold slice
    simp only [List.length_take, List.length_drop]
    omega
  have hle2 := utf16Len_le_length (i.text c)
  have htl : (i.text c).length ≤ i.stop - i.off := by
    unfold Ident.text slice
    simp only [List.length_take, List.length_drop]
    omega
  have hp2 : (utf16Pos c i.off).2 = utf16Len (slice c (i.off - (lineCol c i.off).2) i.off) := rfl
  have hp1 : (utf16Pos c i.off).1 = (lineCol c i.off).1 := rfl
  have e3 : (((utf16Pos c i.off).2 : Nat) : Int) + ((utf16Len (i.text c) : Nat) : Int) =
      ((((utf16Pos c i.off).2 + utf16Len (i.text c) : Nat)) : Int) := by omega
  rw [e3, toU32_cast _ (by omega), toU32_cast _ (by omega), toU32_cast _ (by omega), hu, hp1]
  rfl

/-- The code as it is publishes a syntax error (a `tm.SyntaxError`, which carries no `SourceRange`) at
line 4294967295, character 4294967295 — outside every document. -/
theorem C23_syntax_error_outside_document (m : Mode) (hm : m.synFixed = false) (hd : m.diagUtf16 = false)
    (c : Bytes) (off stop : Int) :
    diagRange m c (originOf m c (.syntax off stop)) =
      some ⟨⟨4294967295, 4294967295⟩, ⟨4294967295, 4294967295⟩⟩ := by
  simp [originOf, hm, diagRange, hd, slice, cutNL, toU32]

/-- After fixes/C23-syntax-error-range.diff the origin of a syntax error inside the text is a
well-formed origin, so `C23_ranges_in_document` / `C23_outgoing_is_utf16_fixed` apply to it. -/
theorem C23_syntax_error_in_document_fixed (m : Mode) (hm : m.synFixed = true) (c : Bytes) (off stop : Nat)
    (h : off ≤ stop ∧ stop ≤ c.length) :
    (originOf m c (.syntax off stop)).inDoc c = true := by
  have hc : m.synFixed = true ∧ (0 : Int) ≤ off ∧ (off : Int) ≤ stop ∧ (stop : Int) ≤ c.length := by
    refine ⟨hm, ?_, ?_, ?_⟩ <;> omega
  simp only [originOf, hc, and_self, if_true, Origin.inDoc, decide_eq_true_eq]

end TmVerif.LS
