/-
C14 — template instantiation preserves meaning.

Model: lean/TmVerif/Model/Templates.lean (templated grammars, the denotational semantics `Der`,
mirrors of resolveRef/sortArgs, PropagateLookaheads, check, Instantiate).
Helper lemmas: lean/TmVerif/Proofs/Templates.lean, Proofs/TemplatesArgs.lean, Proofs/TemplatesLA.lean.
-/
import TmVerif.Proofs.TemplatesLA
namespace TmVerif.C14
open TmVerif.CFG TmVerif.Templates

/-- Predicate evaluation of the instantiator (`check`, with its early returns and its
`log.Fatal` on an unbound parameter = `none`) is the boolean semantics of `!`, `&&`, `||`,
`==`, `!=` under the parameters bound in the instance. -/
theorem C14_check_eval (ctx : Bound) (p : Pred) (b : Bool) (h : check ctx p = some b) :
    p.eval (envOf ctx) = b :=
  check_eval ctx p b h

/-- … and it is defined whenever every parameter the predicate mentions is bound. -/
theorem C14_check_defined (ctx : Bound) (p : Pred) (h : ∀ q ∈ p.params, (lookupB ctx q).isSome) :
    ∃ b, check ctx p = some b ∧ p.eval (envOf ctx) = b := by
  have := check_isSome ctx p h
  cases hc : check ctx p with
  | none => simp [hc] at this
  | some b => exact ⟨b, rfl, check_eval ctx p b hc⟩

-- non-vacuity: `[A && !B || B == "x"]` under A = true, B = false
example : check [(0, 1), (1, 0)] (.or [.and [.eq 0 1, .not (.eq 1 1)], .eq 1 2]) = some true := by decide
example : check [(0, 1)] (.or [.eq 0 1, .eq 7 1]) = some true := by decide   -- early return: 7 is never looked up
example : check [(0, 0)] (.or [.eq 0 1, .eq 7 1]) = none := by decide         -- the Go code would call log.Fatal

/-- The full statement: every instantiated nonterminal derives exactly what its template derives
under the instance's parameter values. -/
def C14_instantiate_lang_full : Prop :=
  ∀ (g : TGrammar) (fuel : Nat) (insts : List Inst) (G : Grammar),
    instantiate g fuel = some (insts, G) →
    ∀ i it, insts[i]? = some it → ∀ w,
      (Derives G (g.nTerms + i) w ↔ Der noImp g it.nt (envOf it.args) w)

/-- What is proved: the full statement for grammars in which no reachable instance has ALL its
alternatives disabled (`NoDead`, decidable: `deadInst`). Nonterminal `nTerms + i` of the
instantiated grammar is instance `i` = (template `it.nt`, argument values `it.args`). -/
theorem C14_instantiate_lang_partial (g : TGrammar) (fuel : Nat) (insts : List Inst) (G : Grammar)
    (h : instantiate g fuel = some (insts, G)) (hd : NoDead g insts)
    (i : Nat) (it : Inst) (hi : insts[i]? = some it) (w : List Nat) :
    Derives G (g.nTerms + i) w ↔ Der noImp g it.nt (envOf it.args) w := by
  unfold instantiate at h
  cases hc : collect g fuel 0 (inputInsts g) with
  | none => simp [hc] at h
  | some insts' =>
    simp only [hc] at h
    cases hr : rulesOf g insts' with
    | none => simp [hr] at h
    | some rs =>
      cases hp : plainInputs g insts' g.inputs with
      | none => simp [hr, hp] at h
      | some ins =>
        simp [hr, hp] at h
        obtain ⟨rfl, rfl⟩ := h
        constructor
        · intro hder
          exact (derives_to_der hr hd hder).2 i it rfl hi
        · intro hder
          exact der_to_derives hr hder i it hi rfl rfl

/-- non-vacuity: `%flag V; N0: 'a' B<+V> | 'b' B<~V>; B<V>: [V] 'c' | 'a';` instantiates, no instance is dead -/
def liveExample : TGrammar :=
  { nTerms := 4, params := [{ name := 0 }],
    nts := [⟨[], [⟨none, [.t 1, .n 1 [⟨0, .value 1⟩]]⟩, ⟨none, [.t 2, .n 1 [⟨0, .value 0⟩]]⟩]⟩,
            ⟨[0], [⟨some (.eq 0 1), [.t 3]⟩, ⟨none, [.t 1]⟩]⟩],
    inputs := [(0, true)] }

example : ∃ insts G, instantiate liveExample 10 = some (insts, G) ∧ NoDead liveExample insts :=
  ⟨[⟨0, []⟩, ⟨1, [(0, 1)]⟩, ⟨1, [(0, 0)]⟩], _, rfl, by unfold NoDead; decide⟩

/-- The hypothesis cannot be dropped, and this is a defect of the real code, not of the model: for
`%flag V; N0: 'a' B<+V> | 'b' B<~V>; B<V>: [V] 'c';` the instance `B` with `V = false` has no enabled
alternative; `doExpr` turns its value into `Empty`, so it derives the empty string, while the
template derives nothing under `V = false`. (The real compiler accepts `b` for this grammar.) -/
def deadWitness : TGrammar :=
  { nTerms := 4, params := [{ name := 0 }],
    nts := [⟨[], [⟨none, [.t 1, .n 1 [⟨0, .value 1⟩]]⟩, ⟨none, [.t 2, .n 1 [⟨0, .value 0⟩]]⟩]⟩,
            ⟨[0], [⟨some (.eq 0 1), [.t 3]⟩]⟩],
    inputs := [(0, true)] }

theorem C14_dead_instance_counterexample : ¬ C14_instantiate_lang_full := by
  intro hfull
  have hinst : instantiate deadWitness 10 =
      some ([⟨0, []⟩, ⟨1, [(0, 1)]⟩, ⟨1, [(0, 0)]⟩],
        plain deadWitness [⟨0, []⟩, ⟨1, [(0, 1)]⟩, ⟨1, [(0, 0)]⟩]
          [⟨4, [1, 5], 0⟩, ⟨4, [2, 6], 0⟩, ⟨5, [3], 0⟩, ⟨6, [], 0⟩] [⟨4, true⟩]) := by rfl
  have h := hfull deadWitness 10 _ _ hinst 2 ⟨1, [(0, 0)]⟩ (by decide) []
  have hd : Derives (plain deadWitness [⟨0, []⟩, ⟨1, [(0, 1)]⟩, ⟨1, [(0, 0)]⟩]
      [⟨4, [1, 5], 0⟩, ⟨4, [2, 6], 0⟩, ⟨5, [3], 0⟩, ⟨6, [], 0⟩] [⟨4, true⟩]) (deadWitness.nTerms + 2) [] :=
    Derives.rule ⟨6, [], 0⟩ [] (by simp [plain]) DerivesSeq.nil
  have hder := h.mp hd
  cases hder with
  | alt _ _ nt a _ hnt ha hen _ =>
    simp [deadWitness] at hnt
    subst hnt
    simp at ha
    subst ha
    simp [Alt.enabled, Pred.eval, envOf, lookupB] at hen

/-- … and the same grammar as a sentence: the instantiated grammar of the witness accepts `b`
(terminal 2) from its input, the templates do not. -/
theorem C14_dead_instance_sentence :
    ∃ insts G, instantiate deadWitness 10 = some (insts, G) ∧ Sentence G 0 [2] ∧
      ¬ Der noImp deadWitness 0 env0 [2] := by
  refine ⟨[⟨0, []⟩, ⟨1, [(0, 1)]⟩, ⟨1, [(0, 0)]⟩],
    plain deadWitness [⟨0, []⟩, ⟨1, [(0, 1)]⟩, ⟨1, [(0, 0)]⟩]
      [⟨4, [1, 5], 0⟩, ⟨4, [2, 6], 0⟩, ⟨5, [3], 0⟩, ⟨6, [], 0⟩] [⟨4, true⟩], by rfl, ?_, ?_⟩
  · refine ⟨⟨4, true⟩, by decide, ?_⟩
    have : Derives (plain deadWitness [⟨0, []⟩, ⟨1, [(0, 1)]⟩, ⟨1, [(0, 0)]⟩]
        [⟨4, [1, 5], 0⟩, ⟨4, [2, 6], 0⟩, ⟨5, [3], 0⟩, ⟨6, [], 0⟩] [⟨4, true⟩]) 4 ([2] ++ ([] ++ [])) :=
      Derives.rule ⟨4, [2, 6], 0⟩ _ (by simp [plain])
        (DerivesSeq.cons 2 [6] [2] _ (Derives.term 2 (by decide))
          (DerivesSeq.cons 6 [] [] [] (Derives.rule ⟨6, [], 0⟩ [] (by simp [plain]) DerivesSeq.nil) DerivesSeq.nil))
    simpa using this
  · intro hder
    obtain ⟨nt, a, hnt, ha, _, hseq⟩ := hder.inv
    simp [deadWitness] at hnt
    subst hnt
    simp at ha
    rcases ha with rfl | rfl
    · obtain ⟨v, hv, _, _⟩ := hseq.t_inv
      cases hv
    · obtain ⟨v, hv, _, hrest⟩ := hseq.t_inv
      obtain ⟨u, v', _, hB, _⟩ := hrest.n_inv
      obtain ⟨nt, a, hnt, ha, hen, _⟩ := hB.inv
      simp [deadWitness] at hnt
      subst hnt
      simp at ha
      subst ha
      simp [Alt.enabled, Pred.eval, callEnv, findArg, ArgV.get] at hen

/-- Inputs: input `k` of the instantiated grammar is the instance of the input nonterminal with NO
bound parameter, so its sentences are what the template derives with every parameter unset
(`env0`; whatever the nonterminals below need was made explicit by `resolveRef` from defaults,
see `C14_resolved_args_sound`). -/
theorem C14_inputs_use_defaults (g : TGrammar) (fuel : Nat) (insts : List Inst) (G : Grammar)
    (h : instantiate g fuel = some (insts, G)) (hd : NoDead g insts)
    (k : Nat) (i : Nat × Bool) (hk : g.inputs[k]? = some i) (w : List Nat) :
    (∃ inp, G.inputs[k]? = some inp ∧ inp.eoi = i.2) ∧
    (Sentence G k w ↔ Der noImp g i.1 env0 w) := by
  have h0 := h
  unfold instantiate at h
  cases hc : collect g fuel 0 (inputInsts g) with
  | none => simp [hc] at h
  | some insts' =>
    simp only [hc] at h
    cases hr : rulesOf g insts' with
    | none => simp [hr] at h
    | some rs =>
      cases hp : plainInputs g insts' g.inputs with
      | none => simp [hr, hp] at h
      | some ins =>
        simp [hr, hp] at h
        obtain ⟨rfl, rfl⟩ := h
        obtain ⟨j, hj, hij⟩ := plainInputs_get hp k i hk
        have hG : (plain g insts' rs ins).inputs[k]? = some ⟨g.nTerms + j, i.2⟩ := by
          simpa [plain] using hj
        have hlang := C14_instantiate_lang_partial g fuel insts' _ h0 hd j ⟨i.1, []⟩ hij w
        rw [envOf_nil] at hlang
        refine ⟨⟨_, hG, rfl⟩, ?_⟩
        constructor
        · rintro ⟨inp, hinp, hder⟩
          rw [hG] at hinp
          cases hinp
          exact hlang.mp hder
        · intro hder
          exact ⟨_, hG, hlang.mpr hder⟩

/-- Arguments (`resolveRef`, `sortArgs`): the loaded model, in which every declared parameter of a
referenced nonterminal has an explicit argument (taken from the caller's parameter of the same NAME,
otherwise the parameter's DEFAULT), means what the source means under the rule "same-named parameter of
the caller, else the default" (`srcImp`), for every nonterminal and every valuation. -/
theorem C14_resolved_args_sound (src m : TGrammar) (h : resolveAll src = some m)
    (N : Nat) (env : Env) (w : List Nat) :
    Der (srcImp src) src N env w ↔ Der (laImp m) m N env w :=
  resolveAll_sound h N env w

/-- `PropagateLookaheads`, full statement: propagation keeps the meaning of every input. -/
def C14_propagate_args_sound_full : Prop :=
  ∀ (q : Quirks) (m m' : TGrammar), propagate q m = (.ok, m') →
    ∀ (k : Nat) (i : Nat × Bool), m.inputs[k]? = some i → ∀ w,
      (Der (laImp m) m i.1 env0 w ↔ Der noImp m' i.1 env0 w)

/-- What is proved: the statement under the decidable certificate `propCertB m (laFlowFlags m) m'`, which the
driver evaluates on EVERY case (a compiled grammar whose certificate fails is reported as a disagreement):
`m'` differs from `m` only by lookahead parameters added to nonterminals and by arguments `p := p`
(on the first symbol of an alternative, where the flag flows implicitly) and `p := false` (where it does
not flow, or the caller does not have it) — these leave the meaning unchanged when an unset lookahead flag
is `false`. WHICH nonterminals receive a flag is not derived from the worklist of the mirror; it is only
checked through the certificate (the sets `laFlowFlags m` — where a flag can flow to a user through first symbols — serve as the witness). General form: any two
environments related by `EnvRel` give the same language. -/
theorem C14_propagate_args_sound_partial (m m' : TGrammar) (hcert : propCertB m (laFlowFlags m) m' = true)
    (N : Nat) (nt' : Nonterm) (hN : m'.nts[N]? = some nt') (e e' : Env)
    (hR : EnvRel m (Fof (laFlowFlags m) N) nt'.params e e') (w : List Nat) :
    Der (laImp m) m N e w ↔ Der noImp m' N e' w :=
  ⟨fun h => propagate_forward hcert h nt' e' hN hR, fun h => propagate_backward hcert h nt' e hN hR⟩

/-- End to end (`compileParser`'s template pipeline: load, propagate lookahead flags, instantiate): the
sentences of input `k` of the instantiated plain grammar are exactly what the input nonterminal's template
derives at SOURCE level with nothing bound: parameters of the nonterminals below come from explicit
arguments, from the caller's parameter of the same name, or from their DEFAULTS; lookahead flags are
`false` unless passed. Hypotheses: the propagation certificate (third component of `compile`, checked by
the driver on every case) and `NoDead` (see `C14_dead_instance_counterexample`). -/
theorem C14_pipeline_inputs_use_defaults (q : Quirks) (src : TGrammar) (fuel : Nat) (insts : List Inst) (G : Grammar)
    (h : compile q src fuel = (.ok, some (insts, G), true))
    (k : Nat) (i : Nat × Bool) (hk : src.inputs[k]? = some i) (w : List Nat) :
    ∃ m', (NoDead m' insts → (Sentence G k w ↔ Der (srcImp src) src i.1 env0 w)) ∧
      (∃ m, resolveAll src = some m ∧ propagate q m = (.ok, m') ∧ instantiate m' fuel = some (insts, G)) := by
  unfold compile at h
  cases hr : resolveAll src with
  | none => simp [hr] at h
  | some m =>
    simp only [hr] at h
    cases hp : propagate q m with
    | mk st m' =>
      cases st with
      | err => simp [hp] at h
      | fatal => simp [hp] at h
      | ok =>
        simp only [hp] at h
        cases hi : instantiate m' fuel with
        | none => simp [hi] at h
        | some r =>
          simp only [hi] at h
          have h1 := (Prod.mk.inj h).2
          have h2 := Prod.mk.inj h1
          have hre : r = (insts, G) := Option.some.inj h2.1
          have hcert : propCertB m (laFlowFlags m) m' = true := h2.2
          subst hre
          refine ⟨m', ?_, m, rfl, hp, hi⟩
          intro hd
          obtain ⟨hin, hcm⟩ := propagate_ok_spec hp
          obtain ⟨_, _, hin0, _⟩ := resolveAll_spec hr
          have hk' : m'.inputs[k]? = some i := by rw [hin, hin0]; exact hk
          -- the input nonterminal has no parameters in m'
          have hmem : i ∈ m'.inputs := List.mem_of_getElem? hk'
          simp only [checkModel, Bool.and_eq_true, List.all_eq_true] at hcm
          have hnp := hcm.1 i hmem
          cases hnt : m'.nts[i.1]? with
          | none => simp [hnt] at hnp
          | some nt' =>
            simp only [hnt, List.isEmpty_iff] at hnp
            have hR : EnvRel m (Fof (laFlowFlags m) i.1) nt'.params env0 env0 := by
              rw [hnp]; exact envRel_env0 _
            have e1 := resolveAll_sound hr i.1 env0 w
            have e2 := C14_propagate_args_sound_partial m m' hcert i.1 nt' hnt env0 env0 hR w
            have e3 := (C14_inputs_use_defaults m' fuel insts G hi hd k i hk' w).2
            exact e3.trans (e2.symm.trans e1.symm)

/-- non-vacuity: `%lookahead flag L; %flag A = true; N0: N1<+L> 'a' | 'b' N1 ; N1<A>: [L && A] 'c' | 'a';`
goes through the whole pipeline with a valid certificate and without dead instances. -/
def pipelineExample : TGrammar :=
  { nTerms := 4, params := [{ name := 0, la := true }, { name := 1, dflt := some 1 }],
    nts := [⟨[], [⟨none, [.n 1 [⟨0, .value 1⟩], .t 1]⟩, ⟨none, [.t 2, .n 1 []]⟩]⟩,
            ⟨[1], [⟨some (.and [.eq 0 1, .eq 1 1]), [.t 3]⟩, ⟨none, [.t 1]⟩]⟩],
    inputs := [(0, true)] }

example : ∃ insts G, compile ⟨true, true⟩ pipelineExample 20 = (.ok, some (insts, G), true) ∧
    insts = [⟨0, []⟩, ⟨1, [(1, 1), (0, 1)]⟩, ⟨1, [(1, 1), (0, 0)]⟩] ∧
    G.rules.toList = [⟨4, [5, 1], 0⟩, ⟨4, [2, 6], 0⟩, ⟨5, [3], 0⟩, ⟨5, [1], 0⟩, ⟨6, [1], 0⟩] :=
  ⟨_, _, rfl, rfl, rfl⟩

end TmVerif.C14
