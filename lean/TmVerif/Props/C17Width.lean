/-
C17, second decidable fragment: the element type of every generated table holds every element.
`bitsPerElement` / `bits` (gen/funcs.go, template functions `bits_per_element` / `bits`) choose `int8`, `int16`
or `int32` for tmTable, tmCheck, tmFromTo, tmRuleLen, tmLexerAction and the state type, and `uint8/16/32` for the
rune-class tables. Model/TableWidth.lean mirrors them; the mirror is tied to the real functions by the
correspondence run of harness/cmd/tmh/c17.go (random arrays incl. the extremes of every width). The theorems
hold for ALL arrays, so a choice that is too narrow for some negative entry cannot pass the tie.
-/
import TmVerif.Proofs.TableWidth
namespace TmVerif.C17
open TmVerif.TableWidth

/-- Every element of an array of int32 values is a value of the chosen element type. -/
theorem C17_bitsPerElement_fits (arr : List Int) (h : allInt32 arr = true) :
    ∀ x ∈ arr, fitsSigned (bitsPerElement arr) x = true :=
  bpeLoop_fits arr 8 (Or.inl rfl) h

example : bitsPerElement [5, -129, 127] = 16 ∧ fitsSigned 16 (-129) = true ∧ fitsSigned 8 (-129) = false := by decide
example : allInt32 [5, -129, 127, -32769] = true := by decide

/-- The choice is one of the three Go widths. -/
theorem C17_bitsPerElement_width (arr : List Int) :
    bitsPerElement arr = 8 ∨ bitsPerElement arr = 16 ∨ bitsPerElement arr = 32 :=
  bpeLoop_vals arr 8 (Or.inl rfl)

theorem bpeLoop_small (arr : List Int) (ret w : Nat) (hr : ret ≤ w) (hw : w = 8 ∨ w = 16)
    (h : ∀ x ∈ arr, fitsSigned w x = true) : bpeLoop arr ret ≤ w := by
  induction arr generalizing ret with
  | nil => simpa [bpeLoop] using hr
  | cons i rest ih =>
    have hi := h i (by simp)
    have hrest : ∀ x ∈ rest, fitsSigned w x = true := fun x hx => h x (List.mem_cons_of_mem _ hx)
    simp only [fitsSigned, Bool.and_eq_true, decide_eq_true_eq] at hi
    simp only [bpeLoop]
    by_cases c1 : (i < -128 || i > 127) = true
    · have c1' : i < -128 ∨ i > 127 := by simpa using c1
      rcases hw with rfl | rfl
      · exfalso; omega
      · have c2 : (i < -32768 || i > 32767) = false := by
          simp only [Bool.or_eq_false_iff, decide_eq_false_iff_not]; omega
        simp only [c1, c2, if_true, Bool.false_eq_true, ↓reduceIte]
        exact ih 16 (Nat.le_refl _) hrest
    · simp only [c1, Bool.false_eq_true, ↓reduceIte]
      exact ih ret hr hrest

/-- … and the narrowest one that holds every element (no table is wider than necessary). -/
theorem C17_bitsPerElement_minimal (arr : List Int) (w : Nat) (hw : w = 8 ∨ w = 16)
    (h : ∀ x ∈ arr, fitsSigned w x = true) : bitsPerElement arr ≤ w :=
  bpeLoop_small arr 8 w (by rcases hw with rfl | rfl <;> omega) hw h

/-- `bits`: an int32 value is a value of the signed type of the chosen width. -/
theorem C17_bits_fits (i : Int) (h : fitsSigned 32 i = true) : fitsSigned (bits i) i = true := by
  unfold bits
  by_cases c1 : (i < -128 || i > 127) = true
  · by_cases c2 : (i < -32768 || i > 32767) = true
    · simpa [c1, c2] using h
    · simp only [c1, c2, if_true, Bool.false_eq_true, ↓reduceIte]
      exact fits16 i (by simpa using c2)
  · simp only [c1, Bool.false_eq_true, ↓reduceIte]
    exact fits8 i (by simpa using c1)

/-- `uint{{bits n}}` (rune classes, `n` = number of classes): every class number below `n` is a value of it. -/
theorem C17_bits_unsigned (n v : Int) (hn : fitsSigned 32 n = true) (h0 : 0 ≤ v) (hv : v < n) :
    fitsUnsigned (bits n) v = true := by
  have hf := C17_bits_fits n hn
  have hb : bits n = 8 ∨ bits n = 16 ∨ bits n = 32 := by
    unfold bits
    split
    · split <;> simp
    · simp
  simp only [fitsSigned, Bool.and_eq_true, decide_eq_true_eq] at hf
  simp only [fitsUnsigned, Bool.and_eq_true, decide_eq_true_eq]
  rcases hb with e | e | e <;> rw [e] at hf ⊢ <;> omega

end TmVerif.C17
