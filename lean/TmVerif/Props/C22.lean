/-
C22 — the grammar compiler never crashes and reports in-range diagnostics (Mode M + F, DESIGN.md §4).

Part 1 (Mode M, all inputs): the position arithmetic of diagnostics. `lineCol` mirrors
`Node.LineColumn`/`lineOffsets` (parsers/tm/ast/tree.go), `mapRegexError` mirrors the offset translation of
`parsePattern` (compiler/lexer.go).
Part 2 (Mode M, mirrored guards): lemmas showing that two explicit crash sites cannot fire.
Part 3 (Mode F, `decide` over Facts/Generated.lean, regenerated from /repo on every run): every explicit crash
site (log.Fatal*, log.Panic*, panic, os.Exit) of the pipeline packages is classified; a new, moved, reordered or
edited site breaks `C22_all_fatal_sites_classified`, and with it the check.

NOT proved (see the end of the file): that `compiler.Compile` itself never panics — the sites classified
`reportedInvariant`, implicit run-time panics and non-termination are covered by the correspondence runs of
harness/cmd/tmh/c22.go only, and crashes are known (see the end of the file).
-/
import TmVerif.Facts.Generated
import TmVerif.Facts.ExpectC22
import TmVerif.Proofs.SourcePos
namespace TmVerif.C22
open TmVerif.SourcePos TmVerif.Facts

/-! ## Part 1: position arithmetic -/

/-- `Node.LineColumn` is right for every text and every offset inside it (or at its end): the line is 1 + the
number of `'\n'` among the first `offset` bytes; the column is 1-based in bytes from the start of that line,
where the line start `s = offset + 1 - column` satisfies: `s ≤ offset`, no `'\n'` in `[s, offset)`, and `s` is
0 or follows a `'\n'` (these three conditions determine `s` uniquely). -/
theorem C22_lineCol_spec (bs : List Nat) (offset : Nat) (h : offset ≤ bs.length) :
    let lc := lineCol bs offset
    lc.1 = 1 + (bs.take offset).count 10 ∧
    1 ≤ lc.2 ∧ lc.2 ≤ offset + 1 ∧
    (∀ i, offset + 1 - lc.2 ≤ i → i < offset → bs[i]? ≠ some 10) ∧
    (offset + 1 - lc.2 = 0 ∨ bs[offset + 1 - lc.2 - 1]? = some 10) := by
  obtain ⟨f1, f2, f3, f4, f5⟩ := lineCol_facts bs offset h
  simp only at f1 f2 f3 f4 f5 ⊢
  have hs : offset + 1 - (lineCol bs offset).2
      = (lineOffsets bs).getD (searchGT (lineOffsets bs) offset - 1) 0 := by rw [f2]; omega
  refine ⟨f1, by rw [f2]; omega, by rw [f2]; omega, ?_, ?_⟩
  · intro i hi1 hi2
    exact f4 i (by rw [← hs]; exact hi1) hi2
  · rw [hs]
    rcases f5 with e | ⟨_, e⟩
    · left; exact e
    · right; exact e

example : lineCol [97, 10, 98, 99, 10, 10, 100] 3 = (2, 2) := by decide
example : lineCol [97, 10, 98, 99, 10, 10, 100] 5 = (3, 1) := by decide
example : lineCol [] 0 = (1, 1) := by decide

/-- The functional form: `lineCol` equals the independent recomputation `lineColSpec` (count the newlines of
the prefix, measure its last line). Used by the driver's `judge`. -/
theorem C22_lineCol_eq_spec (bs : List Nat) (offset : Nat) (h : offset ≤ bs.length) :
    lineCol bs offset = lineColSpec bs offset := by
  obtain ⟨s1, s2, s3, s4, s5⟩ := C22_lineCol_spec bs offset h
  -- the run of non-newline bytes at the end of the prefix has length column - 1
  have hlen : (bs.take offset).length = offset := by simp [List.length_take]; omega
  have hrun := takeWhile_run (bs.take offset).reverse ((lineCol bs offset).2 - 1)
    (by rw [List.length_reverse, hlen]; omega)
    (by
      intro j hj
      rw [List.getElem?_reverse (by rw [hlen]; omega), hlen]
      have := s4 (offset - 1 - j) (by omega) (by omega)
      rwa [List.getElem?_take_of_lt (by omega)])
    (by
      rw [List.length_reverse, hlen]
      rcases s5 with e | e
      · left; omega
      · by_cases hz : (lineCol bs offset).2 - 1 = offset
        · left; exact hz
        · right
          rw [List.getElem?_reverse (by rw [hlen]; omega), hlen]
          have h1 : offset + 1 - (lineCol bs offset).2 - 1 = offset - 1 - ((lineCol bs offset).2 - 1) := by omega
          rw [h1] at e
          rwa [List.getElem?_take_of_lt (by omega)])
  unfold lineColSpec
  simp only
  rw [hrun, ← s1]
  have : 1 + ((lineCol bs offset).2 - 1) = (lineCol bs offset).2 := by omega
  rw [this]

/-- Round trip: the offset is recovered from (line, column) and the table of line starts; the line exists. -/
theorem C22_lineCol_roundtrip (bs : List Nat) (offset : Nat) (h : offset ≤ bs.length) :
    let lc := lineCol bs offset
    1 ≤ lc.1 ∧ lc.1 ≤ (lineOffsets bs).length ∧ lineStart bs lc.1 + lc.2 - 1 = offset := by
  obtain ⟨_, f2, f3, _, _⟩ := lineCol_facts bs offset h
  simp only at f2 f3 ⊢
  have hline : (lineCol bs offset).1 = searchGT (lineOffsets bs) offset - 1 + 1 := rfl
  have hle : searchGT (lineOffsets bs) offset ≤ (lineOffsets bs).length := List.findIdx_le_length
  have hpos : 1 ≤ searchGT (lineOffsets bs) offset := by rw [searchGT_lineOffsets]; omega
  refine ⟨by omega, by omega, ?_⟩
  unfold lineStart
  rw [hline, f2]
  simp only [Nat.add_sub_cancel]
  omega

example : lineStart [97, 10, 98, 99, 10, 10, 100] 2 = 2 := by decide

/-- Columns within one line: moving `d` bytes forward without crossing a newline keeps the line and adds `d`
to the column (this is what `parsePattern` relies on when it bumps `Column` together with `Offset`). -/
theorem C22_lineCol_add (bs : List Nat) (o d : Nat) (h : o + d ≤ bs.length)
    (hnl : ∀ i, o ≤ i → i < o + d → bs[i]? ≠ some 10) :
    lineCol bs (o + d) = ((lineCol bs o).1, (lineCol bs o).2 + d) := by
  rw [C22_lineCol_eq_spec bs (o + d) h, C22_lineCol_eq_spec bs o (by omega)]
  unfold lineColSpec
  simp only
  rw [count_take_add bs o d hnl]
  congr 1
  -- the last line of the longer prefix is the last line of the shorter one plus d ordinary bytes
  have hsplit : bs.take (o + d) = bs.take o ++ (bs.drop o).take d := by
    rw [List.take_add]
  rw [hsplit, List.reverse_append]
  have hall : ∀ x ∈ ((bs.drop o).take d).reverse, (fun b => b != 10) x = true := by
    intro x hx
    rw [List.mem_reverse] at hx
    obtain ⟨j, hj, rfl⟩ := List.getElem_of_mem hx
    simp only [List.length_take, List.length_drop] at hj
    have := hnl (o + j) (by omega) (by omega)
    simp only [List.getElem_take, List.getElem_drop]
    rw [List.getElem?_eq_getElem (by omega)] at this
    simp only [bne_iff_ne, ne_eq]
    intro e; exact this (by rw [e])
  rw [List.takeWhile_append_of_pos hall]
  simp only [List.length_append, List.length_reverse, List.length_take, List.length_drop]
  omega

/-- `parsePattern`: whatever error range the regexp parser reports (non-negative start), the diagnostic stays
inside the source range of the pattern literal `/text/`, and its start does not exceed its end.
`rng.endOffset = rng.offset + textLen + 2` says that `rng` is the range of the literal (text plus two slashes). -/
theorem C22_mapRegexError_in_source (rng : SrcRange) (textLen errOff errEnd : Int)
    (hlit : rng.endOffset = rng.offset + textLen + 2) (hlen : 0 ≤ textLen) (hoff : 0 ≤ errOff) :
    let r := mapRegexError rng textLen errOff errEnd
    rng.offset ≤ r.offset ∧ r.offset ≤ r.endOffset ∧ r.endOffset ≤ rng.endOffset ∧ r.line = rng.line := by
  unfold mapRegexError
  by_cases hg : errOff ≤ errEnd ∧ errEnd ≤ textLen ∧ errOff < textLen
  · rw [if_pos hg]
    obtain ⟨g1, g2, g3⟩ := hg
    by_cases hlt : errOff < errEnd
    · simp only [if_pos hlt]
      refine ⟨?_, ?_, ?_, ?_⟩ <;> first | omega | trivial
    · simp only [if_neg hlt]
      refine ⟨?_, ?_, ?_, ?_⟩ <;> first | omega | trivial
  · rw [if_neg hg]
    simp only
    refine ⟨?_, ?_, ?_, ?_⟩ <;> first | omega | trivial

example : mapRegexError ⟨10, 17, 3, 5⟩ 5 2 4 = ⟨13, 15, 3, 8⟩ := by decide

/-- When the guard of `parsePattern` accepts the error range (`errOff ≤ errEnd ≤ len(text)`, `errOff < len(text)`)
the diagnostic lies strictly between the two slashes and covers exactly the erroneous characters (or, for an
empty error range, everything from the error position to the closing slash). -/
theorem C22_mapRegexError_inside_slashes (rng : SrcRange) (textLen errOff errEnd : Int)
    (hlit : rng.endOffset = rng.offset + textLen + 2) (hoff : 0 ≤ errOff)
    (hg : errOff ≤ errEnd ∧ errEnd ≤ textLen ∧ errOff < textLen) :
    let r := mapRegexError rng textLen errOff errEnd
    r.offset = rng.offset + 1 + errOff ∧ rng.offset + 1 ≤ r.offset ∧ r.offset < r.endOffset ∧
      r.endOffset ≤ rng.endOffset - 1 ∧
      (errOff < errEnd → r.endOffset = rng.offset + 1 + errEnd) ∧
      r.column = rng.column + 1 + errOff := by
  unfold mapRegexError
  rw [if_pos hg]
  obtain ⟨g1, g2, g3⟩ := hg
  by_cases hlt : errOff < errEnd
  · simp only [if_pos hlt]; omega
  · simp only [if_neg hlt]; omega

example : mapRegexError ⟨10, 17, 3, 5⟩ 5 2 2 = ⟨13, 16, 3, 8⟩ := by decide

/-- An error range the guard rejects leaves the pattern's own range. -/
theorem C22_mapRegexError_rejected (rng : SrcRange) (textLen errOff errEnd : Int)
    (hg : ¬ (errOff ≤ errEnd ∧ errEnd ≤ textLen ∧ errOff < textLen)) :
    mapRegexError rng textLen errOff errEnd = rng := by
  unfold mapRegexError
  rw [if_neg hg]

example : mapRegexError ⟨10, 17, 3, 5⟩ 5 5 5 = ⟨10, 17, 3, 5⟩ := by decide

/-- The (line, column) of the translated range is again what `LineColumn` gives for its offset, provided the
pattern's own range was consistent and the pattern text before the error contains no newline. -/
theorem C22_mapRegexError_lineCol (bs : List Nat) (rng : SrcRange) (o : Nat) (textLen errOff errEnd : Int)
    (ho : rng.offset = (o : Int)) (hoff : 0 ≤ errOff)
    (hline : rng.line = ((lineCol bs o).1 : Int)) (hcol : rng.column = ((lineCol bs o).2 : Int))
    (hg : errOff ≤ errEnd ∧ errEnd ≤ textLen ∧ errOff < textLen)
    (hin : o + (errOff.toNat + 1) ≤ bs.length)
    (hnl : ∀ i, o ≤ i → i < o + (errOff.toNat + 1) → bs[i]? ≠ some 10) :
    let r := mapRegexError rng textLen errOff errEnd
    let o' := o + (errOff.toNat + 1)
    r.offset = (o' : Int) ∧ r.line = ((lineCol bs o').1 : Int) ∧ r.column = ((lineCol bs o').2 : Int) := by
  unfold mapRegexError
  rw [if_pos hg]
  simp only
  rw [C22_lineCol_add bs o (errOff.toNat + 1) hin hnl]
  simp only
  refine ⟨by omega, hline, by omega⟩

example : lineCol [97, 58, 32, 47, 91, 47, 10] 3 = (1, 4) ∧
    mapRegexError ⟨3, 6, 1, 4⟩ 1 0 1 = ⟨4, 5, 1, 5⟩ ∧ lineCol [97, 58, 32, 47, 91, 47, 10] 4 = (1, 5) := by decide

/-! ## Part 2: mirrored guards of crash sites -/

/-- lalr/optimize.go `pack`: the `log.Fatal("… empty line")` cannot fire — whatever order the stable sort
leaves the lines in, an empty line makes the first loop panic on `l.pairs[0]` before the guard is reached.
(The site is dead; the function is not thereby crash-free.) -/
theorem C22_pack_empty_line_unreachable (lineLens order : List Nat) (hperm : order.Perm lineLens) :
    packPrefix lineLens order ≠ .fatalEmptyLine := by
  unfold packPrefix packFirstLoopPanics
  by_cases h : lineLens.any (· == 0) = true
  · simp [h]
  · have h' : order.any (· == 0) = false := by
      cases ho : order.any (· == 0) with
      | false => rfl
      | true =>
        exfalso; apply h
        rw [List.any_eq_true] at ho ⊢
        obtain ⟨x, hx, hx0⟩ := ho
        exact ⟨x, hperm.mem_iff.mp hx, hx0⟩
    simp [h, h']

example : packPrefix [2, 0, 1] [2, 1, 0] = .indexPanic := by decide
example : packPrefix [2, 3, 1] [3, 2, 1] = .proceeds := by decide

/-- compiler/lexer.go `addDefaultAction`: for two calls on an empty `codeRule` map the `log.Fatal` fires only if
both are for symbol 0 … -/
theorem C22_addDefaultAction_two_calls (a b : Nat) :
    addDefaultActionFires [] [a, b] = true ↔ (a = 0 ∧ b = 0) := by
  unfold addDefaultActionFires addDefaultActionFires addDefaultActionFires
  by_cases ha : a = 0 <;> by_cases hb : b = 0 <;> simp [ha, hb]

/-- … and `lexerCompiler.compile` calls it for `invalid_token` (index 1) and `eoi` (index 0) of a fresh
resolver, so it never fires. -/
theorem C22_addDefaultAction_never_fatal :
    compileDefaultActionSyms = [1, 0] ∧ addDefaultActionFires [] compileDefaultActionSyms = false := by decide

/-! ## Part 3: obligations over the regenerated facts -/

/-- Every explicit crash site of the pipeline packages at the CURRENT tree is classified, by exactly one entry. -/
theorem C22_all_fatal_sites_classified :
    ∀ s ∈ fatalSites, (fatalExpectations.filter (·.isFor s)).length = 1 := by decide

/-- … and the table contains nothing else (no stale entries). -/
theorem C22_fatal_expectations_current :
    ∀ e ∈ fatalExpectations, (fatalSites.any fun s => e.isFor s) = true := by decide

/-- Every file of the pipeline packages parsed and the extractor did not crash. -/
theorem C22_inventory_complete : loadProblems = [] := by decide

/-- The sites discharged as "default clause of an exhaustive switch": in the regenerated switch facts every
declared constant of the tag's type is named in a `case` of that switch, and values of the type arise only
from declared constants (no conversions, arithmetic or foreign constants beyond `allowedLeaks`). -/
theorem C22_exhaustive_switch_sites :
    ∀ e ∈ fatalExpectations, e.switchOk fatalSwitches = true := by decide

/-- The lemmas that sites classified `discharged` may cite: name as written in the expectation table, and the
constant itself (the double back-quote makes the elaborator check that it exists). -/
def dischargeLemmas : List (String × Lean.Name) := [
  ("C22_pack_empty_line_unreachable", ``C22_pack_empty_line_unreachable),
  ("C22_addDefaultAction_never_fatal", ``C22_addDefaultAction_never_fatal),
  ("C22_exhaustive_switch_sites", ``C22_exhaustive_switch_sites)]

/-- Every `discharged` classification cites one of these lemmas. -/
theorem C22_discharged_sites_cite_lemmas :
    ∀ e ∈ fatalExpectations, ∀ l, e.cls.lemmaName = some l → l ∈ dischargeLemmas.map Prod.fst := by decide

/-- Summary of the classification (changes with the table; recorded so that a reclassification is visible). -/
theorem C22_classification_counts :
    (fatalExpectations.map (fatalClassTag ·.cls)).count "discharged" = 9 ∧
    (fatalExpectations.map (fatalClassTag ·.cls)).count "reported-invariant" = 34 ∧
    (fatalExpectations.map (fatalClassTag ·.cls)).count "reachable" = 0 ∧
    (fatalExpectations.map (fatalClassTag ·.cls)).count "outside-compile" = 11 := by decide

/-! ## What is not proved

The full statement of the property — for every text `compiler.Compile` terminates without panic or exit — is
about the real implementation; no Lean model of `Compile` exists, so it is not a theorem here. What the
theorems above give: the position arithmetic is right for all inputs (Part 1), 9 of the 54 explicit crash sites
are dead (Parts 2 and 3), and the inventory is complete and current (Part 3). The 34 `reportedInvariant` sites,
implicit run-time panics (nil, index, stack overflow) and termination rest on the correspondence runs. Six
crashes were found by those runs and repaired in /repo (`[C22-lalrk-optimize]`, `[C22-greedy-lookback]`,
`[C22-bison-stringify]`: explicit sites; `[C22-addtypes-minus-one]`, `[C22-argrefs-stale-after-instantiate]`,
`[C22-recursive-set-instantiate]`: implicit panics); their witnesses stay in the harness's stream. -/

end TmVerif.C22
