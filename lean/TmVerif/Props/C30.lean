import TmVerif.Proofs.Bison
/-!
C30 — Bison export describes the grammar Textmapper parses (property theorems only).

`render g` mirrors `gen/templates/bison.go.tmpl` (+ `ExprString`, `RulesByNonterm`, `TokensWithoutPrec`)
on the grammar the tables are built from; `parseY` reads the rules and precedence declarations off the
TEXT of a `.y` file (it is the function the check applies to the real generated files). Hypotheses,
all decidable and evaluated by the driver on every real grammar:

* `IdsWF names` — every spelling is one symbol token of the format (non-empty, no blank, no brace, does
  not start with `%` or `/`, is not `:` `|` `;`) and no two symbols share a spelling;
* `MarkersWF markers` — state-marker names contain no blank and no brace (they are printed as `/*.m*/`);
* `OrderKept rules` — grouping the rules by left-hand side (`RulesByNonterm`) does not reorder them.

`C30_collision_witness` / `C30_order_witness` show that the first and the last cannot be dropped.
-/
namespace TmVerif.Bison

/-- The format loses nothing: reading the exported text back yields exactly the expanded rules (in
order, with left-hand side, right-hand-side symbols and `%prec`) and the precedence declarations (in
order, with associativity and terminals) the tables were built from. -/
theorem C30_parseY_render (g : Gram) (hn : IdsWF g.names) (hm : MarkersWF g.markers)
    (ho : OrderKept g.rules) : parseY (render g) = some (rulesOf g, precOf g) := by
  unfold parseY render parseChars
  rw [String.toList_ofList, lexY_render hn.1 hm, parseToks_toks hn.1 ho]

/-- a grammar with every feature: two inputs (one no-eoi), three precedence levels, a marker, an empty
rule, `%prec`, a marker-only rule -/
def exampleGram : Gram :=
  { names := [['E','O','I'], ['I','N','V'], ['P','L','U','S'], ['M','U','L','T'], ['I','D'],
              ['S'], ['E','$','1'], ['L','-','o','p','t']],
    markers := [['m','1']],
    numTokens := 5,
    inputs := [⟨5, false⟩, ⟨6, true⟩],
    prec := [⟨.left, [2]⟩, ⟨.right, [3]⟩, ⟨.nonassoc, [4, 1]⟩],
    rules := [⟨5, [.sym 6, .marker 0, .sym 7], 0⟩, ⟨6, [.sym 6, .sym 2, .sym 6], 0⟩,
              ⟨6, [.sym 3, .sym 6], 2⟩, ⟨6, [.sym 4], 0⟩, ⟨7, [], 0⟩, ⟨7, [.marker 0], 3⟩] }

example : IdsWF exampleGram.names ∧ MarkersWF exampleGram.markers ∧ OrderKept exampleGram.rules ∧
    inRange exampleGram = true := by decide

example : (rulesOf exampleGram).length = 6 ∧ (precOf exampleGram).length = 3 := by decide

/-- `render` is injective up to what the property talks about: two grammars with the same exported
text have the same (spelled-out) rule list and precedence declarations. -/
theorem C30_render_injective (g₁ g₂ : Gram)
    (hn₁ : IdsWF g₁.names) (hm₁ : MarkersWF g₁.markers) (ho₁ : OrderKept g₁.rules)
    (hn₂ : IdsWF g₂.names) (hm₂ : MarkersWF g₂.markers) (ho₂ : OrderKept g₂.rules)
    (h : render g₁ = render g₂) : rulesOf g₁ = rulesOf g₂ ∧ precOf g₁ = precOf g₂ := by
  have e₁ := C30_parseY_render g₁ hn₁ hm₁ ho₁
  have e₂ := C30_parseY_render g₂ hn₂ hm₂ ho₂
  rw [h, e₂] at e₁
  simpa using e₁.symm

/-- Over one symbol table: the same exported text means the same rules (as symbol indices, state
markers aside — they are not symbols) and the same precedence table. -/
theorem C30_render_injective_idx (g₁ g₂ : Gram) (hnames : g₁.names = g₂.names)
    (hn : IdsWF g₁.names) (hm₁ : MarkersWF g₁.markers) (ho₁ : OrderKept g₁.rules)
    (hm₂ : MarkersWF g₂.markers) (ho₂ : OrderKept g₂.rules)
    (hr₁ : inRange g₁ = true) (hr₂ : inRange g₂ = true)
    (h : render g₁ = render g₂) :
    g₁.rules.map eraseMarkers = g₂.rules.map eraseMarkers ∧ g₁.prec = g₂.prec := by
  have hn₂ : IdsWF g₂.names := hnames ▸ hn
  obtain ⟨hrules, hprec⟩ := C30_render_injective g₁ g₂ hn hm₁ ho₁ hn₂ hm₂ ho₂ h
  exact ⟨rules_of_rulesOf hnames hn.2 hr₁ hr₂ hrules, prec_of_precOf hnames hn.2 hr₁ hr₂ hprec⟩

/-- non-vacuity: all hypotheses hold for a concrete pair, and the conclusion separates them -/
example : render { exampleGram with prec := [] } ≠ render exampleGram := by
  intro h
  have := (C30_render_injective_idx { exampleGram with prec := [] } exampleGram rfl (by decide) (by decide)
    (by decide) (by decide) (by decide) (by decide) (by decide) h).2
  exact absurd this (by decide)

/-- `IdsWF` cannot be weakened to "every spelling is a token": with a nonterminal spelled like a
terminal's ID (the real compiler accepts the nonterminal name `CHAR_A` next to the terminal `'a'`,
whose ID is `CHAR_A`) two different grammars have the same export. -/
theorem C30_collision_witness :
    ∃ g₁ g₂ : Gram, g₁.names = g₂.names ∧ g₁.names.all goodName = true ∧ render g₁ = render g₂ ∧
      g₁.rules.map eraseMarkers ≠ g₂.rules.map eraseMarkers := by
  let names : List Word := [['E','O','I'], ['C','H','A','R','_','A'], ['S'], ['C','H','A','R','_','A']]
  refine ⟨⟨names, [], 2, [⟨2, false⟩], [], [⟨2, [.sym 1], 0⟩, ⟨3, [.sym 1], 0⟩]⟩,
    ⟨names, [], 2, [⟨2, false⟩], [], [⟨2, [.sym 3], 0⟩, ⟨3, [.sym 1], 0⟩]⟩, rfl, by decide, ?_, by decide⟩
  exact congrArg String.ofList (by decide)

/-- `OrderKept` cannot be dropped: the template groups rules by left-hand side, so a rule list in
which the rules of a nonterminal are not contiguous is exported like its regrouped permutation. -/
theorem C30_order_witness :
    ∃ g₁ g₂ : Gram, g₁.names = g₂.names ∧ IdsWF g₁.names ∧ render g₁ = render g₂ ∧
      OrderKept g₂.rules ∧ g₁.rules ≠ g₂.rules := by
  let names : List Word := [['E','O','I'], ['a'], ['A'], ['B']]
  refine ⟨⟨names, [], 2, [⟨2, false⟩], [], [⟨2, [.sym 1], 0⟩, ⟨3, [.sym 1], 0⟩, ⟨2, [.sym 3], 0⟩]⟩,
    ⟨names, [], 2, [⟨2, false⟩], [], [⟨2, [.sym 1], 0⟩, ⟨2, [.sym 3], 0⟩, ⟨3, [.sym 1], 0⟩]⟩,
    rfl, by decide, ?_, by decide, by decide⟩
  exact congrArg String.ofList (by decide)

end TmVerif.Bison
