import TmVerif.Proofs.LexRunNext
import TmVerif.Proofs.LexRunSkip
import TmVerif.Proofs.LexRunRefine
/-!
C12 — Tokenization always progresses, tiles the input and tracks lines (property theorems only).

Model: `Model/LexRun.lean` (`next` = the generated `Lexer.Next` of go_lexer.go.tmpl on the tables of
`Model/LexTables.lean`). The theorems are about ALL byte strings, ALL lexer states that satisfy the
position invariant `PInv` (established by `Init`, kept by every call: `C12_init_inv`,
`C12_next_progress`), and ALL tables with `TablesWF` — a decidable predicate that the drivers evaluate
on the real tables of the five shipped lexers and of every generated lexer on each run.
Hand-written lexer actions (tm, js, test) are outside this table model; for them the harness checks the
same contract directly on the real lexers.
-/
namespace TmVerif.LexRun
open TmVerif.LexTables

/-- Decidable well-formedness of generated lexer tables (no rule ids are exempt). -/
def TablesWF (sp : Spec) : Prop := tablesWF sp [] = true

instance (sp : Spec) : Decidable (TablesWF sp) := by unfold TablesWF; infer_instance

/-- `Init` establishes the invariant, after the byte-order mark. -/
theorem C12_init_inv (o : Opts) (v : Variant) (src : List UInt8) :
    PInv o v (init o v src) ∧ (init o v src).offset = startOffset o src ∧ (init o v src).source = src ∧
    (init o v src).state = 0 := init_pinv o v src

/-- **Progress.** Every call of `Next` on well-formed tables returns (no panic, no endless loop); the
returned token starts at or after the previous position, every token other than EOI is non-empty (so
`offset` strictly increases), EOI is reported at `[len, len)` only, and the invariant and `State`
carry over to the next call. -/
theorem C12_next_progress (sp : Spec) (hw : TablesWF sp) (l : Lexer) (hp : PInv sp.opts sp.v l)
    (hv : ValidState sp l) :
    ∃ tok l', next sp l = some (tok, l') ∧ PInv sp.opts sp.v l' ∧ ValidState sp l' ∧
      l'.source = l.source ∧ l.offset ≤ l'.tokenOffset ∧ l'.tokenOffset ≤ l'.offset ∧
      l'.offset ≤ l'.source.length ∧
      (tok ≠ 0 → l'.tokenOffset < l'.offset ∧ l.offset < l'.offset) ∧
      (tok = 0 → l'.tokenOffset = l'.source.length ∧ l'.offset = l'.source.length) := by
  obtain ⟨tok, l', h1, h2⟩ := nextLoop_spec sp (wfacts_of sp hw) _ l hp hv (Nat.le_refl _)
  refine ⟨tok, l', h1, h2.pinv, ?_, h2.source, h2.after, h2.le, h2.pinv.le, ?_, h2.eoi⟩
  · intro hm; rw [h2.state]; exact hv hm
  · intro h; have := h2.nonempty h; have := h2.after; exact ⟨by omega, by omega⟩

/-- **EOI repeats.** At the end of the input `Next` returns EOI at `[len, len)` again. -/
theorem C12_eoi_repeats (sp : Spec) (hw : TablesWF sp) (l : Lexer) (hp : PInv sp.opts sp.v l)
    (hv : ValidState sp l) (hend : l.offset = l.source.length) :
    ∃ l', next sp l = some (0, l') ∧ l'.tokenOffset = l.source.length ∧ l'.offset = l.source.length ∧
      PInv sp.opts sp.v l' := by
  obtain ⟨tok, l', h1, h2, _, h4, h5, h6, h7, h8, h9⟩ := C12_next_progress sp hw l hp hv
  have : tok = 0 := by
    by_cases h : tok = 0
    · exact h
    · have := h8 h; rw [h4] at h7; omega
  subst this
  refine ⟨l', h1, ?_, ?_, h2⟩
  · rw [← h4]; exact (h9 rfl).1
  · rw [← h4]; exact (h9 rfl).2

/-- A token sequence that starts at or after `prev`, is ordered and disjoint, consists of non-empty
tokens and ends with EOI at `[len, len)`; every token carries the line of its first byte. -/
def Tiled (sp : Spec) (src : List UInt8) : Nat → List Tok → Prop
  | _, [] => False
  | prev, t :: rest =>
    prev ≤ t.start ∧ t.start ≤ t.stop ∧ t.stop ≤ src.length ∧
    (sp.opts.tokenLine = true → t.line = 1 + (countNL (src.take t.start) : Int)) ∧
    (if t.tok = 0 then t.start = src.length ∧ rest = [] else t.start < t.stop ∧ Tiled sp src t.stop rest)

/-- **Termination and tiling.** Calling `Next` repeatedly reaches EOI within `len - offset + 1` calls;
the tokens returned on the way are ordered, pairwise disjoint, non-empty, inside the input, and the
last one is EOI at the end of the input. -/
theorem C12_tokens_tile (sp : Spec) (hw : TablesWF sp) : ∀ (n : Nat) (l : Lexer),
    PInv sp.opts sp.v l → ValidState sp l → l.source.length - l.offset + 1 ≤ n →
    ∃ toks, tokenize sp n l = some toks ∧ Tiled sp l.source l.offset toks := by
  intro n
  induction n with
  | zero => intro l _ _ h; omega
  | succ n ih =>
    intro l hp hv hn
    obtain ⟨tok, l', h1, h2⟩ := nextLoop_spec sp (wfacts_of sp hw) _ l hp hv (Nat.le_refl _)
    have h1' : next sp l = some (tok, l') := h1
    have hobs : observe tok l' = ⟨tok, l'.tokenOffset, l'.offset, l'.tokenLine, l'.tokenColumn⟩ := rfl
    simp only [tokenize, h1']
    have hsrc := h2.source
    have hline : sp.opts.tokenLine = true → l'.tokenLine = 1 + (countNL (l.source.take l'.tokenOffset) : Int) := by
      intro ht; rw [← hsrc]; exact h2.line ht
    have hlen : l'.offset ≤ l.source.length := by rw [← hsrc]; exact h2.pinv.le
    by_cases h0 : tok = 0
    · simp only [h0, if_true]
      have he := h2.eoi h0
      rw [hsrc] at he
      refine ⟨_, rfl, ?_⟩
      simp only [Tiled, observe, if_true]
      exact ⟨h2.after, h2.le, hlen, hline, he.1, trivial⟩
    · simp only [h0, if_false]
      have hne := h2.nonempty h0
      have hv' : ValidState sp l' := by intro hm; rw [h2.state]; exact hv hm
      obtain ⟨toks, t1, t2⟩ := ih l' h2.pinv hv' (by rw [hsrc]; have := h2.after; omega)
      refine ⟨observe tok l' :: toks, by rw [t1]; rfl, ?_⟩
      simp only [Tiled, observe, h0, if_false]
      rw [hsrc] at t2
      exact ⟨h2.after, h2.le, hlen, hline, hne, t2⟩

/-- **Gaps.** The text between the previous position and the returned token is consumed by passes of
`Next` that ended in `goto restart`, i.e. by matches of space rules (`Restarts`), and by nothing
else; the token itself is what the pass started at its first byte returns. -/
theorem C12_gaps_are_space_matches (sp : Spec) (hw : TablesWF sp) (l : Lexer) (hp : PInv sp.opts sp.v l)
    (hv : ValidState sp l) (tok : Int) (l' : Lexer) (h : next sp l = some (tok, l')) :
    ∃ lm, Restarts sp l lm ∧ lm.offset = l'.tokenOffset ∧ nextOnce sp lm = some (.token tok l') := by
  obtain ⟨tok', l'', h1, h2⟩ := nextLoop_spec sp (wfacts_of sp hw) _ l hp hv (Nat.le_refl _)
  have : next sp l = some (tok', l'') := h1
  rw [this] at h
  simp only [Option.some.injEq, Prod.mk.injEq] at h
  rw [h.1, h.2] at h2
  exact h2.gaps


/-- **Gaps, in terms of the rules.** With the hypotheses of the refinement theorem (C11) the text
between the previous position and the returned token is a chain of non-empty `Tables.Scan` matches
whose action is a space rule (`SpaceChain`), starting right at the previous position (after the BOM
for the first call, `C12_init_inv`). -/
theorem C12_gaps_are_scan_space_matches (sp : Spec) (hw : TablesWF sp)
    (hc : classMapOkUpTo sp (charBound sp.opts.scanBytes) = true) (he : eoiFinal sp.t = true)
    (hk : HashOk sp) (l : Lexer) (hp : PInv sp.opts sp.v l) (hv : ValidState sp l) (tok : Int) (l' : Lexer)
    (h : next sp l = some (tok, l')) :
    SpaceChain sp l.source l.state l.offset l'.tokenOffset := by
  obtain ⟨lm, g1, g2, _⟩ := C12_gaps_are_space_matches sp hw l hp hv tok l' h
  have := (restarts_chain sp (wfacts_of sp hw) (classOk_of sp hc) he hk l lm g1 hp hv).1
  rw [g2] at this
  exact this

/-- **Lines.** `Line()` of the returned token is `1 +` the number of newlines before its first byte. -/
theorem C12_line_spec (sp : Spec) (hw : TablesWF sp) (l : Lexer) (hp : PInv sp.opts sp.v l)
    (hv : ValidState sp l) (ht : sp.opts.tokenLine = true) (tok : Int) (l' : Lexer)
    (h : next sp l = some (tok, l')) :
    l'.tokenLine = 1 + (countNL (l.source.take l'.tokenOffset) : Int) := by
  obtain ⟨tok', l'', h1, h2⟩ := nextLoop_spec sp (wfacts_of sp hw) _ l hp hv (Nat.le_refl _)
  have : next sp l = some (tok', l'') := h1
  rw [this] at h
  simp only [Option.some.injEq, Prod.mk.injEq] at h
  rw [h.1, h.2] at h2
  rw [← h2.source]; exact h2.line ht

/-! ### non-vacuity: real tables satisfy the hypotheses -/

/-- Tables of the grammar `tokenColumn = true; ws: /[ \n]+/ (space); id: /[a-z]+/` as compiled by
the real generator (token ids: invalid_token 1, ws 2, id 3). -/
def sampleSpec (v : Variant) : Spec where
  t := { scanBytes := false,
         symbolMap := #[⟨0, 1⟩, ⟨10, 2⟩, ⟨11, 1⟩, ⟨32, 2⟩, ⟨33, 1⟩, ⟨97, 3⟩, ⟨123, 1⟩],
         numSymbols := 4, stateMap := #[0],
         dfa := #[-2, -2, 2, 1, -4, -4, -4, 1, -3, -3, 2, -3], backtrack := #[] }
  cm := ⟨((List.range 123).map fun i => if i = 10 ∨ i = 32 then (2 : Int) else if 97 ≤ i then 3 else 1).toArray,
         false, #[], 1⟩
  opts := ⟨true, false, true, false, true⟩
  v := v
  multiState := false
  ruleToken := none
  invalidToken := 1
  spaceActions := [2]
  classActions := []

set_option maxRecDepth 100000 in
example : TablesWF (sampleSpec Variant.current) ∧ TablesWF (sampleSpec Variant.fixed) := by
  constructor <;> (unfold TablesWF; decide +kernel)

-- the hypotheses of the theorems hold for the lexer `Init` returns on any input
example (v : Variant) (src : List UInt8) :
    PInv (sampleSpec v).opts v (init (sampleSpec v).opts v src) ∧ ValidState (sampleSpec v) (init (sampleSpec v).opts v src) :=
  ⟨(init_pinv _ v src).1, fun hm => nomatch hm⟩

set_option maxRecDepth 100000 in
-- and the model computes on them: "a \n b" gives id, id, EOI with lines 1, 2, 2
example : (tokenize (sampleSpec Variant.current) 3 (init (sampleSpec Variant.current).opts Variant.current [97, 32, 10, 98])).map
      (fun ts => ts.map fun t => (t.tok, t.start, t.stop, t.line)) =
    some [(3, 0, 1, 1), (3, 3, 4, 2), (0, 4, 4, 2)] := by decide +kernel

/-! ### `parsers/tm/lexer_actions.go: skipAction` -/

/-- **skipAction keeps the line count** (code after fixes/C12-skipaction-line.diff). Entered just after
the opening brace with the invariant, `skipAction` leaves `line = 1 +` the number of newlines before the
new offset, so every later token of the tm lexer reports the line of its first byte; `lineOffset`
is the start of that line (exactly so with the fixed template, `colFix`). -/
theorem C12_skipAction_line_spec (v : Variant) (hfix : v.skipFix = true) (l : Lexer)
    (hp : PInv tmOpts v l) (ok : Bool) (l' : Lexer) (h : skipAction v l = some (ok, l')) :
    l'.line = 1 + (countNL (l.source.take l'.offset) : Int) ∧ l.offset ≤ l'.offset ∧
    l'.offset ≤ l.source.length ∧ PInv tmOpts v l' ∧
    (v.colFix = true → l'.lineOffset = (lineStart l.source l'.offset : Int)) := by
  obtain ⟨a, b, c⟩ := skipLoop_pinv v hfix _ 1 0 l ok l' hp h
  refine ⟨by rw [← b]; exact a.line rfl, c, by rw [← b]; exact a.le, a, ?_⟩
  intro hc
  have := a.lo rfl (Or.inl rfl)
  unfold LineOffsetOk at this
  simp only [hc, if_true] at this
  rw [← b]; exact this

/-- The line clause for every variant, the current tree included. -/
def C12_skipAction_line_spec_full : Prop :=
  ∀ (v : Variant) (l : Lexer), PInv tmOpts v l → ∀ (ok : Bool) (l' : Lexer), skipAction v l = some (ok, l') →
    l'.line = 1 + (countNL (l.source.take l'.offset) : Int)

set_option maxRecDepth 100000 in
/-- Current tree: in the code block `{"\⏎"}` the newline after the backslash is skipped without
`line++`: `skipAction` ends at offset 6 with `line = 1` although one newline precedes that offset. -/
theorem C12_skipAction_current_tree_counterexample : ¬ C12_skipAction_line_spec_full := by
  intro h
  have hi := init_pinv tmOpts Variant.current [0x7B, 0x22, 0x5C, 0x0A, 0x22, 0x7D, 0x78]
  obtain ⟨r1, _⟩ := rewind_pinv tmOpts Variant.current _ 1 (by rw [hi.2.2.1]; decide) hi.1
  have e : skipAction Variant.current (rewind tmOpts Variant.current
      (init tmOpts Variant.current [0x7B, 0x22, 0x5C, 0x0A, 0x22, 0x7D, 0x78]) 1) =
      some (true, ⟨[0x7B, 0x22, 0x5C, 0x0A, 0x22, 0x7D, 0x78], 0x78, 6, 7, 0, 1, 1, 0, 1, 0⟩) := by decide +kernel
  have := h Variant.current _ r1 _ _ e
  revert this
  decide +kernel

set_option maxRecDepth 100000 in
-- non-vacuity of `C12_skipAction_line_spec`: the fixed variant on the same block ends with line = 2
example : (skipAction Variant.fixed (rewind tmOpts Variant.fixed
      (init tmOpts Variant.fixed [0x7B, 0x22, 0x5C, 0x0A, 0x22, 0x7D, 0x78]) 1)).map (fun r => (r.1, r.2.offset, r.2.line, r.2.lineOffset)) =
    some (true, 6, 2, 4) := by decide +kernel

end TmVerif.LexRun
