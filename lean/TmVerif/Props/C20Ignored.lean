import TmVerif.Proofs.LRXPending
import TmVerif.Props.C20
/-!
# C20 (and C19 note) — the listener stream WITH reported skipped tokens

Layer `Model/LRXPending.lean` over the runtime model: lexer-driven generated parsers
(`tokenStream = false`) that report skipped tokens (`%inject`ed space/comment tokens,
`invalid_token`): `fetchNext` → `pending`, `flush` after every shift, `reportIgnoredToken`, pending
reset at the start of `parse()`; no cancellation (`cancelAt = 0`).

Option combination of the theorem = the property's hypothesis "trims trailing whitespace from node
ranges": `TrimAll x` (`fixWhitespace = true` and `fixTrailingWS` on every rule — the generator omits
the call only where it is the identity; the driver replays every real run with the flag on all rules
and compares) and NO error recovery (`x.recovering = false`; a syntax error ends the parse without a
flush). Without trimming the statement is false: a node ending in an empty symbol extends to the next
token's offset and is reported BEFORE a comment that lies inside it.
-/
namespace TmVerif.C20
open TmVerif.TreeBuilder TmVerif.EventNesting TmVerif.LRX TmVerif.LRXPending
open TmVerif.LR (Input Tok)

/-- **Nesting with ignored tokens.** For every parser without error recovery that trims trailing
whitespace, every input whose reported skipped tokens lie between the real tokens (`IgnWF`), every
fuel (accepted, rejected or unfinished runs): the listener stream INCLUDING the `reportIgnoredToken`
calls is well nested — every node inside `[0, endOff]`, any two nodes disjoint or nested, a node that
contains another one reported after it. -/
theorem C20_nested_with_ignored (x : XTables) (p : PInput) (input : Nat) (stop : Bool) (fuel : Nat)
    (hx : XWF x) (ht : TrimAll x) (hi : InputWF p.inp) (hg : IgnWF p) (hr : x.recovering = false) :
    WellNested p.inp.endOff (pstream (prun x p input stop fuel).2) :=
  prun_wellNested hx ht hi hg hr input stop fuel

/-- non-vacuity: a comment between two tokens and an invalid token before end-of-input -/
example : IgnWF { inp := { toks := #[⟨1, 0, 1⟩, ⟨2, 6, 7⟩], endOff := 10 },
                  ign := #[[], [⟨9, 2, 5⟩], [⟨8, 8, 9⟩]] } := by decide
example : TrimAll { t := { (default : LR.Tables) with ruleLen := #[2, 0] },
                    rules := #[{ ruleType := 1, fixWS := true }, { ruleType := 2, fixWS := true }],
                    fixWhitespace := true } := by decide

/-- **Projection** (all tables, all inputs, with or without recovery): erasing the ignored-token calls
from the layered run gives exactly the run of the underlying model `Model/LRX.lean` — same result,
same final configuration, same listener/handler calls. Hence everything proved about `xrun` (C02's
event specification, C19, C29 with `cancelAt = 0`) holds for the non-ignored part of the stream. -/
theorem C20_ignored_projection (x : XTables) (p : PInput) (input : Nat) (stop : Bool) (fuel : Nat) :
    (prun x p input stop fuel).1 = (xrun x p.inp input stop 0 fuel).1 ∧
    (prun x p input stop fuel).2.x = (xrun x p.inp input stop 0 fuel).2 ∧
    eraseIgn (prun x p input stop fuel).2.out = (xrun x p.inp input stop 0 fuel).2.evs :=
  prun_proj x p input stop fuel

/-- The tree built from the stream with ignored tokens is the correct tree. -/
theorem C20_tree_with_ignored (x : XTables) (p : PInput) (input : Nat) (stop : Bool) (fuel : Nat)
    (hx : XWF x) (ht : TrimAll x) (hi : InputWF p.inp) (hg : IgnWF p) (hr : x.recovering = false) :
    let evs := pstream (prun x p input stop fuel).2
    (idsList (build evs)).Perm (List.range evs.length) ∧
    (∀ t ∈ subtreesList (build evs), NodeOK evs t) ∧
    (∀ r ∈ build evs, parentOf evs r.id = none) ∧
    (build evs).Pairwise SibOrder :=
  C20_builder_correct p.inp.endOff _ (prun_wellNested hx ht hi hg hr input stop fuel)

/-- NOT proved (and the layer does not model it): the same under error recovery. Missing pieces, all
inside `recoverFromError` / `skipBrokenCode` of `go_parser.go.tmpl`: `flush(p.next)` for every token
skipped while recovering and on the two give-up exits, the partial `flush(symbol{errSymbol, s, e})`
that keeps the pending tokens ending after `e`, and — when `invalid_token` is reported — the
extension of the `error` entry's range `[s, e]` over pending invalid tokens, which changes the
underlying run itself (so the projection lemma cannot hold verbatim there). `run` stands for a model
of that runtime. -/
def C20_nested_with_ignored_recovering
    (run : XTables → PInput → Nat → Bool → Nat → List TreeBuilder.Ev) : Prop :=
  ∀ (x : XTables) (p : PInput) (input : Nat) (stop : Bool) (fuel : Nat),
    XWF x → TrimAll x → InputWF p.inp → IgnWF p → x.recovering = true →
    WellNested p.inp.endOff (run x p input stop fuel)

end TmVerif.C20
