import TmVerif.Proofs.LookaheadOrder
/-!
C08 — runtime lookahead decisions pick the alternative whose predicates hold (property theorems only).

Universe: every list `las` of alternatives (any length, any predicate inputs, any negations, any
targets) and every valuation `v : Int → Bool` of the predicate inputs.  `newLookaheadRule` is the
mirror of `lalr.newLookaheadRule`, `evalRule` the `if … else if … else` chain the templates emit,
`sat la v` the conjunction `(?= A & !B …)`, `OrderedBy las rank` says that every alternative lists
its predicate inputs in strictly increasing `rank`.
-/
namespace TmVerif.Lookahead

/-- Accepted ⇒ for every valuation satisfying exactly one alternative the emitted chain selects
that alternative's nonterminal. -/
theorem C08_decision_correct (las : List Alt) (r : Rule) (h : newLookaheadRule las = .ok r)
    (v : Int → Bool) (k : Nat) (hk : k < las.length) (hsat : sat las[k] v = true)
    (_hothers : ∀ j (hj : j < las.length), j ≠ k → sat las[j] v = false) :
    evalRule r.cases r.default v = las[k].target :=
  elim_decision (newLookaheadRule_ok h).2.2 v _ (List.getElem_mem hk) hsat

-- non-vacuity: an accepted set, and a valuation (1 ↦ true, 2 ↦ true) satisfying exactly the first alternative
example : newLookaheadRule [⟨[⟨1, false⟩, ⟨2, false⟩], 7⟩, ⟨[⟨2, true⟩], 8⟩]
    = .ok ⟨[⟨⟨2, false⟩, 7⟩], 8⟩ := by decide
example : sat ⟨[⟨1, false⟩, ⟨2, false⟩], 7⟩ (fun _ => true) = true ∧
    sat ⟨[⟨2, true⟩], 8⟩ (fun _ => true) = false := by decide

/-- The exclusivity hypothesis is not needed: the chain selects every alternative that holds. -/
theorem C08_decision_correct_any (las : List Alt) (r : Rule) (h : newLookaheadRule las = .ok r)
    (v : Int → Bool) (k : Nat) (hk : k < las.length) (hsat : sat las[k] v = true) :
    evalRule r.cases r.default v = las[k].target :=
  elim_decision (newLookaheadRule_ok h).2.2 v _ (List.getElem_mem hk) hsat

/-- Accepted ⇒ no valuation satisfies two alternatives. -/
theorem C08_accepted_mutually_exclusive (las : List Alt) (r : Rule)
    (h : newLookaheadRule las = .ok r) (j k : Nat) (hj : j < las.length) (hk : k < las.length)
    (hne : j ≠ k) (v : Int → Bool) : ¬(sat las[j] v = true ∧ sat las[k] v = true) := by
  have hp := elim_exclusive (newLookaheadRule_ok h).2.2
  rw [List.pairwise_iff_getElem] at hp
  rcases Nat.lt_or_gt_of_ne hne with hlt | hgt
  · exact hp j k hj hk hlt v
  · exact fun hv => hp k j hk hj hgt v ⟨hv.2, hv.1⟩

/-- … so a set with two alternatives that can hold together is rejected with an error. -/
theorem C08_not_exclusive_rejected (las : List Alt) (j k : Nat) (hj : j < las.length)
    (hk : k < las.length) (hne : j ≠ k) (v : Int → Bool)
    (hv : sat las[j] v = true ∧ sat las[k] v = true) : ∃ e, newLookaheadRule las = .error e := by
  cases h : newLookaheadRule las with
  | error e => exact ⟨e, rfl⟩
  | ok r => exact absurd hv (C08_accepted_mutually_exclusive las r h j k hj hk hne v)

-- non-vacuity: `(?= 1)` and `(?= 1 & !2)` hold together under 1 ↦ true, 2 ↦ false
example : newLookaheadRule [⟨[⟨1, false⟩], 7⟩, ⟨[⟨1, false⟩, ⟨2, true⟩], 8⟩] = .error .undecidable := by
  decide

/-- Accepted ⇒ the orders in which the alternatives list their predicate inputs embed in one
total order (a rank function on the inputs that increases along every alternative). -/
theorem C08_accepted_consistent_order (las : List Alt) (r : Rule)
    (h : newLookaheadRule las = .ok r) : ∃ rank : Int → Nat, OrderedBy las rank :=
  ⟨_, orderedBy_of_good las (newLookaheadRule_ok h).1⟩

/-- … so a set whose alternatives cannot be ordered consistently is rejected with an error. -/
theorem C08_inconsistent_order_rejected (las : List Alt)
    (hno : ¬ ∃ rank : Int → Nat, OrderedBy las rank) : ∃ e, newLookaheadRule las = .error e := by
  cases h : newLookaheadRule las with
  | error e => exact ⟨e, rfl⟩
  | ok r => exact absurd (C08_accepted_consistent_order las r h) hno

-- non-vacuity: `1 & 2` against `2 & 1`
example : newLookaheadRule [⟨[⟨1, false⟩, ⟨2, false⟩], 7⟩, ⟨[⟨2, false⟩, ⟨1, false⟩], 8⟩]
    = .error .inconsistent := by decide

/-- Accepted ⇒ that total order is unique: two rank functions compatible with all alternatives
order any two mentioned predicate inputs the same way (`top.depth == len(nodes)+1`). -/
theorem C08_accepted_order_unique (las : List Alt) (r : Rule) (h : newLookaheadRule las = .ok r)
    (r1 r2 : Int → Nat) (h1 : OrderedBy las r1) (h2 : OrderedBy las r2) (x y : Int)
    (hx : ∃ la ∈ las, x ∈ la.preds.map (·.input)) (hy : ∃ la ∈ las, y ∈ la.preds.map (·.input)) :
    (r1 x < r1 y ↔ r2 x < r2 y) :=
  order_unique las (newLookaheadRule_ok h).1 (newLookaheadRule_ok h).2.1 r1 r2 h1 h2
    x (List.mem_flatMap.2 hx) y (List.mem_flatMap.2 hy)

-- non-vacuity: a rank for the accepted set above; an undetermined order is rejected
example : OrderedBy [⟨[⟨1, false⟩, ⟨2, false⟩], 7⟩, ⟨[⟨2, true⟩], 8⟩] (fun x => x.toNat) := by
  unfold OrderedBy; decide
example : newLookaheadRule [⟨[⟨1, false⟩, ⟨2, false⟩], 7⟩, ⟨[⟨1, true⟩, ⟨3, false⟩], 8⟩]
    = .error .ambiguous := by decide

end TmVerif.Lookahead
