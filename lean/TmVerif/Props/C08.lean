import TmVerif.Proofs.Lookahead
/-!
C08 — runtime lookahead decisions pick the alternative whose predicates hold (property theorems only).

Universe: every list `las` of alternatives (any length, any predicate inputs, any negations, any
targets) and every valuation `v : Int → Bool` of the predicate inputs.  `newLookaheadRule` is the
mirror of `lalr.newLookaheadRule`, `evalRule` the `if … else if … else` chain the templates emit,
`sat la v` the conjunction `(?= A & !B …)`.
-/
namespace TmVerif.Lookahead

deriving instance DecidableEq for Except

theorem newLookaheadRule_ok {las : List Alt} {r : Rule} (h : newLookaheadRule las = .ok r) :
    (dfsTop las).1.fuelOut = false ∧ (dfsTop las).1.cycle = false ∧
      (dfsTop las).2 = (nodesOf las).length + 1 ∧
      elim las.length las (dfsTop las).1.order = .ok r := by
  unfold newLookaheadRule at h
  simp only at h
  split at h
  · cases h
  · split at h
    · cases h
    · split at h
      · cases h
      · simp_all

/-- Accepted ⇒ for every valuation satisfying exactly one alternative the emitted chain selects
that alternative's nonterminal. -/
theorem C08_decision_correct (las : List Alt) (r : Rule) (h : newLookaheadRule las = .ok r)
    (v : Int → Bool) (k : Nat) (hk : k < las.length) (hsat : sat las[k] v = true)
    (_hothers : ∀ j (hj : j < las.length), j ≠ k → sat las[j] v = false) :
    evalRule r.cases r.default v = las[k].target :=
  elim_decision (newLookaheadRule_ok h).2.2.2 v _ (List.getElem_mem hk) hsat

example : newLookaheadRule [⟨[⟨1, false⟩, ⟨2, false⟩], 7⟩, ⟨[⟨2, true⟩], 8⟩]
    = .ok ⟨[⟨⟨2, false⟩, 7⟩], 8⟩ := by decide

/-- The same without the exclusivity hypothesis: the chain selects every alternative that holds
(so at most one can hold, see below). -/
theorem C08_decision_correct_any (las : List Alt) (r : Rule) (h : newLookaheadRule las = .ok r)
    (v : Int → Bool) (k : Nat) (hk : k < las.length) (hsat : sat las[k] v = true) :
    evalRule r.cases r.default v = las[k].target :=
  elim_decision (newLookaheadRule_ok h).2.2.2 v _ (List.getElem_mem hk) hsat

/-- Accepted ⇒ no valuation satisfies two alternatives.  (Contrapositive: a set that is not
mutually exclusive is rejected with an error.) -/
theorem C08_accepted_mutually_exclusive (las : List Alt) (r : Rule)
    (h : newLookaheadRule las = .ok r) (j k : Nat) (hj : j < las.length) (hk : k < las.length)
    (hne : j ≠ k) (v : Int → Bool) : ¬(sat las[j] v = true ∧ sat las[k] v = true) := by
  have hp := elim_exclusive (newLookaheadRule_ok h).2.2.2
  rw [List.pairwise_iff_getElem] at hp
  rcases Nat.lt_or_gt_of_ne hne with hlt | hgt
  · exact hp j k hj hk hlt v
  · exact fun hv => hp k j hk hj hgt v ⟨hv.2, hv.1⟩

example : newLookaheadRule [⟨[⟨1, false⟩], 7⟩, ⟨[⟨1, false⟩, ⟨2, true⟩], 8⟩] = .error .undecidable := by
  decide

end TmVerif.Lookahead
