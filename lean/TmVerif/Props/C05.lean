import TmVerif.Model.LRCheck
/-!
C05 — compressed parser tables decode to the same actions.
`checkOptimized` is evaluated by the driver on the REAL `lalr.Tables` of every sampled grammar
(both encodings are decoded in Lean exactly as `go_parser.go.tmpl` does). The theorems say what a
`true` verdict guarantees, for every table, state and symbol.
-/
namespace TmVerif.LRCheck
open TmVerif.LR

theorem cellOk_of_check (t : Tables) (dr : Bool) (h : checkOptimized t dr = true)
    (s a : Nat) (hs : s < t.nStates) (ha : a < t.nTerms) : cellOk t dr s a = true := by
  unfold checkOptimized at h
  simp only [List.all_eq_true, List.mem_range, Bool.and_eq_true] at h
  exact (h s hs).1 a ha

/-- Without `defaultReduce`: every (state, terminal) cell of the compressed encoding decodes to the
same shift target or reduction as the uncompressed one, and errors (plain or `%nonassoc`) stay
errors. -/
theorem C05_cells_equal (t : Tables) (h : checkOptimized t false = true)
    (s a : Nat) (hs : s < t.nStates) (ha : a < t.nTerms) :
    match obsDefault t s a with
    | .shift q => obsOpt t s a = .shift q
    | .reduce r => obsOpt t s a = .reduce r
    | .errExplicit => obsOpt t s a = .err
    | .err => obsOpt t s a = .err
    | .bad => False := by
  have := cellOk_of_check t false h s a hs ha
  unfold cellOk at this
  cases hd : obsDefault t s a <;> simp_all

/-- Every existing goto (state, nonterminal → target) is preserved. -/
theorem C05_gotos_equal (t : Tables) (dr : Bool) (h : checkOptimized t dr = true)
    (s k : Nat) (hs : s < t.nStates) (hk : k < t.nSyms - t.nTerms) (q : Int)
    (hq : gotoDefault t s (t.nTerms + k : Nat) = some q) (hq0 : 0 ≤ q) :
    gotoOpt t s (t.nTerms + k : Nat) = some q := by
  unfold checkOptimized at h
  simp only [List.all_eq_true, List.mem_range, Bool.and_eq_true] at h
  have := (h s hs).2 k hk
  unfold gotoOk at this
  rw [hq] at this
  simp only [Bool.or_eq_true, decide_eq_true_eq, beq_iff_eq] at this
  rcases this with h1 | h1
  · omega
  · exact h1

/-- With `defaultReduce`: shifts and reductions are unchanged, a `%nonassoc` error stays an error,
and a plain error either stays an error or becomes the state's most frequent reduction — in
particular no error ever becomes a shift. -/
theorem C05_default_reduce (t : Tables) (h : checkOptimized t true = true)
    (s a : Nat) (hs : s < t.nStates) (ha : a < t.nTerms) :
    match obsDefault t s a with
    | .shift q => obsOpt t s a = .shift q
    | .reduce r => obsOpt t s a = .reduce r
    | .errExplicit => obsOpt t s a = .err
    | .err => obsOpt t s a = .err ∨ (∃ r, mostFrequent t s = some r ∧ obsOpt t s a = .reduce r)
    | .bad => False := by
  have := cellOk_of_check t true h s a hs ha
  unfold cellOk at this
  cases hd : obsDefault t s a <;> simp_all
  rcases this with h1 | ⟨_, h2⟩
  · exact Or.inl h1
  · right
    cases hm : mostFrequent t s <;> simp_all

theorem C05_no_error_becomes_shift (t : Tables) (dr : Bool) (h : checkOptimized t dr = true)
    (s a : Nat) (hs : s < t.nStates) (ha : a < t.nTerms)
    (he : obsDefault t s a = .err ∨ obsDefault t s a = .errExplicit) (q : Int) :
    obsOpt t s a ≠ .shift q := by
  have := cellOk_of_check t dr h s a hs ha
  unfold cellOk at this
  rcases he with he | he <;> rw [he] at this <;> simp at this
  · rcases this with h1 | ⟨_, h2⟩
    · rw [h1]; simp
    · cases hm : mostFrequent t s <;> simp_all
  · rw [this]; simp

end TmVerif.LRCheck
