import TmVerif.Proofs.LRCheckRun
/-!
C05 — compressed parser tables decode to the same actions.
`checkOptimized` is evaluated by the driver on the REAL `lalr.Tables` of every sampled grammar
(both encodings are decoded in Lean exactly as `go_parser.go.tmpl` does). The theorems say what a
`true` verdict guarantees, for every table, state and symbol — and, lifted to the runtime model of
`go_parser.go.tmpl` (`Model/LR.lean`), for every whole run on every input.
-/
namespace TmVerif.LRCheck
open TmVerif.LR

/-- Without `defaultReduce`: every (state, terminal) cell of the compressed encoding decodes to the
same shift target or reduction as the uncompressed one, and errors (plain or `%nonassoc`) stay
errors. -/
theorem C05_cells_equal (t : Tables) (h : checkOptimized t false = true)
    (s a : Nat) (hs : s < t.nStates) (ha : a < t.nTerms) :
    match obsDefault t s a with
    | .shift q => obsOpt t s a = .shift q
    | .reduce r => obsOpt t s a = .reduce r
    | .errExplicit => obsOpt t s a = .err
    | .err => obsOpt t s a = .err
    | .bad => False := by
  have := cellOk_of_check t false h s a hs ha
  unfold cellOk at this
  cases hd : obsDefault t s a <;> simp_all

/-- Every existing goto (state, nonterminal → target) is preserved. -/
theorem C05_gotos_equal (t : Tables) (dr : Bool) (h : checkOptimized t dr = true)
    (s k : Nat) (hs : s < t.nStates) (hk : k < t.nSyms - t.nTerms) (q : Int)
    (hq : gotoDefault t s (t.nTerms + k : Nat) = some q) (hq0 : 0 ≤ q) :
    gotoOpt t s (t.nTerms + k : Nat) = some q := by
  unfold checkOptimized at h
  simp only [List.all_eq_true, List.mem_range, Bool.and_eq_true] at h
  have := (h s hs).2 k hk
  unfold gotoOk at this
  rw [hq] at this
  simp only [Bool.or_eq_true, decide_eq_true_eq, beq_iff_eq] at this
  rcases this with h1 | h1
  · omega
  · exact h1

/-- With `defaultReduce`: shifts and reductions are unchanged, a `%nonassoc` error stays an error,
and a plain error either stays an error or becomes the state's most frequent reduction — in
particular no error ever becomes a shift. -/
theorem C05_default_reduce (t : Tables) (h : checkOptimized t true = true)
    (s a : Nat) (hs : s < t.nStates) (ha : a < t.nTerms) :
    match obsDefault t s a with
    | .shift q => obsOpt t s a = .shift q
    | .reduce r => obsOpt t s a = .reduce r
    | .errExplicit => obsOpt t s a = .err
    | .err => obsOpt t s a = .err ∨ (∃ r, mostFrequent t s = some r ∧ obsOpt t s a = .reduce r)
    | .bad => False := by
  have := cellOk_of_check t true h s a hs ha
  unfold cellOk at this
  cases hd : obsDefault t s a <;> simp_all
  rcases this with h1 | ⟨_, h2⟩
  · exact Or.inl h1
  · right
    cases hm : mostFrequent t s <;> simp_all

theorem C05_no_error_becomes_shift (t : Tables) (dr : Bool) (h : checkOptimized t dr = true)
    (s a : Nat) (hs : s < t.nStates) (ha : a < t.nTerms)
    (he : obsDefault t s a = .err ∨ obsDefault t s a = .errExplicit) (q : Int) :
    obsOpt t s a ≠ .shift q := by
  have := cellOk_of_check t dr h s a hs ha
  unfold cellOk at this
  rcases he with he | he <;> rw [he] at this <;> simp at this
  · rcases this with h1 | ⟨_, h2⟩
    · rw [h1]; simp
    · cases hm : mostFrequent t s <;> simp_all
  · rw [this]; simp

/-! ### whole runs

`run { t with optimized := b }` is the parse loop of the generated parser over the default
(`b = false`) or the displacement (`b = true`) encoding of the same table set. The two encodings
fetch the lookahead token at different moments (`needsTok`); the proofs relate the two runs up to
a forced fetch (`Eqv`, Proofs/LRCheck.lean). Side conditions, all decidable and evaluated by the
driver on every real table next to `checkOptimized` (answer `hypothesis-fails …` otherwise):
`tablesWf` (structural sanity of the default encoding), `noBlindShift` (a state of the
displacement encoding that does not look at the token does not shift), `gotoClosed t preds`
(certificate that a reduction always finds its goto entry; `mkPreds t` computes `preds`),
`inputOk` (token symbols are terminals). -/

/-- Without `defaultReduce`, for every input, entry state and fuel the two encodings produce the
same result — accept, syntax error with the same error-token range, runtime panic, out of fuel —
and the same trace of shifts and reductions (with the same ranges). -/
theorem C05_runs_equal (t : Tables) (preds : Array (List Nat))
    (h : checkOptimized t false = true) (hwf : tablesWf t = true) (hnb : noBlindShift t = true)
    (hgc : gotoClosed t preds = true) (inp : Input) (hin : inputOk t inp = true) (i fuel : Nat) :
    (run { t with optimized := false } inp i fuel).1 = (run { t with optimized := true } inp i fuel).1 ∧
    (run { t with optimized := false } inp i fuel).2.evs =
      (run { t with optimized := true } inp i fuel).2.evs := by
  rcases run_sim h hwf hnb hin i fuel with h1 | ⟨_, h2⟩ | ⟨h3, _⟩
  · exact h1
  · exact absurd (noMiss_of_gotoClosed hgc) h2
  · cases h3

/-- The same without the goto certificate: the runs agree unless the default-encoding run died in
a reduction whose goto entry does not exist (`gotoState` returned -1, visible as final state -1):
`checkOptimized` compares existing gotos only, the displacement encoding answers such a query with
the nonterminal's default target. -/
theorem C05_runs_equal_or_goto_missing (t : Tables)
    (h : checkOptimized t false = true) (hwf : tablesWf t = true) (hnb : noBlindShift t = true)
    (inp : Input) (hin : inputOk t inp = true) (i fuel : Nat) :
    (run { t with optimized := false } inp i fuel).2.state = -1 ∨
    ((run { t with optimized := false } inp i fuel).1 = (run { t with optimized := true } inp i fuel).1 ∧
     (run { t with optimized := false } inp i fuel).2.evs =
      (run { t with optimized := true } inp i fuel).2.evs) := by
  rcases run_sim h hwf hnb hin i fuel with h1 | ⟨h2, _⟩ | ⟨h3, _⟩
  · exact Or.inr h1
  · exact Or.inl h2
  · cases h3

/-- With `defaultReduce`: the two runs agree (result and trace) unless the default-encoding run
ends in a syntax error; in that case the trace of the default run is an initial part of the trace
of the displacement run (`evs` lists the most recent event first) — the compressed parser does
everything the uncompressed one did and may go on reducing before it reports. In particular every
accepted input is accepted with the same trace. -/
theorem C05_runs_equal_default_reduce_partial (t : Tables) (preds : Array (List Nat))
    (h : checkOptimized t true = true) (hwf : tablesWf t = true) (hnb : noBlindShift t = true)
    (hgc : gotoClosed t preds = true) (inp : Input) (hin : inputOk t inp = true) (i fuel : Nat) :
    ((run { t with optimized := false } inp i fuel).1 = (run { t with optimized := true } inp i fuel).1 ∧
     (run { t with optimized := false } inp i fuel).2.evs =
      (run { t with optimized := true } inp i fuel).2.evs) ∨
    ((∃ off endo, (run { t with optimized := false } inp i fuel).1 = .syntaxError off endo) ∧
     (run { t with optimized := false } inp i fuel).2.evs <:+
      (run { t with optimized := true } inp i fuel).2.evs) := by
  rcases run_sim h hwf hnb hin i fuel with h1 | ⟨_, h2⟩ | ⟨_, h3⟩
  · exact Or.inl h1
  · exact absurd (noMiss_of_gotoClosed hgc) h2
  · exact Or.inr h3

/-- The statement `C05_runs_equal_default_reduce_partial` falls short of: when the default run
reports a syntax error, the displacement run reports it at the same token after reductions only.
It does not follow from the cell comparison: that the states reached by the extra reductions
reject the offending token as well is a property of the LALR lookahead sets (the token is in no
lookahead set of the reduced rule), which `checkOptimized` does not see. -/
def C05_runs_equal_default_reduce_full : Prop :=
  ∀ (t : Tables) (preds : Array (List Nat)), checkOptimized t true = true → tablesWf t = true →
    noBlindShift t = true → gotoClosed t preds = true → ∀ (inp : Input), inputOk t inp = true →
    ∀ (i fuel : Nat) (off endo : Nat),
      (run { t with optimized := false } inp i fuel).1 = .syntaxError off endo →
      ((run { t with optimized := true } inp i fuel).1 = .syntaxError off endo ∨
       (run { t with optimized := true } inp i fuel).1 = .fuel) ∧
      ∃ extra, (run { t with optimized := true } inp i fuel).2.evs =
          extra ++ (run { t with optimized := false } inp i fuel).2.evs ∧
        ∀ e ∈ extra, ∃ r o e', e = Ev.reduce r o e'

theorem C05_accept_default_reduce (t : Tables) (preds : Array (List Nat))
    (h : checkOptimized t true = true) (hwf : tablesWf t = true) (hnb : noBlindShift t = true)
    (hgc : gotoClosed t preds = true) (inp : Input) (hin : inputOk t inp = true) (i fuel : Nat)
    (hacc : (run { t with optimized := false } inp i fuel).1 = .accept) :
    (run { t with optimized := true } inp i fuel).1 = .accept ∧
    (run { t with optimized := false } inp i fuel).2.evs =
      (run { t with optimized := true } inp i fuel).2.evs := by
  rcases C05_runs_equal_default_reduce_partial t preds h hwf hnb hgc inp hin i fuel with h1 | ⟨⟨o, e, h2⟩, _⟩
  · exact ⟨by rw [← h1.1, hacc], h1.2⟩
  · rw [hacc] at h2; cases h2

/-! ### non-vacuity: real tables of `S : ;` (case 3 of a quick run), both encodings -/

def exTables : Tables :=
  { nTerms := 4, action := #[-3, -1, -2], lalr := #[0, 0, -1, -2], goto_ := #[0, 2, 2, 2, 2, 4],
    fromTo := #[1, 2, 0, 1], ruleLen := #[0], ruleSymbol := #[4], finalStates := #[2],
    oDefGoto := #[-1], oGoto := #[2], oDefAct := #[-1, -1, -1], oAction := #[0, 1, -4],
    oBase := -4, oTable := #[0, -4, 1], oCheck := #[0, 0, 0] }

example : checkOptimized exTables false = true ∧ checkOptimized exTables true = true ∧
    tablesWf exTables = true ∧ noBlindShift exTables = true ∧
    gotoClosed exTables (mkPreds exTables) = true ∧
    inputOk exTables ⟨#[], 0⟩ = true ∧ inputOk exTables ⟨#[⟨1, 0, 1⟩], 1⟩ = true := by
  decide +kernel

/-- the empty input is accepted by both encodings with the trace reduce, shift EOI; the input `1`
is a syntax error at the token in both -/
example : (run { exTables with optimized := false } ⟨#[], 0⟩ 0 10).1 = .accept ∧
    (run { exTables with optimized := true } ⟨#[], 0⟩ 0 10).1 = .accept ∧
    (run { exTables with optimized := true } ⟨#[], 0⟩ 0 10).2.evs = [.shift 0 0 0, .reduce 0 0 0] ∧
    (run { exTables with optimized := false } ⟨#[⟨1, 0, 1⟩], 1⟩ 0 10).1 = .syntaxError 0 1 ∧
    (run { exTables with optimized := true } ⟨#[⟨1, 0, 1⟩], 1⟩ 0 10).1 = .syntaxError 0 1 := by
  decide +kernel

end TmVerif.LRCheck
