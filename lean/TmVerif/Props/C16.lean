import TmVerif.Proofs.ActionRefs
/-!
C16 — Semantic action references bind to the right symbols (property theorems only).

Objects (all in `Model/ActionRefs.lean`, tied to `/repo` by the correspondence run of `./check C16`):
`build es` mirrors `traverse` of `compiler.generateTables` on the leaves `es` of one EXPANDED rule
(references with their source position, state markers, commands): it yields the stack-relevant
right-hand side `rhs` (with the nullable nonterminals of extracted mid-rule commands), `actualPos`
(= `Remap`), `numRefs`/`SymRefCount`, and for every extracted command its `SymRefCount`/`MaxPos`.
`resolve` mirrors `ActionVars.Resolve`, `locate`/`renderLoc`/`action` mirror `goParserAction`,
`stackAt stack k` is Go's `stack[len(stack)-k]`, `evalLoc` is the value of the generated expression.

Hypotheses, all decidable and checked by the harness on every compiled rule / executed action:
`StackHolds` (the LR invariant: the top `SymRefCount` stack entries are the entries of the rule's
prefix — for the full theorem see C01), `Scoped` (a command's `MaxPos` bounds the positions before it).
-/
namespace TmVerif.ActionRefs

/-! ### Remap -/

/-- `Remap[pos] = i` exactly when `pos` is a real position (> 0) and `i` is the index, among the symbols
of the expanded rule that occupy a stack slot (extracted mid-rule nonterminals included, state markers
not), of the LAST symbol carrying position `pos`. -/
theorem C16_remap_spec (es : List Elem) (pos i : Nat) :
    (build es).actualPos.lookup pos = some i ↔
      0 < pos ∧ (build es).rhs[i]? = some (RSym.sym pos) ∧
        ∀ j, i < j → (build es).rhs[j]? ≠ some (RSym.sym pos) :=
  (inv_build es).map pos i

/-- positions of one expanded rule are pairwise distinct (each source symbol occurs at most once) -/
@[reducible] def PosDistinct (es : List Elem) : Prop :=
  ∀ (i j p : Nat), 0 < p → (build es).rhs[i]? = some (RSym.sym p) → (build es).rhs[j]? = some (RSym.sym p) → i = j

/-- With distinct positions (true for every expansion of a source rule; checked by the harness):
`Remap[pos] = i` iff the `i`-th stack symbol of the expanded rule is the reference allocated `pos`. -/
theorem C16_remap_spec_distinct (es : List Elem) (hd : PosDistinct es) (pos i : Nat) :
    (build es).actualPos.lookup pos = some i ↔ 0 < pos ∧ (build es).rhs[i]? = some (RSym.sym pos) := by
  rw [C16_remap_spec]
  constructor
  · rintro ⟨h0, h1, _⟩; exact ⟨h0, h1⟩
  · rintro ⟨h0, h1⟩
    exact ⟨h0, h1, fun j hj hc => by have := hd i j pos h0 h1 hc; omega⟩

/-- `Remap` is injective: two positions are never mapped to the same stack index (so `reverseLookup`
does not depend on Go's map iteration order). -/
theorem C16_remap_injective (es : List Elem) (p q i : Nat)
    (hp : (build es).actualPos.lookup p = some i) (hq : (build es).actualPos.lookup q = some i) : p = q := by
  have h1 := ((C16_remap_spec es p i).mp hp).2.1
  have h2 := ((C16_remap_spec es q i).mp hq).2.1
  rw [h1] at h2
  injection h2 with h2; injection h2

/-- `SymRefCount` of the end-of-rule action (`numRefs`) is the number of stack symbols of the rule, and the
`k`-th extracted mid-rule nonterminal sits at stack index `SymRefCount` of its own action environment. -/
theorem C16_symRefCount_spec (es : List Elem) :
    (build es).numRefs = (build es).rhs.length ∧
    ∀ (k : Nat) (m : Mid), (build es).mids[k]? = some m → (build es).rhs[m.symRefCount]? = some (RSym.mid k) := by
  refine ⟨(inv_build es).num, fun k m hk => ?_⟩
  have hlt : k < (build es).mids.length := by
    rcases Nat.lt_or_ge k (build es).mids.length with h | h
    · exact h
    · rw [List.getElem?_eq_none h] at hk; cases hk
  have := (inv_build es).mids k hlt
  rw [hk] at this
  simpa using this

example : (build [.ref 1, .cmd 2, .ref 2, .ref 0, .marker, .ref 4, .cmd 5]).rhs =
    [.sym 1, .mid 0, .sym 2, .sym 0, .sym 4] ∧
    (build [.ref 1, .cmd 2, .ref 2, .ref 0, .marker, .ref 4, .cmd 5]).actualPos.lookup 4 = some 4 ∧
    (build [.ref 1, .cmd 2, .ref 2, .ref 0, .marker, .ref 4, .cmd 5]).mids = [⟨1, 2⟩] := by decide

/-! ### resolve -/

/-- the source positions a reference text denotes: `$N` (zero-based) is position `N+1` when it is below
`MaxPos`; a name denotes the positions recorded for the alias -/
def refPositions (v : Vars) (val : Str) : Option (List Nat) :=
  match atoi val with
  | some n => if 1 ≤ n + 1 ∧ n + 1 < (v.maxPos : Int) then some [(n + 1).toNat] else none
  | none =>
    match v.names.lookup val with
    | some (p :: ps) => some (p :: ps)
    | _ => none

/-- `Resolve` succeeds exactly on the references that denote at least one position of the source rule. -/
theorem C16_resolve_defined (v : Vars) (val : Str) :
    (∃ r, resolve v val = .ok r) ↔ (refPositions v val).isSome = true := by
  unfold resolve refPositions
  cases atoi val with
  | some n =>
    simp only
    by_cases h : n + 1 < 1 ∨ n + 1 ≥ (v.maxPos : Int)
    · have h' : ¬ (1 ≤ n + 1 ∧ n + 1 < (v.maxPos : Int)) := by omega
      simp [h, h']
    · have h' : 1 ≤ n + 1 ∧ n + 1 < (v.maxPos : Int) := by omega
      simp [h, h']
  | none =>
    simp only
    cases v.names.lookup val with
    | none => simp
    | some ps =>
      cases ps with
      | nil => simp
      | cons p0 ps =>
        simp only
        cases activeOf v (p0 :: ps) <;> simp

/-- Absent references: `Resolve` returns index −1 (and end index −1) exactly when NO position of the
reference survives in this expansion, i.e. none of them is a key of `Remap`. -/
theorem C16_resolve_absent (v : Vars) (val : Str) (r : Reference) (ps : List Nat)
    (hr : resolve v val = .ok r) (hps : refPositions v val = some ps) :
    (r.index = -1 ↔ ∀ p ∈ ps, v.remap.lookup p = none) ∧ (r.index = -1 → r.endIndex = -1) := by
  unfold resolve at hr
  unfold refPositions at hps
  cases hat : atoi val with
  | some n =>
    rw [hat] at hr hps
    simp only at hr hps
    by_cases h : n + 1 < 1 ∨ n + 1 ≥ (v.maxPos : Int)
    · simp [h] at hr
    · have h' : 1 ≤ n + 1 ∧ n + 1 < (v.maxPos : Int) := by omega
      simp only [h, if_false] at hr
      simp only [h', and_self, if_true] at hps
      injection hr with hr; injection hps with hps
      subst hr; subst hps
      simp only [List.mem_cons, List.not_mem_nil, or_false, forall_eq]
      unfold remapIdx
      cases v.remap.lookup (n + 1).toNat with
      | none => simp
      | some i => simp <;> omega
  | none =>
    rw [hat] at hr hps
    simp only at hr hps
    cases hl : v.names.lookup val with
    | none => rw [hl] at hps; cases hps
    | some l =>
      rw [hl] at hr hps
      cases l with
      | nil => cases hps
      | cons p0 l =>
        simp only at hr hps
        injection hps with hps; subst hps
        cases hact : activeOf v (p0 :: l) with
        | nil =>
          rw [hact] at hr; injection hr with hr; subst hr
          refine ⟨⟨fun _ p hp => ?_, fun _ => rfl⟩, fun _ => rfl⟩
          have : p ∉ activeOf v (p0 :: l) := by rw [hact]; simp
          rw [mem_activeOf] at this
          cases hlk : v.remap.lookup p with
          | none => rfl
          | some i => exact absurd ⟨hp, by simp [hlk]⟩ this
        | cons a as =>
          rw [hact] at hr; injection hr with hr; subst hr
          have ha : a ∈ activeOf v (p0 :: l) := by rw [hact]; exact List.mem_cons_self ..
          rw [mem_activeOf] at ha
          have hne : remapIdx v a ≠ -1 := by
            unfold remapIdx
            cases hlk : v.remap.lookup a with
            | none => rw [hlk] at ha; simp at ha
            | some i => simp <;> omega
          refine ⟨⟨fun h => absurd h hne, fun h => ?_⟩, fun h => absurd h hne⟩
          have := h a ha.1
          rw [this] at ha; simp at ha

/-- Present references: when some position survives, `Resolve` returns the span from the FIRST surviving
position of the reference (in source order) to the LAST one, with their `Remap` indices. -/
theorem C16_resolve_present (v : Vars) (val : Str) (r : Reference) (ps : List Nat)
    (hr : resolve v val = .ok r) (hps : refPositions v val = some ps) (hne : r.index ≠ -1) :
    (∃ pre post, ps = pre ++ r.pos :: post ∧ (∀ p ∈ pre, v.remap.lookup p = none)) ∧
    (∃ pre post, ps = pre ++ r.endPos :: post ∧ (∀ p ∈ post, v.remap.lookup p = none)) ∧
    (∃ i j : Nat, v.remap.lookup r.pos = some i ∧ v.remap.lookup r.endPos = some j ∧
      r.index = i ∧ r.endIndex = j) := by
  unfold resolve at hr
  unfold refPositions at hps
  cases hat : atoi val with
  | some n =>
    rw [hat] at hr hps
    simp only at hr hps
    by_cases h : n + 1 < 1 ∨ n + 1 ≥ (v.maxPos : Int)
    · simp [h] at hr
    · have h' : 1 ≤ n + 1 ∧ n + 1 < (v.maxPos : Int) := by omega
      simp only [h, if_false] at hr
      simp only [h', and_self, if_true] at hps
      injection hr with hr; injection hps with hps
      subst hr; subst hps
      refine ⟨⟨[], [], rfl, by simp⟩, ⟨[], [], rfl, by simp⟩, ?_⟩
      simp only at hne ⊢
      unfold remapIdx at hne ⊢
      cases hlk : v.remap.lookup (n + 1).toNat with
      | none => rw [hlk] at hne; simp at hne
      | some i => exact ⟨i, i, rfl, rfl, rfl, rfl⟩
  | none =>
    rw [hat] at hr hps
    simp only at hr hps
    cases hl : v.names.lookup val with
    | none => rw [hl] at hps; cases hps
    | some l =>
      rw [hl] at hr hps
      cases l with
      | nil => cases hps
      | cons p0 l =>
        simp only at hr hps
        injection hps with hps; subst hps
        cases hact : activeOf v (p0 :: l) with
        | nil => rw [hact] at hr; injection hr with hr; subst hr; exact absurd rfl hne
        | cons a as =>
          rw [hact] at hr; injection hr with hr; subst hr
          simp only
          -- first surviving position
          have hfirst : ∃ pre post, p0 :: l = pre ++ a :: post ∧ ∀ p ∈ pre, v.remap.lookup p = none := by
            have hf : (p0 :: l).filter (fun p => (v.remap.lookup p).isSome) = a :: as := hact
            obtain ⟨pre, post, h1, h2, _, _⟩ := List.filter_eq_cons_iff.mp hf
            exact ⟨pre, post, h1, fun p hp => by
              have := h2 p hp
              cases hlk : v.remap.lookup p with
              | none => rfl
              | some x => simp [hlk] at this⟩
          -- last surviving position
          have hlast : ∃ pre post, p0 :: l = pre ++ ((a :: as).getLast?.getD a) :: post ∧
              ∀ p ∈ post, v.remap.lookup p = none := by
            have hf : (p0 :: l).filter (fun p => (v.remap.lookup p).isSome) = a :: as := hact
            have hrev : (p0 :: l).reverse.filter (fun p => (v.remap.lookup p).isSome) = (a :: as).reverse := by
              rw [List.filter_reverse, hf]
            have hnn : (a :: as).reverse ≠ [] := by simp
            obtain ⟨b, bs, hb⟩ := List.exists_cons_of_ne_nil hnn
            rw [hb] at hrev
            obtain ⟨pre, post, h1, h2, _, _⟩ := List.filter_eq_cons_iff.mp hrev
            have hbl : (a :: as).getLast?.getD a = b := by
              have : (a :: as).getLast? = (a :: as).reverse.head? := by rw [List.head?_reverse]
              rw [this, hb]; rfl
            refine ⟨post.reverse, pre.reverse, ?_, fun p hp => ?_⟩
            · have := congrArg List.reverse h1
              rw [List.reverse_reverse] at this
              rw [this, hbl]; simp
            · have := h2 p (by simpa using hp)
              cases hlk : v.remap.lookup p with
              | none => rfl
              | some x => simp [hlk] at this
          have hmemA : ∀ x ∈ a :: as, (v.remap.lookup x).isSome = true := fun x hx => by
            have : x ∈ activeOf v (p0 :: l) := by rw [hact]; exact hx
            exact ((mem_activeOf v _ x).mp this).2
          have hl' : (a :: as).getLast?.getD a ∈ a :: as := by
            cases hgl : (a :: as).getLast? with
            | none => simp
            | some b => simpa using List.mem_of_getLast? hgl
          refine ⟨hfirst, hlast, ?_⟩
          have h1 := hmemA a (List.mem_cons_self ..)
          have h2 := hmemA _ hl'
          unfold remapIdx
          cases hk1 : v.remap.lookup a with
          | none => rw [hk1] at h1; simp at h1
          | some i =>
            cases hk2 : v.remap.lookup ((a :: as).getLast?.getD a) with
            | none => rw [hk2] at h2; simp at h2
            | some j => exact ⟨i, j, rfl, rfl, rfl, rfl⟩

example : resolve ⟨[(cs "x", [2, 3])], 5, [(1, 0), (3, 1)], 2, [], []⟩ (cs "x") = .ok ⟨3, 3, 1, 1⟩ ∧
    resolve ⟨[(cs "x", [2, 3])], 5, [(1, 0), (4, 1)], 2, [], []⟩ (cs "x") = .ok ⟨2, 3, -1, -1⟩ ∧
    resolve ⟨[], 5, [(1, 0), (4, 1)], 2, [], []⟩ (cs "3") = .ok ⟨4, 4, 1, 1⟩ := ⟨rfl, rfl, rfl⟩

/-! ### stack slots -/

/-- the LR invariant at a reduction: the top `n` entries of the parser stack are `entries` -/
def StackHolds {β : Type} (stack entries : List β) (n : Nat) : Prop :=
  ∃ below, stack = below ++ entries ∧ entries.length = n

/-- The slot arithmetic: with the top `SymRefCount = n` stack entries being the entries of the rule's
symbols, `stack[len(stack) − (n − i)]` is the entry of the `i`-th symbol. -/
theorem C16_slot_spec {β : Type} (stack entries : List β) (n i : Nat)
    (hs : StackHolds stack entries n) (hi : i < n) :
    stackAt stack ((n : Int) - i) = entries[i]? := by
  obtain ⟨below, rfl, hn⟩ := hs
  subst hn
  exact stackAt_append below entries i hi

example : StackHolds [10, 20, 30, 40] [30, 40] 2 ∧ stackAt [10, 20, 30, 40] ((2 : Int) - 0) = some 30 :=
  ⟨⟨[10, 20], rfl, rfl⟩, by decide⟩

/-- End-of-rule actions: for the environment built by `traverse` (`Remap = actualPos`,
`SymRefCount = numRefs`), a position with `Remap[pos] = i` evaluates — value, offset and end offset — to the
stack entry of the `i`-th right-hand-side symbol, and that symbol is the reference allocated `pos`. -/
theorem C16_bind_end {α : Type} (es : List Elem) (v : Vars)
    (hv : v.remap = (build es).actualPos) (hn : v.symRefCount = (build es).numRefs)
    (stack entries : List (Entry α)) (lhs : Entry α)
    (hs : StackHolds stack entries v.symRefCount) (pos i : Nat) (hl : v.remap.lookup pos = some i) :
    (build es).rhs[i]? = some (RSym.sym pos) ∧
    ∃ e, entries[i]? = some e ∧
      evalLoc v stack lhs (.span i i pos) .value = .ok (.val e.value) ∧
      evalLoc v stack lhs (.span i i pos) .offset = .ok (.num e.off) ∧
      evalLoc v stack lhs (.span i i pos) .endoffset = .ok (.num e.endoff) := by
  rw [hv] at hl
  have hspec := (C16_remap_spec es pos i).mp hl
  have hlen : i < (build es).rhs.length := by
    rcases Nat.lt_or_ge i (build es).rhs.length with h | h
    · exact h
    · rw [List.getElem?_eq_none h] at hspec; cases hspec.2.1
  have hi : i < v.symRefCount := by rw [hn, (inv_build es).num]; exact hlen
  have hslot := C16_slot_spec stack entries v.symRefCount i hs hi
  obtain ⟨below, _, hel⟩ := hs
  have hie : i < entries.length := by omega
  refine ⟨hspec.2.1, entries[i], by simp [hie], ?_, ?_, ?_⟩ <;>
    simp [evalLoc, hslot, entryOut, List.getElem?_eq_getElem hie]

/-- Mid-rule actions: the extracted nonterminal of the `k`-th mid-rule command is placed after
`m.symRefCount` symbols; under `Scoped` every position the command can name (`pos < MaxPos`) that is in
`Remap` lies BEFORE the nonterminal, and with the stack holding the entries of that prefix the computed slot
is the entry of the referenced symbol. -/
theorem C16_bind_mid {α : Type} (es : List Elem) (hsc : Scoped es) (k : Nat) (m : Mid)
    (hm : (build es).mids[k]? = some m) (v : Vars)
    (hv : v.remap = (build es).actualPos) (hn : v.symRefCount = m.symRefCount)
    (stack entries : List (Entry α)) (lhs : Entry α)
    (hs : StackHolds stack entries v.symRefCount) (pos i : Nat) (hpos : pos < m.maxPos)
    (hl : v.remap.lookup pos = some i) :
    i < m.symRefCount ∧ (build es).rhs[m.symRefCount]? = some (RSym.mid k) ∧
    (build es).rhs[i]? = some (RSym.sym pos) ∧
    ∃ e, entries[i]? = some e ∧
      evalLoc v stack lhs (.span i i pos) .value = .ok (.val e.value) ∧
      evalLoc v stack lhs (.span i i pos) .offset = .ok (.num e.off) ∧
      evalLoc v stack lhs (.span i i pos) .endoffset = .ok (.num e.endoff) := by
  rw [hv] at hl
  have hmem : m ∈ (build es).mids := List.mem_of_getElem? hm
  have hlt : i < m.symRefCount :=
    (minv_build es hsc).mids m hmem (pos, i) (lookup_mem _ _ _ hl) hpos
  have hspec := (C16_remap_spec es pos i).mp hl
  have hi : i < v.symRefCount := by omega
  have hslot := C16_slot_spec stack entries v.symRefCount i hs hi
  obtain ⟨below, _, hel⟩ := hs
  have hie : i < entries.length := by omega
  refine ⟨hlt, (C16_symRefCount_spec es).2 k m hm, hspec.2.1, entries[i], by simp [hie], ?_, ?_, ?_⟩ <;>
    simp [evalLoc, hslot, entryOut, List.getElem?_eq_getElem hie]

example : Scoped [.ref 1, .cmd 2, .ref 2, .cmd 3] ∧
    (build [.ref 1, .cmd 2, .ref 2, .cmd 3]).mids[0]? = some ⟨1, 2⟩ := by
  refine ⟨?_, by decide⟩
  simp [Scoped]

/-! ### absent references and the produced text -/

/-- A reference whose symbol is absent from the expansion is rewritten to the text `nil` (value / sym) or
`-1` (offset / endoffset), without declaration, and evaluates to nil / −1 on every stack. -/
theorem C16_absent_renders_nil {α : Type} (v : Vars) (id : Str) (prop : Prp)
    (h : locate v id = .ok .absent) :
    renderRef v id prop = .ok ⟨none, if prop = .value ∨ prop = .sym then cs "nil" else cs "-1"⟩ ∧
    ∀ (stack : List (Entry α)) (lhs : Entry α),
      evalRef v stack lhs id prop = .ok (if prop = .value ∨ prop = .sym then .nil else .neg1) := by
  refine ⟨?_, fun stack lhs => ?_⟩
  · unfold renderRef; rw [h]
    cases prop <;> rfl
  · unfold evalRef; rw [h]
    cases prop <;> rfl

/-- the ids handled by the `switch` of `goParserAction` before `Resolve` -/
def plainId (id : Str) : Prop :=
  id ≠ cs "left()" ∧ id ≠ cs "leftRaw()" ∧ id ≠ cs "first()" ∧ id ≠ cs "last()" ∧ stripSelf id = .ok id

/-- For an ordinary reference (`$N`, `$name`) `goParserAction` treats it as absent exactly when `Resolve`
returns index −1. -/
theorem C16_locate_absent_iff (v : Vars) (id : Str) (hp : plainId id) :
    locate v id = .ok .absent ↔ ∃ r, resolve v id = .ok r ∧ r.index = -1 := by
  obtain ⟨h1, h2, h3, h4, h5⟩ := hp
  unfold locate
  have e1 : (id == cs "left()") = false := by simpa using h1
  have e2 : (id == cs "leftRaw()") = false := by simpa using h2
  have e3 : ¬ (id == cs "first()" ∨ id == cs "last()") := by simp [h3, h4]
  simp only [e1, e2, e3, if_false, Bool.false_eq_true, h5, bind, Except.bind]
  cases hr : resolve v id with
  | error e => simp
  | ok r =>
    simp only
    by_cases hidx : r.index = -1
    · have : ¬ (r.pos == 0 ∧ r.index ≥ 0) := by rw [hidx]; simp
      simp [hidx]
    · by_cases hc : (r.pos == 0 ∧ r.index ≥ 0)
      · simp only [hc, and_self, if_true]
        constructor
        · intro h; split at h <;> cases h
        · rintro ⟨r', hr', hi⟩; injection hr' with hr'; subst hr'; exact absurd hi hidx
      · simp only [hc, if_false]
        have : (r.index == -1) = false := by simpa using hidx
        simp only [this, Bool.false_eq_true, if_false]
        constructor
        · intro h; cases h
        · rintro ⟨r', hr', hi⟩; injection hr' with hr'; subst hr'; exact absurd hi hidx

/-- The text produced for a present, single-symbol, untyped reference names exactly the slot of
`C16_slot_spec`: `stack[len(stack)-(SymRefCount-index)]` followed by `.value` / `.sym.offset` /
`.sym.endoffset`; a typed position adds the declaration `nn<i>, _ := <slot>.value.(T)` and uses `nn<i>`. -/
theorem C16_present_renders_slot (v : Vars) (i : Nat) (pos : Nat) :
    renderLoc v (.span i i pos) .offset = .ok ⟨none, slotText v i ++ cs ".sym.offset"⟩ ∧
    renderLoc v (.span i i pos) .endoffset = .ok ⟨none, slotText v i ++ cs ".sym.endoffset"⟩ ∧
    (typeOf v pos = [] → renderLoc v (.span i i pos) .value = .ok ⟨none, slotText v i ++ cs ".value"⟩) ∧
    (typeOf v pos ≠ [] → renderLoc v (.span i i pos) .value =
      .ok ⟨some ((i : Int), cs "nn" ++ showInt i ++ cs ", _ := " ++ slotText v i ++ cs ".value.(" ++ typeOf v pos ++ cs ")\n"),
           cs "nn" ++ showInt i⟩) ∧
    slotText v i = cs "stack[len(stack)-" ++ showInt ((v.symRefCount : Int) - i) ++ cs "]" := by
  refine ⟨by simp [renderLoc], by simp [renderLoc], fun h => ?_, fun h => ?_, rfl⟩
  · simp [renderLoc, h]
  · simp [renderLoc, h]

example : action ⟨[(cs "a", [2])], 3, [(1, 0)], 1, [(1, cs "int")], []⟩ (cs "$$ = $0 + $a + ${a.offset}") =
    .ok (cs "nn0, _ := stack[len(stack)-1].value.(int)\nlhs.value = nn0 + nil + -1") := rfl

end TmVerif.ActionRefs
