import TmVerif.Proofs.IntSet
/-!
C25 — Integer set algebra is exact (property theorems only).
Universe: all of `Int` (finite and co-finite sets). Hypothesis `Sorted` is the representation
invariant of `IntSet.Set` ("sorted"), decidable by `sortedB`; it is preserved by every operation.
-/
namespace TmVerif.IntSet

theorem C25_mem_complement (a : IntSet) (v : Int) : a.complement.Mem v ↔ ¬ a.Mem v := by
  unfold IntSet.Mem IntSet.complement
  cases a.inverse <;> simp

theorem C25_mem_merge (a b : IntSet) (ha : Sorted a.set) (hb : Sorted b.set) (v : Int) :
    (a.merge b).Mem v ↔ a.Mem v ∨ b.Mem v := by
  unfold IntSet.merge IntSet.Mem IntSet.empty
  have h1 := mem_combine a.set b.set v
  have h2 := mem_intersect a.set b.set ha hb v
  have h3 := mem_subtract a.set b.set ha hb v
  have h4 := mem_subtract b.set a.set hb ha v
  cases hai : a.inverse <;> cases hbi : b.inverse <;> cases hae : a.set <;> cases hbe : b.set <;>
    simp_all <;> grind

theorem C25_mem_inter (a b : IntSet) (ha : Sorted a.set) (hb : Sorted b.set) (v : Int) :
    (a.inter b).Mem v ↔ a.Mem v ∧ b.Mem v := by
  unfold IntSet.inter IntSet.Mem IntSet.empty
  have h1 := mem_combine a.set b.set v
  have h2 := mem_intersect a.set b.set ha hb v
  have h3 := mem_subtract a.set b.set ha hb v
  have h4 := mem_subtract b.set a.set hb ha v
  cases hai : a.inverse <;> cases hbi : b.inverse <;> cases hae : a.set <;> cases hbe : b.set <;>
    simp_all <;> grind

theorem C25_sorted_merge (a b : IntSet) (ha : Sorted a.set) (hb : Sorted b.set) :
    Sorted (a.merge b).set := by
  unfold IntSet.merge
  have h1 := sorted_combine a.set b.set ha hb
  have h2 := sorted_intersect a.set b.set ha hb
  have h3 := sorted_subtract a.set b.set ha hb
  have h4 := sorted_subtract b.set a.set hb ha
  repeat' split
  all_goals assumption

theorem C25_sorted_inter (a b : IntSet) (ha : Sorted a.set) (hb : Sorted b.set) :
    Sorted (a.inter b).set := by
  unfold IntSet.inter
  have h1 := sorted_combine a.set b.set ha hb
  have h2 := sorted_intersect a.set b.set ha hb
  have h3 := sorted_subtract a.set b.set ha hb
  have h4 := sorted_subtract b.set a.set hb ha
  repeat' split
  all_goals first | assumption | trivial

/-- Extensionality: a sorted representation is canonical, so comparing the Go result with the
model result as lists decides equality of the denoted sets. -/
theorem sorted_ext (a b : List Int) (ha : Sorted a) (hb : Sorted b)
    (h : ∀ v, v ∈ a ↔ v ∈ b) : a = b := by
  induction a generalizing b with
  | nil =>
    cases b with
    | nil => rfl
    | cons y b => have := (h y).2 List.mem_cons_self; cases this
  | cons x a ih =>
    cases b with
    | nil => have := (h x).1 List.mem_cons_self; cases this
    | cons y b =>
      have hx := ha.head_lt
      have hy := hb.head_lt
      have hxy : x = y := by
        have h1 := (h x).1 List.mem_cons_self
        have h2 := (h y).2 List.mem_cons_self
        simp at h1 h2
        rcases h1 with h1 | h1
        · exact h1
        · rcases h2 with h2 | h2
          · exact h2.symm
          · have := hx y h2; have := hy x h1; omega
      subst hxy
      congr 1
      apply ih b ha.tail hb.tail
      intro v
      have := h v
      simp at this
      constructor
      · intro hv
        have := hx v hv
        grind
      · intro hv
        have := hy v hv
        grind

-- non-vacuity: concrete sorted sets meet the hypotheses
example : Sorted [1, 3, 5] ∧ Sorted [2, 3] := by simp [Sorted]
example : (IntSet.merge ⟨true, [1, 3, 5]⟩ ⟨false, [3, 7]⟩) = ⟨true, [1, 5]⟩ := by
  simp [IntSet.merge, IntSet.empty, subtract]

end TmVerif.IntSet
