import TmVerif.Proofs.IntSet
import TmVerif.Proofs.SetClosureRun
/-!
C25 — Integer set algebra and set-equation closure are exact (property theorems only).

**Set algebra** (util/container/intset.go). Universe: all of `Int` (finite and co-finite sets).
Hypothesis `Sorted` is the representation invariant of `IntSet.Set` ("sorted"), decidable by `sortedB`;
it is preserved by every operation.

**Closure** (util/set/closure.go, mirror `SetClosure.compute`, Model/SetClosure.lean). A system is a list
of nodes `{op, edges, init}`; `wfB` is what the public API can build (edges are nodes, `Add` got a sorted
slice, only `Add` nodes carry elements, a complement node has one edge). Vocabulary
(Proofs/SetClosure.lean): `EqAt sys a v` — node `v` satisfies its equation under the assignment
`a : Nat → Int → Prop` (union: `init ∪ ⋃ edges`, intersection: `⋂ edges`, ℤ when there is no edge,
complement: ℤ minus its edge); `Sol sys a` — all nodes do; `(compute sys).asg` — the computed sets;
`(compute sys).err` — the offending complement nodes (`Compute` returns an error iff non-empty);
`(compute sys).timeout` — the mirror of `for { … }` in `slowClosure` ran out of its fuel
`|component| · (mentioned elements + 1) + 1`: proved impossible (`C25_closure_terminates`).
`SmallOk`: `graph.Tarjan` does nothing below two vertices, so `Compute` leaves a one-node system as it
was built — right for an `Add` node, wrong for a lone `Intersect()` (`C25_closure_single_inter`).
-/
namespace TmVerif.IntSet
open TmVerif.SetClosure TmVerif.Graph

theorem C25_mem_complement (a : IntSet) (v : Int) : a.complement.Mem v ↔ ¬ a.Mem v := by
  unfold IntSet.Mem IntSet.complement
  cases a.inverse <;> simp

theorem C25_mem_merge (a b : IntSet) (ha : Sorted a.set) (hb : Sorted b.set) (v : Int) :
    (a.merge b).Mem v ↔ a.Mem v ∨ b.Mem v := by
  unfold IntSet.merge IntSet.Mem IntSet.empty
  have h1 := mem_combine a.set b.set v
  have h2 := mem_intersect a.set b.set ha hb v
  have h3 := mem_subtract a.set b.set ha hb v
  have h4 := mem_subtract b.set a.set hb ha v
  cases hai : a.inverse <;> cases hbi : b.inverse <;> cases hae : a.set <;> cases hbe : b.set <;>
    simp_all <;> grind

theorem C25_mem_inter (a b : IntSet) (ha : Sorted a.set) (hb : Sorted b.set) (v : Int) :
    (a.inter b).Mem v ↔ a.Mem v ∧ b.Mem v := by
  unfold IntSet.inter IntSet.Mem IntSet.empty
  have h1 := mem_combine a.set b.set v
  have h2 := mem_intersect a.set b.set ha hb v
  have h3 := mem_subtract a.set b.set ha hb v
  have h4 := mem_subtract b.set a.set hb ha v
  cases hai : a.inverse <;> cases hbi : b.inverse <;> cases hae : a.set <;> cases hbe : b.set <;>
    simp_all <;> grind

theorem C25_sorted_merge (a b : IntSet) (ha : Sorted a.set) (hb : Sorted b.set) :
    Sorted (a.merge b).set := by
  unfold IntSet.merge
  have h1 := sorted_combine a.set b.set ha hb
  have h2 := sorted_intersect a.set b.set ha hb
  have h3 := sorted_subtract a.set b.set ha hb
  have h4 := sorted_subtract b.set a.set hb ha
  repeat' split
  all_goals assumption

theorem C25_sorted_inter (a b : IntSet) (ha : Sorted a.set) (hb : Sorted b.set) :
    Sorted (a.inter b).set := by
  unfold IntSet.inter
  have h1 := sorted_combine a.set b.set ha hb
  have h2 := sorted_intersect a.set b.set ha hb
  have h3 := sorted_subtract a.set b.set ha hb
  have h4 := sorted_subtract b.set a.set hb ha
  repeat' split
  all_goals first | assumption | trivial

-- non-vacuity: concrete sorted sets meet the hypotheses
example : Sorted [1, 3, 5] ∧ Sorted [2, 3] := by simp [Sorted]
example : (IntSet.merge ⟨true, [1, 3, 5]⟩ ⟨false, [3, 7]⟩) = ⟨true, [1, 5]⟩ := by
  simp [IntSet.merge, IntSet.empty, subtract]

/-! ### set-equation closure -/

/-- below two nodes `Compute` does nothing; that is only right when the node is an `Add` node -/
def SmallOk (sys : Sys) : Prop := sys.length < 2 → ∀ v, opOf sys v = .union

theorem compute_small {sys : Sys} (h : sys.length < 2) : compute sys = initSt sys := by
  unfold compute runOn tarjanRun
  rw [if_pos (by rw [graphOf_length]; exact h)]
  rfl

theorem compute_runOk {sys : Sys} (hwf : SetClosure.Wf sys) (h2 : 2 ≤ sys.length) :
    RunOk sys (tarjanRun (graphOf sys)) (initSt sys) (compute sys) := by
  have hL := (listing_tarjan hwf h2).1
  apply run_spec hwf _ _ hL (by simp [initSt])
  · intro v; rw [initSt_get]; exact hwf.sorted v
  · intro c _ v _; exact initSt_get sys v

theorem initSt_bounded (sys : Sys) : Bounded sys (initSt sys) := by
  intro v e he
  rw [initSt_get] at he
  exact initOf_sub sys v e he

/-- **The loop of `slowClosure` converges within the mirror's fuel**, for every system the API can
build: every dirty pass strictly enlarges one of the component's sets, measured inside the finite universe
"elements mentioned by the system, plus one point for all other integers" (co-finite sets are finite
objects there), and a sorted representation that grows as a set without growing in this measure is
unchanged. Hence `timeout` never occurs and the other theorems need no hypothesis about it. -/
theorem C25_closure_terminates (sys : Sys) (hwf : SetClosure.wfB sys = true) :
    (compute sys).timeout = false := by
  have hwf := wf_of_wfB hwf
  by_cases h2 : 2 ≤ sys.length
  · exact (compute_runOk hwf h2).tmoF (initSt_bounded sys) rfl
  · rw [compute_small (by omega)]; rfl

/-- **No error reported ⇒ the computed assignment is a solution** of the whole system. -/
theorem C25_closure_solution (sys : Sys) (hwf : SetClosure.wfB sys = true) (hs : SmallOk sys)
    (herr : (compute sys).err = []) :
    Sol sys (compute sys).asg := by
  have htmo := C25_closure_terminates sys hwf
  have hwf := wf_of_wfB hwf
  intro v hv
  by_cases h2 : 2 ≤ sys.length
  · obtain ⟨c, hc, hvc⟩ := (listing_tarjan hwf h2).2 v hv
    exact ((compute_runOk hwf h2).good herr htmo c hc).1 v hvc
  · have hsmall : sys.length < 2 := by omega
    have hop := hs hsmall v
    rw [compute_small hsmall, eqAt_union hop]
    intro x
    have hasg : ∀ u, (initSt sys).asg u x ↔ x ∈ initOf sys u := by
      intro u; unfold St.asg; rw [initSt_get, mem_fresh]
    rw [hasg v]
    constructor
    · exact fun h => .inl h
    · rintro (h | ⟨w, hw, h⟩)
      · exact h
      · have hwl := hwf.edges v w hw
        have : w = v := by omega
        subst this
        exact (hasg w).1 h

/-- **Least, stratum by stratum.** Let `b` be any assignment that satisfies the equations of the
strongly connected component of `v0` and agrees with the computed sets on the successors outside this
component (the lower strata). Then the computed set of `v0` is contained in `b v0`.
Inside a component nothing is complemented (no error), so the component's equations are monotone and
"least" is meaningful; across components a complement turns "smaller below" into "larger above", which
is why the comparison is relative to equal lower strata (`C25_closure_least_positive` is the global
statement for systems without complement nodes). -/
theorem C25_closure_least (sys : Sys) (hwf : SetClosure.wfB sys = true) (hs : SmallOk sys)
    (herr : (compute sys).err = [])
    (b : Asg) (v0 : Nat) (hv0 : v0 < sys.length)
    (hb : ∀ v, SC (graphOf sys) v0 v → EqAt sys b v)
    (hlow : ∀ v w, SC (graphOf sys) v0 v → w ∈ edgesOf sys v → ¬ SC (graphOf sys) v0 w →
      ∀ x, b w x ↔ (compute sys).asg w x) :
    ∀ x, (compute sys).asg v0 x → b v0 x := by
  have htmo := C25_closure_terminates sys hwf
  have hwf := wf_of_wfB hwf
  by_cases h2 : 2 ≤ sys.length
  · obtain ⟨hL, hcov⟩ := listing_tarjan hwf h2
    obtain ⟨c, hc, hvc⟩ := hcov v0 hv0
    have hscc := hL.scc c hc v0 hvc
    refine ((compute_runOk hwf h2).good herr htmo c hc).2 b (fun v hv => hb v ((hscc v).1 hv)) ?_ v0 hvc
    intro v hv w hw hwc
    have := hlow v w ((hscc v).1 hv) hw (fun h => hwc ((hscc w).2 h))
    exact ⟨fun x hx => (this x).2 hx, fun _ x hx => (this x).1 hx⟩
  · have hsmall : sys.length < 2 := by omega
    have hop := hs hsmall v0
    intro x hx
    rw [compute_small hsmall] at hx
    unfold St.asg at hx
    rw [initSt_get, mem_fresh] at hx
    exact ((eqAt_union hop).1 (hb v0 ⟨Reach.refl _ _, Reach.refl _ _⟩) x).2 (.inl hx)

/-- **Least solution** of a system without complement nodes: contained in every solution. -/
theorem C25_closure_least_positive (sys : Sys) (hwf : SetClosure.wfB sys = true) (hs : SmallOk sys)
    (herr : (compute sys).err = [])
    (hpos : ∀ v, opOf sys v ≠ .compl) (b : Asg) (hb : Sol sys b) :
    ∀ v, v < sys.length → ∀ x, (compute sys).asg v x → b v x := by
  have htmo := C25_closure_terminates sys hwf
  have hwf := wf_of_wfB hwf
  by_cases h2 : 2 ≤ sys.length
  · obtain ⟨hL, hcov⟩ := listing_tarjan hwf h2
    have R := compute_runOk hwf h2
    have hord := tarjan_correct hwf.graph (by rw [graphOf_length]; exact h2)
    rw [← tarjanRun_comps] at hord
    generalize tarjanRun (graphOf sys) = cs at hL hcov R hord
    have key : ∀ i (hi : i < cs.length), ∀ v ∈ cs[i].1, ∀ x, (compute sys).asg v x → b v x := by
      intro i
      induction i using Nat.strongRecOn with
      | _ i ih =>
        intro hi v hv x hx
        have hci : cs[i] ∈ cs := List.getElem_mem hi
        refine (R.good herr htmo cs[i] hci).2 b (fun u hu => hb u (hL.lt _ hci u hu)) ?_ v hv x hx
        intro u hu w hw hwc
        refine ⟨fun y hy => ?_, fun hop => absurd hop (hpos u)⟩
        obtain ⟨c', hc', hwc'⟩ := hcov w (hwf.edges u w hw)
        obtain ⟨j, hj, rfl⟩ := List.getElem_of_mem hc'
        have hle := hord.order i j (by simpa using hi) (by simpa using hj) u w (by simpa using hu)
          (by simpa using hwc') (Reach.edge hw)
        have hne : j ≠ i := by
          intro e; subst e; exact hwc hwc'
        exact ih j (by omega) hj w hwc' y hy
    intro v hv x hx
    obtain ⟨c, hc, hvc⟩ := hcov v hv
    obtain ⟨i, hi, rfl⟩ := List.getElem_of_mem hc
    exact key i hi v hvc x hx
  · have hsmall : sys.length < 2 := by omega
    intro v hv x hx
    rw [compute_small hsmall] at hx
    unfold St.asg at hx
    rw [initSt_get, mem_fresh] at hx
    exact ((eqAt_union (hs hsmall v)).1 (hb v hv) x).2 (.inl hx)

/-- **An error is reported exactly when some complement node reaches itself.** -/
theorem C25_closure_error_iff (sys : Sys) (hwf : SetClosure.wfB sys = true) (hs : SmallOk sys) :
    (compute sys).err ≠ [] ↔
      ∃ v, v < sys.length ∧ opOf sys v = .compl ∧ Relation.TransGen (Edge (graphOf sys)) v v := by
  have hwf := wf_of_wfB hwf
  by_cases h2 : 2 ≤ sys.length
  · obtain ⟨hL, hcov⟩ := listing_tarjan hwf h2
    have R := compute_runOk hwf h2
    constructor
    · intro hne
      obtain ⟨extra, h1, h2'⟩ := R.err
      have : extra ≠ [] := by
        intro h; rw [h] at h1; exact hne (by simpa [initSt] using h1)
      obtain ⟨e, he⟩ := List.exists_mem_of_ne_nil _ this
      obtain ⟨c, hc, hec, hop, w, hw, hws⟩ := h2' e he
      have hwc : w ∈ c.1 := (hL.snap c hc e hec w hw).1 hws
      have hsc := (hL.scc c hc e hec w).1 hwc
      refine ⟨e, hL.lt c hc e hec, hop, ?_⟩
      rcases hsc.2 with rfl | p
      · exact .single hw
      · exact transGen_head hw p
    · rintro ⟨v, hv, hop, p⟩
      obtain ⟨c, hc, hvc⟩ := hcov v hv
      obtain ⟨w, hvw, hwv⟩ := transGen_head_cases p
      have hwc : w ∈ c.1 := (hL.scc c hc v hvc w).2 ⟨Reach.edge hvw, hwv⟩
      exact R.offend ⟨c, hc, v, hvc, hop, w, hvw, (hL.snap c hc v hvc w hvw).2 hwc⟩
  · have hsmall : sys.length < 2 := by omega
    rw [compute_small hsmall]
    constructor
    · intro h; exact absurd rfl h
    · rintro ⟨v, _, hop, _⟩
      rw [hs hsmall v] at hop; cases hop

/-- Why `SmallOk` is needed: a closure that consists of `Intersect()` alone is left untouched by
`Compute` (nothing happens below two nodes), although the intersection of no sets is everything — which
is what the same node evaluates to in any larger system. -/
theorem C25_closure_single_inter :
    SetClosure.wfB [⟨.inter, [], []⟩] = true ∧ (compute [⟨.inter, [], []⟩]).err = [] ∧
    ¬ Sol [⟨.inter, [], []⟩] (compute [⟨.inter, [], []⟩]).asg ∧
    (compute [⟨.inter, [], []⟩, ⟨.union, [], []⟩]).get 0 = ⟨true, []⟩ := by
  refine ⟨by decide, by decide, ?_, by decide⟩
  intro h
  have := h 0 (by decide)
  rw [eqAt_inter (by decide)] at this
  have := (this 0).2 (by intro w hw; simp [edgesOf, succs, graphOf] at hw)
  have h0 : ¬ ((compute [⟨.inter, [], []⟩]).get 0).Mem 0 := by decide
  exact h0 this

-- non-vacuity: systems that meet the hypotheses, with and without cycles, intersections, complements
example : SetClosure.wfB [⟨.union, [1], [1, 2]⟩, ⟨.union, [0, 2], [5]⟩, ⟨.inter, [0, 1], []⟩, ⟨.compl, [2], []⟩] = true := by decide
example : (compute [⟨.union, [1], [1, 2]⟩, ⟨.union, [0, 2], [5]⟩, ⟨.inter, [0, 1], []⟩, ⟨.compl, [2], []⟩]).err = [] ∧
    (compute [⟨.union, [1], [1, 2]⟩, ⟨.union, [0, 2], [5]⟩, ⟨.inter, [0, 1], []⟩, ⟨.compl, [2], []⟩]).timeout = false ∧
    (compute [⟨.union, [1], [1, 2]⟩, ⟨.union, [0, 2], [5]⟩, ⟨.inter, [0, 1], []⟩, ⟨.compl, [2], []⟩]).sets =
      [⟨false, [1, 2, 5]⟩, ⟨false, [1, 2, 5]⟩, ⟨false, [1, 2, 5]⟩, ⟨true, [1, 2, 5]⟩] := by decide +kernel
example : SmallOk [⟨.union, [0], [3]⟩] := fun _ v => by
  cases v <;> simp [opOf]
-- an error: A = Add{1} ∪ C, C = ~A
example : (compute [⟨.union, [1], [1]⟩, ⟨.compl, [0], []⟩]).err = [1] := by decide
example : Relation.TransGen (Edge (graphOf [⟨.union, [1], [1]⟩, ⟨.compl, [0], []⟩])) 1 1 :=
  .tail (b := 0) (.single (show Edge _ 1 0 by simp [Edge, succs, graphOf])) (show Edge _ 0 1 by simp [Edge, succs, graphOf])

end TmVerif.IntSet
