/-
C17 — generation completes and the generated Go code builds. NOT APPLICABLE as stated (DESIGN.md §5: no model of
`go build`); this file carries the one decidable FRAGMENT (DESIGN.md §4 C17):

  definition/use guard consistency of the Go templates — for every identifier that template text declares at
  top level (func / type / var / const, methods and struct fields as `Recv.Name`) and every use of it in a file of
  the same generated package, under EVERY valuation of the guard atoms (option flags and grammar-shape predicates)
  that satisfies the implication table of Facts/ExpectC17.lean: if the use is generated then a declaration is.

The pairs come from Facts/GeneratedC17.lean, regenerated from gen/templates/go_*.go.tmpl and gen/templates.go by
tools/factgen/c17.go on every run; the quantifier over valuations is closed by the verified tableau
`Guards.checkImp` (Proofs/Guards.lean: sound for all valuations of all atoms), evaluated by the kernel.

What this does NOT show: that generated code type-checks (argument counts, types, unused variables/imports,
identifiers produced by template actions, symbol names colliding with generated names, user code in semantic
actions). Those are searched by the build sweep of harness/cmd/tmh/c17.go only. The implications marked
`trusted` in the table are facts about compiler.Compile that are read off its code and sampled by the sweep.
-/
import TmVerif.Proofs.Guards
import TmVerif.Model.GuardPairs
namespace TmVerif.C17
open TmVerif.Guards TmVerif.Facts

/-- `v` satisfies the implication table. -/
def Axioms (v : Nat → Bool) : Prop := ∀ a ∈ axioms, eval v a.hyp = true → eval v a.concl = true

/-- A use `u` of an identifier with declaration sites `defs` is consistent: whenever the use is generated, some
declaration is generated too (an `.Options.IsEnabled "x"` guard of a declaration counts as true: the user supplies
what customImpl disables). -/
def Consistent (defs : List TmplDef) (u : TmplUse) : Prop :=
  ∀ v : Nat → Bool, Axioms v → eval v (useGuard u) = true → eval v (defGuardOf defs) = true

/-- The decision procedure is sound for every pair of guards, every implication table and every valuation. -/
theorem C17_checkImp_sound (axs : List Ax) (u d : GF) (h : checkImp axs u d = true) (v : Nat → Bool)
    (hax : ∀ a ∈ axs, eval v a.hyp = true → eval v a.concl = true) (hu : eval v u = true) : eval v d = true :=
  checkImp_sound axs u d h v hax hu

example : checkImp [⟨.atom 0, .atom 1⟩] (.and (.atom 2) (.atom 0)) (.or (.atom 1) (.atom 3)) = true := by decide
example : checkImp [⟨.atom 0, .atom 1⟩] (.atom 2) (.atom 1) = false := by decide

/-- The facts are grouped by identifier: group `i` holds ALL declaration sites and ALL use sites of the identifier
with name id `i` (and of no other). -/
theorem C17_groups_well_formed : groupsWellFormed = true := by decide +kernel

/-- THE OBLIGATION (partial: all pairs except exactly the listed ones). On the current tree every use of a
template-declared identifier, other than the uses listed in `c17KnownInconsistent` (findings, see
`C17_known_inconsistent_exact`) and `c17NotPropositional` (element-level, build sweep only), is consistent with
the declaration sites of that identifier under every valuation of the atoms that satisfies the implication
table. -/
theorem C17_guards_consistent_partial :
    ∀ g ∈ c17Groups, ∀ u ∈ g.uses, excluded u = false → Consistent g.defs u := by
  have h1 : allUsesOk = true := by decide +kernel
  intro g hg u hu hex v hax huse
  simp only [allUsesOk, List.all_eq_true, Bool.or_eq_true] at h1
  rcases h1 g hg u hu with h | h
  · rw [hex] at h; cases h
  · exact checkImp_sound axioms _ _ h v hax huse

/-- The full statement: every use (outside the not-propositional ones) is consistent. It does NOT hold on the
current tree (`C17_guards_consistent_full_refuted`). -/
def C17_guards_consistent_full : Prop :=
  ∀ g ∈ c17Groups, ∀ u ∈ g.uses, isNotProp u = false → Consistent g.defs u

/-- Non-vacuity: the obligation covers uses (453 of 462 on the pinned tree). -/
example : (c17Uses.filter (fun u => !excluded u)).length ≥ 400 := by decide +kernel

/-- The hand-written tables of Facts/ExpectC17.lean talk about the atoms, identifiers, files and define blocks
they name: every id hint stands for the text written next to it (atoms of the implication table, the use sites
of the known-inconsistent and not-propositional entries and their counter-valuations), the classification table
lists exactly the atoms of the templates in id order, and ids are positions. A new or edited `{{if}}` pipeline, a
renamed identifier or a stale hint breaks this. -/
theorem C17_tables_resolve : idsAreOrdinals = true ∧ atomTextsFacts = atomTextsExpected ∧
    axiomTextsWritten = axiomTextsHinted ∧ knownTextsWritten = knownTextsHinted ∧
    notPropTextsWritten = notPropTextsHinted :=
  ⟨by decide +kernel, rfl, rfl, rfl, rfl⟩

/-- Every entry of `c17KnownInconsistent` (through its hint: name id, file, define block, valuation) matches at
least one use of that identifier, and every use it matches is REALLY inconsistent: the listed valuation (plus every
`.Options.IsEnabled` atom) satisfies the implication table and the use guard and falsifies the guard of every
declaration. So the exception list cannot hide a consistent pair, and a repaired template breaks this theorem
(the entry then has to go). -/
theorem C17_known_inconsistent_exact : ∀ k ∈ c17KnownIds, ∃ g, c17Groups[k.1]? = some g ∧
    (∃ u ∈ g.uses, useIs u k.1 k.2.1 k.2.2.1 = true) ∧
    ∀ u ∈ g.uses, useIs u k.1 k.2.1 k.2.2.1 = true →
      ∃ v : Nat → Bool, Axioms v ∧ eval v (useGuard u) = true ∧ eval v (defGuardOf g.defs) = false := by
  have h : c17KnownIds.all knownEntryOk = true := by decide +kernel
  intro k hk
  have hk' := List.all_eq_true.mp h k hk
  simp only [knownEntryOk, defGuard] at hk'
  cases hg : c17Groups[k.1]? with
  | none => simp [hg] at hk'
  | some g =>
    refine ⟨g, rfl, ?_⟩
    simp only [hg, Option.map_some, Option.getD_some, Bool.and_eq_true, Bool.not_eq_true',
      List.all_eq_true] at hk'
    obtain ⟨hne, hall⟩ := hk'
    constructor
    · cases hf : g.uses.filter (fun u => useIs u k.1 k.2.1 k.2.2.1) with
      | nil => rw [hf] at hne; simp at hne
      | cons u rest =>
        have : u ∈ g.uses.filter (fun u => useIs u k.1 k.2.1 k.2.2.1) := by rw [hf]; simp
        rw [List.mem_filter] at this
        exact ⟨u, this.1, this.2⟩
    · intro u hu hm
      exact refutes_sound axioms _ _ _ (hall u (by simp [List.mem_filter, hu, hm]))

/-- The findings, at the level of guards: the full statement is false on the current tree (witness: the first
entry of the table — the use of `NodeType` in parser_tables.go under a valuation where the grammar has a parser
and no node types, DESIGN.md §6 row 12). -/
theorem C17_guards_consistent_full_refuted : ¬ C17_guards_consistent_full := by
  intro hfull
  have hk0 : c17KnownIds.head?.isSome = true := by decide +kernel
  obtain ⟨k, hk⟩ := Option.isSome_iff_exists.mp hk0
  have hmem : k ∈ c17KnownIds := List.mem_of_head? hk
  obtain ⟨g, hg, ⟨u, hu, hm⟩, hall⟩ := C17_known_inconsistent_exact k hmem
  obtain ⟨v, hax, huse, hdef⟩ := hall u hu hm
  have hnp : c17KnownIds.all (fun k => !c17NotPropIds.any (fun (n, _, _) => n == k.1)) = true := by decide +kernel
  have hnp' : isNotProp u = false := by
    have h1 := List.all_eq_true.mp hnp k hmem
    simp only [Bool.not_eq_true', List.any_eq_false] at h1
    simp only [isNotProp, List.any_eq_false]
    intro x hx
    have h2 := h1 x hx
    obtain ⟨n, f, t⟩ := x
    simp only [useIs, Bool.and_eq_true, beq_iff_eq] at hm
    simp only [beq_iff_eq] at h2
    simp only [useIs, Bool.and_eq_true, beq_iff_eq]
    intro hn
    exact h2 (hn.1.1.symm.trans hm.1.1)
  have := hfull g (List.mem_of_getElem? hg) u hu hnp' v hax huse
  rw [hdef] at this; cases this

/-- The uses listed as not propositional are exactly of that kind: each entry matches a use, and every
declaration of the identifier sits under an element-level guard (`[local-def] …`), which no use guard can imply. -/
theorem C17_not_propositional_exact : c17NotPropIds.all notPropEntryOk = true := by decide +kernel

/-- No identifier is declared twice: two declaration sites of one name (in files of one package) are never
generated together, under every valuation satisfying the implication table. -/
theorem C17_no_duplicate_definitions : ∀ grp ∈ c17Groups, ∀ g h : GF,
    List.Sublist [g, h] (grp.defs.map defSiteGuardRaw) →
    ∀ v : Nat → Bool, Axioms v → ¬ (eval v g = true ∧ eval v h = true) := by
  have hd : noDuplicates = true := by decide +kernel
  intro grp hgrp g h hsub v hax ⟨hg, hh⟩
  have hgo := List.all_eq_true.mp hd grp hgrp
  have key : ∀ l : List GF, noDupGo l = true → List.Sublist [g, h] l → checkImp axioms (.and g h) GF.ff = true := by
    intro l
    induction l with
    | nil => intro _ hs; cases hs
    | cons x rest ih =>
      intro hgo hs
      simp only [noDupGo, Bool.and_eq_true, List.all_eq_true] at hgo
      cases hs with
      | cons _ hs' => exact ih hgo.2 hs'
      | cons_cons _ hs' =>
        have : h ∈ rest := hs'.subset (List.mem_singleton_self h)
        exact hgo.1 h this
  have := checkImp_sound axioms _ _ (key _ hgo hsub) v hax (by simp [eval, hg, hh])
  simp [GF.ff, eval] at this

theorem eval_disj (v : Nat → Bool) : ∀ l : List GF, eval v (disj l) = true → ∃ f ∈ l, eval v f = true := by
  intro l
  induction l with
  | nil => intro h; simp [disj, GF.ff, eval] at h
  | cons f rest ih =>
    intro h
    cases rest with
    | nil => exact ⟨f, by simp, by simpa [disj] using h⟩
    | cons g rest' =>
      simp only [disj, eval, Bool.or_eq_true] at h
      rcases h with h | h
      · exact ⟨f, by simp, h⟩
      · obtain ⟨k, hk, hv⟩ := ih h
        exact ⟨k, List.mem_cons_of_mem _ hk, hv⟩

/-- Labels (`restart:`, `recovered:`, `flushed:`; named `Func#label`, their uses are the `goto`s of that
function): besides `goto → label` (part of `C17_guards_consistent_partial`), every generated label is jumped to —
Go rejects an unused label — under every valuation satisfying the implication table. -/
theorem C17_labels_used : ∀ n ∈ c17LabelNames, ∃ g, c17Groups[n]? = some g ∧ ∀ d ∈ g.defs,
    ∀ v : Nat → Bool, Axioms v → eval v (defSiteGuardRaw d) = true → ∃ u ∈ g.uses, eval v (useGuard u) = true := by
  have h : labelsUsed = true := by decide +kernel
  intro n hn
  have hn' := List.all_eq_true.mp h n hn
  cases hg : c17Groups[n]? with
  | none => simp [hg] at hn'
  | some g =>
    refine ⟨g, rfl, ?_⟩
    simp only [hg, List.all_eq_true] at hn'
    intro d hd v hax hdv
    obtain ⟨f, hf, hv⟩ := eval_disj v _ (checkImp_sound axioms _ _ (hn' d hd) v hax hdv)
    obtain ⟨u, hu, rfl⟩ := List.mem_map.mp hf
    exact ⟨u, hu, hv⟩

/-- Non-vacuity: there are labels. -/
example : c17LabelNames.length ≥ 5 := by decide +kernel

/-- Completeness of the classification (2): the declaration sites found in the templates — package.name, file,
define block, kind and guard — are exactly the pinned ones. A new, removed or moved declaration or an edited guard
around one breaks this. -/
theorem C17_all_definitions_classified : c17DefSigs = c17ExpectedDefSigs := rfl

/-- Completeness (3): the use sites (digest over identifier, file, define block and guard of each), the function
`language.templates` and the `languages["go"]` table that decide which template produces which file, the way
gen.Generate combines templates, and the template helpers of grammar/gen.go quoted by the implication table are
the reviewed ones; and the extractor understood everything it read. -/
theorem C17_uses_and_selection_pinned : c17Hashes = c17ExpectedHashes ∧ c17Problems = [] := ⟨rfl, rfl⟩

end TmVerif.C17
