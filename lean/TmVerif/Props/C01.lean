import TmVerif.Proofs.LRSoundPanic
import TmVerif.Proofs.LRHalt
import TmVerif.Proofs.LRCompleteAccept
import TmVerif.Proofs.LRErrPosFinal
/-!
C01 — soundness of the table-driven LR parser runtime (`gen/templates/go_parser.go.tmpl`, model
`TmVerif.LR.run`) with respect to the decidable certificate check `certOk` (Model/LRSound.lean),
which the driver evaluates on the REAL `lalr.Tables` of every sampled grammar.

Whenever `certOk g t cert = true`, every run of the runtime model on tables `t` that ends in
`accept` has consumed a prefix of the token string that is a sentence of the chosen input symbol
(`CFG.Sentence`), and for an input with the end-of-input requirement the whole string.

Completeness (second half of the file): whenever `complOk g t cc = true` (Model/LRComplete.lean,
LR(1)-style item certificate, also evaluated on the real tables), every sentence is accepted
(`C01_lr_complete`, `C01_lr_complete_prefix`); with both certificates the accepted token strings
are exactly the language (`C01_lr_exact`).

Error position (third part): with the viable-prefix certificate `viableOk g t vc = true`
(Model/LRViable.lean) in addition, a reported syntax error lies at the first token at which the
consumed prefix stops being a prefix of a sentence (`C01_lr_error_position`); the productivity
requirement inside `viableOk` is necessary (`C01_error_position_unproductive_fails`, real tables).
-/
namespace TmVerif.LRSound
open TmVerif.LR TmVerif.CFG

/-- Soundness: for certified tables, for every token string (symbols are terminals other than
EOI), every input `i`, every fuel: if the runtime model accepts, then the consumed prefix
(`n` tokens) is a sentence of input `i`; if the input requires end-of-input, `n` is the whole
string. -/
theorem C01_lr_sound (g : Grammar) (t : Tables) (cert : Cert) (inp : Input) (i fuel : Nat) (c : Cfg)
    (hc : certOk g t cert = true)
    (htok : ∀ tk ∈ inp.toks.toList, 0 < tk.sym ∧ tk.sym < (t.nTerms : Int))
    (hi : i < g.inputs.size)
    (hrun : run t inp i fuel = (Result.accept, c)) :
    ∃ n, n ≤ inp.toks.size ∧
      Sentence g i ((inp.toks.toList.take n).map (fun tk => tk.sym.toNat)) ∧
      ((∃ gi, g.inputs[i]? = some gi ∧ gi.eoi = true) → n = inp.toks.size) := by
  have hcf := certFacts hc
  unfold run at hrun
  cases hfin : t.finalStates[i]? with
  | none => rw [hfin] at hrun; cases hrun
  | some fin =>
    rw [hfin] at hrun
    simp only at hrun
    obtain ⟨⟨s, syms, hstk, hst, _⟩, hfs⟩ :=
      runLoop_accept hcf htok hi fin fuel _ c (inv_init g t i inp) hrun
    obtain ⟨gi, u, hgi, hD, hcase⟩ := final_yield hcf hi hstk fin hfin (by rw [← hst, hfs])
    have hwf := wfFacts hcf.wf
    have hgim : gi ∈ g.inputs.toList := by
      rw [Array.mem_toList_iff]; exact Array.mem_of_getElem? hgi
    have hu0 : 0 ∉ u :=
      derives_no_zero hwf hD (by have := (hwf.inputs gi hgim).1; have := hwf.nTermsPos; omega)
    rcases hcase with ⟨he, hw⟩ | ⟨he, hw⟩
    · refine ⟨inp.toks.size, Nat.le_refl _, ⟨gi, hgi, ?_⟩, fun _ => rfl⟩
      rw [← consumed_eoi htok _ u hw hu0]; exact hD
    · have hm := consumed_no_zero (nshift c.evs) (by rw [hw]; exact hu0)
      refine ⟨nshift c.evs, hm, ⟨gi, hgi, ?_⟩, ?_⟩
      · rw [← consumed_le inp _ hm, hw]; exact hD
      · rintro ⟨gi', hgi', he'⟩
        rw [hgi] at hgi'
        injection hgi' with e
        subst e
        rw [he] at he'
        cases he'

/-! Non-vacuity: real tables of `lalr.Compile` for the grammar `S: t4 t3 t4 ;` (5 terminals, one
nonterminal, input `S` with end-of-input; taken from a `C01 validate` case of the harness). All
hypotheses hold, the model accepts `t4 t3 t4`, and the theorem yields the sentence. -/
private def exG : Grammar :=
  { nTerms := 5, nSyms := 6, rules := #[⟨5, [4, 3, 4], 0⟩], inputs := #[⟨5, true⟩] }
private def exT : Tables :=
  { nTerms := 5, action := #[-1,-1,-1,0,-1,-2], lalr := #[], goto_ := #[0,2,2,2,4,8,10], fromTo := #[4,5,1,2,0,1,2,3,0,4], ruleLen := #[3], ruleSymbol := #[5], finalStates := #[5] }
private def exCert : Cert :=
  { past := #[[], [4], [3, 4], [4, 3, 4], [5], [0, 5]], reach := #[[0, 1, 2, 3, 4, 5]] }
private def exInp : Input := { toks := #[⟨4, 0, 1⟩, ⟨3, 1, 2⟩, ⟨4, 2, 3⟩], endOff := 3 }

example : certOk exG exT exCert = true ∧
    (∀ tk ∈ exInp.toks.toList, 0 < tk.sym ∧ tk.sym < (exT.nTerms : Int)) ∧
    0 < exG.inputs.size ∧ (run exT exInp 0 20).1 = Result.accept ∧
    Reach exT exInp 0 (initCfg exInp 0) := by
  refine ⟨by decide +kernel, by decide +kernel, by decide +kernel, by decide +kernel, Reach.init⟩

example : Sentence exG 0 [4, 3, 4] := by
  obtain ⟨n, _, h, hn⟩ := C01_lr_sound exG exT exCert exInp 0 20 (run exT exInp 0 20).2
    (by decide +kernel) (by decide +kernel) (by decide +kernel)
    (Prod.ext (by decide +kernel) rfl)
  rw [hn ⟨⟨5, true⟩, rfl, rfl⟩] at h
  exact h

/-- For certified tables the runtime model never panics: no index or slice expression of the
generated parser loop (`tmAction[state]`, `tmLalr[..]`, `tmRuleLen[rule]`, `stack[len-ln:]`,
`tmGoto[..]`, …) is out of range, on any token string and with any fuel. -/
theorem C01_lr_no_panic (g : Grammar) (t : Tables) (cert : Cert) (inp : Input) (i fuel : Nat)
    (hc : certOk g t cert = true)
    (htok : ∀ tk ∈ inp.toks.toList, 0 < tk.sym ∧ tk.sym < (t.nTerms : Int))
    (hi : i < g.inputs.size) :
    (run t inp i fuel).1 ≠ Result.panic := by
  have hcf := certFacts hc
  unfold run
  cases hfin : t.finalStates[i]? with
  | none =>
    have := hcf.fin
    have hlt : i < t.finalStates.size := by omega
    rw [Array.getElem?_eq_getElem hlt] at hfin
    cases hfin
  | some fin =>
    simp only
    intro h
    exact runLoop_no_panic hcf htok hi fin fuel _ _ (inv_init g t i inp) (Prod.ext h rfl)

example : (run exT exInp 0 20).1 ≠ Result.panic :=
  C01_lr_no_panic exG exT exCert exInp 0 20 (by decide +kernel) (by decide +kernel)
    (by decide +kernel)

/-! ### halting

`LRX.coreRankOk g t cert rc` (Model/LRXSafe.lean, decidable, evaluated by the driver on the real
tables of every sampled grammar together with `certOk`): `rc` assigns a rank to every (input,
terminal, state) such that — relative to each input `i`, for the states `s` in the reachable set of
the soundness certificate other than the final state of `i` — for every reduce action
`(s, a) ↦ A → α` and every reachable state `p'` from which `α` leads to `s`, `gotoState p' A` is a
state `q` with `rank i a q + weight + 1 ≤ rank i a s + weight · |α|`, a shift of EOI decreases the
rank likewise, and ranks are at most `4 · nStates + 11`. -/

/-- Halting: for certified tables with a rank certificate the loop needs at most
`(|w| + 1) · (4 · nStates + 12 + weight)` iterations on a token string `w` — with that much fuel the
runtime model never answers `fuel`: by `C01_lr_no_panic` it accepts or reports a syntax error,
on sentences and on non-sentences alike. (The potential `W · (tokens left) + weight · (stack
height) + rank (next token) (top state)` decreases with every iteration.) -/
theorem C01_lr_halts (g : Grammar) (t : Tables) (cert : Cert) (rc : LRX.XCert) (inp : Input)
    (i fuel : Nat)
    (hc : certOk g t cert = true) (hr : LRX.coreRankOk g t cert rc = true)
    (htok : ∀ tk ∈ inp.toks.toList, 0 < tk.sym ∧ tk.sym < (t.nTerms : Int))
    (hi : i < g.inputs.size)
    (hfuel : (inp.toks.size + 1) * (4 * t.nStates + 12 + rc.weight) ≤ fuel) :
    (run t inp i fuel).1 ≠ Result.fuel := by
  have hcf := certFacts hc
  have hrf : LRX.RankFacts g (coreX t) cert rc := LRX.rankFacts hr
  unfold run
  cases hfin : t.finalStates[i]? with
  | none => exact fun h => nomatch h
  | some fin =>
    simp only
    have h0 := psi_init hcf hrf htok hi
    unfold rankW at h0
    have hfi : fin = LRX.finOf (coreX t) i := by
      unfold LRX.finOf coreX; simp only; rw [hfin]; rfl
    exact runLoop_halts hcf hrf htok hi fin hfi fuel _ (inv_init g t i inp) (by omega)

private def exRC : LRX.XCert :=
  { weight := 1, rank := #[#[#[0, 0, 0, 1, 2, 0], #[0, 0, 0, 0, 0, 0], #[0, 0, 0, 0, 0, 0], #[0, 0, 0, 0, 0, 0], #[0, 0, 0, 0, 0, 0]]] }

/-- non-vacuity: the rank certificate of the tables above checks; the bound for the three-token
input is 4 · 37 = 148 iterations -/
example : LRX.coreRankOk exG exT exCert exRC = true ∧
    (exInp.toks.size + 1) * (4 * exT.nStates + 12 + exRC.weight) = 148 := by decide +kernel

example : (run exT exInp 0 148).1 ≠ Result.fuel :=
  C01_lr_halts exG exT exCert exRC exInp 0 148 (by decide +kernel) (by decide +kernel)
    (by decide +kernel) (by decide +kernel) (by decide +kernel)

/-- Every reduction the loop performs is justified: in every configuration reachable from the
initial one (`Reach`, any number of `step`s), if the decoded action is "reduce `r`" then `r` is a
rule of the grammar, its right-hand side lies on top of the stack (so the pop cannot underflow),
and the popped entries derive a terminal string `v` which is a suffix of the tokens shifted so
far. -/
theorem C01_lr_reductions_derive (g : Grammar) (t : Tables) (cert : Cert) (inp : Input) (i : Nat)
    (c c1 : Cfg) (r : Int)
    (hc : certOk g t cert = true)
    (htok : ∀ tk ∈ inp.toks.toList, 0 < tk.sym ∧ tk.sym < (t.nTerms : Int))
    (hi : i < g.inputs.size)
    (hreach : Reach t inp i c)
    (hd : decode t inp c = some (c1, .reduce r)) :
    ∃ rule v, 0 ≤ r ∧ g.rules[r.toNat]? = some rule ∧ rule.rhs.length < c1.stack.length ∧
      (c1.stack.take rule.rhs.length).map (·.sym) = rule.rhs.reverse.map Int.ofNat ∧
      DerivesSeq g rule.rhs v ∧
      v <:+ (List.range (nshift c1.evs)).map (fun j => (inp.tok j).sym.toNat) := by
  have hcf := certFacts hc
  obtain ⟨s, syms, hstk, hst, hn⟩ := reach_inv hcf htok hi hreach
  have h0 : 0 < t.nTerms := by
    have := (wfFacts hcf.wf).nTermsPos; have := hcf.nTerms; omega
  obtain ⟨e1, _, e3, _, hact⟩ :=
    decode_spec hcf htok h0 c c1 _ s _ (hstk.lt hcf hi) hst hn hd
  have hok : ruleOk g t cert s r = true := by
    rcases hact with ⟨a, _, _, _, _, _, hact⟩ | hact
    · exact hact
    · exact hact
  rw [e1, e3]
  exact reduce_spec hcf hi c.stack s r syms _ hstk hok

/-! Non-vacuity: after shifting `t4 t3 t4` with the tables above the decoded action is "reduce
rule 0", and the theorem shows `4 3 4` on top of the stack. -/
private def exNext (c : Cfg) : Cfg :=
  match step exT exInp c with
  | .cont c' => c'
  | .done _ c' => c'
private def exC1 : Cfg := exNext (initCfg exInp 0)
private def exC2 : Cfg := exNext exC1
private def exC3 : Cfg := exNext exC2
private def exIsCont (c : Cfg) : Bool :=
  match step exT exInp c with
  | .cont _ => true
  | .done _ _ => false
private theorem exNext_spec (c : Cfg) (h : exIsCont c = true) :
    step exT exInp c = .cont (exNext c) := by
  unfold exIsCont at h
  unfold exNext
  split <;> simp_all

example : Reach exT exInp 0 exC3 ∧ (∃ c1, decode exT exInp exC3 = some (c1, .reduce 0)) ∧
    (exC3.stack.take 3).map (·.sym) = [4, 3, 4] := by
  have r1 : Reach exT exInp 0 exC1 := Reach.step _ _ Reach.init (exNext_spec _ (by decide +kernel))
  have r2 : Reach exT exInp 0 exC2 := Reach.step _ _ r1 (exNext_spec _ (by decide +kernel))
  have r3 : Reach exT exInp 0 exC3 := Reach.step _ _ r2 (exNext_spec _ (by decide +kernel))
  have hd : (decode exT exInp exC3).map (·.2) = some (.reduce 0) := by decide +kernel
  refine ⟨r3, ?_, by decide +kernel⟩
  cases h : decode exT exInp exC3 with
  | none => rw [h] at hd; cases hd
  | some p =>
    obtain ⟨c1, a⟩ := p
    rw [h] at hd
    injection hd with hd
    exact ⟨c1, by rw [← hd]⟩

/-! ## Completeness (Jourdan–Pottier–Leroy style certificate `complOk`, Model/LRComplete.lean)

`complOk g t cc = true` (LR(1)-style items per table state, closed under closure/goto, every
complete item's lookahead terminals answered by a reduction, closed nullable/FIRST) is evaluated by
the driver on the REAL `lalr.Tables` of every sampled grammar (certificate computed from the
LALR(1) reference construction). -/
section completeness
open TmVerif.LRComplete

/-- Completeness: for tables with a valid completeness certificate, for every token string
(symbols are terminals other than EOI) and every input `i`: if the whole token string is a
sentence of input `i`, then the runtime model accepts (with enough fuel). For an input without
the end-of-input requirement the run may stop after a shorter prefix — which is a sentence too,
by `C01_lr_sound`. -/
theorem C01_lr_complete (g : Grammar) (t : Tables) (cc : CCert) (inp : Input) (i : Nat)
    (hc : complOk g t cc = true)
    (htok : ∀ tk ∈ inp.toks.toList, 0 < tk.sym ∧ tk.sym < (t.nTerms : Int))
    (hsent : Sentence g i (inp.toks.toList.map (fun tk => tk.sym.toNat))) :
    ∃ fuel c, run t inp i fuel = (Result.accept, c) := by
  have hf := complFacts hc
  obtain ⟨gi, hgi, hD⟩ := hsent
  have hr := reads_take inp inp.toks.size
  rw [List.take_of_length_le (by simp)] at hr
  cases heoi : gi.eoi with
  | true =>
    refine accept_eoi hf htok hgi heoi hD hr ?_
    apply symAt_ge
    simp
  | false => exact accept_noeoi hf htok hgi heoi hD hr

/-- Completeness for inputs without the end-of-input requirement: if SOME prefix of the token
string is a sentence of input `i`, the runtime model accepts. -/
theorem C01_lr_complete_prefix (g : Grammar) (t : Tables) (cc : CCert) (inp : Input) (i n : Nat)
    (gi : GInput) (hc : complOk g t cc = true)
    (htok : ∀ tk ∈ inp.toks.toList, 0 < tk.sym ∧ tk.sym < (t.nTerms : Int))
    (hgi : g.inputs[i]? = some gi) (heoi : gi.eoi = false)
    (hsent : Sentence g i ((inp.toks.toList.take n).map (fun tk => tk.sym.toNat))) :
    ∃ fuel c, run t inp i fuel = (Result.accept, c) := by
  have hf := complFacts hc
  obtain ⟨gi', hgi', hD⟩ := hsent
  rw [hgi] at hgi'
  injection hgi' with e
  subst e
  exact accept_noeoi hf htok hgi heoi hD (reads_take inp n)

/-- Exactly the language: with both certificates, the runtime model accepts (for some fuel) iff
the token string is a sentence (input with end-of-input) resp. has a prefix that is a sentence
(input without). -/
theorem C01_lr_exact (g : Grammar) (t : Tables) (cert : Cert) (cc : CCert) (inp : Input) (i : Nat)
    (gi : GInput) (hs : certOk g t cert = true) (hc : complOk g t cc = true)
    (htok : ∀ tk ∈ inp.toks.toList, 0 < tk.sym ∧ tk.sym < (t.nTerms : Int))
    (hgi : g.inputs[i]? = some gi) :
    (∃ fuel c, run t inp i fuel = (Result.accept, c)) ↔
      if gi.eoi then Sentence g i (inp.toks.toList.map (fun tk => tk.sym.toNat))
      else ∃ n, n ≤ inp.toks.size ∧
        Sentence g i ((inp.toks.toList.take n).map (fun tk => tk.sym.toNat)) := by
  have hi : i < g.inputs.size := by
    rcases Nat.lt_or_ge i g.inputs.size with h | h
    · exact h
    · rw [Array.getElem?_eq_none h] at hgi; cases hgi
  constructor
  · rintro ⟨fuel, c, hrun⟩
    obtain ⟨n, hn, hsent, hall⟩ := C01_lr_sound g t cert inp i fuel c hs htok hi hrun
    cases heoi : gi.eoi with
    | true =>
      have := hall ⟨gi, hgi, heoi⟩
      subst this
      rw [List.take_of_length_le (by simp)] at hsent
      simp only [↓reduceIte]
      exact hsent
    | false =>
      simp only [Bool.false_eq_true, ↓reduceIte]
      exact ⟨n, hn, hsent⟩
  · intro h
    cases heoi : gi.eoi with
    | true =>
      rw [heoi] at h
      simp only [↓reduceIte] at h
      exact C01_lr_complete g t cc inp i hc htok h
    | false =>
      rw [heoi] at h
      simp only [Bool.false_eq_true, ↓reduceIte] at h
      obtain ⟨n, _, hsent⟩ := h
      exact C01_lr_complete_prefix g t cc inp i n gi hc htok hgi heoi hsent

/-! Non-vacuity. (1) The tables `exT` above with the certificate computed by `mkCCert`.
(2) Real tables of `lalr.Compile` for `E: T '+' E | T ; T: '(' E ')' | id ;` (terminals 2 `+`,
3 `(`, 4 `)`, 5 `id`; a lookahead state; taken from a `C01 validate` case of the harness) with the
certificate computed by `mkCCert`: `id + id` is accepted because it is a sentence. -/
private def exCC : CCert :=
  { items := #[[⟨0, 0, 1⟩, ⟨1, 0, 0⟩], [⟨0, 1, 1⟩], [⟨0, 2, 1⟩], [⟨0, 3, 1⟩], [⟨1, 1, 0⟩],
               [⟨1, 2, 0⟩]],
    nullable := [], first := #[0, 0, 0, 0, 0, 16] }

example : complOk exG exT exCC = true := by decide +kernel

private theorem exSent : Sentence exG 0 (exInp.toks.toList.map (fun tk => tk.sym.toNat)) :=
  ⟨⟨5, true⟩, rfl, Derives.rule ⟨5, [4, 3, 4], 0⟩ [4, 3, 4] (by decide)
    (.cons 4 _ [4] _ (.term 4 (by decide)) (.cons 3 _ [3] _ (.term 3 (by decide))
      (.cons 4 _ [4] _ (.term 4 (by decide)) .nil)))⟩

example : ∃ fuel c, run exT exInp 0 fuel = (Result.accept, c) :=
  C01_lr_complete exG exT exCC exInp 0 (by decide +kernel) (by decide +kernel) exSent

private def exG2 : Grammar :=
  { nTerms := 6, nSyms := 8,
    rules := #[⟨6, [7, 2, 6], 0⟩, ⟨6, [7], 0⟩, ⟨7, [3, 6, 4], 0⟩, ⟨7, [5], 0⟩],
    inputs := #[⟨6, true⟩] }
private def exT2 : Tables :=
  { nTerms := 6, action := #[-1,-1,3,-3,-1,-1,2,0,-1,-2], lalr := #[2,-1,0,1,4,1,-1,-2],
    goto_ := #[0,2,2,4,10,12,18,24,30],
    fromTo := #[8,9,3,5,0,1,1,1,5,1,4,6,0,2,1,2,5,2,0,8,1,4,5,7,0,3,1,3,5,3],
    ruleLen := #[3,1,3,1], ruleSymbol := #[6,6,7,7], finalStates := #[9] }
private def exCC2 : CCert :=
  { items := #[[⟨0, 0, 1⟩, ⟨1, 0, 1⟩, ⟨2, 0, 5⟩, ⟨3, 0, 5⟩, ⟨4, 0, 0⟩],
               [⟨0, 0, 16⟩, ⟨1, 0, 16⟩, ⟨2, 0, 20⟩, ⟨2, 1, 21⟩, ⟨3, 0, 20⟩],
               [⟨3, 1, 21⟩], [⟨0, 1, 17⟩, ⟨1, 1, 17⟩], [⟨2, 2, 21⟩],
               [⟨0, 0, 17⟩, ⟨0, 2, 17⟩, ⟨1, 0, 17⟩, ⟨2, 0, 21⟩, ⟨3, 0, 21⟩],
               [⟨2, 3, 21⟩], [⟨0, 3, 17⟩], [⟨4, 1, 0⟩], [⟨4, 2, 0⟩]],
    nullable := [], first := #[0, 0, 0, 0, 0, 0, 40, 40] }
private def exInp2 : Input := { toks := #[⟨5, 0, 1⟩, ⟨2, 1, 2⟩, ⟨5, 2, 3⟩], endOff := 3 }

example : complOk exG2 exT2 exCC2 = true ∧ (mkCCert exG2 exT2).toOption = some exCC2 := by
  refine ⟨by decide +kernel, by decide +kernel⟩

private theorem exT_id : Derives exG2 7 [5] :=
  Derives.rule ⟨7, [5], 0⟩ [5] (by decide) (.cons 5 _ [5] _ (.term 5 (by decide)) .nil)

private theorem exSent2 : Sentence exG2 0 (exInp2.toks.toList.map (fun tk => tk.sym.toNat)) :=
  ⟨⟨6, true⟩, rfl, Derives.rule ⟨6, [7, 2, 6], 0⟩ [5, 2, 5] (by decide)
    (.cons 7 _ [5] _ exT_id (.cons 2 _ [2] _ (.term 2 (by decide))
      (.cons 6 _ [5] _ (Derives.rule ⟨6, [7], 0⟩ [5] (by decide) (.cons 7 _ [5] _ exT_id .nil))
        .nil)))⟩

example : ∃ fuel c, run exT2 exInp2 0 fuel = (Result.accept, c) :=
  C01_lr_complete exG2 exT2 exCC2 exInp2 0 (by decide +kernel) (by decide +kernel) exSent2

/-- the incomplete tables are rejected: the same tables with the reduction `T → id .` removed from
state 2 (`action[2] := -2`) fail condition (R). -/
example : complOk exG2 { exT2 with action := #[-1,-1,-2,-3,-1,-1,2,0,-1,-2] } exCC2 = false := by
  decide +kernel

end completeness

/-! ## Error position (viable-prefix certificate `viableOk`, Model/LRViable.lean)

`viableOk g t vc = true` (ordered LR(0) items per table state: start items, kernel items with their
predecessors along every relevant transition, closure items justified by earlier items, complete
items where the state reduces; plus a productivity witness for every nonterminal) is evaluated by
the driver on the REAL `lalr.Tables` of every sampled grammar, together with the two other
certificates. -/
section errorPosition
open TmVerif.LRComplete TmVerif.LRViable

/-- Error position: for tables passing the three certificate checks, if the runtime model stops
with a syntax error after `k` shifts (`k = nshift c.evs`), then
(a) `k` tokens of the text were shifted (`k ≤ |w|`) and the reported range is that of token `k`
    (the end-of-input token at `endOff` when `k = |w|`);
(b) the consumed prefix `w[0..k)` is a prefix of a sentence of input `i`;
(c) with the offending token it is not: no sentence starts with `w[0..k]` (when `k < |w|`), and
    `w` itself is not a sentence (in particular when `k = |w|`).
Holds for inputs with and without the end-of-input requirement. -/
theorem C01_lr_error_position (g : Grammar) (t : Tables) (cert : Cert) (cc : CCert) (vc : VCert)
    (inp : Input) (i fuel off endo : Nat) (c : Cfg)
    (hs : certOk g t cert = true) (hc : complOk g t cc = true) (hv : viableOk g t vc = true)
    (htok : ∀ tk ∈ inp.toks.toList, 0 < tk.sym ∧ tk.sym < (t.nTerms : Int))
    (hi : i < g.inputs.size)
    (hrun : run t inp i fuel = (Result.syntaxError off endo, c)) :
    nshift c.evs ≤ (inp.toks.toList.map (fun tk => tk.sym.toNat)).length ∧
    off = (inp.tok (nshift c.evs)).off ∧ endo = (inp.tok (nshift c.evs)).endo ∧
    (∃ z, Sentence g i ((inp.toks.toList.map (fun tk => tk.sym.toNat)).take (nshift c.evs) ++ z)) ∧
    (nshift c.evs < (inp.toks.toList.map (fun tk => tk.sym.toNat)).length →
      ¬ ∃ z, Sentence g i
        ((inp.toks.toList.map (fun tk => tk.sym.toNat)).take (nshift c.evs + 1) ++ z)) ∧
    ¬ Sentence g i (inp.toks.toList.map (fun tk => tk.sym.toNat)) := by
  have hcf := certFacts hs
  have hf := complFacts hc
  have hvf := viableFacts hv
  have hns : ¬ Sentence g i (word inp) := err_not_sentence hf htok hrun
  have hext : nshift c.evs < inp.toks.size →
      ¬ ∃ z, Sentence g i ((word inp).take (nshift c.evs + 1) ++ z) :=
    err_not_extension hcf hf htok hi hrun
  have hgi : g.inputs[i]? = some g.inputs[i] := Array.getElem?_eq_getElem hi
  have hrun' := hrun
  unfold run at hrun'
  cases hfin : t.finalStates[i]? with
  | none => rw [hfin] at hrun'; cases hrun'
  | some fin =>
    rw [hfin] at hrun'
    simp only at hrun'
    obtain ⟨c0, hinv0, _, hk, hoff, hendo⟩ :=
      runLoop_err hcf hvf htok hi fin fuel _ c off endo (vinv_init g t vc i inp) hrun'
    have hpre := vinv_prefix hcf hvf hi c0 hinv0
    rw [← hk] at hpre hoff hendo
    obtain ⟨hle, hz⟩ := prefix_sentence (wfFacts hcf.wf) hgi htok hpre hns
    have hlen : (inp.toks.toList.map (fun tk => tk.sym.toNat)).length = inp.toks.size :=
      word_length inp
    exact ⟨by rw [hlen]; exact hle, hoff, hendo, hz, fun h => hext (by rw [← hlen]; exact h), hns⟩

/-! Non-vacuity: the real tables `exT2` of `E: T '+' E | T ; T: '(' E ')' | id ;` with the three
certificates (`exVC2` computed by `mkVCert`); on `id + )` the model reports the error at token 2
(offsets 2..3), and the theorem yields that `id +` is a prefix of a sentence while nothing starting
with `id + )` is one. -/
private def exCert2 : Cert :=
  { past := #[[], [3], [5], [7], [6, 3], [2, 7], [4, 6, 3], [6, 2, 7], [6], [0, 6]],
    reach := #[[9, 7, 6, 5, 4, 3, 8, 2, 1, 0]] }
private def exVC2 : VCert :=
  { items := #[[(4, 0), (0, 0), (1, 0), (2, 0), (3, 0)], [(2, 1), (0, 0), (1, 0), (2, 0), (3, 0)],
               [(3, 1)], [(0, 1), (1, 1)], [(2, 2)], [(0, 2), (0, 0), (1, 0), (2, 0), (3, 0)],
               [(2, 3)], [(0, 3)], [(4, 1)], [(4, 2)]],
    order := [7, 6] }
private def exInp3 : Input := { toks := #[⟨5, 0, 1⟩, ⟨2, 1, 2⟩, ⟨4, 2, 3⟩], endOff := 3 }

example : certOk exG2 exT2 exCert2 = true ∧ viableOk exG2 exT2 exVC2 = true ∧
    (mkVCert exG2 exT2).toOption = some exVC2 ∧
    (run exT2 exInp3 0 30).1 = Result.syntaxError 2 3 ∧ nshift (run exT2 exInp3 0 30).2.evs = 2 := by
  refine ⟨by decide +kernel, by decide +kernel, by decide +kernel, by decide +kernel,
    by decide +kernel⟩

example : (∃ z, Sentence exG2 0 ([5, 2] ++ z)) ∧ ¬ ∃ z, Sentence exG2 0 ([5, 2, 4] ++ z) := by
  have h := C01_lr_error_position exG2 exT2 exCert2 exCC2 exVC2 exInp3 0 30 2 3
    (run exT2 exInp3 0 30).2 (by decide +kernel) (by decide +kernel) (by decide +kernel)
    (by decide +kernel) (by decide +kernel) (Prod.ext (by decide +kernel) rfl)
  have hk : nshift (run exT2 exInp3 0 30).2.evs = 2 := by decide +kernel
  rw [hk] at h
  exact ⟨h.2.2.2.1, h.2.2.2.2.1 (by decide)⟩

/-- the certificate check rejects an automaton with a transition that nothing justifies: the same
tables with the goto of state 0 on `T` redirected to state 2 fail condition (K). -/
example : viableOk exG2
    { exT2 with fromTo := #[8,9,3,5,0,1,1,1,5,1,4,6,0,2,1,2,5,2,0,8,1,4,5,7,0,2,1,3,5,3] }
    exVC2 = false := by decide +kernel

/-! ### The hypothesis "every nonterminal is productive" is needed

`S: a | b X ; X: X c ;` (terminals 2 `a`, 3 `b`, 4 `c`; `X` derives no terminal string) is
conflict-free; the REAL compiler accepts it (harness start-up probe, token
`[C01-unproductive-error-position]`) and these are its tables. Both other certificates hold; on
`b` the parser shifts `b` and reports the error at token 1, although no sentence starts with `b`:
clause (b) fails, and no viable-prefix certificate exists for these tables. -/
private def wG : Grammar :=
  { nTerms := 5, nSyms := 7, rules := #[⟨5, [2], 0⟩, ⟨5, [3, 6], 0⟩, ⟨6, [6, 4], 0⟩],
    inputs := #[⟨5, true⟩] }
private def wT : Tables :=
  { nTerms := 5, action := #[-1,0,-1,-3,2,-1,-2], lalr := #[4,-1,0,1,-1,-2],
    goto_ := #[0,2,2,4,6,8,10,12], fromTo := #[5,6,0,1,0,2,3,4,0,5,2,3],
    ruleLen := #[1,2,2], ruleSymbol := #[5,5,6], finalStates := #[6] }
private def wCert : Cert :=
  { past := #[[], [2], [3], [6, 3], [4, 6, 3], [5], [0, 5]], reach := #[[6, 4, 3, 5, 2, 1, 0]] }
private def wCC : CCert :=
  { items := #[[⟨0, 0, 1⟩, ⟨1, 0, 1⟩, ⟨3, 0, 0⟩], [⟨0, 1, 1⟩], [⟨1, 1, 1⟩, ⟨2, 0, 17⟩],
               [⟨1, 2, 1⟩, ⟨2, 1, 17⟩], [⟨2, 2, 17⟩], [⟨3, 1, 0⟩], [⟨3, 2, 0⟩]],
    nullable := [], first := #[0, 0, 0, 0, 0, 12, 0] }
private def wInp : Input := { toks := #[⟨3, 0, 1⟩], endOff := 1 }

private theorem wG_rules {r : Rule} (h : r ∈ wG.rules.toList) :
    r = ⟨5, [2], 0⟩ ∨ r = ⟨5, [3, 6], 0⟩ ∨ r = ⟨6, [6, 4], 0⟩ := by
  simpa [wG] using h

mutual
private theorem wX_empty : ∀ {Y : Nat} {v : List Nat}, Derives wG Y v → Y = 6 → False
  | _, _, .term a ha, h => by
    have : wG.nTerms = 5 := rfl
    omega
  | _, _, .rule r w hm hs, h => by
    rcases wG_rules hm with e | e | e
    · rw [e] at h; cases h
    · rw [e] at h; cases h
    · exact wXseq_empty hs (by rw [e])
private theorem wXseq_empty : ∀ {α v : List Nat}, DerivesSeq wG α v →
    ∀ {rest : List Nat}, α = 6 :: rest → False
  | _, _, .nil, _, h => by cases h
  | _, _, .cons X α u v hX hα, _, h => by
    injection h with h1 _
    exact wX_empty hX h1
end

private theorem w_no_b (z : List Nat) : ¬ Sentence wG 0 (3 :: z) := by
  rintro ⟨gi, hgi, hD⟩
  have hg : gi = ⟨5, true⟩ := by
    have : wG.inputs[0]? = some ⟨5, true⟩ := rfl
    rw [this] at hgi
    injection hgi with h
    exact h.symm
  subst hg
  rcases derives_inv hD with ⟨h, _⟩ | ⟨r, hm, hl, hs⟩
  · exact absurd h (by decide)
  · rcases wG_rules hm with e | e | e
    · rw [e] at hs
      obtain ⟨u, v, hw, hX, _⟩ := derivesSeq_cons_inv hs
      rcases derives_inv hX with ⟨_, hu⟩ | ⟨r', hm', hl', _⟩
      · rw [hu] at hw
        injection hw with h1 _
        cases h1
      · rcases wG_rules hm' with e' | e' | e' <;> rw [e'] at hl' <;> cases hl'
    · rw [e] at hs
      obtain ⟨u, v, _, _, hrest⟩ := derivesSeq_cons_inv hs
      exact wXseq_empty hrest rfl
    · rw [e] at hl; cases hl

/-- Without productivity the error-position clause is false, of the real tables: both other
certificates hold, the run on `b` stops with a syntax error after shifting one token, yet no
sentence starts with `b` — and consequently no viable-prefix certificate passes the check. -/
theorem C01_error_position_unproductive_fails :
    ∃ (g : Grammar) (t : Tables) (cert : Cert) (cc : CCert) (inp : Input) (off endo : Nat)
      (c : Cfg),
      certOk g t cert = true ∧ complOk g t cc = true ∧
      (∀ tk ∈ inp.toks.toList, 0 < tk.sym ∧ tk.sym < (t.nTerms : Int)) ∧
      run t inp 0 20 = (Result.syntaxError off endo, c) ∧ nshift c.evs = 1 ∧
      (¬ ∃ z, Sentence g 0
        ((inp.toks.toList.map (fun tk => tk.sym.toNat)).take (nshift c.evs) ++ z)) ∧
      ∀ vc : VCert, viableOk g t vc = false := by
  have hk : nshift (run wT wInp 0 20).2.evs = 1 := by decide +kernel
  have hrun : run wT wInp 0 20 = (Result.syntaxError 1 1, (run wT wInp 0 20).2) :=
    Prod.ext (by decide +kernel) rfl
  have hno : ¬ ∃ z, Sentence wG 0
      ((wInp.toks.toList.map (fun tk => tk.sym.toNat)).take
        (nshift (run wT wInp 0 20).2.evs) ++ z) := by
    rw [hk]
    rintro ⟨z, hz⟩
    exact w_no_b z hz
  refine ⟨wG, wT, wCert, wCC, wInp, 1, 1, (run wT wInp 0 20).2, by decide +kernel,
    by decide +kernel, by decide +kernel, hrun, hk, hno, ?_⟩
  intro vc
  cases hv : viableOk wG wT vc with
  | false => rfl
  | true =>
    exact absurd (C01_lr_error_position wG wT wCert wCC vc wInp 0 20 1 1 _ (by decide +kernel)
      (by decide +kernel) hv (by decide +kernel) (by decide +kernel) hrun).2.2.2.1 hno

end errorPosition

end TmVerif.LRSound
