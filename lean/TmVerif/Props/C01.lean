import TmVerif.Proofs.LRSoundAccept
/-!
C01 — soundness of the table-driven LR parser runtime (`gen/templates/go_parser.go.tmpl`, model
`TmVerif.LR.run`) with respect to the decidable certificate check `certOk` (Model/LRSound.lean),
which the driver evaluates on the REAL `lalr.Tables` of every sampled grammar.

Whenever `certOk g t cert = true`, every run of the runtime model on tables `t` that ends in
`accept` has consumed a prefix of the token string that is a sentence of the chosen input symbol
(`CFG.Sentence`), and for an input with the end-of-input requirement the whole string.
-/
namespace TmVerif.LRSound
open TmVerif.LR TmVerif.CFG

/-- Soundness: for certified tables, for every token string (symbols are terminals other than
EOI), every input `i`, every fuel: if the runtime model accepts, then the consumed prefix
(`n` tokens) is a sentence of input `i`; if the input requires end-of-input, `n` is the whole
string. -/
theorem C01_lr_sound (g : Grammar) (t : Tables) (cert : Cert) (inp : Input) (i fuel : Nat) (c : Cfg)
    (hc : certOk g t cert = true)
    (htok : ∀ tk ∈ inp.toks.toList, 0 < tk.sym ∧ tk.sym < (t.nTerms : Int))
    (hi : i < g.inputs.size)
    (hrun : run t inp i fuel = (Result.accept, c)) :
    ∃ n, n ≤ inp.toks.size ∧
      Sentence g i ((inp.toks.toList.take n).map (fun tk => tk.sym.toNat)) ∧
      ((∃ gi, g.inputs[i]? = some gi ∧ gi.eoi = true) → n = inp.toks.size) := by
  have hcf := certFacts hc
  unfold run at hrun
  cases hfin : t.finalStates[i]? with
  | none => rw [hfin] at hrun; cases hrun
  | some fin =>
    rw [hfin] at hrun
    simp only at hrun
    obtain ⟨⟨s, syms, hstk, hst, _⟩, hfs⟩ :=
      runLoop_accept hcf htok hi fin fuel _ c (inv_init g t i inp) hrun
    obtain ⟨gi, u, hgi, hD, hcase⟩ := final_yield hcf hi hstk fin hfin (by rw [← hst, hfs])
    have hwf := wfFacts hcf.wf
    have hgim : gi ∈ g.inputs.toList := by
      rw [Array.mem_toList_iff]; exact Array.mem_of_getElem? hgi
    have hu0 : 0 ∉ u :=
      derives_no_zero hwf hD (by have := (hwf.inputs gi hgim).1; have := hwf.nTermsPos; omega)
    rcases hcase with ⟨he, hw⟩ | ⟨he, hw⟩
    · refine ⟨inp.toks.size, Nat.le_refl _, ⟨gi, hgi, ?_⟩, fun _ => rfl⟩
      rw [← consumed_eoi htok _ u hw hu0]; exact hD
    · have hm := consumed_no_zero (nshift c.evs) (by rw [hw]; exact hu0)
      refine ⟨nshift c.evs, hm, ⟨gi, hgi, ?_⟩, ?_⟩
      · rw [← consumed_le inp _ hm, hw]; exact hD
      · rintro ⟨gi', hgi', he'⟩
        rw [hgi] at hgi'
        injection hgi' with e
        subst e
        rw [he] at he'
        cases he'

/-- Every reduction the loop performs is justified: in every configuration reachable from the
initial one (`Reach`, any number of `step`s), if the decoded action is "reduce `r`" then `r` is a
rule of the grammar, its right-hand side lies on top of the stack (so the pop cannot underflow),
and the popped entries derive a terminal string `v` which is a suffix of the tokens shifted so
far. -/
theorem C01_lr_reductions_derive (g : Grammar) (t : Tables) (cert : Cert) (inp : Input) (i : Nat)
    (c c1 : Cfg) (r : Int)
    (hc : certOk g t cert = true)
    (htok : ∀ tk ∈ inp.toks.toList, 0 < tk.sym ∧ tk.sym < (t.nTerms : Int))
    (hi : i < g.inputs.size)
    (hreach : Reach t inp i c)
    (hd : decode t inp c = some (c1, .reduce r)) :
    ∃ rule v, 0 ≤ r ∧ g.rules[r.toNat]? = some rule ∧ rule.rhs.length < c1.stack.length ∧
      (c1.stack.take rule.rhs.length).map (·.sym) = rule.rhs.reverse.map Int.ofNat ∧
      DerivesSeq g rule.rhs v ∧
      v <:+ (List.range (nshift c1.evs)).map (fun j => (inp.tok j).sym.toNat) := by
  have hcf := certFacts hc
  obtain ⟨s, syms, hstk, hst, hn⟩ := reach_inv hcf htok hi hreach
  have h0 : 0 < t.nTerms := by
    have := (wfFacts hcf.wf).nTermsPos; have := hcf.nTerms; omega
  obtain ⟨e1, _, e3, _, hact⟩ :=
    decode_spec hcf htok h0 c c1 _ s _ (hstk.lt hcf hi) hst hn hd
  have hok : ruleOk g t cert s r = true := by
    rcases hact with ⟨a, _, _, _, _, _, hact⟩ | hact
    · exact hact
    · exact hact
  rw [e1, e3]
  exact reduce_spec hcf hi c.stack s r syms _ hstk hok

end TmVerif.LRSound
