import TmVerif.Proofs.LRSoundPanic
import TmVerif.Proofs.LRCompleteAccept
/-!
C01 — soundness of the table-driven LR parser runtime (`gen/templates/go_parser.go.tmpl`, model
`TmVerif.LR.run`) with respect to the decidable certificate check `certOk` (Model/LRSound.lean),
which the driver evaluates on the REAL `lalr.Tables` of every sampled grammar.

Whenever `certOk g t cert = true`, every run of the runtime model on tables `t` that ends in
`accept` has consumed a prefix of the token string that is a sentence of the chosen input symbol
(`CFG.Sentence`), and for an input with the end-of-input requirement the whole string.

Completeness (second half of the file): whenever `complOk g t cc = true` (Model/LRComplete.lean,
LR(1)-style item certificate, also evaluated on the real tables), every sentence is accepted
(`C01_lr_complete`, `C01_lr_complete_prefix`); with both certificates the accepted token strings
are exactly the language (`C01_lr_exact`).
-/
namespace TmVerif.LRSound
open TmVerif.LR TmVerif.CFG

/-- Soundness: for certified tables, for every token string (symbols are terminals other than
EOI), every input `i`, every fuel: if the runtime model accepts, then the consumed prefix
(`n` tokens) is a sentence of input `i`; if the input requires end-of-input, `n` is the whole
string. -/
theorem C01_lr_sound (g : Grammar) (t : Tables) (cert : Cert) (inp : Input) (i fuel : Nat) (c : Cfg)
    (hc : certOk g t cert = true)
    (htok : ∀ tk ∈ inp.toks.toList, 0 < tk.sym ∧ tk.sym < (t.nTerms : Int))
    (hi : i < g.inputs.size)
    (hrun : run t inp i fuel = (Result.accept, c)) :
    ∃ n, n ≤ inp.toks.size ∧
      Sentence g i ((inp.toks.toList.take n).map (fun tk => tk.sym.toNat)) ∧
      ((∃ gi, g.inputs[i]? = some gi ∧ gi.eoi = true) → n = inp.toks.size) := by
  have hcf := certFacts hc
  unfold run at hrun
  cases hfin : t.finalStates[i]? with
  | none => rw [hfin] at hrun; cases hrun
  | some fin =>
    rw [hfin] at hrun
    simp only at hrun
    obtain ⟨⟨s, syms, hstk, hst, _⟩, hfs⟩ :=
      runLoop_accept hcf htok hi fin fuel _ c (inv_init g t i inp) hrun
    obtain ⟨gi, u, hgi, hD, hcase⟩ := final_yield hcf hi hstk fin hfin (by rw [← hst, hfs])
    have hwf := wfFacts hcf.wf
    have hgim : gi ∈ g.inputs.toList := by
      rw [Array.mem_toList_iff]; exact Array.mem_of_getElem? hgi
    have hu0 : 0 ∉ u :=
      derives_no_zero hwf hD (by have := (hwf.inputs gi hgim).1; have := hwf.nTermsPos; omega)
    rcases hcase with ⟨he, hw⟩ | ⟨he, hw⟩
    · refine ⟨inp.toks.size, Nat.le_refl _, ⟨gi, hgi, ?_⟩, fun _ => rfl⟩
      rw [← consumed_eoi htok _ u hw hu0]; exact hD
    · have hm := consumed_no_zero (nshift c.evs) (by rw [hw]; exact hu0)
      refine ⟨nshift c.evs, hm, ⟨gi, hgi, ?_⟩, ?_⟩
      · rw [← consumed_le inp _ hm, hw]; exact hD
      · rintro ⟨gi', hgi', he'⟩
        rw [hgi] at hgi'
        injection hgi' with e
        subst e
        rw [he] at he'
        cases he'

/-! Non-vacuity: real tables of `lalr.Compile` for the grammar `S: t4 t3 t4 ;` (5 terminals, one
nonterminal, input `S` with end-of-input; taken from a `C01 validate` case of the harness). All
hypotheses hold, the model accepts `t4 t3 t4`, and the theorem yields the sentence. -/
private def exG : Grammar :=
  { nTerms := 5, nSyms := 6, rules := #[⟨5, [4, 3, 4], 0⟩], inputs := #[⟨5, true⟩] }
private def exT : Tables :=
  { nTerms := 5, action := #[-1,-1,-1,0,-1,-2], lalr := #[], goto_ := #[0,2,2,2,4,8,10], fromTo := #[4,5,1,2,0,1,2,3,0,4], ruleLen := #[3], ruleSymbol := #[5], finalStates := #[5] }
private def exCert : Cert :=
  { past := #[[], [4], [3, 4], [4, 3, 4], [5], [0, 5]], reach := #[[0, 1, 2, 3, 4, 5]] }
private def exInp : Input := { toks := #[⟨4, 0, 1⟩, ⟨3, 1, 2⟩, ⟨4, 2, 3⟩], endOff := 3 }

example : certOk exG exT exCert = true ∧
    (∀ tk ∈ exInp.toks.toList, 0 < tk.sym ∧ tk.sym < (exT.nTerms : Int)) ∧
    0 < exG.inputs.size ∧ (run exT exInp 0 20).1 = Result.accept ∧
    Reach exT exInp 0 (initCfg exInp 0) := by
  refine ⟨by decide +kernel, by decide +kernel, by decide +kernel, by decide +kernel, Reach.init⟩

example : Sentence exG 0 [4, 3, 4] := by
  obtain ⟨n, _, h, hn⟩ := C01_lr_sound exG exT exCert exInp 0 20 (run exT exInp 0 20).2
    (by decide +kernel) (by decide +kernel) (by decide +kernel)
    (Prod.ext (by decide +kernel) rfl)
  rw [hn ⟨⟨5, true⟩, rfl, rfl⟩] at h
  exact h

/-- For certified tables the runtime model never panics: no index or slice expression of the
generated parser loop (`tmAction[state]`, `tmLalr[..]`, `tmRuleLen[rule]`, `stack[len-ln:]`,
`tmGoto[..]`, …) is out of range, on any token string and with any fuel. -/
theorem C01_lr_no_panic (g : Grammar) (t : Tables) (cert : Cert) (inp : Input) (i fuel : Nat)
    (hc : certOk g t cert = true)
    (htok : ∀ tk ∈ inp.toks.toList, 0 < tk.sym ∧ tk.sym < (t.nTerms : Int))
    (hi : i < g.inputs.size) :
    (run t inp i fuel).1 ≠ Result.panic := by
  have hcf := certFacts hc
  unfold run
  cases hfin : t.finalStates[i]? with
  | none =>
    have := hcf.fin
    have hlt : i < t.finalStates.size := by omega
    rw [Array.getElem?_eq_getElem hlt] at hfin
    cases hfin
  | some fin =>
    simp only
    intro h
    exact runLoop_no_panic hcf htok hi fin fuel _ _ (inv_init g t i inp) (Prod.ext h rfl)

example : (run exT exInp 0 20).1 ≠ Result.panic :=
  C01_lr_no_panic exG exT exCert exInp 0 20 (by decide +kernel) (by decide +kernel)
    (by decide +kernel)

/-- Every reduction the loop performs is justified: in every configuration reachable from the
initial one (`Reach`, any number of `step`s), if the decoded action is "reduce `r`" then `r` is a
rule of the grammar, its right-hand side lies on top of the stack (so the pop cannot underflow),
and the popped entries derive a terminal string `v` which is a suffix of the tokens shifted so
far. -/
theorem C01_lr_reductions_derive (g : Grammar) (t : Tables) (cert : Cert) (inp : Input) (i : Nat)
    (c c1 : Cfg) (r : Int)
    (hc : certOk g t cert = true)
    (htok : ∀ tk ∈ inp.toks.toList, 0 < tk.sym ∧ tk.sym < (t.nTerms : Int))
    (hi : i < g.inputs.size)
    (hreach : Reach t inp i c)
    (hd : decode t inp c = some (c1, .reduce r)) :
    ∃ rule v, 0 ≤ r ∧ g.rules[r.toNat]? = some rule ∧ rule.rhs.length < c1.stack.length ∧
      (c1.stack.take rule.rhs.length).map (·.sym) = rule.rhs.reverse.map Int.ofNat ∧
      DerivesSeq g rule.rhs v ∧
      v <:+ (List.range (nshift c1.evs)).map (fun j => (inp.tok j).sym.toNat) := by
  have hcf := certFacts hc
  obtain ⟨s, syms, hstk, hst, hn⟩ := reach_inv hcf htok hi hreach
  have h0 : 0 < t.nTerms := by
    have := (wfFacts hcf.wf).nTermsPos; have := hcf.nTerms; omega
  obtain ⟨e1, _, e3, _, hact⟩ :=
    decode_spec hcf htok h0 c c1 _ s _ (hstk.lt hcf hi) hst hn hd
  have hok : ruleOk g t cert s r = true := by
    rcases hact with ⟨a, _, _, _, _, _, hact⟩ | hact
    · exact hact
    · exact hact
  rw [e1, e3]
  exact reduce_spec hcf hi c.stack s r syms _ hstk hok

/-! Non-vacuity: after shifting `t4 t3 t4` with the tables above the decoded action is "reduce
rule 0", and the theorem shows `4 3 4` on top of the stack. -/
private def exNext (c : Cfg) : Cfg :=
  match step exT exInp c with
  | .cont c' => c'
  | .done _ c' => c'
private def exC1 : Cfg := exNext (initCfg exInp 0)
private def exC2 : Cfg := exNext exC1
private def exC3 : Cfg := exNext exC2
private def exIsCont (c : Cfg) : Bool :=
  match step exT exInp c with
  | .cont _ => true
  | .done _ _ => false
private theorem exNext_spec (c : Cfg) (h : exIsCont c = true) :
    step exT exInp c = .cont (exNext c) := by
  unfold exIsCont at h
  unfold exNext
  split <;> simp_all

example : Reach exT exInp 0 exC3 ∧ (∃ c1, decode exT exInp exC3 = some (c1, .reduce 0)) ∧
    (exC3.stack.take 3).map (·.sym) = [4, 3, 4] := by
  have r1 : Reach exT exInp 0 exC1 := Reach.step _ _ Reach.init (exNext_spec _ (by decide +kernel))
  have r2 : Reach exT exInp 0 exC2 := Reach.step _ _ r1 (exNext_spec _ (by decide +kernel))
  have r3 : Reach exT exInp 0 exC3 := Reach.step _ _ r2 (exNext_spec _ (by decide +kernel))
  have hd : (decode exT exInp exC3).map (·.2) = some (.reduce 0) := by decide +kernel
  refine ⟨r3, ?_, by decide +kernel⟩
  cases h : decode exT exInp exC3 with
  | none => rw [h] at hd; cases hd
  | some p =>
    obtain ⟨c1, a⟩ := p
    rw [h] at hd
    injection hd with hd
    exact ⟨c1, by rw [← hd]⟩

/-! ## Completeness (Jourdan–Pottier–Leroy style certificate `complOk`, Model/LRComplete.lean)

`complOk g t cc = true` (LR(1)-style items per table state, closed under closure/goto, every
complete item's lookahead terminals answered by a reduction, closed nullable/FIRST) is evaluated by
the driver on the REAL `lalr.Tables` of every sampled grammar (certificate computed from the
LALR(1) reference construction). -/
section completeness
open TmVerif.LRComplete

/-- Completeness: for tables with a valid completeness certificate, for every token string
(symbols are terminals other than EOI) and every input `i`: if the whole token string is a
sentence of input `i`, then the runtime model accepts (with enough fuel). For an input without
the end-of-input requirement the run may stop after a shorter prefix — which is a sentence too,
by `C01_lr_sound`. -/
theorem C01_lr_complete (g : Grammar) (t : Tables) (cc : CCert) (inp : Input) (i : Nat)
    (hc : complOk g t cc = true)
    (htok : ∀ tk ∈ inp.toks.toList, 0 < tk.sym ∧ tk.sym < (t.nTerms : Int))
    (hsent : Sentence g i (inp.toks.toList.map (fun tk => tk.sym.toNat))) :
    ∃ fuel c, run t inp i fuel = (Result.accept, c) := by
  have hf := complFacts hc
  obtain ⟨gi, hgi, hD⟩ := hsent
  have hr := reads_take inp inp.toks.size
  rw [List.take_of_length_le (by simp)] at hr
  cases heoi : gi.eoi with
  | true =>
    refine accept_eoi hf htok hgi heoi hD hr ?_
    apply symAt_ge
    simp
  | false => exact accept_noeoi hf htok hgi heoi hD hr

/-- Completeness for inputs without the end-of-input requirement: if SOME prefix of the token
string is a sentence of input `i`, the runtime model accepts. -/
theorem C01_lr_complete_prefix (g : Grammar) (t : Tables) (cc : CCert) (inp : Input) (i n : Nat)
    (gi : GInput) (hc : complOk g t cc = true)
    (htok : ∀ tk ∈ inp.toks.toList, 0 < tk.sym ∧ tk.sym < (t.nTerms : Int))
    (hgi : g.inputs[i]? = some gi) (heoi : gi.eoi = false)
    (hsent : Sentence g i ((inp.toks.toList.take n).map (fun tk => tk.sym.toNat))) :
    ∃ fuel c, run t inp i fuel = (Result.accept, c) := by
  have hf := complFacts hc
  obtain ⟨gi', hgi', hD⟩ := hsent
  rw [hgi] at hgi'
  injection hgi' with e
  subst e
  exact accept_noeoi hf htok hgi heoi hD (reads_take inp n)

/-- Exactly the language: with both certificates, the runtime model accepts (for some fuel) iff
the token string is a sentence (input with end-of-input) resp. has a prefix that is a sentence
(input without). -/
theorem C01_lr_exact (g : Grammar) (t : Tables) (cert : Cert) (cc : CCert) (inp : Input) (i : Nat)
    (gi : GInput) (hs : certOk g t cert = true) (hc : complOk g t cc = true)
    (htok : ∀ tk ∈ inp.toks.toList, 0 < tk.sym ∧ tk.sym < (t.nTerms : Int))
    (hgi : g.inputs[i]? = some gi) :
    (∃ fuel c, run t inp i fuel = (Result.accept, c)) ↔
      if gi.eoi then Sentence g i (inp.toks.toList.map (fun tk => tk.sym.toNat))
      else ∃ n, n ≤ inp.toks.size ∧
        Sentence g i ((inp.toks.toList.take n).map (fun tk => tk.sym.toNat)) := by
  have hi : i < g.inputs.size := by
    rcases Nat.lt_or_ge i g.inputs.size with h | h
    · exact h
    · rw [Array.getElem?_eq_none h] at hgi; cases hgi
  constructor
  · rintro ⟨fuel, c, hrun⟩
    obtain ⟨n, hn, hsent, hall⟩ := C01_lr_sound g t cert inp i fuel c hs htok hi hrun
    cases heoi : gi.eoi with
    | true =>
      have := hall ⟨gi, hgi, heoi⟩
      subst this
      rw [List.take_of_length_le (by simp)] at hsent
      simp only [↓reduceIte]
      exact hsent
    | false =>
      simp only [Bool.false_eq_true, ↓reduceIte]
      exact ⟨n, hn, hsent⟩
  · intro h
    cases heoi : gi.eoi with
    | true =>
      rw [heoi] at h
      simp only [↓reduceIte] at h
      exact C01_lr_complete g t cc inp i hc htok h
    | false =>
      rw [heoi] at h
      simp only [Bool.false_eq_true, ↓reduceIte] at h
      obtain ⟨n, _, hsent⟩ := h
      exact C01_lr_complete_prefix g t cc inp i n gi hc htok hgi heoi hsent

/-! Non-vacuity. (1) The tables `exT` above with the certificate computed by `mkCCert`.
(2) Real tables of `lalr.Compile` for `E: T '+' E | T ; T: '(' E ')' | id ;` (terminals 2 `+`,
3 `(`, 4 `)`, 5 `id`; a lookahead state; taken from a `C01 validate` case of the harness) with the
certificate computed by `mkCCert`: `id + id` is accepted because it is a sentence. -/
private def exCC : CCert :=
  { items := #[[⟨0, 0, 1⟩, ⟨1, 0, 0⟩], [⟨0, 1, 1⟩], [⟨0, 2, 1⟩], [⟨0, 3, 1⟩], [⟨1, 1, 0⟩],
               [⟨1, 2, 0⟩]],
    nullable := [], first := #[0, 0, 0, 0, 0, 16] }

example : complOk exG exT exCC = true := by decide +kernel

private theorem exSent : Sentence exG 0 (exInp.toks.toList.map (fun tk => tk.sym.toNat)) :=
  ⟨⟨5, true⟩, rfl, Derives.rule ⟨5, [4, 3, 4], 0⟩ [4, 3, 4] (by decide)
    (.cons 4 _ [4] _ (.term 4 (by decide)) (.cons 3 _ [3] _ (.term 3 (by decide))
      (.cons 4 _ [4] _ (.term 4 (by decide)) .nil)))⟩

example : ∃ fuel c, run exT exInp 0 fuel = (Result.accept, c) :=
  C01_lr_complete exG exT exCC exInp 0 (by decide +kernel) (by decide +kernel) exSent

private def exG2 : Grammar :=
  { nTerms := 6, nSyms := 8,
    rules := #[⟨6, [7, 2, 6], 0⟩, ⟨6, [7], 0⟩, ⟨7, [3, 6, 4], 0⟩, ⟨7, [5], 0⟩],
    inputs := #[⟨6, true⟩] }
private def exT2 : Tables :=
  { nTerms := 6, action := #[-1,-1,3,-3,-1,-1,2,0,-1,-2], lalr := #[2,-1,0,1,4,1,-1,-2],
    goto_ := #[0,2,2,4,10,12,18,24,30],
    fromTo := #[8,9,3,5,0,1,1,1,5,1,4,6,0,2,1,2,5,2,0,8,1,4,5,7,0,3,1,3,5,3],
    ruleLen := #[3,1,3,1], ruleSymbol := #[6,6,7,7], finalStates := #[9] }
private def exCC2 : CCert :=
  { items := #[[⟨0, 0, 1⟩, ⟨1, 0, 1⟩, ⟨2, 0, 5⟩, ⟨3, 0, 5⟩, ⟨4, 0, 0⟩],
               [⟨0, 0, 16⟩, ⟨1, 0, 16⟩, ⟨2, 0, 20⟩, ⟨2, 1, 21⟩, ⟨3, 0, 20⟩],
               [⟨3, 1, 21⟩], [⟨0, 1, 17⟩, ⟨1, 1, 17⟩], [⟨2, 2, 21⟩],
               [⟨0, 0, 17⟩, ⟨0, 2, 17⟩, ⟨1, 0, 17⟩, ⟨2, 0, 21⟩, ⟨3, 0, 21⟩],
               [⟨2, 3, 21⟩], [⟨0, 3, 17⟩], [⟨4, 1, 0⟩], [⟨4, 2, 0⟩]],
    nullable := [], first := #[0, 0, 0, 0, 0, 0, 40, 40] }
private def exInp2 : Input := { toks := #[⟨5, 0, 1⟩, ⟨2, 1, 2⟩, ⟨5, 2, 3⟩], endOff := 3 }

example : complOk exG2 exT2 exCC2 = true ∧ (mkCCert exG2 exT2).toOption = some exCC2 := by
  refine ⟨by decide +kernel, by decide +kernel⟩

private theorem exT_id : Derives exG2 7 [5] :=
  Derives.rule ⟨7, [5], 0⟩ [5] (by decide) (.cons 5 _ [5] _ (.term 5 (by decide)) .nil)

private theorem exSent2 : Sentence exG2 0 (exInp2.toks.toList.map (fun tk => tk.sym.toNat)) :=
  ⟨⟨6, true⟩, rfl, Derives.rule ⟨6, [7, 2, 6], 0⟩ [5, 2, 5] (by decide)
    (.cons 7 _ [5] _ exT_id (.cons 2 _ [2] _ (.term 2 (by decide))
      (.cons 6 _ [5] _ (Derives.rule ⟨6, [7], 0⟩ [5] (by decide) (.cons 7 _ [5] _ exT_id .nil))
        .nil)))⟩

example : ∃ fuel c, run exT2 exInp2 0 fuel = (Result.accept, c) :=
  C01_lr_complete exG2 exT2 exCC2 exInp2 0 (by decide +kernel) (by decide +kernel) exSent2

/-- the incomplete tables are rejected: the same tables with the reduction `T → id .` removed from
state 2 (`action[2] := -2`) fail condition (R). -/
example : complOk exG2 { exT2 with action := #[-1,-1,-2,-3,-1,-1,2,0,-1,-2] } exCC2 = false := by
  decide +kernel

end completeness

end TmVerif.LRSound
