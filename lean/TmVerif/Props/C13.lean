import TmVerif.Proofs.ExpandMain
/-!
C13 — Desugaring the extended notation preserves the language (property theorems only).

Model: `TmVerif/Model/Expand.lean` — `Expr` (the kinds of `syntax.Expr`), the denotation `den sets ρ e`
(`⟦e⟧ρ`, a set of terminal strings over an environment `ρ` of symbol languages; `sets i` = the terminals
of token set `i`; lookahead markers / commands / state markers denote `ε`, wrappers their body), and the
executable mirror of `expandExpr` / `extractNonterm` / the list, optional, set and lookahead rules /
rule flattening (`plainRules`, `toGrammar`).

The language an extended grammar denotes, `ExtLang g i`, is the LEAST solution of the system
`N_i ⊇ ⟦e_i⟧` (intersection of all environments closed under it; `C13_extLang_least_solution`).
Derivations of the expanded grammar are `CFG.Derives (toGrammar g)`.

Hypotheses of the sentence theorem, all decidable and checked by the harness on every case
(`wfGrammar`: what `compiler/syntax.go` guarantees — references and set indices in range, separators
are terminal sequences, `%prec` only around a whole rule; `SetsOk`: every set resolves to at least one
terminal, and only to terminals). Non-emptiness is a REAL restriction: `ResolveSets` turns an empty
set into an empty rule, see `C13_empty_set_counterexample`.
-/
namespace TmVerif.Expand
open TmVerif.CFG

/-- `expandExpr` preserves the language: in every environment `ρ` that binds each extracted
nonterminal (old and new) to the language of its defining expression, the union of the languages of
the produced alternatives is `⟦e⟧ρ`. No hypothesis on `e`. -/
theorem C13_expandExpr_lang (cx : Ctx) (curr : String) (ext : List NT) (e : Expr) (ρ : Nat → Lang)
    (hρ : Consistent cx ρ (expandExpr cx curr ext e).2) (w : List Nat) :
    (∃ a ∈ (expandExpr cx curr ext e).1, den cx.sets ρ a w) ↔ den cx.sets ρ e w := by
  have := (expandExpr_spec cx curr e ext).2 ρ hρ
  exact iff_of_eq (congrFun this w)

/-- Non-vacuity of the hypothesis of `C13_expandExpr_lang`: for a well-formed expression and a
well-shaped state such environments exist — any environment extends to one, without changing it on
terminals and user nonterminals. -/
theorem C13_expandExpr_env_exists (cx : Ctx) (curr : String) (ext : List NT) (e : Expr)
    (hw : wfExpr cx.base cx.setTerms.length e = true) (hst : StOk cx ext) (ρ : Nat → Lang) :
    ∃ ρ', Consistent cx ρ' (expandExpr cx curr ext e).2 ∧ ∀ s, s < cx.base → ρ' s = ρ s := by
  have hst' := (expandExpr_inv cx curr e ext hw hst).1
  refine ⟨extendEnv cx ρ (expandExpr cx curr ext e).2 0, ?_, fun s hs => extendEnv_below cx _ ρ 0 s (by omega)⟩
  intro k nt hk
  have := extendEnv_consistent cx (expandExpr cx curr ext e).2 ρ 0
    (fun j nt' h' => by simpa using valOk_refsLt (hst' j nt' h')) k nt hk
  simpa using this

example : StOk { nT := 3, termNames := [], userNames := ["N"], setNames := [], setTerms := [] } [] :=
  StOk.nil _

/-- The list rules define `e (s e)*`: it is the LEAST solution of `L = L·s·e ∪ e` (left-recursive
rules) and of `L = e·s·L ∪ e` (right-recursive rules); `e*` is the least solution of the empty-base
forms `L = L·e ∪ ε` and `L = e·L ∪ ε`, and `e* = (e (ε e)*)?`, the optional of the non-empty form.
("Solution": the right-hand side is included in `L`; together with leastness this gives equality.) -/
theorem C13_list_lfp (E S : Lang) :
    -- left-recursive, non-empty
    (Lang.le E (Lang.sepIter E S) ∧
      Lang.le (Lang.cat (Lang.cat (Lang.sepIter E S) S) E) (Lang.sepIter E S) ∧
      ∀ L, Lang.le E L → Lang.le (Lang.cat (Lang.cat L S) E) L → Lang.le (Lang.sepIter E S) L) ∧
    -- right-recursive, non-empty
    (Lang.le (Lang.cat E (Lang.cat S (Lang.sepIter E S))) (Lang.sepIter E S) ∧
      ∀ L, Lang.le E L → Lang.le (Lang.cat E (Lang.cat S L)) L → Lang.le (Lang.sepIter E S) L) ∧
    -- empty base, left- and right-recursive
    (Lang.le Lang.eps (Lang.star E) ∧ Lang.le (Lang.cat (Lang.star E) E) (Lang.star E) ∧
      Lang.le (Lang.cat E (Lang.star E)) (Lang.star E) ∧
      (∀ L, Lang.le Lang.eps L → Lang.le (Lang.cat L E) L → Lang.le (Lang.star E) L) ∧
      (∀ L, Lang.le Lang.eps L → Lang.le (Lang.cat E L) L → Lang.le (Lang.star E) L)) ∧
    -- the empty-base form is the optional of the non-empty form
    Lang.union (Lang.sepIter E Lang.eps) Lang.eps = Lang.star E :=
  ⟨⟨sepIter_base E S, sepIter_left_closed E S, sepIter_left_least E S⟩,
   ⟨sepIter_right_closed E S, sepIter_right_least E S⟩,
   ⟨star_base E, star_left_closed E, star_right_closed E, star_left_least E, star_right_least E⟩,
   sepIter_eps_union E⟩

/-- The same in terms of the rules `synth` produces: for a list value of the shape `expandExpr`
extracts (`ne` or no separator), the languages of its rules are one unfolding step `listStep`, the
denotation of the list is closed under that step and is below every language closed under it. -/
theorem C13_list_rules_lfp (ne rr : Bool) (E S : Lang) (h : ne = true ∨ S = Lang.eps) :
    Lang.le (listStep ne rr (listDen ne E S) E S) (listDen ne E S) ∧
    ∀ L, Lang.le (listStep ne rr L E S) L → Lang.le (listDen ne E S) L :=
  ⟨list_closed ne rr E S h, fun L => list_least ne rr E S L h⟩

example : (true = true ∨ (Lang.eps : Lang) = Lang.eps) := Or.inl rfl

/-- Reuse of an extracted nonterminal is sound: `extractNonterm` reuses a nonterminal only when
`Expr.Equal` holds, `Expr.Equal` implies equal denotation, and in every consistent environment the
reference `extract` returns denotes `⟦e⟧` (whether reused or new). -/
theorem C13_extract_reuse_sound :
    (∀ (a b : Expr), equal a b = true → ∀ sets ρ, den sets ρ a = den sets ρ b) ∧
    (∀ (cx : Ctx) (curr : String) (ext : List NT) (e : Expr) (ρ : Nat → Lang),
      Consistent cx ρ (extract cx curr ext e).2 →
      den cx.sets ρ (extract cx curr ext e).1 = den cx.sets ρ e) :=
  ⟨fun a b h sets ρ => by rw [equal_eq a b h], fun cx curr ext e ρ h => (extract_spec cx curr ext e).2 ρ h⟩

/-- the environment of the extended semantics itself -/
def extEnv (g : ExtGrammar) : Nat → Lang :=
  fun s => if s < g.cx.nT then (fun w => w = [s]) else ExtLang g (s - g.cx.nT)

/-- `ExtLang` is a solution of the extended system and the least one (Knaster–Tarski; needs only
monotonicity of `⟦·⟧`). -/
theorem C13_extLang_least_solution (g : ExtGrammar) :
    TermEnv g.cx.nT (extEnv g) ∧ PreFix g (extEnv g) ∧
    ∀ ρ, TermEnv g.cx.nT ρ → PreFix g ρ → ∀ i, Lang.le (extEnv g (g.cx.nT + i)) (ρ (g.cx.nT + i)) := by
  have hle : ∀ ρ, TermEnv g.cx.nT ρ → PreFix g ρ → ∀ s, Lang.le (extEnv g s) (ρ s) := by
    intro ρ hρ hp s w hw
    by_cases hs : s < g.cx.nT
    · simp only [extEnv, hs, if_true] at hw
      rw [hρ s hs]; exact hw
    · simp only [extEnv, hs, if_false] at hw
      have := hw ρ hρ hp
      rwa [show g.cx.nT + (s - g.cx.nT) = s by omega] at this
  refine ⟨fun t ht => by simp [extEnv, ht], ?_, fun ρ hρ hp i => hle ρ hρ hp _⟩
  intro i e he w hw
  have : extEnv g (g.cx.nT + i) = ExtLang g i := by
    simp only [extEnv]
    rw [if_neg (by omega), Nat.add_sub_cancel_left]
  rw [this]
  intro ρ hρ hp
  exact hp i e he w (den_mono g.cx.sets (hle ρ hρ hp) e w hw)

/-- Derivations of the expanded grammar ↔ membership in the extended semantics, for every user
nonterminal (inputs included) and every terminal string. Partial: sets must be non-empty. -/
theorem C13_expand_preserves_sentences_partial (g : ExtGrammar) (hwf : wfGrammar g = true)
    (hsets : SetsOk g.cx) (i : Nat) (hi : i < g.cx.nU) (w : List Nat) :
    Derives (toGrammar g) (g.cx.nT + i) w ↔ ExtLang g i w :=
  derives_iff_extLang (facts_of_wf g hwf) hsets hi w

/-- the Bool form of `SetsOk` evaluated by the driver on every case -/
theorem setsOk_of_bool (cx : Ctx) (h : setsOkB cx = true) : SetsOk cx := by
  intro i hi
  simp only [setsOkB, List.all_eq_true, Bool.and_eq_true, Bool.not_eq_true', decide_eq_true_eq] at h
  have hmem : cx.sets i ∈ cx.setTerms := by
    simp only [Ctx.sets]
    rw [List.getD_eq_getElem?_getD, List.getElem?_eq_getElem hi]
    simp
  obtain ⟨h1, h2⟩ := h _ hmem
  exact ⟨by intro h0; rw [h0] at h1; simp at h1, h2⟩

/-- the full statement: the same without the non-emptiness of sets -/
def C13_expand_preserves_sentences_full : Prop :=
  ∀ (g : ExtGrammar), wfGrammar g = true → SetsTerm g.cx → ∀ i, i < g.cx.nU → ∀ w,
    Derives (toGrammar g) (g.cx.nT + i) w ↔ ExtLang g i w

/-- non-vacuity: `N0: ('a' separator 'c')* set('a' | 'c')` satisfies the hypotheses -/
def exampleGrammar : ExtGrammar :=
  { cx := { nT := 3, termNames := ["Eoi", "A", "C"], userNames := ["N0"], setNames := ["setof_A_or_C"],
            setTerms := [[1, 2]] },
    user := [.seq [.list false false (.ref 1) (.ref 2), .set 0]] }

example : wfGrammar exampleGrammar = true ∧ SetsOk exampleGrammar.cx := by
  refine ⟨by decide, ?_⟩
  intro i hi
  have : i = 0 := by simp [exampleGrammar] at hi; omega
  subst this
  simp [Ctx.sets, exampleGrammar]

/-- the witness of the finding: `N0: 'a' set(<empty>) 'c'` over terminals eoi, 'a', 'c' -/
def emptySetGrammar : ExtGrammar :=
  { cx := { nT := 3, termNames := ["Eoi", "A", "C"], userNames := ["N0"], setNames := ["setof_A_C"],
            setTerms := [[]] },
    user := [.seq [.ref 1, .set 0, .ref 2]] }

theorem emptySetGrammar_rules :
    plainRules emptySetGrammar = [{ lhs := 3, rhs := [1, 4, 2] }, { lhs := 4, rhs := [] }] := by
  decide

/-- `[C13-empty-set]`: the full statement is FALSE. With an empty set the expanded grammar derives
`a c` (the set nonterminal got an empty rule), while the notation denotes no string at all. -/
theorem C13_empty_set_counterexample : ¬ C13_expand_preserves_sentences_full := by
  intro h
  have h0 := h emptySetGrammar (by decide)
    (by intro i hi t ht
        have : i = 0 := by simp [emptySetGrammar] at hi; omega
        subst this; simp [Ctx.sets, emptySetGrammar] at ht)
    0 (by decide) [1, 2]
  -- the expanded rules derive `a c`
  have hrules : (toGrammar emptySetGrammar).rules.toList =
      [{ lhs := 3, rhs := [1, 4, 2] }, { lhs := 4, rhs := [] }] := by
    rw [toGrammar_rules]; exact emptySetGrammar_rules
  have hder : Derives (toGrammar emptySetGrammar) (emptySetGrammar.cx.nT + 0) [1, 2] := by
    have h4 : Derives (toGrammar emptySetGrammar) 4 [] :=
      Derives.rule { lhs := 4, rhs := [] } [] (by rw [hrules]; simp) DerivesSeq.nil
    have h1 : Derives (toGrammar emptySetGrammar) 1 [1] := Derives.term 1 (by decide)
    have h2 : Derives (toGrammar emptySetGrammar) 2 [2] := Derives.term 2 (by decide)
    have hs : DerivesSeq (toGrammar emptySetGrammar) [1, 4, 2] ([1] ++ ([] ++ ([2] ++ []))) :=
      DerivesSeq.cons 1 _ _ _ h1 (DerivesSeq.cons 4 _ _ _ h4 (DerivesSeq.cons 2 _ _ _ h2 DerivesSeq.nil))
    exact Derives.rule { lhs := 3, rhs := [1, 4, 2] } _ (by rw [hrules]; simp) hs
  -- but the extended notation denotes nothing: take the environment with empty nonterminals
  have hext := h0.1 hder
  let ρ0 : Nat → Lang := fun s w => s < 3 ∧ w = [s]
  have hterm : TermEnv emptySetGrammar.cx.nT ρ0 := by
    intro t ht
    apply Lang.ext; intro w
    have : t < 3 := ht
    simp [ρ0, this]
  have hpre : PreFix emptySetGrammar ρ0 := by
    intro i e he w hw
    have : i = 0 ∧ e = .seq [.ref 1, .set 0, .ref 2] := by
      cases i with
      | zero => simp [emptySetGrammar] at he; exact ⟨rfl, he.symm⟩
      | succ i => simp [emptySetGrammar] at he
    obtain ⟨rfl, rfl⟩ := this
    simp only [den, denSeq] at hw
    obtain ⟨_, _, _, ⟨_, _, ⟨t, ht, _⟩, _, _⟩, _⟩ := hw
    simp [Ctx.sets, emptySetGrammar] at ht
  have := hext ρ0 hterm hpre
  simp [ρ0, emptySetGrammar] at this

end TmVerif.Expand
