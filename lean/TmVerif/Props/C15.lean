import TmVerif.Proofs.TokenSets
import TmVerif.Proofs.GraphBasic
/-!
C15 — Token sets equal their fixpoint definitions (property theorems only).

The DEFINITION is Model/TokenSets.lean: `rhsMem cx c x u t` — "terminal `t` belongs to the right-hand side
of the equation of the unknown `u` under the assignment `x`, complemented subexpressions being read from
`c`" (the textbook equations for any/first/last/precede/follow over the rules reachable from the first
eoi input, and union/intersection/complement/reference for set expressions); `solve sg = some (cx, x)` —
the assignment the specification computes; `setSpec sg` — the terminals of the top-level set expressions,
or `error` when a complement depends on itself (`complCycle`).

What is proved, for every set grammar:
* `C15_nullable_spec`     the mirror of syntax/nullable.go marks exactly the symbols that derive ε (`CFG.Derives`);
* `C15_setSpec_closed`    every equation holds at the computed assignment (complements read the assignment itself);
* `C15_setSpec_least`     the computed assignment is contained in every assignment that is closed under the
                          equations in which the complemented subexpressions keep the computed values:
                          the least solution, stratum by stratum — complements never read an unfinished set;
* `C15_reachable_spec`    "reachable from the first eoi input" is graph reachability (non-empty paths, verified
                          Warshall closure of C26) from that input's nonterminal;
* `C15_complCycle_spec`   `error` ⇔ some complement's argument mentions an unknown from which the enclosing
                          top-level expression is reachable in the dependency graph of the equations;
* `C15_setSpec_ok` / `C15_setSpec_error`  what the two answers of `setSpec` mean in these terms.
The real `ResolveSets` is compared with `setSpec` on every generated grammar by the check (sets are finite,
the comparison is exact).
-/
namespace TmVerif.TokenSets
open TmVerif.CFG TmVerif.Graph

/-- The mirror of `syntax.Nullable` on an expanded model: a symbol is marked iff it derives the empty
string. (`hlhs`: left-hand sides are nonterminals — true of every compiled grammar, checked by `SG.wfB`.) -/
theorem C15_nullable_spec (g : Grammar) (nl : List Bool) (h : nullable g = some nl)
    (hlhs : ∀ r ∈ g.rules.toList, g.nTerms ≤ r.lhs ∧ r.lhs < g.nSyms) (X : Nat) :
    nl.getD X false = true ↔ Derives g X [] :=
  ⟨nullable_sound h, nullable_complete h (fun r hr => (mem_nonterms g r.lhs).2 (hlhs r hr))⟩

/-- **Closed**: at the computed assignment every unknown equals the right-hand side of its equation. -/
theorem C15_setSpec_closed (sg : SG) (cx : Ctx) (x : State) (h : solve sg = some (cx, x)) (u t : Nat) :
    x.mem u t = true ↔ (u < cx.nU ∧ t < cx.sg.nT ∧ rhsMem cx x x u t = true) := by
  obtain ⟨_, hf, _⟩ := solve_some h
  rw [← mem_F cx x x u t, hf]

/-- **Least**: any assignment `y` that is closed under the equations — with the complemented
subexpressions evaluated at the computed assignment `x` — contains `x`. -/
theorem C15_setSpec_least (sg : SG) (cx : Ctx) (x : State) (h : solve sg = some (cx, x))
    (y : State) (hy : ClosedUnder cx x y) : Le x y := by
  obtain ⟨_, _, n, hn⟩ := solve_some h
  rw [hn]
  rw [← hn]
  have := iter_le_of_closed hy n [] (le_bot y)
  rw [← hn] at this
  exact this

/-- the answer `ok`: the listed sets are the values of the top-level expressions in `solve`, and no
complement depends on itself -/
theorem C15_setSpec_ok (sg : SG) (sets : List (List Nat)) (h : setSpec sg = .ok sets) :
    ∃ cx x, solve sg = some (cx, x) ∧ complCycle cx = false ∧
      sets = (List.range sg.nSets).map fun i => x[cx.vid i]?.getD [] := by
  unfold setSpec at h
  split at h
  · cases h
  · rename_i nl hn
    split at h
    · cases h
    · rename_i hc
      split at h
      · cases h
      · rename_i cx x hs
        obtain ⟨⟨nl', hn', rfl⟩, _⟩ := solve_some hs
        rw [hn] at hn'
        cases hn'
        simp only [Res.ok.injEq] at h
        exact ⟨_, x, hs, by simpa using hc, h.symm⟩

/-- the answer `error` -/
theorem C15_setSpec_error (sg : SG) :
    setSpec sg = .error ↔ ∃ nl, nullable sg.g = some nl ∧ complCycle (mkCtx sg nl) = true := by
  unfold setSpec
  split
  · simp [*]
  · rename_i nl hn
    split
    · rename_i hc; exact ⟨fun _ => ⟨nl, hn, hc⟩, fun _ => rfl⟩
    · rename_i hc
      constructor
      · intro h; split at h <;> cases h
      · rintro ⟨nl', h1, h2⟩
        rw [hn] at h1
        injection h1 with h1
        subst h1
        exact absurd h2 hc

/-! ### reachability and the complement-cycle condition are graph reachability -/

theorem reachGraph_length (sg : SG) : (reachGraph sg).length = sg.nS + sg.nSets := by
  simp [reachGraph, SG.nSets]

theorem reachGraph_wf (sg : SG) : Graph.Wf (reachGraph sg) := by
  rw [← wfB_iff]
  unfold Graph.wfB
  rw [List.all_eq_true]
  intro es hes
  rw [List.all_eq_true]
  intro w hw
  rw [reachGraph_length]
  simp only [decide_eq_true_eq]
  unfold reachGraph at hes
  simp only [List.mem_append, List.mem_map, List.mem_range] at hes
  rcases hes with ⟨s, _, rfl⟩ | ⟨e, _, rfl⟩
  · simp only [List.mem_append, List.mem_filter, decide_eq_true_eq] at hw
    rcases hw with (hw | hw) | hw
    · omega
    · split at hw
      · split at hw
        · simp only [List.mem_singleton] at hw; omega
        · cases hw
      · cases hw
    · omega
  · simp only [List.mem_append, List.mem_filter, decide_eq_true_eq, List.mem_map] at hw
    rcases hw with hw | ⟨i, hi, rfl⟩
    · omega
    · omega

/-- A symbol is reachable iff it is the nonterminal of the first eoi input or there is a non-empty path
to it in `reachGraph` (plain rules lead to the symbols of their right-hand sides, a set nonterminal to its
expression, a lookahead nonterminal to the nonterminals of its predicate, an expression to the symbols and
named sets it mentions). -/
theorem C15_reachable_spec (sg : SG) (s0 : Nat) (hs : sg.start = some s0) (h0 : s0 < sg.nS) (s : Nat) :
    s ∈ reachable sg ↔ s < sg.nS ∧ (s = s0 ∨ Relation.TransGen (Edge (reachGraph sg)) s0 s) := by
  unfold reachable
  rw [hs]
  simp only [List.mem_filter, List.mem_range, Bool.or_eq_true, beq_iff_eq]
  constructor
  · rintro ⟨h1, h2⟩
    refine ⟨h1, ?_⟩
    rcases h2 with h2 | h2
    · exact .inl h2
    · exact .inr ((Matrix.closure_ofGraph _ (reachGraph_wf sg) s0 s (by rw [reachGraph_length]; omega)
        (by rw [reachGraph_length]; omega)).1 h2)
  · rintro ⟨h1, h2⟩
    refine ⟨h1, ?_⟩
    rcases h2 with h2 | h2
    · exact .inl h2
    · exact .inr ((Matrix.closure_ofGraph _ (reachGraph_wf sg) s0 s (by rw [reachGraph_length]; omega)
        (by rw [reachGraph_length]; omega)).2 h2)

theorem depGraph_length (cx : Ctx) : (depGraph cx).length = cx.nU := by simp [depGraph]

theorem depGraph_wf (cx : Ctx) : Graph.Wf (depGraph cx) := by
  rw [← wfB_iff]
  unfold Graph.wfB
  rw [List.all_eq_true]
  intro es hes
  rw [List.all_eq_true]
  intro w hw
  rw [depGraph_length]
  unfold depGraph at hes
  simp only [List.mem_map, List.mem_range] at hes
  obtain ⟨u, _, rfl⟩ := hes
  simp only [List.mem_filter, decide_eq_true_eq] at hw
  simpa using hw.2

/-- **`error` ⇔ a complement depends on itself**: for some top-level expression `i`, some complement
occurrence inside it has an argument mentioning an unknown `w` that is the value of `i` or reaches it along
the dependencies `deps` of the equations. (`hwf`: all mentioned unknowns exist.) -/
theorem C15_complCycle_spec (cx : Ctx)
    (hwf : ∀ (i : Nat) (e : SExpr), cx.sg.sets[i]? = some e → ∀ w ∈ exprUnknowns cx e, w < cx.nU) :
    complCycle cx = true ↔
      ∃ (i : Nat) (e a : SExpr) (w : Nat), i < cx.sg.nSets ∧ cx.sg.sets[i]? = some e ∧ a ∈ complArgs e ∧ w ∈ exprUnknowns cx a ∧
        (w = cx.vid i ∨ Relation.TransGen (Edge (depGraph cx)) w (cx.vid i)) := by
  have hsub : ∀ (e a : SExpr), a ∈ complArgs e → ∀ w ∈ exprUnknowns cx a, w ∈ exprUnknowns cx e := by
    intro e
    induction e with
    | any s | first s | last s | precede s | follow s | ref i => intro a ha; simp [complArgs] at ha
    | union l r ihl ihr | inter l r ihl ihr =>
      intro a ha w hw
      simp only [complArgs, List.mem_append] at ha
      simp only [exprUnknowns, List.mem_append]
      rcases ha with ha | ha
      · exact .inl (ihl a ha w hw)
      · exact .inr (ihr a ha w hw)
    | compl b ih =>
      intro a ha w hw
      simp only [complArgs, List.mem_cons] at ha
      simp only [exprUnknowns]
      rcases ha with rfl | ha
      · exact hw
      · exact ih a ha w hw
  unfold complCycle
  simp only [List.any_eq_true, List.mem_range]
  constructor
  · rintro ⟨i, hi, h⟩
    split at h
    · cases h
    · rename_i e he
      simp only [List.any_eq_true, Bool.or_eq_true, beq_iff_eq] at h
      obtain ⟨a, ha, w, hw, h⟩ := h
      refine ⟨i, e, a, w, hi, he, ha, hw, ?_⟩
      rcases h with h | h
      · exact .inl h
      · right
        have hwl : w < cx.nU := hwf i e he w (hsub e a ha w hw)
        have hvl : cx.vid i < cx.nU := by unfold Ctx.vid Ctx.nU; omega
        exact (Matrix.closure_ofGraph _ (depGraph_wf cx) w (cx.vid i) (by rw [depGraph_length]; exact hwl)
          (by rw [depGraph_length]; exact hvl)).1 h
  · rintro ⟨i, e, a, w, hi, he, ha, hw, h⟩
    refine ⟨i, hi, ?_⟩
    rw [he]
    simp only [List.any_eq_true, Bool.or_eq_true, beq_iff_eq]
    refine ⟨a, ha, w, hw, ?_⟩
    rcases h with h | h
    · exact .inl h
    · right
      have hwl : w < cx.nU := hwf i e he w (hsub e a ha w hw)
      have hvl : cx.vid i < cx.nU := by unfold Ctx.vid Ctx.nU; omega
      exact (Matrix.closure_ofGraph _ (depGraph_wf cx) w (cx.vid i) (by rw [depGraph_length]; exact hwl)
        (by rw [depGraph_length]; exact hvl)).2 h

/-! ### non-vacuity -/

/-- `S : A 'b' | 'c' ; A : 'a' | %empty ;` with terminals 0 = eoi, 1 = 'a', 2 = 'b', 3 = 'c';
sets: `first S`, `~(first S) & (follow A | 'c')`, `~R2` (a complement that depends on itself). -/
def exG : Grammar :=
  { nTerms := 4, nSyms := 6,
    rules := #[⟨4, [5, 2], 0⟩, ⟨4, [3], 0⟩, ⟨5, [1], 0⟩, ⟨5, [], 0⟩],
    inputs := #[⟨4, true⟩] }

example : nullable exG = some [false, false, false, false, false, true] := by decide +kernel
/-- `S : 'a' | %empty ;` with terminals 0 = eoi, 1 = 'a' -/
def exSmall : Grammar := { nTerms := 2, nSyms := 3, rules := #[⟨2, [1], 0⟩, ⟨2, [], 0⟩], inputs := #[⟨2, true⟩] }

set_option maxRecDepth 100000 in
example : setSpec ⟨exSmall, [], [.first 2, .compl (.first 2)], []⟩ = .ok [[1], [0]] := by decide +kernel
example : setSpec ⟨exG, [], [.first 4, .union (.any 1) (.compl (.ref 1))], []⟩ = .error := by decide +kernel

end TmVerif.TokenSets
