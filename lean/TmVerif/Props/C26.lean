import TmVerif.Proofs.GraphBasic
import TmVerif.Proofs.GraphScc
import TmVerif.Proofs.GraphPath
import TmVerif.Proofs.GraphTarjan
/-!
C26 — Graph algorithms return correct components, closures and paths (property theorems only).

Models (Model/Graph.lean): hand mirrors `transpose`, `Matrix.closure` / `Matrix.graph`, `longestPath`,
`tarjan` of util/graph/{transpose,matrix,path,tarjan}.go, and the validator `checkScc`.
Vocabulary (Proofs/GraphBasic.lean, GraphScc.lean, GraphPath.lean): `succs g v` = `g[v]`;
`Edge g a b` = `b ∈ g[a]`; `Wf g` = every successor is a vertex (decidable, `wfB`; exactly the graphs on
which the Go code does not panic — the harness observes the panic on a malformed stream);
`Relation.TransGen (Edge g) a b` = a non-empty path `a →⁺ b`; `Reach` = `→*`; `SC` = mutual
reachability; `IsSccOrder g comps` = `comps` are exactly the strongly connected components, once each,
in reverse topological order; `IsPath g p` = `p` is a walk of `g`.
Every theorem is for ALL graphs of the model; the only hypotheses are `Wf g` and, for Tarjan, the
`2 ≤ |g|` of the property statement (`C26_tarjan_small` shows it is needed).
-/
namespace TmVerif.Graph

/-! ### Transpose -/

/-- `Transpose` keeps the number of vertices. -/
theorem C26_transpose_length (g : Graph) : (transpose g).length = g.length := length_transpose g

/-- `Transpose` reverses every edge, with multiplicities: `v` occurs in `(transpose g)[u]` as often
as `u` occurs in `g[v]`. -/
theorem C26_transpose_count (g : Graph) (hwf : Wf g) (u v : Nat) :
    (succs (transpose g) u).count v = (succs g v).count u := by
  by_cases hu : u < g.length
  · exact count_transpose g u v hu
  · have h1 : succs (transpose g) u = [] := succs_ge _ _ (by rw [length_transpose]; omega)
    have h2 : (succs g v).count u = 0 := by
      apply List.count_eq_zero.2
      intro hmem
      exact hu (hwf v u hmem)
    rw [h1, h2]; rfl

/-- `v ∈ (transpose g)[u] ↔ u ∈ g[v]`. -/
theorem C26_transpose_edge (g : Graph) (hwf : Wf g) (u v : Nat) :
    Edge (transpose g) u v ↔ Edge g v u := by
  unfold Edge
  rw [← List.count_pos_iff, ← List.count_pos_iff, C26_transpose_count g hwf]

/-! ### Matrix.Closure (Warshall, in place) -/

/-- On an `n × n` matrix, after `Closure()` there is an edge `a → b` iff the matrix before had a
non-empty path from `a` to `b`. -/
theorem C26_closure_spec (m : Matrix) (hm : m.set.size = m.n * m.n) (a b : Nat) (ha : a < m.n) (hb : b < m.n) :
    m.closure.hasEdge a b = true ↔ Relation.TransGen m.E a b := Matrix.closure_spec m hm a b ha hb

/-- The same for the matrix built with `NewMatrix(len g)` + `AddEdge` from an adjacency list. -/
theorem C26_closure_graph (g : Graph) (hwf : Wf g) (a b : Nat) (ha : a < g.length) (hb : b < g.length) :
    (Matrix.ofGraph g).closure.hasEdge a b = true ↔ Relation.TransGen (Edge g) a b :=
  Matrix.closure_ofGraph g hwf a b ha hb

/-- `Graph()` lists exactly the edges of the matrix (`m.E a b` = `a, b < n` and `HasEdge(a, b)`). -/
theorem C26_matrix_graph (m : Matrix) (a b : Nat) : Edge m.graph a b ↔ m.E a b := by
  unfold Edge succs Matrix.graph Matrix.E
  by_cases ha : a < m.n <;> simp [ha]

/-! ### strongly connected components: the validator is sound -/

/-- If `checkScc g comps` accepts then `g` is well formed and `comps` are exactly the strongly
connected components of `g`, each reported once, in reverse topological order. -/
theorem C26_checkScc_sound (g : Graph) (comps : List (List Nat)) (h : checkScc g comps = true) :
    Wf g ∧ IsSccOrder g comps := checkScc_sound g comps h

/-- … and complete: every correct answer is accepted (any valid order of the components), so the
per-instance verdicts of the check do not depend on how the implementation happens to order them. -/
theorem C26_checkScc_complete (g : Graph) (comps : List (List Nat)) (hwf : Wf g)
    (h : IsSccOrder g comps) : checkScc g comps = true := checkScc_complete g comps hwf h

/-! ### Tarjan: the mirror is correct on every graph -/

/-- For every well-formed graph with at least two vertices the mirror of `Tarjan` reports exactly the
strongly connected components, each once, in reverse topological order. -/
theorem C26_tarjan_correct (g : Graph) (hwf : Wf g) (h2 : 2 ≤ g.length) : IsSccOrder g (tarjan g) :=
  tarjan_correct hwf h2

/-- The same statement through the validator (the form announced in DESIGN.md). -/
theorem C26_tarjan_checkScc (g : Graph) (hwf : Wf g) (h2 : 2 ≤ g.length) :
    checkScc g (tarjan g) = true :=
  checkScc_complete g _ hwf (tarjan_correct hwf h2)

/-- Why the property is worded for at least two vertices: below that `Tarjan` returns before any
callback, so the single vertex of a one-vertex graph is never reported. -/
theorem C26_tarjan_small (g : Graph) (h : g.length < 2) : tarjan g = [] := tarjan_small h

example : tarjan [[]] = [] ∧ ¬ IsSccOrder [[]] (tarjan [[]]) := by
  refine ⟨by decide, fun h => ?_⟩
  have := (h.cover 0).2 (by decide)
  simp [tarjan_small (g := [[]]) (by decide)] at this

/-! ### LongestPath -/

/-- the graph has a cycle (a vertex with a non-empty path to itself) -/
def Cyclic (g : Graph) : Prop := ∃ v, Relation.TransGen (Edge g) v v

/-- The mirror of `LongestPath` answers `none` (Go: the `return nil` under `if cycle`) exactly for
the graphs that have a cycle. -/
theorem C26_longestPath_none_iff_cyclic (g : Graph) (hwf : Wf g) :
    longestPath g = none ↔ Cyclic g := longestPath_none_iff hwf

/-- On an acyclic graph the answer is a walk of the graph (`IsPath`: consecutive vertices are joined
by edges; in an acyclic graph every walk is a simple path), non-empty when the graph has a vertex. -/
theorem C26_longestPath_is_path (g : Graph) (hwf : Wf g) (p : List Nat) (h : longestPath g = some p) :
    IsPath g p ∧ (g ≠ [] → p ≠ []) := ⟨(longestPath_some hwf h).1, (longestPath_some hwf h).2.1⟩

/-- … and no walk of the graph has more vertices than the answer. -/
theorem C26_longestPath_max (g : Graph) (hwf : Wf g) (p : List Nat) (h : longestPath g = some p)
    (q : List Nat) (hq : IsPath g q) : q.length ≤ p.length := (longestPath_some hwf h).2.2 q hq

/-- The statement "returns nil exactly for cyclic graphs" about the slice a Go caller sees
(`longestPathGo`: nil = empty). It is FALSE for the graph without vertices (acyclic, answer nil). -/
def C26_longestPath_nil_iff_cyclic_full : Prop :=
  ∀ g : Graph, Wf g → (longestPathGo g = [] ↔ Cyclic g)

/-- For every graph with at least one vertex the returned slice is nil exactly when the graph has a
cycle. The hypothesis `g ≠ []` is forced: see `C26_longestPath_nil_empty_graph`. -/
theorem C26_longestPath_nil_iff_cyclic_partial (g : Graph) (hwf : Wf g) (hne : g ≠ []) :
    longestPathGo g = [] ↔ Cyclic g := by
  rw [← C26_longestPath_none_iff_cyclic g hwf]
  unfold longestPathGo
  cases h : longestPath g with
  | none => simp
  | some p =>
    have := (C26_longestPath_is_path g hwf p h).2 hne
    simp [this]

/-- The witness that the full statement fails: the empty graph is acyclic and the answer is nil. -/
theorem C26_longestPath_nil_empty_graph : longestPathGo [] = [] ∧ ¬ Cyclic [] ∧ Wf [] := by
  refine ⟨by decide, ?_, by decide⟩
  rintro ⟨v, p⟩
  have : ∀ a b, Relation.TransGen (Edge []) a b → False := by
    intro a b p
    induction p with
    | single e => simp [Edge, succs] at e
    | tail _ e _ => simp [Edge, succs] at e
  exact this v v p

example : ¬ C26_longestPath_nil_iff_cyclic_full := fun h =>
  C26_longestPath_nil_empty_graph.2.1 ((h [] C26_longestPath_nil_empty_graph.2.2).1 C26_longestPath_nil_empty_graph.1)

-- non-vacuity
example : longestPath [[1], [2, 3], [3], []] = some [0, 1, 2, 3] := by decide
example : longestPath [[1], [2, 3], [3], [1]] = none := by decide
example : IsPath [[1], [2, 3], [3], []] [0, 1, 3] := by simp [IsPath, Edge, succs]
example : Wf [[1], [2, 2], [0], [3]] := by decide
example : transpose [[1], [2, 2], [0], [3]] = [[2], [0], [1, 1], [3]] := by decide
example : tarjan [[1], [2, 2], [0, 3], [3]] = [[3], [0, 1, 2]] := by decide
example : checkScc [[1], [2, 2], [0, 3], [3]] [[3], [0, 1, 2]] = true := by decide +kernel
example : checkScc [[1], [2, 2], [0, 3], [3]] [[0, 1, 2], [3]] = false := by decide +kernel

end TmVerif.Graph
