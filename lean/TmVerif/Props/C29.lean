import TmVerif.Proofs.LRXCancel
/-!
C29 — cancellation never yields a wrong parse (property theorems only).

Model: `Model/LRX.lean`. `xrun x inp input stop k fuel` is the generated parser's `parse` loop where the
context is cancelled inside the `k`-th listener call (`k = 0`: never); the parser polls the context on
a shift when `shiftCounter + 1` is a multiple of 512. Events are stored most-recent-first, so
"`l` is a prefix in time of `l0`" is `l <:+ l0`.
-/
namespace TmVerif.LRX
open TmVerif.LR

/-- The cancelled run either coincides with the uncancelled one (result, events and the whole final
configuration), or it returns the context's error and the listener/handler calls made before are an
initial segment (in time) of those of the uncancelled run. -/
theorem C29_cancel_sound (x : XTables) (inp : Input) (input : Nat) (stop : Bool) (k fuel : Nat) :
    xrun x inp input stop k fuel = xrun x inp input stop 0 fuel ∨
      ((xrun x inp input stop k fuel).1 = .cancelled ∧
        (xrun x inp input stop k fuel).2.evs <:+ (xrun x inp input stop 0 fuel).2.evs) := by
  unfold xrun
  split
  · exact .inl rfl
  · exact xrunLoop_cancel ..

/-- the same from an arbitrary configuration of the loop -/
theorem C29_cancel_sound_loop (x : XTables) (inp : Input) (fin : Int) (stop : Bool) (k fuel : Nat)
    (c : XCfg) :
    xrunLoop x inp fin stop k fuel c = xrunLoop x inp fin stop 0 fuel c ∨
      ((xrunLoop x inp fin stop k fuel c).1 = .cancelled ∧
        (xrunLoop x inp fin stop k fuel c).2.evs <:+ (xrunLoop x inp fin stop 0 fuel c).2.evs) :=
  xrunLoop_cancel ..

/-- Once the context is cancelled (`k` listener calls have been made: `c.nodeCount ≥ k`), the rest of the
run never moves `shiftCounter` beyond the next multiple of 512, and reaching it means `cancelled`:
at most 512 further shifts are attempted (for a cancellable parser every shift attempt increments
`shiftCounter`). -/
theorem C29_cancel_bound (x : XTables) (inp : Input) (fin : Int) (stop : Bool) (k fuel : Nat)
    (c c' : XCfg) (r : XResult) (hc : x.cancellable = true) (hk : k ≠ 0) (hn : c.nodeCount ≥ k)
    (h : xrunLoop x inp fin stop k fuel c = (r, c')) :
    c'.shiftCounter ≤ (c.shiftCounter / 512 + 1) * 512 ∧
      (c'.shiftCounter = (c.shiftCounter / 512 + 1) * 512 → r = .cancelled) ∧
      c'.shiftCounter ≤ c.shiftCounter + 512 := by
  have hb := xrunLoop_sc_bound x inp fin stop k hc hk fuel c ((c.shiftCounter / 512 + 1) * 512)
    (by omega) (by omega) hn
  rw [h] at hb
  exact ⟨hb.1, hb.2, by have := hb.1; simp only at this; omega⟩

theorem C29_never_cancelled_when_k_zero (x : XTables) (inp : Input) (input : Nat) (stop : Bool)
    (fuel : Nat) (c : XCfg) : xrun x inp input stop 0 fuel ≠ (.cancelled, c) := by
  intro h
  unfold xrun at h
  split at h
  · cases h
  · have := xrunLoop_cancelled (k := 0) fuel _ (by rw [h])
    exact this.2 rfl

theorem C29_not_cancellable_never_cancelled (x : XTables) (inp : Input) (input : Nat) (stop : Bool)
    (k fuel : Nat) (c : XCfg) (hx : x.cancellable = false) :
    xrun x inp input stop k fuel ≠ (.cancelled, c) := by
  intro h
  unfold xrun at h
  split at h
  · cases h
  · have := xrunLoop_cancelled fuel _ (by rw [h])
    rw [hx] at this
    cases this.1

/-! ### non-vacuity

A two-state parser for `L → ε {node 1} | L a` that shifts `a` for ever (default encoding): state 0
reduces the empty rule and goes to state 1, state 1 shifts `a` and stays. A run of `xrun` needs 512
shifts to reach the first poll; evaluating that in the kernel takes minutes (`decide +kernel`, 122 s
measured), so the examples start the loop from the configuration after 510 shifts instead. -/

private def exT : Tables :=
  { nTerms := 2, action := #[0, -1], lalr := #[], goto_ := #[0, 0, 2, 4], fromTo := #[1, 1, 0, 1],
    ruleLen := #[0], ruleSymbol := #[2], finalStates := #[99] }
private def exX : XTables := { t := exT, rules := #[{ ruleType := 1 }], cancellable := true }
private def exInp : Input := { toks := #[⟨1, 0, 1⟩, ⟨1, 1, 2⟩, ⟨1, 2, 3⟩, ⟨1, 3, 4⟩], endOff := 4 }
private def exC : XCfg :=
  { stack := [⟨2, 0, 0, 1⟩, ⟨0, 0, 0, 0⟩], state := 1, pos := 1, next := some ⟨1, 0, 1⟩,
    evs := [.node 1 0 0], shiftCounter := 510 }

/-- the hypotheses of `C29_cancel_bound` are satisfiable and its bound is attained: cancelled inside
the first listener call, the run makes one more shift (511) and is stopped by the poll at 512 -/
example : exX.cancellable = true ∧ exC.nodeCount ≥ 1 ∧
    (xrunLoop exX exInp 99 false 1 10 exC).1 = .cancelled ∧
    (xrunLoop exX exInp 99 false 1 10 exC).2.shiftCounter = (exC.shiftCounter / 512 + 1) * 512 := by
  decide +kernel

/-- the second alternative of `C29_cancel_sound` occurs: the uncancelled run goes on to the end of the
input (and fails there, this parser accepts nothing), the cancelled one stops with the same events -/
example : (xrunLoop exX exInp 99 false 0 10 exC).1 = .syntaxError 4 4 ∧
    (xrunLoop exX exInp 99 false 1 10 exC).1 = .cancelled ∧
    (xrunLoop exX exInp 99 false 1 10 exC).2.evs = (xrunLoop exX exInp 99 false 0 10 exC).2.evs := by
  decide +kernel

/-- a complete (short) run from `xinit`: never polled, so every `k` gives the uncancelled result -/
example : (xrun exX exInp 0 false 1 10).1 = .syntaxError 4 4 ∧
    (xrun exX exInp 0 false 1 10).2.evs = [.node 1 0 0] ∧
    (xrun exX exInp 0 false 1 10).2.shiftCounter = 5 := by
  decide +kernel

end TmVerif.LRX
