import TmVerif.Model.LRRef
/-!
C04 — precedence and associativity resolve conflicts as documented.
Theorems about the decision logic of the reference (`resolvePrec`, `cellAddRule`, `cellFold`), which
mirrors `lalr/compile.go: resolvePrec / ruleAction / populateTables` and is compared cell by cell
with the real tables on every run. All statements are for every grammar, rule and terminal.
-/
namespace TmVerif.LRRef
open TmVerif.CFG

/-- A rule's precedence is its `%prec` terminal when it has one. -/
theorem C04_rulePrec_explicit (g : Grammar) (rule : Nat) (h : (g.rules.getD rule default).prec ≠ 0) :
    rulePrecOf g rule = (g.rules.getD rule default).prec := by
  simp only [rulePrecOf]; rw [if_pos h]

theorem find_last_terminal (p : Nat → Bool) (α β : List Nat) (a : Nat) (ha : p a = true)
    (hβ : ∀ s ∈ β, p s = false) : (α ++ a :: β).reverse.find? p = some a := by
  rw [List.reverse_append, List.reverse_cons, List.append_assoc, List.find?_append]
  have h1 : β.reverse.find? p = none := by
    rw [List.find?_eq_none]
    intro x hx
    simp [hβ x (by simpa using hx)]
  rw [h1]
  simp [ha]

/-- … else its last terminal: for a right-hand side `α a β` with `a` a terminal and `β` free of
terminals the rule's precedence is `a`. -/
theorem C04_rulePrec_last_terminal (g : Grammar) (rule : Nat)
    (h : (g.rules.getD rule default).prec = 0) (α β : List Nat) (a : Nat)
    (hrhs : (g.rules.getD rule default).rhs = α ++ a :: β)
    (ha : 0 < a ∧ a < g.nTerms) (hβ : ∀ s ∈ β, ¬ (0 < s ∧ s < g.nTerms)) :
    rulePrecOf g rule = a := by
  simp only [rulePrecOf]
  rw [if_neg (by rw [h]; simp), hrhs, find_last_terminal]
  · simp [ha.1, ha.2]
  · intro s hs
    have := hβ s hs
    simp only [gt_iff_lt, Bool.and_eq_false_imp, decide_eq_true_eq, decide_eq_false_iff_not]
    intro h0 h1
    exact this ⟨h0, h1⟩

/-- Higher precedence wins (later `%left/%right/%nonassoc` declarations bind tighter). -/
theorem C04_higher_reduces (g : Grammar) (rule term red sh : Nat)
    (hr : rulePrecOf g rule ≠ 0) (ht : term ≠ 0)
    (h1 : precGroup g (rulePrecOf g rule) = some red) (h2 : precGroup g term = some sh)
    (h : red > sh) : resolvePrec g rule term = Res.reduce := by
  unfold resolvePrec; simp [hr, ht, h1, h2, h]

theorem C04_lower_shifts (g : Grammar) (rule term red sh : Nat)
    (hr : rulePrecOf g rule ≠ 0) (ht : term ≠ 0)
    (h1 : precGroup g (rulePrecOf g rule) = some red) (h2 : precGroup g term = some sh)
    (h : red < sh) : resolvePrec g rule term = Res.shift := by
  unfold resolvePrec
  have : ¬ sh < red := by omega
  simp [hr, ht, h1, h2, h, this]

/-- Equal precedence follows the associativity: left reduces, right shifts, nonassoc is an error. -/
theorem C04_equal_assoc (g : Grammar) (rule term grp : Nat) (p : Prec)
    (hr : rulePrecOf g rule ≠ 0) (ht : term ≠ 0)
    (h1 : precGroup g (rulePrecOf g rule) = some grp) (h2 : precGroup g term = some grp)
    (hp : g.prec[grp]? = some p) :
    resolvePrec g rule term =
      (if p.assoc = 0 then Res.reduce else if p.assoc = 1 then Res.shift
       else if p.assoc = 2 then Res.error else Res.conflict) := by
  unfold resolvePrec
  simp only [hr, ht, h1, h2, hp, Bool.or_self, Bool.false_eq_true, ↓reduceIte, gt_iff_lt,
    Nat.lt_irrefl, Option.map_some, Option.getD_some, decide_false]
  split <;> simp_all

theorem C04_resolvePrec_undecided (g : Grammar) (rule term : Nat)
    (h : rulePrecOf g rule = 0 ∨ term = 0 ∨ precGroup g (rulePrecOf g rule) = none ∨ precGroup g term = none) :
    resolvePrec g rule term = Res.conflict := by
  unfold resolvePrec
  rcases h with h | h | h | h
  · simp [h]
  · simp [h]
  · simp only [h]; split <;> rfl
  · simp only [h]
    split
    · rfl
    · cases precGroup g (rulePrecOf g rule) <;> rfl

/-- One shift and one reduction compete for a cell: the cell follows the resolution; an undecided
choice defaults to shift and is counted as one shift/reduce conflict; a `%nonassoc` decision is an
explicit error entry. -/
theorem C04_shift_reduce_cell (g : Grammar) (term rule : Nat) :
    let st := cellFold g term true [rule]
    match resolvePrec g rule term with
    | .reduce => cellOf st = .reduce rule ∧ isSR st = false ∧ isRR st = false
    | .shift => cellOf st = .shift ∧ isSR st = false ∧ isRR st = false
    | .error => cellOf st = .errExplicit ∧ isSR st = false ∧ isRR st = false
    | .conflict => cellOf st = .shift ∧ isSR st = true ∧ isRR st = false := by
  simp only [cellFold, List.foldl_cons, List.foldl_nil, ↓reduceIte, cellAddRule]
  cases h : resolvePrec g rule term <;>
    simp [cellOf, isSR, isRR, ambAdd] <;> omega

/-- Two reductions and no shift: the earlier rule (the first in rule order) is kept and one
reduce/reduce conflict is counted. -/
theorem C04_reduce_reduce_cell (g : Grammar) (term r1 r2 : Nat) :
    let st := cellFold g term false [r1, r2]
    cellOf st = .reduce r1 ∧ isRR st = true ∧ isSR st = false := by
  simp [cellFold, cellAddRule, cellOf, isSR, isRR, ambAdd]

/-- Once a cell is an unresolved conflict, further candidates never change its action. -/
theorem C04_conflict_sticky (g : Grammar) (term : Nat) (st : CellState) (cs : Bool)
    (h : st.amb = some (cs, .conflict)) (hact : st.action ≠ -2) (rule : Nat) :
    (cellAddRule g term st rule).action = st.action ∧
    (cellAddRule g term st rule).amb = some (cs, .conflict) := by
  unfold cellAddRule
  simp [hact, h, ambAdd]

-- non-vacuity: a concrete grammar E : E + E | E * E | a with %left + ; %left * ;
private def exG : Grammar :=
  { nTerms := 4, nSyms := 5,
    rules := #[⟨4, [4, 1, 4], 0⟩, ⟨4, [4, 2, 4], 0⟩, ⟨4, [3], 0⟩],
    inputs := #[⟨4, true⟩], prec := #[⟨0, [1]⟩, ⟨0, [2]⟩] }
example : rulePrecOf exG 0 = 1 ∧ resolvePrec exG 0 2 = .shift ∧ resolvePrec exG 1 1 = .reduce ∧
    resolvePrec exG 0 1 = .reduce := by decide

end TmVerif.LRRef
