import TmVerif.Proofs.Ident
import TmVerif.Proofs.IdentDup
/-!
C28 — Symbol names map to valid target identifiers (property theorems only).

`produce` mirrors `ident.Produce` (all four styles) on byte strings; `TmName` is the set of spellings
the tm lexer admits as a symbol name (`ID`, `quoted_id`, `scon`); `ValidIdent` is `[A-Za-z_][A-Za-z0-9_]*`
minus `_` (an ASCII identifier valid in Go, C++ and TypeScript, non-empty and not Go's blank identifier).
`Good` is the exact side condition: the theorem pair `C28_produce_valid` / `C28_produce_invalid` shows
that on lexer-admitted names `Produce` yields a valid identifier IF AND ONLY IF `Good` holds, so the
property as stated ("every admitted name") is FALSE for the complement of `Good`
(`C28_produce_bad_witnesses`): `_`, `__`, `_-_`, `''`, `""` … — finding 8 of DESIGN §6, confirmed on
the real `ident.Produce` and `compiler.Compile` by the harness (no error is reported for them).
-/
namespace TmVerif.Ident

/-- the statement of the property without the side condition; refuted by `C28_produce_bad_witnesses` -/
def C28_produce_valid_full : Prop :=
  ∀ name style, TmName name → ValidIdent (produce name style)

/-- Every spelling the tm lexer admits, in every style, is turned into a non-empty, non-blank identifier
that is valid in Go, C++ and TypeScript — provided `Good name style` (quoted with non-empty contents, or
containing a letter/digit, or `UpperCase` with two underscores). -/
theorem C28_produce_valid_partial (name : Str) (style : Style) (htm : TmName name)
    (hg : Good name style) : ValidIdent (produce name style) := by
  unfold ValidIdent
  by_cases hq : looksQuoted name = true
  · exact produce_quoted name style hq
  · have hq' : looksQuoted name = false := by simpa using hq
    unfold Good good at hg
    simp only [hq', Bool.false_or, Bool.or_eq_true, Bool.and_eq_true, decide_eq_true_eq] at hg
    unfold TmName tmName at htm
    simp only [Bool.or_eq_true] at htm
    rcases htm with (hid | h39) | h34
    · exact produce_id_valid name style hid hg
    · rcases isQuoted_facts 39 name (Or.inl rfl) h39 with h | h
      · exact absurd h hq
      · subst h; revert hg; cases style <;> decide
    · rcases isQuoted_facts 34 name (Or.inr rfl) h34 with h | h
      · exact absurd h hq
      · subst h; revert hg; cases style <;> decide

example : TmName (cs ['a','-','b']) ∧ Good (cs ['a','-','b']) .upperUnderscores ∧
    produce (cs ['a','-','b']) .upperUnderscores = cs ['A','_','B'] := by decide
example : TmName (cs ['\'','+','+','\'']) ∧ Good (cs ['\'','+','+','\'']) .camelCase ∧
    produce (cs ['\'','+','+','\'']) .camelCase = cs ['P','l','u','s','P','l','u','s'] := by decide

/-- `Good` is exact: a lexer-admitted name outside `Good` yields `""` or `"_"`. -/
theorem C28_produce_invalid (name : Str) (style : Style) (htm : TmName name)
    (hg : ¬ Good name style) : ¬ ValidIdent (produce name style) := by
  unfold ValidIdent
  unfold Good good at hg
  simp only [Bool.or_eq_true, Bool.and_eq_true, decide_eq_true_eq, not_or] at hg
  obtain ⟨⟨hq, hna⟩, hc⟩ := hg
  have hna' : name.any isAlnum = false := by simpa using hna
  unfold TmName tmName at htm
  simp only [Bool.or_eq_true] at htm
  rcases htm with (hid | h39) | h34
  · rw [produce_id_invalid name style hid hna' hc]; simp
  · rcases isQuoted_facts 39 name (Or.inl rfl) h39 with h | h
    · exact absurd h hq
    · subst h; cases style <;> decide
  · rcases isQuoted_facts 34 name (Or.inr rfl) h34 with h | h
    · exact absurd h hq
    · subst h; cases style <;> decide

example : TmName [95] ∧ ¬ Good [95] .upperCase := by decide

/-- Concrete failures of the unconditional property: the token name `_` gets the ID `_` (style
`UpperCase`, used for terminals), the nonterminal name `_` gets the empty ID (style `CamelCase`), the
quoted terminals `''` and `""` get the empty ID; all four spellings are admitted by the tm lexer. -/
theorem C28_produce_bad_witnesses :
    (TmName [95] ∧ produce [95] .upperCase = [95] ∧ ¬ ValidIdent (produce [95] .upperCase)) ∧
    (TmName [95] ∧ produce [95] .camelCase = [] ∧ ¬ ValidIdent (produce [95] .camelCase)) ∧
    (TmName [95, 45, 95] ∧ produce [95, 45, 95] .camelLower = [] ∧ produce [95, 45, 95] .upperUnderscores = []) ∧
    (TmName [39, 39] ∧ produce [39, 39] .upperCase = []) ∧
    (TmName [34, 34] ∧ produce [34, 34] .upperCase = []) ∧
    ¬ C28_produce_valid_full := by
  refine ⟨by decide, by decide, by decide, by decide, by decide, ?_⟩
  intro h
  exact absurd (h [95] .upperCase (by decide)) (by decide)

/-- Reserved words. `Produce` does not consult any keyword list. For the three styles used for symbol
IDs in generated code (`UpperCase` for terminals, `CamelCase` for nonterminals, `UpperUnderscores`) the
result never starts with a lower-case letter, so it cannot be a keyword of Go, C++ or TypeScript (all of
which start with a lower-case letter). `CamelLower` (used for field names in syntax/types.go) does
produce keywords: `Produce("if", CamelLower) = "if"`. -/
theorem C28_not_lower_start (name : Str) (style : Style) (hs : style ≠ .camelLower) (c : Nat)
    (hc : (produce name style).head? = some c) : isLowerA c = false :=
  produce_head name style hs c hc

example : produce (cs ['i','f']) .camelLower = cs ['i','f'] ∧
    produce (cs ['\'','i','f','\'']) .camelLower = cs ['i','f'] ∧
    produce (cs ['i','f']) .camelCase = cs ['I','f'] := by decide

/-- Casing style of terminal IDs: the `UpperCase` (and `UpperUnderscores`) result contains no lower-case
letter, for every byte string. -/
theorem C28_upper_style (name : Str) (style : Style)
    (hs : style = .upperCase ∨ style = .upperUnderscores) (c : Nat) (hc : c ∈ produce name style) :
    isLowerA c = false :=
  produce_noLower name style hs c hc

example : produce (cs ['t','h','i','n','A','r','r','o','w']) .upperCase =
    cs ['T','H','I','N','A','R','R','O','W'] := by decide

/-! Explicit lexeme IDs `name (ID)` (compiler/lexer.go, both the regular and the flex-mode path): the
clause is an `identifier` token (`ID` pattern incl. keywords, never quoted); `lexemeId` mirrors what the
compiler does with it. -/

/-- exact side condition for an explicit ID: it has a lower-case letter (then it goes through
`Produce(UpperCase)`), or it is used verbatim and has no `-` and is not the blank identifier -/
def goodExplicit (id : Str) : Bool := id.any isLowerA || (!id.contains 45 && id != [95])

/-- the statement without the side condition; refuted by `C28_explicit_id_bad_witnesses` -/
def C28_explicit_id_valid_full : Prop := ∀ id, isID id = true → ValidIdent (lexemeId id)

/-- An admitted explicit ID yields a valid identifier without lower-case letters, provided
`goodExplicit`. -/
theorem C28_explicit_id_valid_partial (id : Str) (hid : isID id = true) (hg : goodExplicit id = true) :
    ValidIdent (lexemeId id) ∧ ∀ c ∈ lexemeId id, isLowerA c = false := by
  unfold lexemeId
  by_cases hl : id.any isLowerA = true
  · simp only [hl, if_true]
    refine ⟨?_, fun c hc => produce_noLower id .upperCase (Or.inl rfl) c hc⟩
    apply produce_id_valid id .upperCase hid
    left
    obtain ⟨b, hb, hbl⟩ := List.any_eq_true.1 hl
    exact List.any_eq_true.2 ⟨b, hb, by simp [isAlnum, hbl]⟩
  · have hl' : id.any isLowerA = false := by simpa using hl
    simp only [hl', Bool.false_eq_true, if_false]
    refine ⟨?_, fun c hc => List.any_eq_false.1 hl' c hc |> fun h => by simpa using h⟩
    simp only [goodExplicit, hl', Bool.false_or, Bool.and_eq_true, Bool.not_eq_true',
      bne_iff_ne, ne_eq] at hg
    obtain ⟨h45, h95⟩ := hg
    obtain ⟨hmid, _⟩ := isID_facts id hid
    cases id with
    | nil => simp [isID] at hid
    | cons b rest =>
      have hstart : isIdStart b = true := by
        simp only [isID, Bool.and_eq_true] at hid; exact hid.1.1
      have hall : (b :: rest).all isIdentChar = true := by
        rw [List.all_eq_true]
        intro x hx
        have hm := hmid x hx
        have hx45 : x ≠ 45 := by
          intro h; subst h
          have : (b :: rest).contains 45 = true := List.contains_iff_mem.2 hx
          rw [this] at h45; cases h45
        simp [isIdMid] at hm
        simp [isIdentChar]
        rcases hm with ((h | h) | h) | h
        · exact Or.inl (Or.inl h)
        · exact Or.inl (Or.inr h)
        · exact Or.inr h
        · exact absurd h hx45
      have hd : isDigitA b = false := by
        simp [isIdStart, isLetterA, isLowerA, isUpperA] at hstart
        simp [isDigitA]; omega
      unfold ValidIdent validIdent
      simp only [hd, hall, Bool.not_false, Bool.true_and, Bool.not_eq_true', Bool.and_eq_false_iff]
      by_cases hb : b = 95
      · right
        cases rest with
        | nil => subst hb; exact absurd rfl h95
        | cons _ _ => rfl
      · left; simpa using hb

example : isID (cs ['f','a','t','-','A','r','r','o','w']) = true ∧
    goodExplicit (cs ['f','a','t','-','A','r','r','o','w']) = true ∧
    lexemeId (cs ['f','a','t','-','A','r','r','o','w']) = cs ['F','A','T','A','R','R','O','W'] := by decide

/-- `goodExplicit` is exact. -/
theorem C28_explicit_id_invalid (id : Str) (hid : isID id = true) (hg : goodExplicit id = false) :
    ¬ ValidIdent (lexemeId id) := by
  simp only [goodExplicit, Bool.or_eq_false_iff, Bool.and_eq_false_iff, Bool.not_eq_false',
    bne_eq_false_iff_eq] at hg
  obtain ⟨hl, h⟩ := hg
  unfold lexemeId
  simp only [hl, Bool.false_eq_true, if_false]
  rcases h with h | h
  · have hm : 45 ∈ id := List.contains_iff_mem.1 h
    unfold ValidIdent validIdent
    cases id with
    | nil => simp
    | cons b rest =>
      have : (b :: rest).all isIdentChar = false := by
        rw [List.all_eq_false]; exact ⟨45, hm, by decide⟩
      simp [this]
  · subst h; decide

/-- Concrete failures for explicit IDs: `(A-B)` and `(_)` are admitted `identifier` tokens, are taken
verbatim and are not valid identifiers. -/
theorem C28_explicit_id_bad_witnesses :
    (isID (cs ['A','-','B']) = true ∧ lexemeId (cs ['A','-','B']) = cs ['A','-','B'] ∧
      ¬ ValidIdent (lexemeId (cs ['A','-','B']))) ∧
    (isID [95] = true ∧ lexemeId [95] = [95] ∧ ¬ ValidIdent (lexemeId [95])) ∧
    ¬ C28_explicit_id_valid_full := by
  refine ⟨by decide, by decide, ?_⟩
  intro h
  exact absurd (h (cs ['A','-','B']) (by decide)) (by decide)

/-- the statement for ALL symbols of the compiled grammar, mid-rule nonterminals included; refuted by
`C28_midrule_bad_witness` -/
def C28_dup_detect_full : Prop :=
  ∀ d : Decls, ¬ (allIds d).Nodup → (compileSyms d).errs ≠ []

/-- Duplicate detection (mirror of `resolver.addToken` / `syntaxLoader.collectNonterms` /
`resolver.addNonterms` as sequenced by `compiler.Compile`, regular and flex-mode lexer sections): whenever
two symbols registered by the resolver — terminals incl. `eoi`/`invalid_token`, and the nonterminals of
the instantiated and expanded model (template instances, groups, lists, optionals; given as input
`Decls.final`) — receive the same ID, an error is reported. Partial: the mid-rule action nonterminals
(`u$1`) are appended without any check. -/
theorem C28_dup_detect_partial (d : Decls) (h : ¬ (finalIds d).Nodup) : (compileSyms d).errs ≠ [] := by
  have hinv := tokenPhase_inv d
  obtain ⟨new, more, hc, hm⟩ := collect_facts (tokenPhase d) d.nonterms [] (tokenPhase d).errs
  unfold finalIds compileSyms at h
  unfold compileSyms
  simp only [hc, List.nil_append] at h ⊢
  split
  · next hemp =>
    obtain ⟨hf, hids⟩ := foldl_addNonterm (finalNts d new) (tokenPhase d) hinv
    have : hasDup ((finalNts d new).foldl addNonterm (tokenPhase d)).errs = true := by
      rw [hf.dup_iff, hids]
      simpa [idsOf, hemp] using h
    intro he
    dsimp only at he
    rw [he] at this
    simp [hasDup] at this
  · next hemp => simpa [List.isEmpty_iff] using hemp

example : ¬ (finalIds ⟨[(cs ['a','_','b'], [], false), (cs ['A','_','B'], [], false)], [], false, none, []⟩).Nodup := by
  decide
-- `whitespace` then `white-space … (space)`: the later one is a space terminal, still a collision
example : ¬ (finalIds ⟨[(cs ['w','s'], [], false), (cs ['w','-','s'], [], true)], [], false, none, []⟩).Nodup ∧
    (compileSyms ⟨[(cs ['w','s'], [], false), (cs ['w','-','s'], [], true)], [], false, none, []⟩).errs ≠ [] := by
  decide
-- template instance `x_B` (ID `XB`) against the terminal `XB`
example : ¬ (finalIds ⟨[(cs ['X','B'], [], false)], [cs ['i','n','p','u','t'], cs ['x']], false,
    some [cs ['i','n','p','u','t'], cs ['x','_','B']], []⟩).Nodup := by decide

/-- …and a "get the same ID" error is reported only when two source-declared symbols or two registered
symbols do collide. -/
theorem C28_dup_sound (d : Decls) (h : hasDup (compileSyms d).errs = true) :
    ¬ (declaredIds d).Nodup ∨ ¬ (finalIds d).Nodup := by
  have hinv := tokenPhase_inv d
  obtain ⟨new, more, hc, hm⟩ := collect_facts (tokenPhase d) d.nonterms [] (tokenPhase d).errs
  unfold declaredIds finalIds
  unfold compileSyms at h ⊢
  simp only [hc, List.nil_append] at h ⊢
  split at h
  · next hemp =>
    right
    obtain ⟨hf, hids⟩ := foldl_addNonterm (finalNts d new) (tokenPhase d) hinv
    dsimp only at h
    rw [hf.dup_iff, hids] at h
    simpa [idsOf, hemp] using h
  · next hemp =>
    left
    dsimp only at h
    rw [hasDup_append, Bool.or_eq_true] at h
    rcases h with h | h
    · intro hn
      exact (hinv.dup_iff.1 h) (List.nodup_append.1 hn).1
    · obtain ⟨n, hn, hl⟩ := hm.1 h
      have hin := (hinv.ids_iff _).1 hl
      intro hnd
      have := (List.nodup_append.1 hnd).2.2 _ hin (produce n .camelCase) ?_
      · exact this rfl
      · simp only [hemp]
        exact List.mem_map_of_mem hn

example : hasDup (compileSyms ⟨[(cs ['a'], [], false)], [cs ['i','n','p','u','t'], cs ['A']], false, none, []⟩).errs = true := by
  decide

/-- Concrete failure of duplicate detection (confirmed on the real `compiler.Compile`): the terminal
`u_1` and the mid-rule nonterminal `u$1` of `u : a { … } b c ;` both get the ID `U_1`, no error. -/
theorem C28_midrule_bad_witness :
    let d : Decls := ⟨[(cs ['a'], [], false), (cs ['u','_','1'], [], false)], [cs ['i','n','p','u','t'], cs ['u']],
      false, none, [cs ['u','$','1']]⟩
    ¬ (allIds d).Nodup ∧ (compileSyms d).errs = [] ∧
      ¬ ((compileSyms d).syms.map (·.id)).Nodup ∧ ¬ C28_dup_detect_full := by
  refine ⟨by decide, by decide, by decide, ?_⟩
  intro h
  exact absurd (h ⟨[(cs ['a'], [], false), (cs ['u','_','1'], [], false)], [cs ['i','n','p','u','t'], cs ['u']],
    false, none, [cs ['u','$','1']]⟩ (by decide)) (by decide)

end TmVerif.Ident
