import TmVerif.Proofs.Ident
import TmVerif.Proofs.IdentDup
/-!
C28 — Symbol names map to valid target identifiers (property theorems only).

`produce` mirrors `ident.Produce` (all four styles) on byte strings; `TmName` is the set of spellings
the tm lexer admits as a symbol name (`ID`, `quoted_id`, `scon`); `ValidIdent` is `[A-Za-z_][A-Za-z0-9_]*`
minus `_` (an ASCII identifier valid in Go, C++ and TypeScript, non-empty and not Go's blank identifier).
`Good` is the exact side condition: the theorem pair `C28_produce_valid` / `C28_produce_invalid` shows
that on lexer-admitted names `Produce` yields a valid identifier IF AND ONLY IF `Good` holds, so the
property as stated ("every admitted name") is FALSE for the complement of `Good`
(`C28_produce_bad_witnesses`): `_`, `__`, `_-_`, `''`, `""` … — finding 8 of DESIGN §6, confirmed on
the real `ident.Produce` and `compiler.Compile` by the harness (no error is reported for them).
-/
namespace TmVerif.Ident

/-- the statement of the property without the side condition; refuted by `C28_produce_bad_witnesses` -/
def C28_produce_valid_full : Prop :=
  ∀ name style, TmName name → ValidIdent (produce name style)

/-- Every spelling the tm lexer admits, in every style, is turned into a non-empty, non-blank identifier
that is valid in Go, C++ and TypeScript — provided `Good name style` (quoted with non-empty contents, or
containing a letter/digit, or `UpperCase` with two underscores). -/
theorem C28_produce_valid_partial (name : Str) (style : Style) (htm : TmName name)
    (hg : Good name style) : ValidIdent (produce name style) := by
  unfold ValidIdent
  by_cases hq : looksQuoted name = true
  · exact produce_quoted name style hq
  · have hq' : looksQuoted name = false := by simpa using hq
    unfold Good good at hg
    simp only [hq', Bool.false_or, Bool.or_eq_true, Bool.and_eq_true, decide_eq_true_eq] at hg
    unfold TmName tmName at htm
    simp only [Bool.or_eq_true] at htm
    rcases htm with (hid | h39) | h34
    · exact produce_id_valid name style hid hg
    · rcases isQuoted_facts 39 name (Or.inl rfl) h39 with h | h
      · exact absurd h hq
      · subst h; revert hg; cases style <;> decide
    · rcases isQuoted_facts 34 name (Or.inr rfl) h34 with h | h
      · exact absurd h hq
      · subst h; revert hg; cases style <;> decide

example : TmName (cs ['a','-','b']) ∧ Good (cs ['a','-','b']) .upperUnderscores ∧
    produce (cs ['a','-','b']) .upperUnderscores = cs ['A','_','B'] := by decide
example : TmName (cs ['\'','+','+','\'']) ∧ Good (cs ['\'','+','+','\'']) .camelCase ∧
    produce (cs ['\'','+','+','\'']) .camelCase = cs ['P','l','u','s','P','l','u','s'] := by decide

/-- `Good` is exact: a lexer-admitted name outside `Good` yields `""` or `"_"`. -/
theorem C28_produce_invalid (name : Str) (style : Style) (htm : TmName name)
    (hg : ¬ Good name style) : ¬ ValidIdent (produce name style) := by
  unfold ValidIdent
  unfold Good good at hg
  simp only [Bool.or_eq_true, Bool.and_eq_true, decide_eq_true_eq, not_or] at hg
  obtain ⟨⟨hq, hna⟩, hc⟩ := hg
  have hna' : name.any isAlnum = false := by simpa using hna
  unfold TmName tmName at htm
  simp only [Bool.or_eq_true] at htm
  rcases htm with (hid | h39) | h34
  · rw [produce_id_invalid name style hid hna' hc]; simp
  · rcases isQuoted_facts 39 name (Or.inl rfl) h39 with h | h
    · exact absurd h hq
    · subst h; cases style <;> decide
  · rcases isQuoted_facts 34 name (Or.inr rfl) h34 with h | h
    · exact absurd h hq
    · subst h; cases style <;> decide

example : TmName [95] ∧ ¬ Good [95] .upperCase := by decide

/-- Concrete failures of the unconditional property: the token name `_` gets the ID `_` (style
`UpperCase`, used for terminals), the nonterminal name `_` gets the empty ID (style `CamelCase`), the
quoted terminals `''` and `""` get the empty ID; all four spellings are admitted by the tm lexer. -/
theorem C28_produce_bad_witnesses :
    (TmName [95] ∧ produce [95] .upperCase = [95] ∧ ¬ ValidIdent (produce [95] .upperCase)) ∧
    (TmName [95] ∧ produce [95] .camelCase = [] ∧ ¬ ValidIdent (produce [95] .camelCase)) ∧
    (TmName [95, 45, 95] ∧ produce [95, 45, 95] .camelLower = [] ∧ produce [95, 45, 95] .upperUnderscores = []) ∧
    (TmName [39, 39] ∧ produce [39, 39] .upperCase = []) ∧
    (TmName [34, 34] ∧ produce [34, 34] .upperCase = []) ∧
    ¬ C28_produce_valid_full := by
  refine ⟨by decide, by decide, by decide, by decide, by decide, ?_⟩
  intro h
  exact absurd (h [95] .upperCase (by decide)) (by decide)

/-- Reserved words. `Produce` does not consult any keyword list. For the three styles used for symbol
IDs in generated code (`UpperCase` for terminals, `CamelCase` for nonterminals, `UpperUnderscores`) the
result never starts with a lower-case letter, so it cannot be a keyword of Go, C++ or TypeScript (all of
which start with a lower-case letter). `CamelLower` (used for field names in syntax/types.go) does
produce keywords: `Produce("if", CamelLower) = "if"`. -/
theorem C28_not_lower_start (name : Str) (style : Style) (hs : style ≠ .camelLower) (c : Nat)
    (hc : (produce name style).head? = some c) : isLowerA c = false :=
  produce_head name style hs c hc

example : produce (cs ['i','f']) .camelLower = cs ['i','f'] ∧
    produce (cs ['\'','i','f','\'']) .camelLower = cs ['i','f'] ∧
    produce (cs ['i','f']) .camelCase = cs ['I','f'] := by decide

/-- Duplicate detection (mirror of `resolver.addToken` / `syntaxLoader.collectNonterms` /
`resolver.addNonterms` as sequenced by `compiler.Compile`): whenever two declared symbols (terminals
incl. `eoi`/`invalid_token`, accepted nonterminals) receive the same ID, an error is reported. -/
theorem C28_dup_detect (d : Decls) (h : ¬ (declaredIds d).Nodup) : (compileSyms d).errs ≠ [] := by
  have hinv := tokenPhase_inv d
  obtain ⟨new, more, hc, hm⟩ := collect_facts (tokenPhase d) d.nonterms [] (tokenPhase d).errs
  unfold declaredIds compileSyms at h
  unfold compileSyms
  simp only [hc, List.nil_append] at h ⊢
  split
  · next hemp =>
    have hnil : (tokenPhase d).errs = [] ∧ more = [] := by
      simpa [List.isEmpty_iff] using hemp
    obtain ⟨hf, hids⟩ := foldl_addNonterm new (tokenPhase d) hinv
    have : hasDup (new.foldl addNonterm (tokenPhase d)).errs = true := by
      rw [hf.dup_iff, hids]
      simpa [idsOf, hemp] using h
    intro he
    dsimp only at he
    rw [he] at this
    simp [hasDup] at this
  · next hemp => simpa [List.isEmpty_iff] using hemp

example : ¬ (declaredIds ⟨[(cs ['a','_','b'], []), (cs ['A','_','B'], [])], []⟩).Nodup := by decide

/-- …and a "get the same ID" error is reported only when two declared symbols do collide. -/
theorem C28_dup_sound (d : Decls) (h : hasDup (compileSyms d).errs = true) :
    ¬ (declaredIds d).Nodup := by
  have hinv := tokenPhase_inv d
  obtain ⟨new, more, hc, hm⟩ := collect_facts (tokenPhase d) d.nonterms [] (tokenPhase d).errs
  unfold declaredIds
  unfold compileSyms at h ⊢
  simp only [hc, List.nil_append] at h ⊢
  split at h
  · next hemp =>
    obtain ⟨hf, hids⟩ := foldl_addNonterm new (tokenPhase d) hinv
    dsimp only at h
    rw [hf.dup_iff, hids] at h
    simpa [idsOf, hemp] using h
  · next hemp =>
    dsimp only at h
    rw [hasDup_append, Bool.or_eq_true] at h
    have happ : ∀ (b : Bool), (if b = true then (⟨(tokenPhase d).syms, (tokenPhase d).errs ++ more, new⟩ : Result)
        else ⟨(tokenPhase d).syms, (tokenPhase d).errs ++ more, new⟩).accepted = new := by
      intro b; cases b <;> rfl
    rcases h with h | h
    · intro hn
      exact (hinv.dup_iff.1 h) (List.nodup_append.1 hn).1
    · obtain ⟨n, hn, hl⟩ := hm.1 h
      have hin := (hinv.ids_iff _).1 hl
      intro hnd
      have := (List.nodup_append.1 hnd).2.2 _ hin (produce n .camelCase) ?_
      · exact this rfl
      · simp only [hemp]
        exact List.mem_map_of_mem hn

example : hasDup (compileSyms ⟨[(cs ['a'], [])], [cs ['i','n','p','u','t'], cs ['A']]⟩).errs = true := by
  decide

end TmVerif.Ident
