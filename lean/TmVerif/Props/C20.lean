import TmVerif.Proofs.TreeBuilder
import TmVerif.Proofs.EventNesting
/-!
# C20 — parse events always form a well-nested tree

Two halves.

**The builder** (`Model/TreeBuilder.lean`, mirror of `builder.addNode` of `go_ast_parse.go.tmpl`).
An event stream is `WellNested n evs` when every event is a range inside `[0, n]` and for every earlier
event `p` and later event `f`: `p` ends at or before the start of `f`, or starts at or after the end of
`f`, or lies within `f` (`Compat`: disjoint or nested, and a container is listed after its contents).
`contains c p` (for a LATER `c`) is `c.off ≤ p.off < c.endo`: for non-empty `p` this is range
inclusion; equal non-empty ranges: the later event contains the earlier one; an EMPTY node is inside
a later node iff it sits at its start or strictly inside — an empty node at the END offset of a later
node is its following sibling, and two empty nodes at one offset are siblings, the later-reported
first. `parentOf evs i` is the first later event containing event `i` (= the smallest container).

**The events** (`Model/LRX.lean`, the generated parser's runtime). For tables whose reports are listed
inner first (`XWF`, evaluated on every generated table by the harness) and tokens in source order
(`InputWF`), every run — accepted, rejected, recovered, cancelled, out of fuel — has a well-nested
listener stream.
-/
namespace TmVerif.C20
open TmVerif.TreeBuilder TmVerif.EventNesting TmVerif.LRX
open TmVerif.LR (Input Tok)

/-- **Builder correctness** (all well-nested streams). The forest built from `evs` (the builder's
stack, in Go order) has exactly the events as nodes (node `i` carries event `i`, every index once);
every node's children are exactly attached to their smallest container (`parentOf`), lie inside its
range and are in source order (`SibOrder`); the roots have no container and are in source order. -/
theorem C20_builder_correct (n : Nat) (evs : List Ev) (h : WellNested n evs) :
    (idsList (build evs)).Perm (List.range evs.length) ∧
    (∀ t ∈ subtreesList (build evs), NodeOK evs t) ∧
    (∀ r ∈ build evs, parentOf evs r.id = none) ∧
    (build evs).Pairwise SibOrder := by
  have inv := inv_build h
  refine ⟨inv.ids, inv.good, ?_, inv.sorted⟩
  intro r hr
  refine parentOf_eq_none (inv.root_ev hr) ?_
  intro j hj c hc
  have hjl := (List.getElem?_eq_some_iff.1 hc).1
  exact inv.roots r hr j hj hjl c hc

/-- non-vacuity: nested, equal, empty-at-start, empty-at-end and out-of-order (container delayed past
a later sibling, as `fixWhitespace` produces) events -/
example : WellNested 9 [⟨1, 0, 1⟩, ⟨2, 0, 1⟩, ⟨3, 2, 2⟩, ⟨4, 2, 5⟩, ⟨5, 7, 7⟩, ⟨6, 5, 5⟩, ⟨7, 0, 5⟩, ⟨8, 7, 9⟩] := by
  decide
example : (build [⟨1, 0, 1⟩, ⟨2, 0, 1⟩, ⟨3, 2, 2⟩, ⟨4, 2, 5⟩, ⟨5, 7, 7⟩, ⟨6, 5, 5⟩, ⟨7, 0, 5⟩, ⟨8, 7, 9⟩]).map Tree.show =
    ["(7 0 5 (2 0 1 (1 0 1)) (4 2 5 (3 2 2)))", "(6 5 5)", "(8 7 9 (5 7 7))"] := by
  decide

/-- **Every stream**: whatever the listener reports (no nesting assumption at all), the builder keeps
every event as exactly one node carrying that event. -/
theorem C20_builder_nodes_all_streams (evs : List Ev) :
    (idsList (build evs)).Perm (List.range evs.length) ∧
    ∀ t ∈ subtreesList (build evs), evs[t.id]? = some t.ev :=
  ⟨(inv0_build evs).ids, (inv0_build evs).evOf⟩

/-- `builder.build()` with the `fileNode` option adds `File (0, len)` and returns `stack[0]`.
FULL statement: the returned root contains every reported node. -/
def C20_file_root_full : Prop :=
  ∀ (fileTy : Int) (n : Nat) (evs : List Ev), WellNested n evs →
    ∃ t, buildFile fileTy n evs = some t ∧ t.ids.Perm (List.range (evs.length + 1))

/-- … proved under the hypothesis the proof forces: no reported node STARTS at the end offset `n` of
the text (such a node is necessarily the empty node `(n, n)`; it stays outside of `File` and
`build()` drops it). -/
theorem C20_file_root_partial (fileTy : Int) (n : Nat) (evs : List Ev) (h : WellNested n evs)
    (hlt : ∀ e ∈ evs, e.off < n) :
    ∃ t, buildFile fileTy n evs = some t ∧ build (evs ++ [⟨fileTy, 0, n⟩]) = [t] ∧
      t.ids.Perm (List.range (evs.length + 1)) := by
  obtain ⟨kids, hb⟩ := build_file_single fileTy h hlt
  refine ⟨_, by simp [buildFile, hb], hb, ?_⟩
  have := (inv0_build (evs ++ [⟨fileTy, 0, n⟩])).ids
  rw [hb] at this
  simpa [idsList] using this

example : ∀ e ∈ [(⟨1, 0, 1⟩ : Ev), ⟨2, 0, 1⟩, ⟨3, 2, 2⟩], e.off < 3 := by decide

/-- The full statement is FALSE: the stream of the shipped js parser for the text `a`
(`InsertedSemicolon (1,1)`, then the nodes of `a`) loses the `InsertedSemicolon` node. -/
theorem C20_file_root_full_fails : ¬ C20_file_root_full := by
  intro h
  obtain ⟨t, ht, hp⟩ := h 100 1 [⟨7, 1, 1⟩, ⟨1, 0, 1⟩, ⟨2, 0, 1⟩, ⟨3, 0, 1⟩] (by decide)
  have h1 : (buildFile 100 1 [⟨7, 1, 1⟩, ⟨1, 0, 1⟩, ⟨2, 0, 1⟩, ⟨3, 0, 1⟩]).map Tree.ids = some [4, 3, 2, 1] := by
    decide
  rw [ht] at h1
  simp only [Option.map_some, Option.some.injEq] at h1
  have := hp.length_eq
  rw [h1] at this
  simp at this

/-- The repaired `build()` (`buildFileAll`, /verif/fixes/C20-end-offset-node.diff: the File node adopts
every root) satisfies the FULL statement, for every stream: the root has the File node plus exactly
the reported nodes, and below the File node sits the forest of `C20_builder_correct` unchanged. -/
theorem C20_file_root_repaired (fileTy : Int) (n : Nat) (evs : List Ev) :
    (buildFileAll fileTy n evs).ids.Perm (List.range (evs.length + 1)) ∧
    (buildFileAll fileTy n evs).kids = build evs := by
  refine ⟨?_, rfl⟩
  have := (inv0_build evs).ids
  simp only [buildFileAll, Tree.ids]
  rw [List.range_succ]
  exact (List.Perm.cons _ this).trans (List.perm_append_singleton _ _).symm

/-- **Event nesting, parsers without error recovery** (`x.recovering = false`; this includes every
accepted input of any parser): for every run of the runtime model — any input, any fuel, cancelled or
not — the listener stream is well nested within `[0, endOff]`. -/
theorem C20_events_wellnested_valid (x : XTables) (inp : Input) (input : Nat) (stop : Bool)
    (cancelAt fuel : Nat) (hx : XWF x) (hi : InputWF inp) (_hr : x.recovering = false) :
    WellNested inp.endOff (listenerStream (xrun x inp input stop cancelAt fuel).2) :=
  xrun_wellNested hx hi input stop cancelAt fuel

/-- **Event nesting under error recovery**: the same for recovering parsers, whatever the error
handler answers. PARTIAL with respect to the property: `Model/LRX.lean` is the runtime of parsers that
report NO skipped tokens (lexer-driven, `ReportTokens` empty); relative to that model the statement is
complete (all inputs, all recoveries: `recoverFromError`'s `error` entry spans the dropped entries and
skipped tokens and keeps the stack invariant). -/
theorem C20_events_wellnested_recovering_partial (x : XTables) (inp : Input) (input : Nat) (stop : Bool)
    (cancelAt fuel : Nat) (hx : XWF x) (hi : InputWF inp) (_hr : x.recovering = true) :
    WellNested inp.endOff (listenerStream (xrun x inp input stop cancelAt fuel).2) :=
  xrun_wellNested hx hi input stop cancelAt fuel

/-- FULL statement of the recovering case (NOT proved). The property also names parsers that report
skipped tokens (comments, invalid tokens: `pending`, `flush`, `reportIgnoredToken`) while trimming
trailing whitespace, and the token-stream variants (`parsers/tm/stream.go`,
`parsers/js/stream_impl.go` with injected `InsertedSemicolon` nodes). Their runtime is NOT part of
`Model/LRX.lean`; the statement is therefore kept as a schema over a model `run` of that runtime
(listener stream as a function of the tables, the parser's tokens and the `skipped` tokens the lexer
produced in between). What remains to be modelled and proved for it: `flush` (including the partial
flush during recovery), the extension of the `error` range over pending invalid tokens, `insertSC`.
The invariant `Proofs/EventNesting.Core` carries over when every skipped token lies in the gap between
the stack top and the next parser token and trailing whitespace is trimmed (the reduce step then never
reports a range that reaches into that gap). These configurations are covered by the harness's direct
search only (shipped tm / js / test parsers). -/
def C20_events_wellnested_recovering_full
    (run : XTables → Input → (skipped : List Tok) → Nat → Bool → Nat → Nat → List Ev) : Prop :=
  ∀ (x : XTables) (inp : Input) (skipped : List Tok) (input : Nat) (stop : Bool) (cancelAt fuel : Nat),
    XWF x → InputWF inp → x.fixWhitespace = true →
    (∀ t ∈ skipped, t.off ≤ t.endo ∧ t.endo ≤ inp.endOff) →
    WellNested inp.endOff (run x inp skipped input stop cancelAt fuel)

/-- non-vacuity of the hypotheses: a rule with an inner and an outer report, tokens with gaps -/
example : XWF { t := default, rules := #[{ ruleType := 1, reports := [⟨2, 0, 1⟩, ⟨3, 1, 1⟩, ⟨4, 0, 2⟩], fixWS := true }],
                fixWhitespace := true } := by decide
example : InputWF { toks := #[⟨1, 0, 1⟩, ⟨2, 3, 4⟩], endOff := 5 } := by decide

/-- **Both halves together**: the tree built from the listener stream of any run of the runtime
model has exactly the reported nodes, each attached to its smallest container, siblings in source
order. -/
theorem C20_tree_of_run (x : XTables) (inp : Input) (input : Nat) (stop : Bool) (cancelAt fuel : Nat)
    (hx : XWF x) (hi : InputWF inp) :
    let evs := listenerStream (xrun x inp input stop cancelAt fuel).2
    (idsList (build evs)).Perm (List.range evs.length) ∧
    (∀ t ∈ subtreesList (build evs), NodeOK evs t) ∧
    (∀ r ∈ build evs, parentOf evs r.id = none) ∧
    (build evs).Pairwise SibOrder :=
  C20_builder_correct inp.endOff _ (xrun_wellNested hx hi input stop cancelAt fuel)

end TmVerif.C20
