import TmVerif.Proofs.Charset
import TmVerif.Proofs.Regex
/-!
C10 — Regular expressions and character classes denote their documented sets (property theorems only).

Part 1, range-list algebra of `lex/charset.go` (model: `Model/Charset.lean`), for ALL range lists and
ALL code points (`Int`): the set denoted by the result of every operation, and preservation of the
representation invariant `Normalized` (non-empty ranges, sorted, disjoint, not adjacent).
`C10_normalized_ext` makes the invariant canonical: two normalized lists denoting the same set are
equal, so comparing lists (what the correspondence run does) decides equality over all 0x110000 code points.

Part 2, escape decoding (`Model/Regex.lean`): `hexval`/`octval` and the `\xHH`, `\uHHHH`, `\UHHHHHHHH`, `\x{…}`
decoders of the documented behaviour (`Variant.strict`); the pinned tree deviates (`hexval` accepts
`G`–`Z`, the accumulator wraps at 32 bits): the `…_refuted` theorems prove the negation of the same
statements for the mirror of the current code on concrete witnesses.

Part 3, reference parser: a rejected pattern is rejected with a byte range inside the pattern; the
canonical form used to compare ASTs preserves the language.
-/
namespace TmVerif.C10
open TmVerif.Charset TmVerif.Regex

/-! ## Part 1: range lists -/

theorem C10_newCharset_mem (c : Charset) (r : Int) : Mem r (newCharset c) ↔ Mem r c :=
  mem_newCharset c r

theorem C10_newCharset_normalized (c : Charset) (hv : Valid c) : Normalized (newCharset c) :=
  normalized_newCharset c hv

example : Valid [(5, 9), (1, 3), (4, 4)] := by
  intro p hp; simp at hp; rcases hp with rfl | rfl | rfl <;> decide

theorem C10_appendRange_mem (c : Charset) (lo hi r : Int) :
    Mem r (appendRange c lo hi) ↔ Mem r c ∨ (lo ≤ r ∧ r ≤ hi) :=
  mem_appendRange c lo hi r

theorem C10_invert_mem (max : Int) (c : Charset) (hc : Normalized c) (hw : Within 0 max c) (r : Int) :
    Mem r (invert max c) ↔ 0 ≤ r ∧ r ≤ max ∧ ¬ Mem r c :=
  mem_invertFrom max 0 c hc (fun p hp => (hw p hp).1) (fun p hp => (hw p hp).2) r

theorem C10_invert_normalized (max : Int) (c : Charset) (hc : Normalized c) (hw : Within 0 max c) :
    Normalized (invert max c) ∧ Within 0 max (invert max c) :=
  ⟨normalized_invertFrom max 0 c hc (fun p hp => (hw p hp).1) (fun p hp => (hw p hp).2),
   invertFrom_bounds max 0 c hc (fun p hp => (hw p hp).1) (fun p hp => (hw p hp).2)⟩

example : Normalized [(0, 9), (11, 255)] ∧ Within 0 255 [(0, 9), (11, 255)] ∧
    invert 255 [(0, 9), (11, 255)] = [(10, 10)] := by
  refine ⟨by decide, ?_, by decide⟩
  intro p hp; simp at hp; rcases hp with rfl | rfl <;> decide

theorem C10_subtract_mem (c oth : Charset) (hc : Normalized c) (ho : Normalized oth) (r : Int) :
    Mem r (subtract c oth) ↔ Mem r c ∧ ¬ Mem r oth :=
  (subtract_spec c oth hc ho).1 r

theorem C10_subtract_normalized (c oth : Charset) (hc : Normalized c) (ho : Normalized oth) :
    Normalized (subtract c oth) :=
  (subtract_spec c oth hc ho).2.1

example : Normalized [(65, 90)] ∧ Normalized [(68, 70)] ∧ subtract [(65, 90)] [(68, 70)] = [(65, 67), (71, 90)] := by
  decide

theorem C10_intersect_mem (a b : Charset) (ha : Normalized a) (hb : Normalized b) (r : Int) :
    Mem r (intersect a b) ↔ Mem r a ∧ Mem r b :=
  (intersect_spec a b ha hb).1 r

example : Normalized [(1, 5), (9, 12)] ∧ Normalized [(4, 10)] := by decide

theorem C10_intersect_normalized (a b : Charset) (ha : Normalized a) (hb : Normalized b) :
    Normalized (intersect a b) :=
  (intersect_spec a b ha hb).2.1

/-- Case folding with respect to a table of `SimpleFold` orbits: the set itself plus every member of an
orbit that meets the set (ASCII members only when `ascii`). -/
theorem C10_fold_mem (orbits : List (List Int)) (ascii : Bool) (c : Charset) (r : Int) :
    Mem r (fold orbits ascii c) ↔
      Mem r c ∨ ∃ o ∈ orbits, r ∈ o ∧ (∃ m ∈ o, Mem m c) ∧ (ascii = true → r < 0x80) :=
  mem_fold orbits ascii c r

theorem C10_fold_normalized (orbits : List (List Int)) (ascii : Bool) (c : Charset) (hc : Valid c) :
    Normalized (fold orbits ascii c) :=
  normalized_fold orbits ascii c hc

/-- Equal sets ⇒ equal lists. -/
theorem C10_normalized_ext (a b : Charset) (ha : Normalized a) (hb : Normalized b)
    (h : ∀ r, Mem r a ↔ Mem r b) : a = b :=
  normalized_ext a b ha hb h

example : Normalized [(1, 3), (5, 9)] ∧ Normalized [(1, 3), (5, 9)] := by decide

/-- The invariant is decidable by the checker the driver uses. -/
theorem C10_normalizedB_iff (c : Charset) : normalizedB c = true ↔ Normalized c := normalizedB_iff c

/-! ## Part 2: digits and escapes -/

/-- `hexval` of the documented behaviour: a value exactly on `[0-9a-fA-F]`. -/
theorem C10_hexval_spec (r : Int) : hexval false r ≠ -1 ↔ isHexDigit r := hexval_spec r

/-- … and the value is the digit's value. -/
theorem C10_hexval_value (r : Int) (h : isHexDigit r) :
    hexval false r = (if 48 ≤ r ∧ r ≤ 57 then r - 48 else if 97 ≤ r then r - 87 else r - 55) ∧
    0 ≤ hexval false r ∧ hexval false r < 16 := hexval_value r h

example : isHexDigit 70 ∧ hexval false 70 = 15 := by decide

/-- The full statement for a `hexval` with lax digits (the pinned tree, `case r >= 'A' && r <= 'Z'`). -/
def C10_hexval_spec_current_tree_full : Prop := ∀ r, hexval true r ≠ -1 ↔ isHexDigit r

/-- It is false: `'Z'` is accepted with value 35. -/
theorem C10_hexval_spec_current_tree_refuted : ¬ C10_hexval_spec_current_tree_full := by
  intro h
  have := (h 90).1 (by decide)
  revert this; decide

theorem C10_octval_spec (r : Int) : octval r ≠ -1 ↔ (48 ≤ r ∧ r ≤ 55) := octval_spec r

theorem C10_octval_value (r : Int) (h : 48 ≤ r ∧ r ≤ 55) : octval r = r - 48 := octval_value r h

/-- `\xHH` (documented behaviour, outside a class or inside, any mode, no folding): two hexadecimal
digits denote exactly the rune `16·h₁ + h₂`, and the rest of the input is untouched. -/
theorem C10_escape_x2 (env : Env) (bytes standalone : Bool) (h1 h2 : Nat) (rest : List Nat)
    (d1 : isHexDigit h1) (d2 : isHexDigit h2) :
    parseEscape env Variant.strict false bytes standalone (0x78 :: h1 :: h2 :: rest) =
      .ok ([(hexval false h1 * 16 + hexval false h2, hexval false h1 * 16 + hexval false h2)], rest) :=
  escape_x2 env bytes standalone h1 h2 rest d1 d2

example : isHexDigit (52 : Nat) ∧ isHexDigit (49 : Nat) := by decide

/-- `\UHHHHHHHH` beyond `unicode.MaxRune` is rejected by the documented behaviour … -/
theorem C10_escape_U_out_of_range_rejected (env : Env) :
    ∃ msg lo hi, refParse env false false [0x5C, 0x55, 0x46, 0x46, 0x46, 0x46, 0x46, 0x46, 0x46, 0x46] =
      .error msg lo hi := escape_U_strict env

/-- … while the mirror of the pinned tree (32-bit wrap-around) accepts `\UFFFFFFFF` as the rune `-1`. -/
theorem C10_escape_wrap_current_tree_refuted (env : Env) :
    parse env ⟨true, true, true, true⟩ false false [0x5C, 0x55, 0x46, 0x46, 0x46, 0x46, 0x46, 0x46, 0x46, 0x46] =
      .ok (.cc [(-1, -1)]) := escape_U_wrap env

/-- `\xZZ`: rejected by the documented behaviour, accepted as U+0253 by the mirror of the pinned tree. -/
theorem C10_escape_xZZ (env : Env) :
    (∃ msg lo hi, refParse env false false [0x5C, 0x78, 0x5A, 0x5A] = .error msg lo hi) ∧
    parse env ⟨true, true, true, true⟩ false false [0x5C, 0x78, 0x5A, 0x5A] = .ok (.cc [(0x253, 0x253)]) :=
  escape_xZZ env

/-- `\p{script}` without case folding is exactly the script's table (documented behaviour) … -/
theorem C10_namedSet_script_nofold (tabs : List NamedTable) (name : String) (t : NamedTable) (bytes : Bool)
    (h1 : (name == "Any") = false) (h2 : (name == "Ascii") = false) (hb : bytes = false)
    (hc : tabs.find? (fun t => t.name == name && t.kind == .category) = none)
    (hs : tabs.find? (fun t => t.name == name && t.kind == .script) = some t) :
    namedSet tabs false name false bytes = some t.table := by
  subst hb
  simp [namedSet, h1, h2, hc, hs]

example : ∃ tabs : List NamedTable, ∃ t, ("Greek" == "Any") = false ∧ ("Greek" == "Ascii") = false ∧
    tabs.find? (fun t => t.name == "Greek" && t.kind == .category) = none ∧
    tabs.find? (fun t => t.name == "Greek" && t.kind == .script) = some t :=
  ⟨[⟨"Greek", .script, [(0x370, 0x373)], [(0xB5, 0xB5)]⟩], ⟨"Greek", .script, [(0x370, 0x373)], [(0xB5, 0xB5)]⟩,
    by decide, by decide, rfl, rfl⟩

/-- … while the mirror of the pinned tree (FoldScript added unconditionally) puts U+00B5 into `\p{Greek}`. -/
theorem C10_namedSet_script_current_tree_refuted :
    namedSet [⟨"Greek", .script, [(0x370, 0x373)], [(0xB5, 0xB5)]⟩] true "Greek" false false =
      some [(0x370, 0x373), (0xB5, 0xB5)] ∧
    namedSet [⟨"Greek", .script, [(0x370, 0x373)], [(0xB5, 0xB5)]⟩] false "Greek" false false =
      some [(0x370, 0x373)] := by
  constructor <;> decide

/-- In byte mode a single escaped rune ≥ 0x80 is never case-folded (documented behaviour: "no case folding
for non-ASCII in bytes mode") … -/
theorem C10_runeSet_bytes_nonascii (env : Env) (r : Int) (h : r ≥ 0x80) :
    runeSet env Variant.strict true true r = [(r, r)] := by
  simp [runeSet, Variant.strict, h]

/-- … while the mirror of the pinned tree folds U+212A (KELVIN SIGN) to a set containing `'K'`. -/
theorem C10_runeSet_bytes_current_tree_refuted :
    Mem 75 (runeSet ⟨[[75, 107, 8490]], []⟩ ⟨true, true, true, true⟩ true true 8490) := by
  have : runeSet ⟨[[75, 107, 8490]], []⟩ ⟨true, true, true, true⟩ true true 8490 =
      fold [[75, 107, 8490]] true [(8490, 8490)] := by simp [runeSet]
  rw [this, mem_fold]
  right
  exact ⟨[75, 107, 8490], by simp, by simp, ⟨8490, by simp, by simp [Mem]⟩, by intro _; decide⟩

/-! ## Part 3: reference parser -/

/-- A rejected pattern is rejected with a byte range inside the pattern (`0 ≤ lo` holds in `Nat`). -/
theorem C10_refParse_error_in_pattern (env : Env) (fold bytes : Bool) (pat : List Nat) (msg : String)
    (lo hi : Nat) (h : refParse env fold bytes pat = .error msg lo hi) : lo ≤ hi ∧ hi ≤ pat.length :=
  parse_error_in_pattern env Variant.strict fold bytes pat msg lo hi h

example (env : Env) : ∃ msg lo hi, refParse env false false [0x28] = .error msg lo hi :=
  ⟨_, _, _, rfl⟩

/-- The same for the mirror of any variant of the code. -/
theorem C10_parse_error_in_pattern (env : Env) (v : Variant) (fold bytes : Bool) (pat : List Nat)
    (msg : String) (lo hi : Nat) (h : parse env v fold bytes pat = .error msg lo hi) :
    lo ≤ hi ∧ hi ≤ pat.length :=
  parse_error_in_pattern env v fold bytes pat msg lo hi h

/-- The canonical form compared by the correspondence run denotes the same language (for every
interpretation `ρ` of the named references `{name}`): equal canonical forms ⇒ equal languages. -/
theorem C10_canon_lang (ρ : List Nat → List Int → Prop) (r : Regex) (w : List Int) :
    Lang ρ (canon r) w ↔ Lang ρ r w := canon_lang ρ r w

theorem C10_canon_eq_lang (ρ : List Nat → List Int → Prop) (r g : Regex) (h : canon r = canon g)
    (w : List Int) : Lang ρ r w ↔ Lang ρ g w := by
  rw [← canon_lang ρ r w, ← canon_lang ρ g w, h]

example : canon (.cat .eps (.alt (.ext [97]) .eps)) = canon (.cat (.alt (.ext [97]) .eps) (.rep .eps 0 (some 0))) := by
  decide

end TmVerif.C10
