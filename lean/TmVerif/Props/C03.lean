import TmVerif.Model.LRRef
import TmVerif.Proofs.LRRefJust
/-!
C03 — lookahead sets are exactly LALR(1): property theorems about the reference construction
(`Model/LRRef.lean`) the real tables are compared with on every run.

The reference defines LALR(1) as item-level propagation over the LR(0) automaton (= LR(1) items
merged by core). `laClosed` is the decision procedure the driver runs on the computed sets; the
theorems below say what a `true` verdict means, for every grammar, table and assignment.

Exactness has two halves. FROM BELOW (`C03_la_closed_*`): the computed sets are closed under the
propagation rules, i.e. large enough. FROM ABOVE (`C03_la_least`): a justification certificate
(`Model/LRJust.lean`: rank + reason per set bit, checked by `justOk` on every run) shows that every
bit is forced, i.e. contained in EVERY solution `L` of the propagation equations. The equations
(`LASolution`) are stated with the grammar's TRUE nullable symbols and FIRST sets, defined
inductively (`Nullable`, `First`), not with the computed ones: this is the weakest reasonable
hypothesis on `L` for the upper half, since the computed FIRST/nullable are proved to be contained in
the inductive ones for every grammar (`C03_nullable_sound`, `C03_first_sound`; invariants of the
folds), and `L` has to be closed only at items that belong to the state (`laDom la s`).
`C03_la_exact` puts both halves together: the computed assignment is itself a solution (this needs
the converse inclusion FIRST/nullable ⊆ computed, which holds when the computed ones are closed under
the rules: `nfClosed`, checked on every run) and lies below every solution, so it is THE least
solution of the LALR(1) equations on this automaton (`C03_la_unique`). A spurious lookahead — and
with it a spurious conflict — can therefore not be "expected" by the reference.
-/
namespace TmVerif.LRRef
open TmVerif.CFG TmVerif.LR

theorem laClosedAt_of_laClosed (g : Grammar) (t : Tables) (la : LA) (h : laClosed g t la = true)
    (s : Nat) (hs : s < la.size) (p : Item × Nat) (hp : p ∈ la.getD s []) :
    laClosedAt g t (nullable g) (firstSets g (nullable g)) la s p.1 = true := by
  unfold laClosed at h
  simp only [List.all_eq_true, List.mem_range] at h
  exact h s hs p hp

/-- goto propagation: the item after the dot moved over `x` in the successor state carries at
least the lookahead set of the item before the move. -/
theorem C03_la_closed_goto (g : Grammar) (t : Tables) (la : LA) (h : laClosed g t la = true)
    (s : Nat) (hs : s < la.size) (p : Item × Nat) (hp : p ∈ la.getD s [])
    (x : Nat) (hx : (rhsOf g p.1.1)[p.1.2]? = some x) (q : Int) (hq : gotoState t s x = some q)
    (hq0 : 0 ≤ q) :
    subMask (laGet la s p.1) (laGet la q.toNat (p.1.1, p.1.2 + 1)) = true := by
  have := laClosedAt_of_laClosed g t la h s hs p hp
  unfold laClosedAt at this
  simp only [hx, hq, Bool.and_eq_true, Bool.or_eq_true, decide_eq_true_eq] at this
  rcases this.1 with h1 | h1
  · omega
  · exact h1

/-- closure propagation: `[A → α . B β, L]` gives every `B → . γ` of the same state the set
`FIRST(β) ∪ (L if β is nullable)`. -/
theorem C03_la_closed_closure (g : Grammar) (t : Tables) (la : LA) (h : laClosed g t la = true)
    (s : Nat) (hs : s < la.size) (p : Item × Nat) (hp : p ∈ la.getD s [])
    (x : Nat) (hx : (rhsOf g p.1.1)[p.1.2]? = some x) (hnt : g.nTerms ≤ x)
    (r : Nat) (hr : r ∈ rulesOf g x) :
    subMask (closureContribution g (nullable g) (firstSets g (nullable g)) p.1 (laGet la s p.1))
      (laGet la s (r, 0)) = true := by
  have := laClosedAt_of_laClosed g t la h s hs p hp
  unfold laClosedAt at this
  simp only [hx, Bool.and_eq_true, Bool.or_eq_true, decide_eq_true_eq, List.all_eq_true] at this
  rcases this.2 with h1 | h1
  · omega
  · exact h1 r hr

/-- `subMask a b` is set inclusion of the terminal sets encoded by the masks. -/
theorem C03_subMask_spec (a b : Nat) (h : subMask a b = true) (i : Nat) (hi : a.testBit i = true) :
    b.testBit i = true := by
  unfold subMask at h
  have h' : a &&& b = a := by simpa using h
  have := congrArg (fun n => n.testBit i) h'
  simp [Nat.testBit_and, hi] at this
  exact this

/-! ### exactness from above -/

/-- the computed nullable list holds only symbols that derive ε (every grammar) -/
theorem C03_nullable_sound (g : Grammar) (X : Nat) (h : (nullable g).contains X = true) :
    Nullable g X :=
  nullable_sound g X h

/-- the computed FIRST sets hold only terminals that can begin a sentential form of the sequence
(every grammar, every sequence) -/
theorem C03_first_sound (g : Grammar) (β : List Nat) (a : Nat)
    (h : (firstOfSeq g (nullable g) (firstSets g (nullable g)) β).testBit a = true) : First g β a :=
  firstOfSeq_sound (nullable_sound g) (firstSets_sound g) β a h

/-- with the closedness check of the driver, computed nullable = inductive nullable -/
theorem C03_nullable_exact (g : Grammar) (hwf : g.wf = true) (hnf : nfClosed g = true) (X : Nat) :
    (nullable g).contains X = true ↔ Nullable g X :=
  ⟨nullable_sound g X, nullable_complete (nfClosed_elim hwf hnf)⟩

/-- with the closedness check of the driver, computed FIRST = inductive FIRST -/
theorem C03_first_exact (g : Grammar) (hwf : g.wf = true) (hnf : nfClosed g = true)
    (β : List Nat) (a : Nat) :
    (firstOfSeq g (nullable g) (firstSets g (nullable g)) β).testBit a = true ↔ First g β a :=
  ⟨C03_first_sound g β a, first_complete (nfClosed_elim hwf hnf)⟩

/-- LEASTNESS: if the justification certificate is accepted, every terminal of every computed
lookahead set belongs to the corresponding set of EVERY assignment `L` that solves the LALR(1)
propagation equations on this automaton (`LASolution`: start sets, goto rule, closure rule with the
inductive FIRST/nullable). By induction on the rank recorded in the certificate. -/
theorem C03_la_least (g : Grammar) (t : Tables) (la : LA) (just : Just)
    (h : justOk g t la just = true) (L : Nat → Item → Nat)
    (hL : LASolution g t (laDom la) L) (s : Nat) (it : Item) (a : Nat)
    (hb : (laGet la s it).testBit a = true) : (L s it).testBit a = true :=
  la_least h hL _ s it a rfl hb

/-- EXACTNESS: under the five decidable checks the driver performs on every sampled grammar, the
computed assignment solves the equations and is contained in every solution. -/
theorem C03_la_exact (g : Grammar) (t : Tables) (la : LA) (just : Just)
    (hwf : g.wf = true) (hnf : nfClosed g = true) (hinit : laInitOk g la = true)
    (hc : laClosed g t la = true) (hj : justOk g t la just = true) :
    LASolution g t (laDom la) (laGet la) ∧
    ∀ L, LASolution g t (laDom la) L →
      ∀ s it a, (laGet la s it).testBit a = true → (L s it).testBit a = true :=
  ⟨la_solution hwf hnf hinit hc, fun L hL s it a hb => C03_la_least g t la just hj L hL s it a hb⟩

/-- … hence it is the unique least solution: any least solution has the same sets. -/
theorem C03_la_unique (g : Grammar) (t : Tables) (la : LA) (just : Just)
    (hwf : g.wf = true) (hnf : nfClosed g = true) (hinit : laInitOk g la = true)
    (hc : laClosed g t la = true) (hj : justOk g t la just = true)
    (L : Nat → Item → Nat) (hL : LASolution g t (laDom la) L)
    (hmin : ∀ L', LASolution g t (laDom la) L' →
      ∀ s it a, (L s it).testBit a = true → (L' s it).testBit a = true)
    (s : Nat) (it : Item) (a : Nat) : (L s it).testBit a = (laGet la s it).testBit a := by
  obtain ⟨h1, h2⟩ := C03_la_exact g t la just hwf hnf hinit hc hj
  have e1 := hmin _ h1 s it a
  have e2 := h2 L hL s it a
  cases hl : (L s it).testBit a <;> cases hr : (laGet la s it).testBit a <;> simp_all

/-! Non-vacuity: the real tables of `lalr.Compile` for `E: T '+' E | T ; T: '(' E ')' | id ;`
(terminals 2 `+`, 3 `(`, 4 `)`, 5 `id`; the `exG2`/`exT2` of Props/C01.lean, a grammar with a lookahead
state). All five checks hold with the certificate computed by `laJustify`, so `C03_la_exact`
applies; and the same assignment with ONE spurious terminal (`(` added to the lookahead set
`{$, +, )}` of `T → id .` in state 2) has NO accepted certificate, whatever ranks and reasons it
offers. -/
private def exG2 : Grammar :=
  { nTerms := 6, nSyms := 8,
    rules := #[⟨6, [7, 2, 6], 0⟩, ⟨6, [7], 0⟩, ⟨7, [3, 6, 4], 0⟩, ⟨7, [5], 0⟩],
    inputs := #[⟨6, true⟩] }
private def exT2 : Tables :=
  { nTerms := 6, action := #[-1,-1,3,-3,-1,-1,2,0,-1,-2], lalr := #[2,-1,0,1,4,1,-1,-2],
    goto_ := #[0,2,2,4,10,12,18,24,30],
    fromTo := #[8,9,3,5,0,1,1,1,5,1,4,6,0,2,1,2,5,2,0,8,1,4,5,7,0,3,1,3,5,3],
    ruleLen := #[3,1,3,1], ruleSymbol := #[6,6,7,7], finalStates := #[9] }
private def exPhi : Phi := (phiWalk exG2 exT2).toOption.getD default
private def exLA : LA := laFix exG2 exT2 exPhi
private def exJust : Just := (laJustify exG2 exT2 exPhi exLA).getD #[]

private theorem exChecks : exG2.wf = true ∧ nfClosed exG2 = true ∧ laInitOk exG2 exLA = true ∧
    laClosed exG2 exT2 exLA = true ∧ justOk exG2 exT2 exLA exJust = true := by
  refine ⟨by decide +kernel, by decide +kernel, by decide +kernel, by decide +kernel,
    by decide +kernel⟩

example : (phiWalk exG2 exT2).toOption.isSome = true ∧ (laJustify exG2 exT2 exPhi exLA).isSome = true ∧
    laGet exLA 2 (3, 1) = 0b10101 := by
  refine ⟨by decide +kernel, by decide +kernel, by decide +kernel⟩

example : LASolution exG2 exT2 (laDom exLA) (laGet exLA) :=
  (C03_la_exact exG2 exT2 exLA exJust exChecks.1 exChecks.2.1 exChecks.2.2.1 exChecks.2.2.2.1
    exChecks.2.2.2.2).1

/-- `exLA` with terminal 3 `(` added to the lookahead set of `T → id .` in state 2 -/
private def exBig : LA := laAdd exLA 2 (3, 1) 0b1000

example : laGet exBig 2 (3, 1) = 0b11101 ∧ ¬ ∃ just, justOk exG2 exT2 exBig just = true := by
  refine ⟨by decide +kernel, ?_⟩
  rintro ⟨just, h⟩
  have hsol := (C03_la_exact exG2 exT2 exLA exJust exChecks.1 exChecks.2.1 exChecks.2.2.1
    exChecks.2.2.2.1 exChecks.2.2.2.2).1
  have hdom : laDom exBig = laDom exLA := by
    funext s
    by_cases hs : s < 10
    · have : s = 0 ∨ s = 1 ∨ s = 2 ∨ s = 3 ∨ s = 4 ∨ s = 5 ∨ s = 6 ∨ s = 7 ∨ s = 8 ∨ s = 9 := by
        omega
      rcases this with h | h | h | h | h | h | h | h | h | h <;> subst h <;> decide +kernel
    · have h1 : exBig.size = 10 := by decide +kernel
      have h2 : exLA.size = 10 := by decide +kernel
      unfold laDom
      simp [Array.getD_eq_getD_getElem?, Array.getElem?_eq_none (show exBig.size ≤ s by omega),
        Array.getElem?_eq_none (show exLA.size ≤ s by omega)]
  have := C03_la_least exG2 exT2 exBig just h (laGet exLA) (hdom ▸ hsol) 2 (3, 1) 3
    (by decide +kernel)
  have h0 : (laGet exLA 2 (3, 1)).testBit 3 = false := by decide +kernel
  rw [h0] at this
  cases this

end TmVerif.LRRef
