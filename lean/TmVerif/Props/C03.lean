import TmVerif.Model.LRRef
/-!
C03 — lookahead sets are exactly LALR(1): property theorems about the reference construction
(`Model/LRRef.lean`) the real tables are compared with on every run.

The reference defines LALR(1) as item-level propagation over the LR(0) automaton (= LR(1) items
merged by core). `laClosed` is the decision procedure the driver runs on the computed sets; the
theorems below say what a `true` verdict means, for every grammar, table and assignment.
-/
namespace TmVerif.LRRef
open TmVerif.CFG TmVerif.LR

theorem laClosedAt_of_laClosed (g : Grammar) (t : Tables) (la : LA) (h : laClosed g t la = true)
    (s : Nat) (hs : s < la.size) (p : Item × Nat) (hp : p ∈ la.getD s []) :
    laClosedAt g t (nullable g) (firstSets g (nullable g)) la s p.1 = true := by
  unfold laClosed at h
  simp only [List.all_eq_true, List.mem_range] at h
  exact h s hs p hp

/-- goto propagation: the item after the dot moved over `x` in the successor state carries at
least the lookahead set of the item before the move. -/
theorem C03_la_closed_goto (g : Grammar) (t : Tables) (la : LA) (h : laClosed g t la = true)
    (s : Nat) (hs : s < la.size) (p : Item × Nat) (hp : p ∈ la.getD s [])
    (x : Nat) (hx : (rhsOf g p.1.1)[p.1.2]? = some x) (q : Int) (hq : gotoState t s x = some q)
    (hq0 : 0 ≤ q) :
    subMask (laGet la s p.1) (laGet la q.toNat (p.1.1, p.1.2 + 1)) = true := by
  have := laClosedAt_of_laClosed g t la h s hs p hp
  unfold laClosedAt at this
  simp only [hx, hq, Bool.and_eq_true, Bool.or_eq_true, decide_eq_true_eq] at this
  rcases this.1 with h1 | h1
  · omega
  · exact h1

/-- closure propagation: `[A → α . B β, L]` gives every `B → . γ` of the same state the set
`FIRST(β) ∪ (L if β is nullable)`. -/
theorem C03_la_closed_closure (g : Grammar) (t : Tables) (la : LA) (h : laClosed g t la = true)
    (s : Nat) (hs : s < la.size) (p : Item × Nat) (hp : p ∈ la.getD s [])
    (x : Nat) (hx : (rhsOf g p.1.1)[p.1.2]? = some x) (hnt : g.nTerms ≤ x)
    (r : Nat) (hr : r ∈ rulesOf g x) :
    subMask (closureContribution g (nullable g) (firstSets g (nullable g)) p.1 (laGet la s p.1))
      (laGet la s (r, 0)) = true := by
  have := laClosedAt_of_laClosed g t la h s hs p hp
  unfold laClosedAt at this
  simp only [hx, Bool.and_eq_true, Bool.or_eq_true, decide_eq_true_eq, List.all_eq_true] at this
  rcases this.2 with h1 | h1
  · omega
  · exact h1 r hr

/-- `subMask a b` is set inclusion of the terminal sets encoded by the masks. -/
theorem C03_subMask_spec (a b : Nat) (h : subMask a b = true) (i : Nat) (hi : a.testBit i = true) :
    b.testBit i = true := by
  unfold subMask at h
  have h' : a &&& b = a := by simpa using h
  have := congrArg (fun n => n.testBit i) h'
  simp [Nat.testBit_and, hi] at this
  exact this

end TmVerif.LRRef
