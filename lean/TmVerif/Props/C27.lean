import TmVerif.Proofs.DiffText
import TmVerif.Proofs.DiffMyersTotal
/-!
C27 — Line diffs are correct and minimal (property theorems only).

Model: `TmVerif/Model/Diff.lean` mirrors `/repo/util/diff/diff.go`. `lcsWith raw` is the Go `lcs`
with the Myers search `middle` replaced by an arbitrary oracle `raw` for the split point (the
snake is re-checked element by element, as in the Go code); `lcs = lcsWith middleRaw`.
`none` models `log.Fatal` / an out-of-range slice / exhausted fuel.
-/
namespace TmVerif.Diff
open scoped List
variable {α : Type} [DecidableEq α]

/-- Correctness of the edit script, for ANY split-point oracle and all inputs: whenever `lcs`
returns, applying its chunks to `a` (deleting `del` lines, inserting the `ins` lines `LineDiff`
prints, keeping `eq` lines) yields exactly `b`, and the script's cost is the number of lines
actually deleted and inserted. -/
theorem C27_script_transforms (raw : List α → List α → Option (Nat × Nat × Nat)) (a b : List α)
    (cs : List Chunk) (h : lcsWith raw a b = some cs) :
    applyEdits (toEdits cs b) a = some b ∧ editCost (toEdits cs b) = scriptCost cs :=
  valid_apply cs a b (lcs_valid raw a b cs h)

-- non-vacuity: the premise is satisfiable (here without ever consulting the oracle)
example : lcsWith (fun _ _ => none) [1, 2, 5] [1, 3, 5] = some [⟨0, 0, 1⟩, ⟨1, 1, 1⟩] := by decide

/-- The dynamic-programming reference is the length of a longest common subsequence: it is
attained by a common subsequence and no common subsequence is longer. -/
theorem C27_dpLcs_optimal (a b : List α) :
    (∃ s, s <+ a ∧ s <+ b ∧ s.length = dpLcs a b) ∧
    ∀ s, s <+ a → s <+ b → s.length ≤ dpLcs a b := by
  rw [dpLcs_eq]
  exact ⟨lcsRec_witness a b, fun s h1 h2 => lcsRec_upper a b s h1 h2⟩

/-- No way of editing `a` into `b` by deleting, inserting and keeping lines costs less than
`|a| + |b| - 2·dpLcs a b`: this is what "minimal" is measured against. -/
theorem C27_cost_lower_bound (es : List (Edit α)) (a b : List α) (h : applyEdits es a = some b) :
    a.length + b.length ≤ editCost es + 2 * dpLcs a b := by
  rw [dpLcs_eq]; exact editCost_lower es a b h

/-- Minimality, given that every split point the oracle returns lies on an optimal path
(`OptimalSplit`, decidable per instance; the driver evaluates it for the mirrored Myers search on
every `mid` case and checks `cost = |a| + |b| - 2·dpLcs a b` on every script the Go code returns). -/
theorem C27_script_minimal_partial (raw : List α → List α → Option (Nat × Nat × Nat))
    (hraw : OptimalSplit raw) (a b : List α) (cs : List Chunk) (h : lcsWith raw a b = some cs) :
    scriptCost cs + 2 * dpLcs a b = a.length + b.length := by
  rw [dpLcs_eq]; exact lcs_minimal raw hraw a b cs h

/-- The mirrored bidirectional Myers search (`middle` up to its re-check loop) returns, for ALL
inputs, a split point on a shortest edit path: the hypothesis of `C27_script_minimal_partial`
holds for the real oracle. (Proof: furthest-reaching invariant of the forward and of the reverse
rounds on the unbounded edit graph, soundness and completeness of the overlap test with the
`limit`/`start` trimming of the Go code, termination within `max+1` rounds.) -/
theorem C27_middle_optimal : OptimalSplit (middleRaw (α := α)) := optimalSplit_middleRaw

/-- Minimality of the mirror of `lcs`, all inputs: whenever it returns a script, the script's cost
is exactly `|a| + |b| - 2·dpLcs a b`, which by `C27_cost_lower_bound` no edit list can beat. -/
theorem C27_script_minimal (a b : List α) (cs : List Chunk) (h : lcs a b = some cs) :
    scriptCost cs + 2 * dpLcs a b = a.length + b.length :=
  C27_script_minimal_partial middleRaw C27_middle_optimal a b cs h

/-- The mirror of `lcs` returns for every input: the `log.Fatal` calls of `trace` and `middle`, an
out-of-range or corner split point, a negative coordinate and the fuel of the model are never
reached (the search finds its split within `max+1` rounds; the sub-problems of `trace` again have
no common first or last element and are strictly smaller). -/
theorem C27_lcs_total (a b : List α) : ∃ cs, lcs a b = some cs := lcs_total a b

/-- The full statement: for every pair of inputs the mirror of `lcs` returns a script, the script
turns `a` into `b`, and its cost is the minimum `|a| + |b| - 2·dpLcs a b`. -/
theorem C27_script_minimal_full :
    ∀ (β : Type) [DecidableEq β] (a b : List β),
      ∃ cs, lcs a b = some cs ∧ applyEdits (toEdits cs b) a = some b ∧
        scriptCost cs + 2 * dpLcs a b = a.length + b.length := by
  intro β _ a b
  obtain ⟨cs, h⟩ := lcs_total a b
  exact ⟨cs, h, (C27_script_transforms middleRaw a b cs h).1, C27_script_minimal a b cs h⟩

/-- `LineDiff` (the mirror) returns for every pair of texts. -/
theorem C27_linediff_total (left right : List Char) : ∃ t, lineDiff left right = some t := by
  unfold lineDiff lineDiffHunks
  split
  · exact ⟨_, rfl⟩
  · obtain ⟨cs, h⟩ := lcs_total (splitLines left) (splitLines right)
    simp only [h]
    exact ⟨_, rfl⟩

-- non-vacuity of the hypothesis
example : OptimalSplit (fun (_ _ : List Nat) => none) := by intro a b ai bi mx h; cases h

/-- The rendered diff is empty exactly when the texts are equal. -/
theorem C27_linediff_empty_iff_equal (left right : List Char) :
    lineDiff left right = some [] ↔ left = right :=
  lineDiff_nil_iff left right

/-- No run of more than 14 deleted or inserted lines in the script of `left`/`right`
(`hunk.add` renders at most 14 lines of a run and replaces the rest by a marker line). -/
def ShortRuns (left right : List Char) : Prop :=
  ∀ cs, lcs (splitLines left) (splitLines right) = some cs → ∀ c ∈ cs, c.del ≤ 14 ∧ c.ins ≤ 14

/-- The hunks apply: for texts whose script has no run of more than 14 changed lines, the patch
applier run on the hunks `LineDiff` writes, applied to the lines of the first text, yields exactly
the lines of the second text (line numbers and sizes in the hunk headers are checked by
`applyHunks`). The hypothesis is exactly what the proof forces: see `C27_hunks_apply_full_fails`. -/
theorem C27_hunks_apply_partial (left right : List Char) (hs : List Hunk)
    (h : lineDiffHunks left right = some hs) (hshort : ShortRuns left right) :
    applyHunks hs (splitLines left) = some (splitLines right) := by
  unfold lineDiffHunks at h
  split at h
  case isTrue he => cases h; subst he; rfl
  case isFalse he =>
    cases hl : lcs (splitLines left) (splitLines right) with
    | none => simp [hl] at h
    | some cs =>
      simp [hl] at h
      subst h
      exact hunksOfChunks_apply _ _ cs (lcs_valid _ _ _ _ hl) (hshort cs hl)

/-- The same on the rendered TEXT: parsing the unified diff that `LineDiff` prints and applying its
hunks to the first text gives the second text (same hypothesis on run lengths). -/
theorem C27_patch_applies_partial (left right text : List Char)
    (h : lineDiff left right = some text) (hshort : ShortRuns left right) :
    applyPatch text left = some right := by
  unfold lineDiff at h
  cases hh : lineDiffHunks left right with
  | none => simp [hh] at h
  | some hs =>
    simp [hh] at h
    subst h
    have hgood : ∀ x ∈ hs, GoodHunk x := by
      unfold lineDiffHunks at hh
      split at hh
      · cases hh; simp
      · cases hl : lcs (splitLines left) (splitLines right) with
        | none => simp [hl] at hh
        | some cs =>
          simp [hl] at hh
          subst hh
          exact hunksOfChunks_good _ _ cs (splitLines_noNL left) (splitLines_noNL right)
    unfold applyPatch
    rw [parsePatch_render hs hgood]
    simp only
    rw [C27_hunks_apply_partial left right hs hh hshort]
    simp [joinLines_splitLines]

/-- the full statement, without the restriction on run lengths -/
def C27_hunks_apply_full : Prop :=
  ∀ (left right : List Char) (hs : List Hunk), lineDiffHunks left right = some hs →
    applyHunks hs (splitLines left) = some (splitLines right)

/-- witness: "x\ny" against "x", fifteen new lines, "y" -/
def elisionLeft : List Char := ['x', '\n', 'y']
def elisionRight : List Char :=
  ['x', '\n', 'a', '\n', 'b', '\n', 'c', '\n', 'd', '\n', 'e', '\n', 'f', '\n', 'g', '\n', 'h', '\n',
   'i', '\n', 'j', '\n', 'k', '\n', 'l', '\n', 'm', '\n', 'n', '\n', 'o', '\n', 'y']

/-- The full statement is FALSE for the mirror (and, by the byte-for-byte correspondence of the
rendering, for `diff.LineDiff`): fifteen inserted lines are elided and the hunk does not apply. -/
theorem C27_hunks_apply_full_fails : ¬ C27_hunks_apply_full := by
  intro hfull
  have h1 : (lineDiffHunks elisionLeft elisionRight).bind
      (fun hs => applyHunks hs (splitLines elisionLeft)) ≠ some (splitLines elisionRight) := by
    decide
  cases hl : lineDiffHunks elisionLeft elisionRight with
  | none => exact absurd hl (by decide)
  | some hs =>
    apply h1
    rw [hl]
    exact hfull _ _ hs hl

-- non-vacuity of `ShortRuns` on a text pair with a real change
example : ShortRuns ['a', '\n', 'b'] ['a', '\n', 'c'] := by
  intro cs h
  have : lcs (splitLines ['a', '\n', 'b']) (splitLines ['a', '\n', 'c']) = some [⟨0, 0, 1⟩, ⟨1, 1, 0⟩] := by
    decide
  rw [this] at h
  cases h
  decide

end TmVerif.Diff
