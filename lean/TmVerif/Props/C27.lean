import TmVerif.Model.Diff
namespace TmVerif.Diff

theorem C27_placeholder : optimize [] = [] := rfl

end TmVerif.Diff
