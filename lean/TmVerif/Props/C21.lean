import TmVerif.Proofs.AstApprox
import TmVerif.Proofs.AstAccess
import TmVerif.Proofs.AstNonEmpty
/-!
# C21 — typed AST accessors match the trees the parser builds (Mode V)

Model: `Model/AstTypes.lean`.  What is proved here, for EVERY annotated grammar `g`, every field table
`types` (`syntax.Types.RangeTypes[*].Fields` after category expansion) and every derivation:

* `C21_approx_sound` — the child sequences of `T` nodes are inside the regular approximation;
* `C21_accessor_model`, `C21_find_first`, `C21_accessor_typed`, `C21_accessor_no_panic` — the generated
  `Child/Next/Children/NextAll` chain is "first match after the previous step's match", its results
  are children whose type is in the field's selector (so the type assertion / `To…Node` conversion of
  the template cannot fail);
* `C21_checkRe_sound`, `C21_checkTypes_sound` — when the validator accepts the real `Parser.Types`,
  then at EVERY node of EVERY derivation tree of `g` (all sentences): required accessors return a
  present node, results are typed as declared, and every child is returned by some accessor;
* `C21_nodes_nonempty` — an accepted grammar has no node that can span zero tokens.

Quantifiers: sentences / derivation trees / nodes are closed by theorem; grammars are sampled
(the check runs the validator on the real compiler's output for generated grammars).
What ties the model to `/repo` by correspondence only (not by theorem): `layout` (reported ranges →
nesting), the offset-based tree builder of `go_ast_parse.go.tmpl` producing exactly the nesting of the
annotations when no node is empty (`seqs` cases: observed child sequences ∈ `L(approx)`), and
`access` = the generated accessor code (`access` cases).
-/
namespace TmVerif.C21
open TmVerif.AstTypes TmVerif.AstTypes.Re

/-- **childSeqs g T ⊆ L(approx g T)**, for any inlining fuel and any closed alphabet assignment. -/
theorem C21_approx_sound (g : AGrammar) (alph : List (List Nat)) (fuel T : Nat) (w : List Nat)
    (hw : wfGrammar g = true) (hc : alphClosed g alph = true) (h : ChildSeq g T w) :
    L (approx g alph fuel T) w :=
  approx_sound fuel hw hc h

/-- The decision procedure used for observed sequences accepts every word of the language. -/
theorem C21_accepts_complete (r : Re) (w : List Nat) (h : L r w) : r.accepts w = true :=
  accepts_of_L h

/-- **Accessor model**: the literal mirror of the template's nil-safe call chain
(`n.Child(s₀).Next(s₁)…` then `Child/Next/Children/NextAll` with the field's own selector) equals the
one-pass scan: step `k` matches the first child after the match of step `k-1`. -/
theorem C21_accessor_model (acc : Acc) (w : List Nat) :
    access acc w = scan acc.chain acc.last acc.isList w :=
  access_eq_scan acc w

/-- `Child`/`Next` return the FIRST selected child at or after the start index (or nil when none is). -/
theorem C21_find_first (sel : Sel) (w : List Nat) (k : Nat) :
    (∀ p, findFrom sel w k = some p →
      k ≤ p ∧ (∃ a, w[p]? = some a ∧ a ∈ sel) ∧ ∀ q, k ≤ q → q < p → ∀ a, w[q]? = some a → a ∉ sel) ∧
    (findFrom sel w k = none → ∀ q, k ≤ q → ∀ a, w[q]? = some a → a ∉ sel) :=
  ⟨fun _ h => findFrom_some h, findFrom_none⟩

/-- Whatever an accessor returns is a child of the receiver whose type lies in the field's selector. -/
theorem C21_accessor_typed (acc : Acc) (w : List Nat) (p : Nat) (h : p ∈ access acc w) :
    ∃ a, w[p]? = some a ∧ a ∈ acc.last :=
  access_typed acc w p h

/-- The generated conversion `To<Lang>Node(child).(<Category>)` (or `T{child}`) fails for a node whose
type is outside the (expanded) selector; that never happens.  (A nil child is converted to `NilNode`,
which the template makes a member of every category except one NAMED `TokenSet`; a grammar that declares
`%interface TokenSet` itself is outside this model — finding C21-tokenset-interface.) -/
def Panics (acc : Acc) (w : List Nat) : Prop :=
  ∃ p ∈ access acc w, ∀ a, w[p]? = some a → a ∉ acc.last

theorem C21_accessor_no_panic (acc : Acc) (w : List Nat) : ¬ Panics acc w := by
  rintro ⟨p, hp, hbad⟩
  obtain ⟨a, ha, hs⟩ := access_typed acc w p hp
  exact hbad a ha hs

/-- Per node type: an accepted expression has only good child sequences. -/
theorem C21_checkRe_sound (accs : List Acc) (re : Re) (h : checkRe accs re = true)
    (w : List Nat) (hw : L re w) : Good accs w :=
  checkRe_sound accs re h w hw

/-- **Soundness of the validator (field part).** If `checkFields` accepts, then for every node type
`T = i+1` its accessors are well formed and for EVERY child sequence `w` of a `T` node in any derivation
tree of `g`: required accessors are present, results are typed as declared (no panic), every child is
covered. -/
theorem C21_checkFields_sound (g : AGrammar) (alph : List (List Nat)) (types : Types)
    (h : checkFields g alph types = true) (i : Nat) (hi : i < types.length) :
    ∃ accs, mkAccs (types.getD i []) = some accs ∧
      ∀ w, ChildSeq g (i + 1) w → Good accs w ∧ ∀ acc ∈ accs, ¬ Panics acc w := by
  unfold checkFields at h
  simp only [Bool.and_eq_true] at h
  obtain ⟨⟨hwf, hal⟩, hall⟩ := h
  have hi' := List.all_eq_true.mp hall i (List.mem_range.mpr hi)
  cases hm : mkAccs (types.getD i []) with
  | none => rw [hm] at hi'; cases hi'
  | some accs =>
    rw [hm] at hi'
    refine ⟨accs, rfl, fun w hw => ⟨?_, fun acc _ => C21_accessor_no_panic acc w⟩⟩
    exact checkRe_sound accs _ hi' w (approx_sound _ hwf hal hw)

/-- **Soundness of the validator**: the field guarantees, and no node can be empty. -/
theorem C21_checkTypes_sound (g : AGrammar) (alph : List (List Nat)) (nul : List Bool) (types : Types)
    (h : checkTypes g alph nul types = true) (i : Nat) (hi : i < types.length) :
    ∃ accs, mkAccs (types.getD i []) = some accs ∧
      ∀ w, ChildSeq g (i + 1) w → Good accs w ∧ ∀ acc ∈ accs, ¬ Panics acc w := by
  unfold checkTypes at h
  simp only [Bool.and_eq_true] at h
  exact C21_checkFields_sound g alph types h.1.1 i hi

/-- An accepted grammar has no empty node: every rule type and every nested reported range spans at
least one token in every derivation (the offset-based tree builder misplaces empty nodes). -/
theorem C21_nodes_nonempty (g : AGrammar) (alph : List (List Nat)) (nul : List Bool) (types : Types)
    (h : checkTypes g alph nul types = true) (r : ARule) (hr : r ∈ g.rules) :
    (r.ruleType ≠ 0 → ∀ n, Toks g (.seq r.body) n → 0 < n) ∧
    (∀ t kids, (t, kids) ∈ r.body.occs → ∀ n, Toks g (.seq kids) n → 0 < n) := by
  unfold checkTypes at h
  simp only [Bool.and_eq_true] at h
  exact nodes_nonempty h.1.2 h.2 hr

/-! ## Non-vacuity

`S → a (N → T2) b → T1 ; N → c (d → T3)?` with fields `T1: [T2] required`, `T2: [T3] optional`, `T3: —`. -/

def exG : AGrammar :=
  { nTerms := 5
    rules := [
      { lhs := 5, body := .sym 1 (.node 2 (.sym 6 .nil) (.sym 2 .nil)), ruleType := 1 },
      { lhs := 6, body := .sym 3 .nil },
      { lhs := 6, body := .sym 3 (.node 3 (.sym 4 .nil) .nil) } ] }

def exTypes : Types :=
  [ [{ sel := [2], required := true, isList := false, fetchAfter := -1 }],
    [{ sel := [3], required := false, isList := false, fetchAfter := -1 }],
    [] ]

def exAlph : List (List Nat) := computeAlph exG 7
def exNul : List Bool := computeNullable exG 7

example : checkTypes exG exAlph exNul exTypes = true := by decide +kernel

/-- a required field that one alternative lacks is rejected -/
example : checkTypes exG exAlph exNul
    [ [{ sel := [2], required := true, isList := false, fetchAfter := -1 }],
      [{ sel := [3], required := true, isList := false, fetchAfter := -1 }], [] ] = false := by decide +kernel

/-- a child type no accessor selects is rejected -/
example : checkTypes exG exAlph exNul [ [], [{ sel := [3], required := false, isList := false, fetchAfter := -1 }], [] ] = false := by
  decide +kernel

/-- `[T2]` is a child sequence of `T1`, `[T3]` and `[]` are child sequences of `T2`. -/
example : ChildSeq exG 1 [2] := by
  refine Or.inl ⟨_, List.mem_cons_self, rfl, by decide, ?_⟩
  have h1 : Yield exG (.sym 1) [] := Yield.term 1 (by decide)
  have h2 : Yield exG (.sym 2) [] := Yield.term 2 (by decide)
  have h3 : Yield exG (.sym 3) [] := Yield.term 3 (by decide)
  have h6 : Yield exG (.sym 6) [] :=
    Yield.untyped { lhs := 6, body := .sym 3 .nil } [] (by simp [exG]) rfl
      (Yield.consSym 3 .nil [] [] h3 Yield.nil)
  exact Yield.consSym 1 _ [] [2] h1
    (Yield.consNode 2 _ _ [] [] (Yield.consSym 6 .nil [] [] h6 Yield.nil)
      (Yield.consSym 2 .nil [] [] h2 Yield.nil))

example : access { chain := [[2]], last := [2], required := true, isList := false } [1, 2, 3, 2] = [3] := by decide
example : access { chain := [], last := [2, 3], required := false, isList := true } [1, 2, 3, 2] = [1, 2, 3] := by decide
example : access { chain := [[5]], last := [2], required := false, isList := false } [1, 2, 3, 2] = [] := by decide

end TmVerif.C21
