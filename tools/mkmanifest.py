#!/usr/bin/env python3
"""Regenerates /verif/MANIFEST.json from tools/claims.json and validates it against the schema."""
import json, os, subprocess, sys
ROOT = os.path.dirname(os.path.dirname(os.path.abspath(__file__)))
claims = json.load(open(os.path.join(ROOT, "tools", "claims.json")))
props = [json.loads(l) for l in open(os.path.join(ROOT, "properties.jsonl")) if l.strip()]
checks, na = [], []
for p in props:
    pid = p["id"]
    c = claims.get(pid)
    if not c or c.get("not_applicable"):
        na.append({"property_id": pid, "reason": (c or {}).get("not_applicable", "not built yet (see DESIGN.md §7 build order)")})
        continue
    checks.append({
        "property_id": pid,
        "quick_cmd": f"./check {pid} --tier quick",
        "thorough_cmd": f"./check {pid} --tier thorough",
        "evidence_file": f"/verif/evidence/{pid}.json",
        "replay_cmd_template": f"./check {pid} --replay {{path}}",
        "engine": "lean-proof+correspondence",
        "level_claimed": {"category": "proof", "text": c["text"], "design_ref": c.get("design_ref", f"DESIGN.md §4 {pid}")},
        "level_note": c["note"],
        "technique": c["technique"],
    })
def hook_commits():
    """commits of /repo that add the build-tag-guarded hook files (subject starts with 'verif')"""
    import subprocess
    try:
        out = subprocess.run(["git", "-C", "/repo", "log", "--reverse", "--format=%H %s", "91db560..HEAD"], stdout=subprocess.PIPE, check=True).stdout.decode()
        got = [l.split()[0] for l in out.splitlines() if l.split(" ", 1)[1].startswith("verif")]
        if got: return got
    except Exception:
        pass
    return claims.get("_hook_commits", [])
m = {
    "version": 1,
    "setup_cmd": "./setup.sh",
    "hooks": {
        "guard": "verif",
        "enable": "go build -tags verif (files verif_export_cNN.go, add-only, in the packages listed in DESIGN.md §2)",
        "baseline_off_cmd": "cd /repo && GOFLAGS=-mod=mod GOPROXY=off go test -json -vet=off -count=1 -timeout 25m ./...",
        "source_commits": hook_commits(),
        "add_only": True,
    },
    "engines": [{
        "name": "lean-proof+correspondence", "path": "/verif/check",
        "serves_properties": [c["property_id"] for c in checks],
        "kind_free_text": "Lean 4 theorems about executable models/validators (lean/TmVerif), re-checked by lake build on every run; models tied to /repo by a differential line-protocol run (Go harness harness/cmd/tmh with -tags verif vs compiled Lean driver tmv) and by facts regenerated from the source (tools/factgen)",
    }],
    "checks": checks,
    "not_applicable": na,
    "notes": "All checks: ./check <id> [--tier quick|thorough]; VERIF_SEED selects the PRNG seed. Known findings: known_findings.json.",
}
json.dump(m, open(os.path.join(ROOT, "MANIFEST.json"), "w"), indent=1)
try:
    import jsonschema
    jsonschema.validate(m, json.load(open("/root/.vp/MANIFEST.schema.json")))
    print("MANIFEST valid:", len(checks), "checks,", len(na), "not_applicable")
except ImportError:
    print("jsonschema missing; not validated")
